//! C10 saving writes a smooth c2d d-DNNF of the same function; reloading is lossless.
use crate::common::*;
use crate::gen::{eval_c2d_text, random_c2d};
use crate::rng::Rng;
use crate::space::*;
use crate::tt::TT;
use ddnnife::Ddnnf;

pub fn export_flat(d: &Ddnnf) -> String {
    use ddnnife::NodeType::*;
    let body: Vec<String> = d.nodes.iter().map(|nd| match &nd.ntype {
        And { children } => std::iter::once("A".to_string()).chain(children.iter().map(|c| c.to_string())).collect::<Vec<_>>().join(" "),
        Or { children } => std::iter::once("O".to_string()).chain(children.iter().map(|c| c.to_string())).collect::<Vec<_>>().join(" "),
        Literal { literal } => format!("L {}", literal),
        True => "T".into(),
        False => "F".into(),
    }).collect();
    format!("{} {}", d.number_of_variables, body.join("|"))
}

/// the query battery a reloaded model must answer like the original
fn battery(d: &mut Ddnnf, n: u32, rng_seed: u64) -> Vec<String> {
    let mut rng = Rng::new(rng_seed);
    let mut out = Vec::new();
    out.push(format!("count {}", d.rc()));
    for _ in 0..12 {
        let len = 1 + rng.below(4);
        let l: Vec<i32> = (0..len).map(|_| { let v = 1 + rng.below(n as usize) as i32; if rng.chance(0.5) { v } else { -v } }).collect();
        out.push(format!("count {:?} {}", l, d.execute_query(&l)));
        out.push(format!("sat {:?} {}", l, d.sat(&l)));
        if len <= 2 { let mut c = d.core_dead_with_assumptions(&l); c.sort(); c.dedup(); out.push(format!("core {:?} {:?}", l, c)); }
    }
    let mut core: Vec<i32> = d.get_core().into_iter().collect(); core.sort();
    out.push(format!("core {:?}", core));
    // enumeration *set*
    let total = d.rc();
    if total < num::BigInt::from(600) {
        let k: usize = total.to_string().parse().unwrap();
        let mut all = d.enumerate(&mut vec![], k + 1).unwrap_or_default();
        all.sort();
        out.push(format!("enum-set {:?}", all));
    }
    let mut at = d.get_atomic_sets(None, &[], false); at.sort();
    out.push(format!("atomic {:?}", at));
    let mut atc = d.get_atomic_sets(None, &[], true); atc.sort();
    out.push(format!("atomic-cross {}", atc.len()));
    out
}

fn one(out: &mut Out, origin: &str, text: &str, d: &mut Ddnnf, tt: Option<&TT>, tmp: &str, seed: u64, via_stream: bool) {
    let n = d.number_of_variables;
    let path = format!("{tmp}/saved.nnf");
    // every third save goes to a fresh path; the others overwrite the file the previous model left there
    // (a saved file must not depend on what the path held before)
    if seed % 3 == 0 { let _ = std::fs::remove_file(&path); } else if std::path::Path::new(&path).exists() { out.count("saved_over_existing_file", 1); }
    let res = if via_stream { guarded(|| d.handle_stream_msg(&format!("save-ddnnf p {}", path))).map(|s| if s.is_empty() { Ok(()) } else { Err(s) }) }
              else { guarded(|| ddnnife::parser::persisting::write_ddnnf_to_file(d, std::path::Path::new(&path)).map_err(|e| e.to_string())) };
    match res {
        Err(e) => { out.fail("save-panic", text, "save", &format!("panic: {e}"), "a file"); return; }
        Ok(Err(e)) => { out.fail("save-error", text, "save", &e, "a file"); return; }
        Ok(Ok(())) => {}
    }
    let saved = std::fs::read_to_string(&path).unwrap_or_default();
    let saved_lines: Vec<String> = saved.lines().map(|l| l.trim_end().to_string()).collect();
    // (1) the file against the model writer, byte for byte up to trailing blanks
    out.circuit(&export_nodes(d), &circuit_line(d));
    out.query("save", "", &saved_lines.join(" / "));
    // (2) the file denotes the same function over the same n (independent evaluator of the text)
    if let Some(tt) = tt {
        let hdr: Vec<&str> = saved_lines.first().map(|l| l.split_whitespace().collect()).unwrap_or_default();
        if hdr.len() != 4 || hdr[3] != n.to_string() || hdr[1] != (saved_lines.len().max(1) - 1).to_string() { out.fail("saved-header", text, "save", &saved_lines.first().cloned().unwrap_or_default(), &format!("nnf {} _ {}", saved_lines.len() - 1, n)); }
        // header `nnf v e n` must be followed by exactly v node lines
        match guarded(|| eval_c2d_text(&saved_lines, n)) {
            Ok(stt) => if stt != *tt { out.fail("saved-file-denotes-other-function", text, "save", &stt.to_string01(), &tt.to_string01()); },
            Err(e) => out.fail("saved-file-malformed", text, "save", &format!("{e}: {}", saved_lines.join(" / ")), "a c2d file"),
        }
    }
    // (3) reload with the real loader
    let lines = saved.lines().map(|l| l.to_string()).collect::<Vec<_>>();
    let reloaded = guarded(move || ddnnife::parser::distribute_building(lines, None, None));
    match reloaded {
        Err(e) => out.fail("reload-panic", text, "load the saved file", &format!("panic: {e}; file = {}", saved_lines.join(" / ")), "a model"),
        Ok(mut r) => {
            out.query("reload", "", &export_flat(&r));
            // the reloaded array is itself well-formed and has the file's truth table (driver: wf + tt)
            out.circuit(&export_nodes(&r), &circuit_line(&r));
            if let Some(tt) = tt { if n <= 10 { out.query("tt", "", &tt.to_string01()); } }
            if r.number_of_variables != n { out.fail("reload-feature-count", text, "reload", &r.number_of_variables.to_string(), &n.to_string()); }
            // a `-t n` kept from the original d4 input must not change what the saved file denotes
            let lines2 = saved.lines().map(|l| l.to_string()).collect::<Vec<_>>();
            match guarded(move || ddnnife::parser::distribute_building(lines2, Some(n), None)) {
                Err(e) => out.fail("reload-panic", text, "load the saved file with -t n", &format!("panic: {e}"), "a model"),
                Ok(r2) => if export_flat(&r2) != export_flat(&r) { out.fail("reload-with-total-features-differs", text, &format!("load the saved file with -t {n} ({origin})"), &export_flat(&r2), &export_flat(&r)); },
            }
            let (b1, b2) = (guarded(|| battery(d, n, seed)), guarded(|| battery(&mut r, n, seed)));
            match (b1, b2) {
                (Ok(b1), Ok(b2)) => { if let Some(i) = (0..b1.len().min(b2.len())).find(|&i| b1[i] != b2[i]) { out.fail("reload-answer-differs", text, &format!("query #{i} of the battery after save/reload ({origin})"), &b2[i], &b1[i]); } }
                (e1, e2) => out.fail("battery-panic", text, "battery", &format!("{:?} / {:?}", e1.err(), e2.err()), "answers"),
            }
        }
    }
}

pub fn c10(a: &Args) {
    let mut rng = Rng::new(a.seed);
    let mut out = Out::new(&a.out);
    let cfg = if a.thorough() {
        SpaceCfg { g1_max_n: 3, g1_rate: 0.5, random_d4: 2000, random_c2d: 1000, min_n: 2, max_n: 9 }
    } else {
        SpaceCfg { g1_max_n: 3, g1_rate: 0.06, random_d4: 320, random_c2d: 160, min_n: 2, max_n: 8 }
    };
    let tmp = a.out.clone();
    let mut r2 = rng.fork();
    for_each_model(&cfg, &mut rng, |file, tt| {
        let Ok(mut d) = load(file) else { out.fail("load-panic", &file.text(), "load", "panic", "model"); return };
        out.eval(Some(file.text()));
        let smoothed = file.fmt == crate::gen::Fmt::D4 && d.nodes.len() > file.lines.len();
        let nary = d.nodes.iter().any(|nd| matches!(&nd.ntype, ddnnife::NodeType::Or { children } if children.len() >= 3));
        if smoothed { out.count("d4_smoothed", 1); }
        if nary { out.count("with_nary_or", 1); }
        if tt.count() == 1u64 << file.n { out.count("all_features_free", 1); }
        let via_stream = r2.chance(0.3);
        one(&mut out, &file.origin, &file.text(), &mut d, Some(tt), &tmp, r2.next(), via_stream);
        if r2.chance(0.01) { out.sample(format!("{} n={}: {}", file.origin, file.n, file.lines.join(" / "))); }
    });
    // c2d inputs with true nodes
    let mut r3 = Rng::new(a.seed ^ 0x10);
    for _ in 0..(if a.thorough() { 400 } else { 80 }) {
        let n = 2 + r3.below(6) as u32;
        let depth = 1 + r3.below(4) as u32;
        let file = random_c2d(&mut r3, n, depth, true);
        let tt = file.tt();
        if tt.count() == 0 { continue; }
        let Ok(mut d) = load(&file) else { out.fail("load-panic", &file.text(), "load", "panic", "model"); continue };
        out.eval(Some(file.text()));
        out.count("with_true_node", 1);
        one(&mut out, &file.origin, &file.text(), &mut d, Some(&tt), &tmp, r3.next(), false);
    }
    // models reached by unit-clause edits (C11)
    let mut r4 = Rng::new(a.seed ^ 0x11);
    for _ in 0..(if a.thorough() { 300 } else { 60 }) {
        let n = 3 + r4.below(5) as u32;
        let (file, _) = crate::gen::random_d4(&mut r4, n, 4);
        let tt = file.tt();
        if tt.count() < 2 { continue; }
        let Ok(mut d) = load(&file) else { continue };
        let v = 1 + r4.below(n as usize) as i32;
        let l = if r4.chance(0.5) { v } else { -v };
        if tt.count_with(&[l]) == 0 { continue; }
        let edited = guarded(|| { d.prepare_and_apply_incremental_edit(vec![(vec![l], ddnnife::parser::intermediate_representation::ClauseApplication::Add)]); });
        if edited.is_err() { continue; }
        let tt2 = TT::from_fn(n, |k| tt.bits[k] && crate::tt::lit_true(n, k, l));
        out.eval(Some(format!("{}|unit {}", file.text(), l)));
        out.count("after_unit_clause_edit", 1);
        one(&mut out, "after unit clause", &format!("{}\n+ unit clause {}", file.text(), l), &mut d, Some(&tt2), &tmp, r4.next(), false);
    }
    // models reached by CNF-backed edits: a recompiling incremental edit (C11) or a stream clause-update / undo-update (C12)
    crate::refcomp::install();
    let mut r5 = Rng::new(a.seed ^ 0x12);
    for i in 0..(if a.thorough() { 200 } else { 40 }) {
        use crate::refcomp::{cnf_text, cnf_tt, Clause};
        let n = 3 + r5.below(5) as u32;
        let rc = |r: &mut Rng| -> Clause { let w = 1 + r.below(3.min(n as usize)); let mut c = Clause::new(); while c.len() < w { let v = 1 + r.below(n as usize) as i32; if c.contains(&v) || c.contains(&-v) { continue; } c.insert(if r.chance(0.5) { v } else { -v }); } c };
        let cls: Vec<Clause> = (0..(2 + r5.below(n as usize))).map(|_| rc(&mut r5)).collect();
        let extra = rc(&mut r5);
        let mut all = cls.clone(); all.push(extra.clone());
        let (tt0, tt1) = (cnf_tt(n, &cls), cnf_tt(n, &all));
        if tt1.count() == 0 || extra.len() < 2 { continue; }
        let p = format!("{tmp}/edited_start.cnf");
        std::fs::write(&p, cnf_text(n, &cls)).unwrap();
        let Ok(mut d) = guarded(|| Ddnnf::from_file(std::path::Path::new(&p), None)) else { continue };
        let lits: Vec<i32> = extra.iter().copied().collect();
        let text = format!("{}+ {:?}", cnf_text(n, &cls), lits);
        let (label, want) = match i % 3 {
            0 => { if guarded(|| { d.prepare_and_apply_incremental_edit(vec![(lits.clone(), ddnnife::parser::intermediate_representation::ClauseApplication::Add)]); }).is_err() { continue; } ("after an incremental edit", tt1.clone()) }
            1 => { let msg = format!("clause-update add {} 0", lits.iter().map(|l| l.to_string()).collect::<Vec<_>>().join(" ")); if guarded(|| d.handle_stream_msg(&msg)).map(|r| !r.is_empty()).unwrap_or(true) { continue; } ("after clause-update", tt1.clone()) }
            _ => { let msg = format!("clause-update add {} 0", lits.iter().map(|l| l.to_string()).collect::<Vec<_>>().join(" ")); if guarded(|| d.handle_stream_msg(&msg)).map(|r| !r.is_empty()).unwrap_or(true) { continue; }
                   if guarded(|| d.handle_stream_msg("undo-update")).map(|r| !r.is_empty()).unwrap_or(true) { continue; } ("after clause-update + undo-update", tt0.clone()) }
        };
        if want.count() == 0 || d.number_of_variables != n { continue; }
        out.eval(Some(format!("{text}|{label}")));
        out.count("after_cnf_backed_edit", 1);
        one(&mut out, label, &format!("{text} ({label})"), &mut d, Some(&want), &tmp, r5.next(), i % 2 == 0);
    }
    // very long node lines (an and-node with 2 000+ children: more than 8 KiB in one line) and many lines
    for t in [1800u32, 2600] {
        let lines = vec!["o 1 0".to_string(), "t 2 0".to_string(), "1 2 1 0".to_string(), "1 2 -1 2 0".to_string()];
        let text = format!("{} (-t {t})", lines.join(" / "));
        let Ok(d) = guarded(move || ddnnife::parser::distribute_building(lines, Some(t), None)) else { out.fail("load-panic", &text, "load", "panic", "model"); continue };
        out.eval(Some(text.clone()));
        out.count("long_line_models", 1);
        let path = format!("{tmp}/long_saved.nnf");
        let _ = std::fs::remove_file(&path);
        if guarded(|| ddnnife::parser::persisting::write_ddnnf_to_file(&d, std::path::Path::new(&path)).map_err(|e| e.to_string())).map(|r| r.is_err()).unwrap_or(true) { out.fail("save-error", &text, "save", "error / panic", "a file"); continue; }
        let saved: Vec<String> = std::fs::read_to_string(&path).unwrap_or_default().lines().map(|l| l.to_string()).collect();
        let longest = saved.iter().map(|l| l.len()).max().unwrap_or(0);
        out.count("longest_saved_line_bytes", longest as u64);
        match guarded(move || ddnnife::parser::distribute_building(saved, None, None)) {
            Err(e) => out.fail("reload-panic", &text, "load the saved file", &format!("panic: {e}"), "a model"),
            Ok(mut r) => {
                if export_flat(&r) != export_flat(&d) && r.rc() != d.rc() { out.fail("reload-answer-differs", &text, "count after save / reload", &format!("{} bits", r.rc().bits()), &format!("{} bits", d.rc().bits())); }
                let q = vec![-1i32, t as i32];
                let mut d2 = d.clone();
                if r.execute_query(&q) != d2.execute_query(&q) || r.number_of_variables != t { out.fail("reload-answer-differs", &text, &format!("count {:?} / features after save / reload", q), &format!("{} features", r.number_of_variables), &format!("{t} features, same count")); }
            }
        }
    }
    // corpus
    for (path, tf) in corpus(a.thorough()) {
        let p = path.clone();
        let Ok(mut d) = guarded(move || ddnnife::parser::build_ddnnf(std::path::Path::new(&p), tf)) else { continue };
        if d.nodes.len() > 4000 && !a.thorough() { continue; }
        out.eval(Some(path.clone()));
        out.count("corpus_models", 1);
        one(&mut out, &path, &path, &mut d, None, &tmp, 7, false);
    }
    crate::cli_props::cli_pass(a, &mut out, &mut rng, &["save"]);
    crate::shifted_props::shifted(a, &mut out, &mut rng, &["save"]);
    out.finish("(+ renumbered models: features base+1..base+n for base 126 / 254 / 1020, judged by the small model's truth table: save) (+ CLI pass: the rebuilt binary's `save` on a sample of the models) every model of the C01 space (counted: d4 inputs that had to be smoothed, n-ary or-nodes, all-free models), c2d inputs with true nodes, models reached by a unit-clause edit, by a recompiling incremental edit, by clause-update and by clause-update + undo-update (reference compiler behind the hook), corpus: save with the real writer (library and stream), file compared with the model writer, truth table of the file text vs the original, reload with the real loader compared node by node with the model's parse+flatten, reloaded array checked well-formed by the driver, and a battery (counts, sat, core with assumptions, enumeration set, atomic sets plain and cross) answered identically");
}
