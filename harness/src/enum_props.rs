//! C06 enumeration paging (library + stream), also used by C16/C17.
use crate::common::*;
use crate::gen::GenFile;
use crate::rng::Rng;
use crate::space::*;
use crate::tt::TT;
use ddnnife::Ddnnf;
use std::collections::HashSet;

/// Judge one history of enumeration requests for the same assumption set against the truth table.
/// `pages[i]` is the answer to amount `ks[i]` (None = "unsatisfiable").  Returns an error text.
pub fn judge_history(tt: &TT, a: &[i32], ks: &[usize], pages: &[Option<Vec<Vec<i32>>>]) -> Result<(), String> {
    let total = tt.count_with(a) as usize;
    let mut seen: HashSet<usize> = HashSet::new();
    for (i, (k, page)) in ks.iter().zip(pages.iter()).enumerate() {
        if *k == 0 { if page.as_ref().map(|p| p.len()) != Some(0) { return Err(format!("request {i}: amount 0 must give an empty list")); } continue; }
        match page {
            None => { if total != 0 { return Err(format!("request {i}: reported unsatisfiable but {total} models contain A")); } }
            Some(p) => {
                if total == 0 { return Err(format!("request {i}: returned {} configurations but no model contains A", p.len())); }
                let remaining = total - seen.len();
                let want = (*k).min(remaining);
                if p.len() != want { return Err(format!("request {i}: amount {k}, {} of {total} already returned in this cycle: expected {want} configurations, got {}", seen.len(), p.len())); }
                for cfg in p {
                    let Some(idx) = tt.index_of(cfg) else { return Err(format!("request {i}: {:?} is not a complete configuration ordered by feature", cfg)); };
                    if !tt.bits[idx] { return Err(format!("request {i}: {:?} is not a model", cfg)); }
                    if !a.iter().all(|l| cfg.contains(l)) { return Err(format!("request {i}: {:?} does not contain the assumptions", cfg)); }
                    if !seen.insert(idx) { return Err(format!("request {i}: {:?} was already returned in this cycle", cfg)); }
                }
                if seen.len() == total { seen.clear(); }
            }
        }
    }
    Ok(())
}

pub fn amount_sequences(rng: &mut Rng, count: usize, thorough: bool) -> Vec<Vec<usize>> {
    let alphabet: Vec<usize> = { let mut v = vec![1, 2, 3, 5, count.max(1), count + 1]; v.sort(); v.dedup(); v };
    let mut out: Vec<Vec<usize>> = Vec::new();
    if count <= 6 {
        // all sequences over the alphabet until two cycles are complete (bounded by depth)
        fn rec(alpha: &[usize], cur: &mut Vec<usize>, served: usize, count: usize, pos: usize, out: &mut Vec<Vec<usize>>, depth: usize) {
            if served >= 2 * count || cur.len() >= depth { out.push(cur.clone()); return; }
            for &k in alpha {
                let take = k.min(count - pos);
                cur.push(k);
                rec(alpha, cur, served + take, count, (pos + take) % count, out, depth);
                cur.pop();
            }
        }
        rec(&alphabet, &mut vec![], 0, count, 0, &mut out, if thorough { 5 } else { 4 });
        if out.len() > if thorough { 400 } else { 60 } { rng.shuffle(&mut out); out.truncate(if thorough { 400 } else { 60 }); }
    } else {
        for _ in 0..(if thorough { 12 } else { 4 }) {
            let mut seq = Vec::new(); let mut served = 0;
            while served < 2 * count && seq.len() < 40 { let k = *rng.pick(&alphabet); seq.push(k); served += k.min(count); }
            out.push(seq);
        }
    }
    out
}

pub fn run_history(d: &mut Ddnnf, a: &[i32], ks: &[usize], rng: &mut Rng, via_stream: bool) -> Vec<Result<Option<Vec<Vec<i32>>>, String>> {
    let mut res = Vec::new();
    for &k in ks {
        let mut al = a.to_vec();
        rng.shuffle(&mut al);
        if via_stream {
            let msg = if al.is_empty() { format!("enum l {}", k) } else { format!("enum a {} l {}", fmt_ints(&al), k) };
            let r = guarded(|| d.handle_stream_msg(&msg));
            res.push(r.map(|s| {
                if s.starts_with("E5") { None } else if s.is_empty() { Some(vec![]) } else {
                    Some(s.split(';').map(|c| c.split_whitespace().map(|x| x.parse::<i32>().unwrap_or(0)).collect()).collect())
                }
            }));
        } else {
            res.push(guarded(|| d.enumerate(&mut al, k)));
        }
    }
    res
}

fn assumption_sets(rng: &mut Rng, n: u32, thorough: bool) -> Vec<Vec<i32>> {
    let mut v: Vec<Vec<i32>> = vec![vec![]];
    for _ in 0..(if thorough { 6 } else { 3 }) {
        let len = 1 + rng.below(n.min(3) as usize);
        let mut vars: Vec<i32> = (1..=n as i32).collect(); rng.shuffle(&mut vars);
        v.push(vars[..len].iter().map(|&x| if rng.chance(0.5) { x } else { -x }).collect());
    }
    if rng.chance(0.3) { v.push(vec![1, -1]); }
    v
}

/// a satisfiable list of more than 20 literals (the counting strategy behind the paging changes at 21):
/// some literals of a model, repeated
fn long_assumptions(rng: &mut Rng, tt: &TT) -> Option<Vec<i32>> {
    let ms = tt.models_with(&[]);
    if ms.is_empty() { return None; }
    let cfg = tt.config(*rng.pick(&ms));
    let keep: Vec<i32> = cfg.iter().copied().filter(|_| rng.chance(0.5)).collect();
    let keep = if keep.is_empty() { vec![cfg[0]] } else { keep };
    let mut l = Vec::new();
    while l.len() < 21 + rng.below(4) { l.push(*rng.pick(&keep)); }
    Some(l)
}

pub fn c06(a: &Args) {
    let mut rng = Rng::new(a.seed);
    let mut out = Out::new(&a.out);
    let cfg = if a.thorough() {
        SpaceCfg { g1_max_n: 3, g1_rate: 0.05, random_d4: 500, random_c2d: 250, min_n: 2, max_n: 7 }
    } else {
        SpaceCfg { g1_max_n: 3, g1_rate: 0.012, random_d4: 110, random_c2d: 55, min_n: 2, max_n: 6 }
    };
    let mut r2 = rng.fork();
    let mut handle = |file: &GenFile, tt: &TT| {
        let Ok(probe) = load(file) else { out.fail("load-panic", &file.text(), "load", "panic", "model"); return };
        let root_or = matches!(probe.nodes.last().map(|n| &n.ntype), Some(ddnnife::NodeType::Or { .. }));
        out.count(if root_or { "root_or" } else { "root_and_or_leaf" }, 1);
        let export = export_nodes(&probe);
        let mut asets = assumption_sets(&mut r2, file.n, a.thorough());
        if r2.chance(0.5) { if let Some(l) = long_assumptions(&mut r2, tt) { asets.push(l); } }
        for al in asets {
            if al.len() > 20 { out.count("assumption_lists_over_20_literals", 1); }
            let count = tt.count_with(&al) as usize;
            for (si, ks) in amount_sequences(&mut r2, count, a.thorough()).into_iter().enumerate() {
                let via_stream = si % 3 == 2;
                let mut d = load(file).unwrap();
                out.eval(if count >= 2 { Some(format!("{}|{:?}|{:?}", file.text(), al, ks)) } else { None });
                out.count(if via_stream { "via_stream" } else { "via_library" }, 1);
                let res = run_history(&mut d, &al, &ks, &mut r2, via_stream);
                let req = format!("enum a {:?} with amounts {:?} -t {}{}", al, ks, file.n, if via_stream { " (stream)" } else { "" });
                if let Some(e) = res.iter().find_map(|r| r.as_ref().err()) {
                    out.fail("enumerate-panic", &file.text(), &req, &format!("panic: {e}"), "pages");
                    continue;
                }
                let pages: Vec<Option<Vec<Vec<i32>>>> = res.into_iter().map(|r| r.unwrap()).collect();
                if let Err(e) = judge_history(tt, &al, &ks, &pages) {
                    out.fail("enumeration-paging", &file.text(), &req, &format!("{e}; pages={:?}", pages), "pages that partition the models containing A, cycle by cycle");
                }
                // model: same history through the Lean cursor machine (exact pages, exact order)
                if si % 2 == 0 {
                    out.circuit(&export, &circuit_line(&d));
                    out.query("enumok", "", "true");
                    for (k, p) in ks.iter().zip(pages.iter()) {
                        out.query("enum", &format!("{} {}", k, fmt_ints(&al)), &match p { Some(p) => fmt_cfgs(p), None => "none".into() });
                    }
                }
                if si == 0 { out.sample(format!("{} n={} A={:?} amounts={:?} -> page sizes {:?}", file.origin, file.n, al, ks, pages.iter().map(|p| p.as_ref().map(|p| p.len())).collect::<Vec<_>>())); }
            }
        }
    };
    for_each_model(&cfg, &mut rng, &mut handle);
    // c2d inputs with true nodes (`A 0`) below and-nodes
    {
        let mut r3 = Rng::new(a.seed ^ 0x7a11);
        for _ in 0..(if a.thorough() { 120 } else { 30 }) {
            let n = 2 + r3.below(5) as u32;
            let depth = 1 + r3.below(4) as u32;
            let file = crate::gen::random_c2d(&mut r3, n, depth, true);
            let tt = file.tt();
            if tt.count() > 0 { handle(&file, &tt); }
        }
    }
    // corpus: no truth table; pages must be pairwise distinct models (sat) containing A until count(A) is reached
    for (path, tf) in corpus(false) {
        let p = path.clone();
        let Ok(d0) = guarded(move || ddnnife::parser::build_ddnnf(std::path::Path::new(&p), tf)) else { continue };
        let n = d0.number_of_variables as i32;
        for _ in 0..(if a.thorough() { 6 } else { 2 }) {
            // a fresh load per history: the cursor belongs to the loaded model
            let p = path.clone();
            let mut d = ddnnife::parser::build_ddnnf(std::path::Path::new(&p), tf);
            let mut al: Vec<i32> = Vec::new();
            for _ in 0..r2.below(6) { let v = 1 + r2.below(n as usize) as i32; let l = if r2.chance(0.5) { v } else { -v }; al.push(l); if !d.sat(&al) { al.pop(); } }
            let total = d.execute_query(&al);
            let total_small = if total < num::BigInt::from(3000) { total.to_string().parse::<usize>().unwrap() } else { usize::MAX };
            let mut seen: HashSet<Vec<i32>> = HashSet::new();
            let mut served = 0usize;
            for step in 0..12 {
                let k = 1 + r2.below(300);
                out.eval(Some(format!("{}|{:?}|{}", path, al, step)));
                let mut al2 = al.clone(); r2.shuffle(&mut al2);
                match guarded(|| d.enumerate(&mut al2, k)) {
                    Ok(Some(page)) => {
                        let want = k.min(total_small - served);
                        if page.len() != want { out.fail("corpus-page-size", &path, &format!("enum {:?} l {}", al, k), &page.len().to_string(), &want.to_string()); break; }
                        for cfg in &page {
                            if cfg.len() != n as usize || !d.sat(cfg) || !al.iter().all(|l| cfg.contains(l)) { out.fail("corpus-invalid-config", &path, &format!("enum {:?}", al), &format!("{:?}", cfg), "complete model containing A"); }
                            if !seen.insert(cfg.clone()) { out.fail("corpus-duplicate", &path, &format!("enum {:?} step {}", al, step), &format!("{:?}", cfg), "not returned before in this cycle"); }
                        }
                        served += page.len();
                        if served == total_small { served = 0; seen.clear(); }
                    }
                    Ok(None) => { out.fail("corpus-none", &path, &format!("enum {:?}", al), "None", "pages"); break; }
                    Err(e) => { out.fail("enumerate-panic", &path, &format!("enum {:?} l {}", al, k), &e, "pages"); break; }
                }
            }
        }
    }
    // a model with 2^69 * 3 models (count beyond u64): pages are still complete, distinct models
    {
        let lines = vec!["o 1 0".to_string(), "t 2 0".to_string(), "1 2 1 0".to_string(), "1 2 -1 2 0".to_string()];
        let text = lines.join("\n");
        let n = 72u32;
        if let Ok(mut d) = guarded(move || ddnnife::parser::distribute_building(lines, Some(n), None)) {
            let mut seen: std::collections::HashSet<Vec<i32>> = Default::default();
            for (step, k) in [1usize, 3, 50, 2].into_iter().enumerate() {
                out.eval(Some(format!("{text}|huge|{step}")));
                match guarded(|| d.enumerate(&mut vec![], k)) {
                    Ok(Some(page)) => {
                        let ok = page.len() == k && page.iter().all(|c| c.len() == n as usize && (1..=n as i32).all(|v| c.contains(&v) != c.contains(&-v)) && (c.contains(&1) || c.contains(&2)) && seen.insert(c.clone()));
                        if !ok { out.fail("enumeration-paging", &text, &format!("enum l {k} (step {step}) -t {n}"), &format!("{} configurations", page.len()), &format!("{k} complete models not returned before")); break; }
                    }
                    other => { out.fail("enumeration-paging", &text, &format!("enum l {k} (step {step}) -t {n}"), &format!("{:?}", other.map(|p| p.map(|x| x.len()))), "a page"); break; }
                }
            }
        }
    }
    // many assumption sets in the middle of a cycle at the same time (one cursor each): 1 100 other sets between two pages of A0
    {
        let lines = vec!["o 1 0".to_string(), "t 2 0".to_string(), "1 2 1 0".to_string(), "1 2 -1 2 0".to_string()];
        let text = lines.join("\n");
        let n = 40u32;
        if let Ok(mut d) = guarded(move || ddnnife::parser::distribute_building(lines, Some(n), None)) {
            let a0 = vec![1i32];
            let p1 = guarded(|| d.enumerate(&mut a0.clone(), 3)).ok().flatten().unwrap_or_default();
            let mut others = 0usize;
            'outer: for v in 3..=n as i32 { for w in (v + 1)..=n as i32 { for (sv, sw) in [(1, 1), (1, -1), (-1, 1)] {
                if others >= 1100 { break 'outer; }
                let mut al = vec![sv * v, sw * w];
                if guarded(|| d.enumerate(&mut al, 1)).ok().flatten().map(|p| p.len()) != Some(1) { out.fail("enumeration-paging", &text, &format!("enum a {:?} l 1 -t {n}", al), "no page", "one configuration"); break 'outer; }
                others += 1;
            } } }
            out.eval(Some(format!("{text}|many-keys")));
            out.count("assumption_sets_mid_cycle", others as u64);
            let p2 = guarded(|| d.enumerate(&mut a0.clone(), 3)).ok().flatten().unwrap_or_default();
            if p1.len() != 3 || p2.len() != 3 || p2.iter().any(|c| p1.contains(c)) { out.fail("enumeration-paging", &text, &format!("enum a [1] l 3, then one page for each of {others} other assumption sets, then enum a [1] l 3 (-t {n})"), &format!("second page {:?}", p2.iter().map(|c| &c[..3]).collect::<Vec<_>>()), "three models not returned in the first page"); }
        }
    }
    // pages of more than 10 000 configurations through the stream and the library on models with 16 384 / 24 576 models
    // (amounts chosen so that what is left of a cycle hits multiples of 1 000 / 10 000 and the cycle boundary)
    for (idx, (lines, n, count)) in [
        (vec!["o 1 0".to_string(), "t 2 0".to_string(), "1 2 1 0".to_string(), "1 2 -1 2 0".to_string()], 15u32, 3usize << 13),
        (vec!["a 1 0".to_string(), "t 2 0".to_string(), "1 2 0".to_string()], 14u32, 1usize << 14)].into_iter().enumerate() {
        let text = lines.join("\n");
        let ls = lines.clone();
        let Ok(mut d) = guarded(move || ddnnife::parser::distribute_building(ls, Some(n), None)) else { out.fail("load-panic", &text, "load", "panic", "a model"); continue };
        let via_stream = true;
        // what is left of the cycle when a request of more than 10 000 arrives: 20 000, 10 000 (idx 0), 10 000, 0 (idx 1)
        let amounts: Vec<usize> = if idx == 0 { vec![4576, 25000, 14576, 12000, 1, 30000] } else { vec![6384, 12000, 5000, 10000, 16384, 20000] };
        let mut seen: std::collections::HashSet<Vec<i32>> = Default::default();
        let mut served = 0usize;
        for (step, &k) in amounts.iter().enumerate() {
            let req = format!("enum l {k} (step {step}, {served} of {count} served in this cycle, -t {n})");
            out.eval(Some(format!("{text}|big|{step}")));
            out.count("big_pages", 1);
            let page: Result<Option<Vec<Vec<i32>>>, String> = if via_stream {
                guarded(|| d.handle_stream_msg(&format!("enum l {k}"))).map(|s| if s.starts_with('E') { None } else { Some(s.split(';').map(|c| c.split_whitespace().map(|x| x.parse::<i32>().unwrap_or(0)).collect()).collect()) })
            } else { guarded(|| d.enumerate(&mut vec![], k)) };
            match page {
                Ok(Some(page)) => {
                    let want = k.min(count - served);
                    if page.len() != want { out.fail("enumeration-paging", &text, &req, &format!("{} configurations", page.len()), &format!("{want} configurations (the rest of the cycle)")); break; }
                    let mut dup = None;
                    for c in &page { if c.len() != n as usize { dup = Some(format!("{:?} is not complete", c)); break; } if !seen.insert(c.clone()) { dup = Some(format!("{:?} was already returned in this cycle", c)); break; } }
                    if let Some(e) = dup { out.fail("enumeration-paging", &text, &req, &e, "every model once per cycle"); break; }
                    served += page.len();
                    if served == count { served = 0; seen.clear(); }
                }
                Ok(None) => { out.fail("enumeration-paging", &text, &req, "None / error reply", "a page"); break; }
                Err(e) => { out.fail("enumeration-paging", &text, &req, &format!("panic: {e}"), "a page"); break; }
            }
        }
    }
    crate::shifted_props::shifted(a, &mut out, &mut rng, &["enum"]);
    out.finish("(+ renumbered models: features base+1..base+n for base 126 / 254 / 1020, judged by the small model's truth table: enum) every model of the C01 space (roots of both kinds) x assumption sets (empty, random of 1..3 literals, a contradictory one) x amount sequences over {1,2,3,5,count,count+1} up to two cycles (all sequences up to depth 4/5 for count<=6, random otherwise), literals of A permuted between calls, through the library and the stream; pages of 10 000+ configurations on two models with 16 384 / 24 576 models; non-trivial = at least 2 models contain A; distinct by (file, A, sequence)");
}
