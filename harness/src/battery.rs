//! The query battery of C01-C06 judged by a truth table: total count, counts / SAT under every
//! single literal and sampled pairs (incl. a >20 literal list), core, enumeration set, feature count.
use crate::common::*;
use crate::rng::Rng;
use crate::tt::TT;
use ddnnife::Ddnnf;

/// returns the failures (request, impl, oracle); a panic is a failure
pub fn battery(d: &mut Ddnnf, tt: &TT, rng: &mut Rng) -> Vec<(String, String, String)> {
    let mut bad = Vec::new();
    let n = tt.n;
    let mut chk = |req: String, got: Result<String, String>, want: String| {
        match got { Ok(g) if g == want => {}, Ok(g) => bad.push((req, g, want)), Err(e) => bad.push((req, format!("panic: {e}"), want)) }
    };
    chk("number_of_variables".into(), Ok(d.number_of_variables.to_string()), n.to_string());
    chk("count".into(), guarded(|| d.rc().to_string()), tt.count().to_string());
    let mut lists: Vec<Vec<i32>> = Vec::new();
    for v in 1..=n as i32 { lists.push(vec![v]); lists.push(vec![-v]); }
    for _ in 0..(2 * n as usize + 4) {
        let len = 2 + rng.below(3);
        lists.push((0..len).map(|_| { let v = 1 + rng.below(n as usize) as i32; if rng.chance(0.5) { v } else { -v } }).collect());
    }
    if n >= 1 {
        // > 20 literals (default strategy): a model's literals repeated
        if let Some(&k) = tt.models_with(&[]).first() { let c = tt.config(k); let mut l = Vec::new(); while l.len() < 22 { l.extend(c.iter()); } lists.push(l); }
    }
    for l in &lists {
        chk(format!("count a {}", fmt_ints(l)), guarded(|| d.execute_query(l).to_string()), tt.count_with(l).to_string());
        chk(format!("sat a {}", fmt_ints(l)), guarded(|| d.sat(l).to_string()), (tt.count_with(l) > 0).to_string());
    }
    // core
    let mut want_core: Vec<i32> = Vec::new();
    if tt.count() > 0 { for v in 1..=n as i32 { if tt.count_with(&[-v]) == 0 { want_core.push(v); } if tt.count_with(&[v]) == 0 { want_core.push(-v); } } }
    want_core.sort();
    chk("core".into(), guarded(|| { let mut c: Vec<i32> = d.get_core().into_iter().collect(); c.sort(); fmt_ints(&c) }), fmt_ints(&want_core));
    // core with one assumption
    for _ in 0..2 {
        let v = 1 + rng.below(n as usize) as i32; let a = if rng.chance(0.5) { v } else { -v };
        if tt.count_with(&[a]) == 0 { continue; }
        let mut want: Vec<i32> = Vec::new();
        for x in 1..=n as i32 { if tt.count_with(&[a, -x]) == 0 { want.push(x); } if tt.count_with(&[a, x]) == 0 { want.push(-x); } }
        want.sort();
        chk(format!("core a {}", a), guarded(|| { let mut c = d.core_dead_with_assumptions(&[a]); c.sort(); fmt_ints(&c) }), fmt_ints(&want));
    }
    // enumeration set (whole model set in one page, fresh cursor position is irrelevant for a full cycle)
    if tt.count() > 0 && tt.count() <= 512 {
        let total = tt.count() as usize;
        let got = guarded(|| {
            // ask until one full cycle has been seen: first page may start anywhere
            let mut seen: Vec<Vec<i32>> = Vec::new();
            let mut guard = 0;
            while seen.len() < total && guard < 4 { if let Some(p) = d.enumerate(&mut vec![], total - seen.len()) { seen.extend(p); } guard += 1; }
            let mut ks: Vec<String> = seen.iter().map(|c| { let mut c = c.clone(); c.sort_by_key(|l| l.abs()); fmt_ints(&c) }).collect();
            ks.sort(); ks.join(";")
        });
        let mut want: Vec<String> = tt.models_with(&[]).iter().map(|&k| fmt_ints(&tt.config(k))).collect();
        want.sort();
        chk("enumerate (full cycle, as a set)".into(), got, want.join(";"));
    }
    // atomic sets, plain and cross (a cache that survives an edit would show here)
    if tt.count() > 0 && n >= 2 && n <= 10 {
        let all: Vec<u32> = (1..=n).collect();
        for cross in [false, true] {
            let want = crate::atomic_props::oracle_atomic(tt, &all, &[], cross);
            let got = guarded(|| { let g: Vec<Vec<i32>> = d.get_atomic_sets(None, &[], cross).iter().map(|s| s.iter().map(|&x| x as i32).collect()).collect(); if cross { crate::atomic_props::canon_cross(&g) } else { g } });
            chk(format!("atomic{}", if cross { "-cross" } else { "" }), got.map(|g| format!("{:?}", g)), format!("{:?}", want));
        }
    }
    // CNF export (a memo of an earlier export that survives an edit would show here)
    if tt.count() > 0 && n >= 2 && n <= 8 && d.nodes.len() <= 48 {
        let got = guarded(|| { let c = ddnnife_cnf::Cnf::from(&*d); let t = c.to_string(); crate::cnf_props::judge_cnf(&c, &t, tt).err().unwrap_or_else(|| "ok".into()) });
        chk("Cnf::from (Tseitin export)".into(), got, "ok".into());
    }
    // per-feature table (C04)
    if tt.count() > 0 {
        let want: Vec<String> = (1..=n as i32).map(|v| format!("{},{}", v, tt.count_with(&[v]))).collect();
        let got = guarded(|| d.card_of_each_feature().map(|(v, c, _)| format!("{},{}", v, c)).collect::<Vec<_>>().join(";"));
        chk("card_of_each_feature".into(), got, want.join(";"));
    }
    // t-wise, plain and fitness-guided, t = 2 (C09): only models, every valid pair covered
    // (the three costlier groups below run on a third of the calls each: the battery is called after every step of exhaustive command trees)
    if tt.count() > 0 && n >= 2 && n <= 8 && rng.chance(0.34) {
        for line in [String::from("t-wise l 2"), format!("t-wise l 2 f {}", (0..n).map(|i| ((i as i32 % 3) - 1).to_string()).collect::<Vec<_>>().join(" "))] {
            let l2 = line.clone();
            let got = guarded(|| d.handle_stream_msg(&l2)).map(|reply| match crate::twise_props::parse_sample(&reply) {
                Some(sample) => crate::twise_props::judge(tt, 2, &sample).unwrap_or_else(|| "ok".into()),
                None => format!("unparsable: {}", reply.chars().take(60).collect::<String>()) });
            chk(line, got, "ok".into());
        }
    }
    // the stream forms of count / sat / core / enum (they go through their own argument handling and caches)
    if tt.count() > 0 && n >= 1 && rng.chance(0.34) {
        let v = 1 + rng.below(n as usize) as i32; let a = if rng.chance(0.5) { v } else { -v };
        chk(format!("stream: count a {a}"), guarded(|| d.handle_stream_msg(&format!("count a {a}"))), tt.count_with(&[a]).to_string());
        chk(format!("stream: sat a {a}"), guarded(|| d.handle_stream_msg(&format!("sat a {a}"))), (tt.count_with(&[a]) > 0).to_string());
        chk("stream: count".into(), guarded(|| d.handle_stream_msg("count")), tt.count().to_string());
        if tt.count_with(&[a]) > 0 && tt.count_with(&[a]) <= 64 {
            let total = tt.count_with(&[a]) as usize;
            let got = guarded(|| {
                let mut seen: Vec<String> = Vec::new();
                let mut guard = 0;
                while seen.len() < total && guard < 4 { let r = d.handle_stream_msg(&format!("enum l {} a {a}", total - seen.len())); seen.extend(r.split(';').filter(|x| !x.trim().is_empty()).map(|c| { let mut c: Vec<i32> = c.split_whitespace().filter_map(|x| x.parse().ok()).collect(); c.sort_by_key(|l| l.abs()); fmt_ints(&c) })); guard += 1; }
                seen.sort(); seen.join(";") });
            let mut want: Vec<String> = tt.models_with(&[a]).iter().map(|&k| fmt_ints(&tt.config(k))).collect();
            want.sort();
            chk(format!("stream: enum a {a} (full cycle, as a set)"), got, want.join(";"));
        }
    }
    // a read-only look at a marking, then the count again
    if n >= 1 {
        let v = 1 + rng.below(n as usize) as i32;
        let _ = guarded(|| d.get_marked_nodes_clone(&[v]));
        chk(format!("count a -{v} after inspecting the marking of {v}"), guarded(|| d.execute_query(&[-v]).to_string()), tt.count_with(&[-v]).to_string());
    }
    // save and reload: the reloaded model counts like the truth table
    if tt.count() > 0 && n <= 10 && rng.chance(0.34) {
        let path = std::env::temp_dir().join(format!("vh_battery_{}_{}.nnf", std::process::id(), rng.below(1 << 30)));
        let p2 = path.clone();
        let got = guarded(|| {
            ddnnife::parser::persisting::write_ddnnf_to_file(&*d, &p2).map_err(|e| e.to_string())?;
            let mut r = ddnnife::parser::build_ddnnf(&p2, Some(n));
            Ok::<String, String>(format!("{} {}", r.number_of_variables, r.rc()))
        }).and_then(|x| x);
        let _ = std::fs::remove_file(&path);
        chk("save ; reload ; count".into(), got, format!("{} {}", n, tt.count()));
    }
    // seeded sampling: validity
    if tt.count() > 0 {
        let got = guarded(|| match d.uniform_random_sampling(&[], 5, 7) {
            Some(s) => (s.len() == 5 && s.iter().all(|c| tt.index_of(c).map(|k| tt.bits[k]).unwrap_or(false))).to_string(),
            None => "none".into() });
        chk("urs 5 seed 7 (valid models)".into(), got, "true".into());
    }
    bad
}
