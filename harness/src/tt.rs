//! Truth tables over features 1..n.  Index k in 0..2^n; feature v is bit (n - v) of k
//! (feature 1 = most significant), the order of `allBits` in the Lean model.
#[derive(Clone, PartialEq, Eq, Hash, Debug)]
pub struct TT { pub n: u32, pub bits: Vec<bool> }

#[inline]
pub fn feat(n: u32, k: usize, v: u32) -> bool { (k >> (n - v)) & 1 == 1 }
#[inline]
pub fn lit_true(n: u32, k: usize, l: i32) -> bool {
    let v = l.unsigned_abs();
    if v == 0 || v > n { return false; }
    feat(n, k, v) == (l > 0)
}

impl TT {
    pub fn from_fn(n: u32, f: impl Fn(usize) -> bool) -> TT { TT { n, bits: (0..1usize << n).map(f).collect() } }
    pub fn count(&self) -> u64 { self.bits.iter().filter(|b| **b).count() as u64 }
    /// models containing all literals of `a` (a literal with |l| > n or l == 0 is contained in no model)
    pub fn count_with(&self, a: &[i32]) -> u64 {
        (0..self.bits.len()).filter(|&k| self.bits[k] && a.iter().all(|&l| lit_true(self.n, k, l))).count() as u64
    }
    pub fn models_with(&self, a: &[i32]) -> Vec<usize> {
        (0..self.bits.len()).filter(|&k| self.bits[k] && a.iter().all(|&l| lit_true(self.n, k, l))).collect()
    }
    pub fn config(&self, k: usize) -> Vec<i32> {
        (1..=self.n).map(|v| if feat(self.n, k, v) { v as i32 } else { -(v as i32) }).collect()
    }
    /// index of a complete configuration (one literal per feature), None if not complete
    pub fn index_of(&self, cfg: &[i32]) -> Option<usize> {
        if cfg.len() != self.n as usize { return None; }
        let mut k = 0usize;
        for (i, &l) in cfg.iter().enumerate() {
            if l.unsigned_abs() != i as u32 + 1 { return None; }
            if l > 0 { k |= 1 << (self.n - (i as u32 + 1)); }
        }
        Some(k)
    }
    pub fn to_string01(&self) -> String { self.bits.iter().map(|&b| if b { '1' } else { '0' }).collect() }
}
