//! The "C01 input space": G1 exhaustive small functions, G3 random circuits; corpus files.
use crate::gen::*;
use crate::rng::Rng;
use crate::tt::TT;

pub struct SpaceCfg {
    /// exhaustive functions up to this many features
    pub g1_max_n: u32,
    /// fraction of G1 files kept (1.0 = all)
    pub g1_rate: f64,
    pub random_d4: usize,
    pub random_c2d: usize,
    pub max_n: u32,
    pub min_n: u32,
}

pub fn for_each_model(cfg: &SpaceCfg, rng: &mut Rng, mut f: impl FnMut(&GenFile, &TT)) {
    // G1
    for n in 1..=cfg.g1_max_n {
        let perms = permutations(n);
        for code in 1u64..(1u64 << (1u64 << n)) {
            let func = TT::from_fn(n, |k| (code >> k) & 1 == 1);
            for order in &perms {
                let variants: Vec<GenFile> = vec![
                    shannon_d4(&func, order, false, false),
                    shannon_d4(&func, order, true, false),
                    shannon_d4(&func, order, true, true),
                    shannon_c2d(&func, order, false),
                    shannon_c2d(&func, order, true),
                ];
                for v in variants {
                    if cfg.g1_rate >= 1.0 || rng.chance(cfg.g1_rate) { f(&v, &func); }
                }
            }
        }
    }
    // G3
    for i in 0..cfg.random_d4.max(cfg.random_c2d) {
        if i < cfg.random_d4 {
            let n = cfg.min_n + rng.below((cfg.max_n - cfg.min_n + 1) as usize) as u32;
            let depth = 2 + rng.below(5) as u32;
            let (file, _) = random_d4(rng, n, depth);
            let tt = file.tt();
            if tt.count() > 0 { f(&file, &tt); }
        }
        if i < cfg.random_c2d {
            let n = cfg.min_n + rng.below((cfg.max_n - cfg.min_n + 1) as usize) as u32;
            let depth = 1 + rng.below(5) as u32;
            let with_constants = i % 3 == 2;   // every third random c2d circuit has true nodes below and-nodes and false nodes among or-alternatives (now and then listed twice)
            let file = random_c2d(rng, n, depth, with_constants);
            let tt = file.tt();
            if tt.count() > 0 { f(&file, &tt); }
        }
    }
}

/// (path, total_features) of the repository corpus; files that are empty or corrupt in this snapshot are skipped
pub fn corpus(thorough: bool) -> Vec<(String, Option<u32>)> {
    let mut v: Vec<(String, Option<u32>)> = vec![
        ("/repo/ddnnife/tests/data/small_ex_c2d.nnf".into(), None),
        ("/repo/ddnnife/tests/data/small_ex_d4.nnf".into(), Some(4)),
        ("/repo/ddnnife/tests/data/VP9_d4.nnf".into(), Some(42)),
        ("/repo/ddnnife/tests/data/sandwich.nnf".into(), Some(19)),
        ("/repo/example_input/X264_c2d.nnf".into(), None),
        ("/repo/example_input/axTLS_d4_684.nnf".into(), Some(684)),
        ("/repo/example_input/berkeleydb_prepo.nnf".into(), None),
    ];
    if thorough {
        v.push(("/repo/example_input/busybox-1.18.0_c2d.nnf".into(), None));
        v.push(("/repo/ddnnife/tests/data/auto1_c2d.nnf".into(), None));
        v.push(("/repo/ddnnife/tests/data/auto1_d4.nnf".into(), Some(2513)));
    }
    v
}
