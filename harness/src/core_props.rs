//! C01–C05: counting, partial counts, SAT, per-feature table, core/dead.
use crate::common::*;
use crate::gen::{Fmt, GenFile};
use crate::rng::Rng;
use crate::space::*;
use crate::tt::TT;
use ddnnife::Ddnnf;
use num::BigInt;

fn nontrivial(file: &GenFile, tt: &TT) -> bool {
    let c = tt.count();
    c > 0 && c < (1u64 << tt.n) && file.lines.len() >= 3
}

/// all consistent partial assignments over 1..n (3^n lists)
pub fn partial_assignments(n: u32) -> Vec<Vec<i32>> {
    let mut out = vec![vec![]];
    for v in 1..=n as i32 {
        let mut next = Vec::with_capacity(out.len() * 3);
        for a in &out {
            next.push(a.clone());
            let mut p = a.clone(); p.push(v); next.push(p);
            let mut m = a.clone(); m.push(-v); next.push(m);
        }
        out = next;
    }
    out
}

/// random lists with duplicates and contradictions; lengths straddle the strategy boundaries
pub fn random_lists(rng: &mut Rng, n: u32, how_many: usize) -> Vec<Vec<i32>> {
    let lens = [1usize, 2, 3, 5, 19, 20, 21, 22, 40, 70, 130, 300, 1000];
    let mut out = Vec::new();
    for i in 0..how_many {
        let len = lens[i % lens.len()];
        // mostly consistent lists (a hidden full assignment), sometimes with a contradiction injected
        let base: Vec<i32> = (1..=n as i32).map(|v| if rng.chance(0.5) { v } else { -v }).collect();
        let mut l: Vec<i32> = (0..len).map(|_| *rng.pick(&base)).collect();
        if rng.chance(0.25) { let j = rng.below(l.len()); l[j] = -l[j]; }
        out.push(l);
    }
    out
}

pub fn space_cfg(a: &Args, heavy: bool) -> SpaceCfg {
    if a.thorough() {
        SpaceCfg { g1_max_n: 3, g1_rate: if heavy { 0.3 } else { 1.0 }, random_d4: if heavy { 1500 } else { 4000 }, random_c2d: if heavy { 700 } else { 2000 }, min_n: 2, max_n: 9 }
    } else {
        SpaceCfg { g1_max_n: 3, g1_rate: if heavy { 0.03 } else { 0.12 }, random_d4: if heavy { 220 } else { 600 }, random_c2d: if heavy { 110 } else { 300 }, min_n: 2, max_n: 8 }
    }
}

fn load_or_fail(out: &mut Out, file: &GenFile) -> Option<Ddnnf> {
    match load(file) {
        Ok(d) => Some(d),
        Err(e) => { out.fail("load-panic", &file.text(), &format!("load total_features={:?}", file.total_features()), &format!("panic: {e}"), "a loaded model"); None }
    }
}


// ------------------------------------------------------------------------------------------------
pub fn c01(a: &Args) {
    let mut rng = Rng::new(a.seed);
    let mut out = Out::new(&a.out);
    let cfg = space_cfg(a, false);
    let mut by_function: std::collections::HashMap<TT, String> = Default::default();
    for_each_model(&cfg, &mut rng, |file, tt| {
        out.eval(if nontrivial(file, tt) { Some(file.text()) } else { None });
        out.count(&format!("fmt_{:?}", file.fmt), 1);
        let Some(mut d) = load_or_fail(&mut out, file) else { return };
        let want = BigInt::from(tt.count());
        let got = d.rc();
        if got != want { out.fail("count", &file.text(), &format!("rc() -t {}", file.n), &got.to_string(), &want.to_string()); }
        // two files denoting the same function report the same count
        let prev = by_function.entry(tt.clone()).or_insert_with(|| got.to_string());
        if *prev != got.to_string() { out.fail("same-function-same-count", &file.text(), "rc()", &got.to_string(), prev); }
        let s = guarded(|| d.handle_stream_msg("count")).unwrap_or_else(|e| format!("panic: {e}"));
        if s != want.to_string() { out.fail("stream-count", &file.text(), "count", &s, &want.to_string()); }
        if d.number_of_variables != file.n { out.fail("feature-count", &file.text(), "number_of_variables", &d.number_of_variables.to_string(), &file.n.to_string()); }
        out.circuit(&export_nodes(&d), &circuit_line(&d));
        // the model loaders run on the text of the file and must produce the same array, node by node
        match file.fmt {
            crate::gen::Fmt::D4 => { out.query("d4load", &format!("{} | {}", file.n, file.lines.join(" / ")), &crate::persist_props::export_flat(&d));
                                     // do the hypotheses of the loader theorem hold for this text (and then its conclusion)?
                                     out.query("d4conv", &format!("{} | {}", file.n, file.lines.join(" / ")), "ok"); }
            crate::gen::Fmt::C2d => out.query("c2dload", &format!("| {}", file.lines.join(" / ")), &crate::persist_props::export_flat(&d)),
        }
        if file.n <= 10 { out.query("tt", "", &tt.to_string01()); }
        out.query("counts", "", &d.nodes.iter().map(|n| n.count.to_string()).collect::<Vec<_>>().join(" "));
        out.sample(format!("{} | n={} | {} -> count {}", file.origin, file.n, file.lines.join(" / "), got));
    });
    // counts beyond u64 / u128: the same d4 texts loaded with 70, 130 and 200 features (the unmentioned ones are free)
    {
        let mut picked: Vec<(GenFile, TT)> = Vec::new();
        let mut r5 = rng.fork();
        let cfg5 = space_cfg(a, false);
        let mut seen = 0usize;
        for_each_model(&cfg5, &mut r5, |file, tt| { seen += 1; if picked.len() < (if a.thorough() { 60 } else { 12 }) && matches!(file.fmt, Fmt::D4) && seen % 13 == 5 { picked.push((file.clone(), tt.clone())); } });
        for (file, tt) in picked {
            for big in [70u32, 130, 200, 1026, 1100, 2100] {
                if big > 1000 && !(file.n == 2 || file.n == 5) { continue; }
                let lines = file.lines.clone();
                let Ok(mut d) = guarded(move || ddnnife::parser::distribute_building(lines, Some(big), None)) else { out.fail("load-panic", &file.text(), &format!("-t {big}"), "panic", "a model"); continue };
                out.eval(Some(format!("{}|-t {big}", file.text())));
                out.count("big_count_models", 1);
                let scale = BigInt::from(1) << ((big - file.n) as usize);
                let want = BigInt::from(tt.count()) * &scale;
                if d.rc() != want { out.fail("count", &file.text(), &format!("rc() -t {big}"), &d.rc().to_string(), &want.to_string()); }
                let s = guarded(|| d.handle_stream_msg("count")).unwrap_or_else(|e| format!("panic: {e}"));
                if s != want.to_string() { out.fail("stream-count", &file.text(), &format!("count -t {big}"), &s, &want.to_string()); }
                // a literal of a mentioned and of an unmentioned feature
                let q = vec![1i32, -(big as i32)];
                let wq: BigInt = BigInt::from(tt.count_with(&[1])) * &scale / BigInt::from(2);
                let got = guarded(|| d.execute_query(&q)).map(|x| x.to_string()).unwrap_or_else(|e| format!("panic: {e}"));
                if got != wq.to_string() { out.fail("count", &file.text(), &format!("count {:?} -t {big}", q), &got, &wq.to_string()); }
            }
        }
    }
    lexical_variants(a, &mut out, &mut rng);
    corpus_c01(a, &mut out);
    degenerate(&mut out, "count");
    crate::cli_props::cli_pass(a, &mut out, &mut rng, &["count", "count-stdin"]);
    crate::shifted_props::shifted(a, &mut out, &mut rng, &["count"]);
    out.finish("(+ renumbered models: features base+1..base+n for base 126 / 254 / 1020, judged by the small model's truth table: count) (+ CLI pass: the rebuilt binary's `count` on a sample of the models, judged by the same oracles) G1: every satisfiable function over 1..3 features x every order x {d4 tree, d4 shared, d4 shared+f-edges, c2d tree, c2d shared} (sampled in quick tier), G3: random well-formed d4 / c2d circuits (n<=9); a case is non-trivial when the function is neither constant true nor has <3 lines; distinct by file text; lexical variants: the raw lines of generated files with blanks doubled / turned into tabs, leading zeros, dropped or doubled terminators, trailing blanks and junk, signs: the real loader (array or panic) vs the character-level lexer models + loader model");
}

/// the same files, but the text is not in the writer's normal form: the real lexers + loader against the
/// character-level lexer models (`q d4text` / `q c2dtext`; a panic of the real loader must be `panic` there)
fn lexical_variants(a: &Args, out: &mut Out, rng: &mut Rng) {
    let enc = |l: &str| -> String { if l.is_empty() { "%".to_string() } else { l.chars().map(|c| match c { ' ' => '_', '\t' => '~', c => c }).collect() } };
    let mut picked: Vec<GenFile> = Vec::new();
    let mut r2 = rng.fork();
    let cfg = space_cfg(a, false);
    let want = if a.thorough() { 400 } else { 120 };
    let mut seen = 0usize;
    for_each_model(&cfg, &mut r2, |file, _| { seen += 1; if picked.len() < want && seen % 7 == 0 { picked.push(file.clone()); } });
    for file in picked {
        for _ in 0..3 {
            let mut lines = file.lines.clone();
            let nmut = 1 + rng.below(3);
            let is_d4 = matches!(file.fmt, Fmt::D4);
            for _ in 0..nmut {
                // the c2d header is only padded (the code trims it); a broken header would select the other loader
                let i = rng.below(lines.len());
                let l = lines[i].clone();
                let header = !is_d4 && i == 0;
                let words: Vec<&str> = l.split(' ').collect();
                let m = if header { rng.below(2) } else { 2 + rng.below(9) };
                lines[i] = match m {
                    0 => format!(" {l}"),
                    1 => format!("{l}  "),
                    2 => { let k = rng.below(words.len().max(2) - 1); let mut w: Vec<String> = words.iter().map(|x| x.to_string()).collect(); if k + 1 < w.len() { w[k] = format!("{} ", w[k]); } w.join(" ") }           // a doubled blank
                    3 => l.replacen(' ', "\t", 1),                                                                                   // a tab
                    4 => { let k = rng.below(words.len()); words.iter().enumerate().map(|(j, x)| if j == k && x.chars().all(|c| c.is_ascii_digit()) { format!("00{x}") } else { x.to_string() }).collect::<Vec<_>>().join(" ") }   // leading zeros
                    5 => format!("{l} "),                                                                                             // trailing blank
                    6 => format!("{l} junk 7"),                                                                                       // trailing junk
                    7 => if l.ends_with(" 0") { l[..l.len() - 2].to_string() } else { format!("{l}0") },                                // terminator dropped / doubled
                    8 => { let k = rng.below(words.len()); words.iter().enumerate().map(|(j, x)| if j == k && x.chars().all(|c| c.is_ascii_digit()) { format!("+{x}") } else { x.to_string() }).collect::<Vec<_>>().join(" ") }    // explicit plus sign
                    9 => l.replace("-", "- "),                                                                                        // detached minus sign
                    _ => { let k = rng.below(words.len()); words.iter().enumerate().map(|(j, x)| if j == k && x.chars().all(|c| c.is_ascii_digit()) && *x != "0" { "99999999999999999999999".to_string() } else { x.to_string() }).collect::<Vec<_>>().join(" ") }   // a number beyond every integer type
                };
            }
            if lines == file.lines { continue; }
            let text = lines.join("\n");
            out.eval(Some(format!("lexvar|{text}")));
            out.count(if is_d4 { "lexical_variants_d4" } else { "lexical_variants_c2d" }, 1);
            let (ls, tf) = (lines.clone(), file.total_features());
            let got = guarded(move || ddnnife::parser::distribute_building(ls, tf, None));
            let expected = match &got { Ok(d) => crate::persist_props::export_flat(d), Err(_) => "panic".to_string() };
            out.count(if got.is_ok() { "lexical_variants_loaded" } else { "lexical_variants_panic" }, 1);
            let encoded = lines.iter().map(|l| enc(l)).collect::<Vec<_>>().join(" ");
            if is_d4 { out.query("d4text", &format!("{} | {}", file.n, encoded), &expected); } else { out.query("c2dtext", &format!("| {}", encoded), &expected); }
        }
    }
}

fn corpus_c01(a: &Args, out: &mut Out) {
    // corpus: counts of the two encodings of auto1 must agree (no truth table); everything goes through the driver
    let mut auto1: Vec<String> = Vec::new();
    for (path, tf) in corpus(a.thorough()) {
        let p = path.clone();
        let d = guarded(move || ddnnife::parser::build_ddnnf(std::path::Path::new(&p), tf));
        match d {
            Ok(d) => {
                out.eval(Some(path.clone()));
                out.count("corpus_models", 1);
                if path.contains("auto1") { auto1.push(d.rc().to_string()); }
                out.circuit(&export_nodes(&d), &circuit_line(&d));
                if d.nodes.len() < 3000 {
                    let text: Vec<String> = std::fs::read_to_string(&path).unwrap_or_default().lines().map(|l| l.trim().to_string()).filter(|l| !l.is_empty()).collect();
                    match tf {
                        Some(t) => out.query("d4load", &format!("{} | {}", t, text.join(" / ")), &crate::persist_props::export_flat(&d)),
                        None => out.query("c2dload", &format!("| {}", text.join(" / ")), &crate::persist_props::export_flat(&d)),
                    }
                }
            }
            Err(e) => out.fail("load-panic", &path, "build_ddnnf", &e, "a loaded model"),
        }
    }
    if auto1.len() == 2 && auto1[0] != auto1[1] { out.fail("same-function-same-count", "auto1_c2d vs auto1_d4", "rc()", &auto1[0], &auto1[1]); }
}

/// models that consist of a single leaf or a single decision over one or two features (the smallest inputs of the space):
/// count, counts / SAT under every list of up to two literals, per-feature table, core - judged by the text's truth table
fn degenerate(out: &mut Out, which: &str) {
    let mk = |fmt: Fmt, n: u32, lines: &[&str]| GenFile { fmt, lines: lines.iter().map(|s| s.to_string()).collect(), n, origin: "degenerate".into() };
    let files = vec![
        mk(Fmt::C2d, 1, &["nnf 1 0 1", "L 1"]), mk(Fmt::C2d, 1, &["nnf 1 0 1", "L -1"]),
        mk(Fmt::C2d, 2, &["nnf 3 2 2", "L -1", "L 2", "A 2 0 1"]), mk(Fmt::C2d, 2, &["nnf 3 2 2", "L -1", "L -2", "A 2 0 1"]),
        mk(Fmt::D4, 1, &["t 1 0"]), mk(Fmt::D4, 1, &["o 1 0", "t 2 0", "1 2 -1 0"]), mk(Fmt::D4, 1, &["o 1 0", "t 2 0", "1 2 1 0"]),
        mk(Fmt::D4, 2, &["o 1 0", "t 2 0", "1 2 -1 -2 0"]), mk(Fmt::D4, 2, &["o 1 0", "t 2 0", "1 2 -2 0"]), mk(Fmt::D4, 3, &["t 1 0"]),
    ];
    for file in files {
        let tt = file.tt();
        let Some(mut d) = load_or_fail(out, &file) else { continue };
        out.eval(Some(format!("{}|degenerate|{which}", file.text())));
        out.count("degenerate_models", 1);
        let n = file.n as i32;
        let mut lists: Vec<Vec<i32>> = vec![vec![]];
        for v in 1..=n { lists.push(vec![v]); lists.push(vec![-v]); for w in 1..=n { lists.push(vec![v, -w]); lists.push(vec![-v, -w]); } }
        match which {
            "count" => { let got = d.rc().to_string(); if got != tt.count().to_string() { out.fail("count", &file.text(), &format!("rc() -t {n}"), &got, &tt.count().to_string()); } }
            "query" => for l in &lists { let got = guarded(|| d.execute_query(l)).map(|x| x.to_string()).unwrap_or_else(|e| format!("panic: {e}")); if got != tt.count_with(l).to_string() { out.fail("execute_query", &file.text(), &format!("count {:?} -t {n}", l), &got, &tt.count_with(l).to_string()); } },
            "sat" => for l in &lists { let got = guarded(|| d.sat(l)).map(|x| x.to_string()).unwrap_or_else(|e| format!("panic: {e}")); let want = (tt.count_with(l) > 0).to_string(); if got != want { out.fail("sat", &file.text(), &format!("sat {:?} -t {n}", l), &got, &want); } },
            "table" => match guarded(|| d.card_of_each_feature().collect::<Vec<_>>()) {
                Err(e) => out.fail("card_of_each_feature", &file.text(), "table", &format!("panic: {e}"), "a table"),
                Ok(rows) => { if rows.len() != n as usize { out.fail("rows", &file.text(), "table", &rows.len().to_string(), &n.to_string()); }
                    for (i, (v, card, ratio)) in rows.iter().enumerate() { let w = tt.count_with(&[i as i32 + 1]); let exact = w as f64 / tt.count() as f64;
                        if *v != i as i32 + 1 || *card != BigInt::from(w) || !((ratio - exact).abs() <= 1e-12) { out.fail("cardinality", &file.text(), &format!("feature {} -t {n}", i + 1), &format!("{},{},{}", v, card, ratio), &format!("{},{},{}", i + 1, w, exact)); } } }
            },
            "core" => { let tot = tt.count(); let mut want: Vec<i32> = (1..=n).filter_map(|v| { let c = tt.count_with(&[v]); if c == tot { Some(v) } else if c == 0 { Some(-v) } else { None } }).collect(); want.sort();
                let mut got: Vec<i32> = d.get_core().into_iter().collect(); got.sort(); if got != want { out.fail("get_core", &file.text(), "get_core", &format!("{:?}", got), &format!("{:?}", want)); } }
            _ => {}
        }
    }
}

// ------------------------------------------------------------------------------------------------
fn lists_for(rng: &mut Rng, n: u32, thorough: bool) -> Vec<Vec<i32>> {
    let exhaustive_n = if thorough { 7 } else { 5 };
    let mut lists = if n <= exhaustive_n { partial_assignments(n) } else {
        // random consistent partial assignments
        (0..200).map(|_| (1..=n as i32).filter_map(|v| match rng.below(3) { 0 => None, 1 => Some(v), _ => Some(-v) }).collect()).collect()
    };
    for l in lists.iter_mut() { if rng.chance(0.3) { rng.shuffle(l); } }
    lists.extend(random_lists(rng, n, if thorough { 36 } else { 18 }));
    lists
}

pub fn c02(a: &Args) {
    let mut rng = Rng::new(a.seed);
    let mut out = Out::new(&a.out);
    let cfg = space_cfg(a, true);
    let mut r2 = rng.fork();
    for_each_model(&cfg, &mut rng, |file, tt| {
        let Some(mut d) = load_or_fail(&mut out, file) else { return };
        out.circuit(&export_nodes(&d), &circuit_line(&d));
        let lists = lists_for(&mut r2, file.n, a.thorough());
        for (qi, l) in lists.iter().enumerate() {
            out.eval(if nontrivial(file, tt) && !l.is_empty() { Some(format!("{}|{:?}", file.text(), l)) } else { None });
            let want = tt.count_with(l).to_string();
            let got = guarded(|| d.execute_query(l).to_string()).unwrap_or_else(|e| format!("panic: {e}"));
            let bucket = match l.len() { 0 => "len0", 1 => "len1", 2..=20 => "len2_20", _ => "len_gt20" };
            out.count(bucket, 1);
            if got != want { out.fail("execute_query", &file.text(), &format!("count {:?} -t {}", l, file.n), &got, &want); }
            if qi % 4 == 0 {
                let msg = format!("count a {}", fmt_ints(l));
                let s = guarded(|| d.handle_stream_msg(&msg)).unwrap_or_else(|e| format!("panic: {e}"));
                let want_s = if l.is_empty() { "E4".to_string() } else { want.clone() };
                if l.is_empty() { if !s.starts_with("E4") && s != want { out.fail("stream-count", &file.text(), &msg, &s, &want_s); } }
                else if s != want { out.fail("stream-count", &file.text(), &msg, &s, &want); }
            }
            if qi % 3 == 0 || l.len() > 7 { out.query("count", &fmt_ints(l), &got); }
            // what the command line does after a count: look at the marked nodes of the same query (must not disturb later counts)
            if qi % 7 == 3 && !l.is_empty() && l.len() <= 20 { let _ = guarded(|| d.get_marked_nodes_clone(l)); }
            if qi % 50 == 0 { out.sample(format!("{} lines, n={}, count {:?} -> {}", file.lines.len(), file.n, l, got)); }
        }
        // stream: per-variable form  count a A v V  = counts of A+v joined by ';'
        if file.n >= 2 {
            let msg = format!("count a 1 v 2 -2");
            let s = guarded(|| d.handle_stream_msg(&msg)).unwrap_or_else(|e| format!("panic: {e}"));
            let want = format!("{};{}", tt.count_with(&[1, 2]), tt.count_with(&[1, -2]));
            if s != want { out.fail("stream-count-vars", &file.text(), &msg, &s, &want); }
        }
        // ... with an assumption list that crosses the 20-literal strategy boundary (padding repeats a literal) and several variables
        if file.n >= 3 {
            let l0 = if tt.count_with(&[1]) > 0 { 1 } else { -1 };
            for pad in [18usize, 19, 20, 24] {
                let asm: Vec<i32> = std::iter::repeat(l0).take(pad).chain([if tt.count_with(&[l0, 2]) > 0 { 2 } else { -2 }]).collect();
                let vars: Vec<i32> = if pad % 2 == 0 { vec![-3, 3, file.n as i32, -(file.n as i32)] } else { vec![file.n as i32, -3, 3, -(file.n as i32)] };
                let msg = format!("count a {} v {}", fmt_ints(&asm), fmt_ints(&vars));
                let s = guarded(|| d.handle_stream_msg(&msg)).unwrap_or_else(|e| format!("panic: {e}"));
                let want = vars.iter().map(|v| { let mut q = asm.clone(); q.push(*v); tt.count_with(&q).to_string() }).collect::<Vec<_>>().join(";");
                if s != want { out.fail("stream-count-vars", &file.text(), &msg, &s, &want); }
            }
        }
        // the shape of the FFI's `count_multiple` (the cdylib itself cannot be called from here): the library helper it
        // is built from, `util::zip_assumptions_variables`, in its four cases (both empty, one empty, neither)
        for (asm, vars) in [(vec![], vec![]), (vec![], vec![1i32, -1]), (vec![-1i32], vec![]), (vec![1i32], (1..=file.n as i32).rev().collect::<Vec<i32>>())] {
            let got: Result<Vec<String>, String> = guarded(|| ddnnife::util::zip_assumptions_variables(&asm, &vars).map(|q| d.execute_query(&q).to_string()).collect());
            let want: Vec<String> = if vars.is_empty() { vec![tt.count_with(&asm).to_string()] } else { vars.iter().map(|v| { let mut q = asm.clone(); q.push(*v); tt.count_with(&q).to_string() }).collect() };
            match got { Ok(g) if g == want => {}, Ok(g) => out.fail("count-multiple", &file.text(), &format!("count_multiple {:?} {:?}", asm, vars), &g.join(";"), &want.join(";")), Err(e) => out.fail("count-multiple", &file.text(), &format!("count_multiple {:?} {:?}", asm, vars), &format!("panic: {e}"), &want.join(";")) }
        }
    });
    corpus_c02(a, &mut out, &mut r2);
    degenerate(&mut out, "query");
    crate::cli_props::cli_pass(a, &mut out, &mut rng, &["count", "count-queries"]);
    crate::shifted_props::shifted(a, &mut out, &mut rng, &["query"]);
    out.finish("(+ renumbered models: features base+1..base+n for base 126 / 254 / 1020, judged by the small model's truth table: query) (+ CLI pass: the rebuilt binary's `count / count-queries` on a sample of the models) every model of the C01 space x (all 3^n consistent partial assignments for n<=5 quick / n<=7 thorough, else 200 random ones) + random lists with duplicates/contradictions of lengths 1,2,3,5,19,20,21,22,40,70,130,300,1000; non-trivial = non-constant function and non-empty list; distinct by (file text, list)");
}

fn corpus_c02(a: &Args, out: &mut Out, rng: &mut Rng) {
    for (path, tf) in corpus(a.thorough()) {
        let p = path.clone();
        let Ok(mut d) = guarded(move || ddnnife::parser::build_ddnnf(std::path::Path::new(&p), tf)) else { continue };
        let n = d.number_of_variables;
        let small = d.nodes.len() < 3000;
        if small { out.circuit(&export_nodes(&d), &circuit_line(&d)); }
        let reps = if a.thorough() { 60 } else { 15 };
        for _ in 0..reps {
            out.eval(Some(format!("{}|{}", path, rng.0)));
            // metamorphic laws on a random satisfiable-ish list
            let len = [0usize, 1, 2, 5, 18, 19, 20, 21, 30][rng.below(9)];
            let mut l: Vec<i32> = Vec::new();
            // grow the list keeping it satisfiable most of the time
            for _ in 0..len {
                let v = 1 + rng.below(n as usize) as i32;
                let cand = if rng.chance(0.5) { v } else { -v };
                l.push(cand);
                if rng.chance(0.9) && d.execute_query(&l) == BigInt::ZERO { let k = l.len() - 1; l[k] = -cand; }
            }
            let base = d.execute_query(&l);
            let x = 1 + rng.below(n as usize) as i32;
            let (mut lp, mut lm) = (l.clone(), l.clone());
            lp.push(x); lm.push(-x);
            let (cp, cm) = (d.execute_query(&lp), d.execute_query(&lm));
            if &cp + &cm != base { out.fail("split-law", &path, &format!("count {:?} vs +{} / -{}", l, x, x), &format!("{} + {}", cp, cm), &base.to_string()); }
            let mut perm = l.clone(); rng.shuffle(&mut perm);
            if d.execute_query(&perm) != base { out.fail("permutation-law", &path, &format!("{:?}", perm), &d.execute_query(&perm).to_string(), &base.to_string()); }
            if !l.is_empty() {
                let mut padded = l.clone();
                while padded.len() <= 22 { let e = *rng.pick(&l); padded.push(e); }
                let c = d.execute_query(&padded);
                if c != base { out.fail("padding-law", &path, &format!("{:?}", padded), &c.to_string(), &base.to_string()); }
                if small { out.query("count", &fmt_ints(&padded), &c.to_string()); }
            }
            if small { out.query("count", &fmt_ints(&l), &base.to_string()); }
            // the stream's `count a A v V` on the same (possibly long, > 20 distinct literals) list: one count per variable,
            // each equal to the library's count of A + v (which the laws above and the Lean model judge)
            if !l.is_empty() {
                let vars: Vec<i32> = (0..3).map(|_| { let v = 1 + rng.below(n as usize) as i32; if rng.chance(0.5) { v } else { -v } }).collect();
                let msg = format!("count a {} v {}", fmt_ints(&l), fmt_ints(&vars));
                let got = guarded(|| d.handle_stream_msg(&msg)).unwrap_or_else(|e| format!("panic: {e}"));
                let want = vars.iter().map(|v| { let mut q = l.clone(); q.push(*v); d.execute_query(&q).to_string() }).collect::<Vec<_>>().join(";");
                if got != want { out.fail("stream-count-vars", &path, &msg, &got, &want); }
            }
        }
    }
}

// ------------------------------------------------------------------------------------------------
pub fn c03(a: &Args) {
    let mut rng = Rng::new(a.seed);
    let mut out = Out::new(&a.out);
    let cfg = space_cfg(a, true);
    let mut r2 = rng.fork();
    for_each_model(&cfg, &mut rng, |file, tt| {
        let Some(mut d) = load_or_fail(&mut out, file) else { return };
        out.circuit(&export_nodes(&d), &circuit_line(&d));
        let lists = lists_for(&mut r2, file.n, a.thorough());
        for (qi, l) in lists.iter().enumerate() {
            out.eval(if nontrivial(file, tt) && !l.is_empty() { Some(format!("{}|{:?}", file.text(), l)) } else { None });
            let want = tt.count_with(l) > 0;
            let got = guarded(|| d.sat(l)).map(|b| b.to_string()).unwrap_or_else(|e| format!("panic: {e}"));
            out.count(if want { "sat" } else { "unsat" }, 1);
            if got != want.to_string() { out.fail("sat", &file.text(), &format!("sat {:?} -t {}", l, file.n), &got, &want.to_string()); }
            let got2 = guarded(|| d.sat_immutable(l)).map(|b| b.to_string()).unwrap_or_else(|e| format!("panic: {e}"));
            if got2 != want.to_string() { out.fail("sat_immutable", &file.text(), &format!("{:?}", l), &got2, &want.to_string()); }
            let cnt = d.execute_query(l);
            if (cnt > BigInt::ZERO) != want { out.fail("count>0", &file.text(), &format!("{:?}", l), &cnt.to_string(), &want.to_string()); }
            if qi % 5 == 0 && !l.is_empty() {
                let msg = format!("sat a {}", fmt_ints(l));
                let s = guarded(|| d.handle_stream_msg(&msg)).unwrap_or_else(|e| format!("panic: {e}"));
                if s != want.to_string() { out.fail("stream-sat", &file.text(), &msg, &s, &want.to_string()); }
            }
            // per-variable form: every variable is decided on its own (duplicates, both polarities, any order)
            if qi % 7 == 0 && l.len() <= 3 {
                let nv = 2 + r2.below(3);
                let mut vars: Vec<i32> = (0..nv).map(|_| { let v = 1 + r2.below(file.n as usize) as i32; if r2.chance(0.5) { v } else { -v } }).collect();
                if r2.chance(0.4) { let x = vars[0]; vars.push(x); }
                if r2.chance(0.4) { let x = vars[0]; vars.push(-x); }
                let msg = if l.is_empty() { format!("sat v {}", fmt_ints(&vars)) } else { format!("sat a {} v {}", fmt_ints(l), fmt_ints(&vars)) };
                let want_v: Vec<String> = vars.iter().map(|x| { let mut al = l.clone(); al.push(*x); (tt.count_with(&al) > 0).to_string() }).collect();
                let s = guarded(|| d.handle_stream_msg(&msg)).unwrap_or_else(|e| format!("panic: {e}"));
                out.count("stream_sat_with_variables", 1);
                if s != want_v.join(";") { out.fail("stream-sat-vars", &file.text(), &msg, &s, &want_v.join(";")); }
            }
            if qi % 3 == 0 || l.len() > 7 { out.query("sat", &fmt_ints(l), &got); }
            // the imperative propagation itself: exact mark vector of one call on a fresh vector
            if qi % 4 == 1 {
                let mut mark = vec![false; d.nodes.len()];
                if let Ok(b) = guarded(|| d.sat_propagate(l, &mut mark, None)) {
                    let bits: String = mark.iter().map(|&x| if x { '1' } else { '0' }).collect();
                    out.query("satstate", &fmt_ints(l), &format!("{} {}", b, bits));
                }
            }
            // incremental: split the list into chunks, keep the propagation state
            if qi % 2 == 0 && l.len() >= 2 {
                let mut mark = vec![false; d.nodes.len()];
                let mut so_far: Vec<i32> = Vec::new();
                let mut pos = 0;
                while pos < l.len() {
                    let step = 1 + r2.below(3);
                    let chunk = &l[pos..(pos + step).min(l.len())];
                    pos += step;
                    so_far.extend_from_slice(chunk);
                    let ans = guarded(|| d.sat_propagate(chunk, &mut mark, None));
                    let fresh = tt.count_with(&so_far) > 0;
                    out.count("incremental_steps", 1);
                    match ans {
                        Ok(b) => {
                            if b != fresh { out.fail("sat-incremental", &file.text(), &format!("chunks of {:?}, after {:?}", l, so_far), &b.to_string(), &fresh.to_string()); }
                            if !b { break; }
                        }
                        Err(e) => { out.fail("sat-incremental", &file.text(), &format!("{:?}", so_far), &format!("panic: {e}"), &fresh.to_string()); break; }
                    }
                }
                // the kept state against the model's least fixpoint (mark or count = 0), node by node
                if pos >= l.len() && tt.count_with(l) > 0 && qi % 6 == 0 {
                    let s: String = (0..d.nodes.len()).map(|i| if mark[i] || d.nodes[i].count == BigInt::ZERO { '1' } else { '0' }).collect();
                    out.query("satmarks", &fmt_ints(l), &s);
                }
            }
            if qi % 50 == 0 { out.sample(format!("{} lines, n={}, sat {:?} -> {}", file.lines.len(), file.n, l, got)); }
        }
    });
    // corpus: agreement with the count on every literal and on random lists
    for (path, tf) in corpus(a.thorough()) {
        let p = path.clone();
        let Ok(mut d) = guarded(move || ddnnife::parser::build_ddnnf(std::path::Path::new(&p), tf)) else { continue };
        let n = d.number_of_variables as i32;
        let small = d.nodes.len() < 3000;
        if small { out.circuit(&export_nodes(&d), &circuit_line(&d)); }
        let step = if n > 200 { (n / 100) as usize } else { 1 };
        for v in (1..=n).step_by(step) {
            for l in [v, -v] {
                out.eval(Some(format!("{}|{}", path, l)));
                let s = d.sat(&[l]);
                let c = d.execute_query(&[l]) > BigInt::ZERO;
                if s != c { out.fail("sat-vs-count", &path, &format!("[{}]", l), &s.to_string(), &c.to_string()); }
                if small { out.query("sat", &l.to_string(), &s.to_string()); }
            }
        }
        for _ in 0..(if a.thorough() { 200 } else { 40 }) {
            let len = 1 + r2.below(25);
            let l: Vec<i32> = (0..len).map(|_| { let v = 1 + r2.below(n as usize) as i32; if r2.chance(0.5) { v } else { -v } }).collect();
            out.eval(Some(format!("{}|{:?}", path, l)));
            let s = d.sat(&l);
            let c = d.execute_query(&l) > BigInt::ZERO;
            if s != c { out.fail("sat-vs-count", &path, &format!("{:?}", l), &s.to_string(), &c.to_string()); }
            if small { out.query("sat", &fmt_ints(&l), &s.to_string()); }
        }
    }
    degenerate(&mut out, "sat");
    crate::cli_props::cli_pass(a, &mut out, &mut rng, &["sat"]);
    crate::shifted_props::shifted(a, &mut out, &mut rng, &["sat"]);
    out.finish("(+ renumbered models: features base+1..base+n for base 126 / 254 / 1020, judged by the small model's truth table: sat) (+ CLI pass: the rebuilt binary's `sat` on a sample of the models, judged by the same oracles) same lists as C02; sat, sat_immutable, stream sat vs truth table; incremental sat_propagate with a kept mark vector on random chunkings (compared while earlier answers are 'satisfiable'); corpus: sat vs count>0 on every literal and random lists");
}

// ------------------------------------------------------------------------------------------------
pub fn c04(a: &Args) {
    let mut rng = Rng::new(a.seed);
    let mut out = Out::new(&a.out);
    let cfg = space_cfg(a, false);
    for_each_model(&cfg, &mut rng, |file, tt| {
        let Some(mut d) = load_or_fail(&mut out, file) else { return };
        out.eval(if nontrivial(file, tt) { Some(file.text()) } else { None });
        let total = tt.count();
        let rows: Result<Vec<(i32, BigInt, f64)>, String> = guarded(|| d.card_of_each_feature().collect());
        match rows {
            Err(e) => out.fail("card_of_each_feature", &file.text(), "table", &format!("panic: {e}"), "a table"),
            Ok(rows) => {
                if rows.len() != file.n as usize { out.fail("rows", &file.text(), "table", &rows.len().to_string(), &file.n.to_string()); }
                for (i, (v, card, ratio)) in rows.iter().enumerate() {
                    let want = tt.count_with(&[i as i32 + 1]);
                    if *v != i as i32 + 1 { out.fail("row-order", &file.text(), "table", &v.to_string(), &(i + 1).to_string()); }
                    if *card != BigInt::from(want) { out.fail("cardinality", &file.text(), &format!("feature {}", i + 1), &card.to_string(), &want.to_string()); }
                    let exact = want as f64 / total as f64;
                    if (ratio - exact).abs() > 1e-12 { out.fail("ratio", &file.text(), &format!("feature {}", i + 1), &ratio.to_string(), &exact.to_string()); }
                    let single = d.execute_query(&[i as i32 + 1]);
                    if single != *card { out.fail("table-vs-single-count", &file.text(), &format!("feature {}", i + 1), &card.to_string(), &single.to_string()); }
                    if want == 0 { out.count("dead_rows", 1); } else if want == total { out.count("core_rows", 1); } else { out.count("plain_rows", 1); }
                }
                out.circuit(&export_nodes(&d), &circuit_line(&d));
                out.query("cardpd", "", &rows.iter().map(|r| r.1.to_string()).collect::<Vec<_>>().join(" "));
                out.sample(format!("{} n={} table {:?}", file.origin, file.n, rows.iter().map(|r| r.1.to_string()).collect::<Vec<_>>()));
            }
        }
    });
    // models whose counts exceed the f64 range (more than 1024 unmentioned features): the ratio is still card / total
    {
        let mut picked: Vec<(GenFile, TT)> = Vec::new();
        let mut r3 = rng.fork();
        let cfg2 = space_cfg(a, false);
        for_each_model(&cfg2, &mut r3, |file, tt| {
            if picked.len() < (if a.thorough() { 40 } else { 8 }) && matches!(file.fmt, Fmt::D4) && tt.count() > 0 && nontrivial(file, tt) && file.n >= 2 { picked.push((file.clone(), tt.clone())); }
        });
        for (file, tt) in picked {
            for big in [1030u32, 1100, 2100] {
                let lines = file.lines.clone();
                let Ok(mut d) = guarded(move || ddnnife::parser::distribute_building(lines, Some(big), None)) else { out.fail("load-panic", &file.text(), &format!("-t {big}"), "panic", "a model"); continue };
                out.eval(Some(format!("{}|-t {big}", file.text())));
                out.count("huge_models", 1);
                let rows: Result<Vec<(i32, BigInt, f64)>, String> = guarded(|| d.card_of_each_feature().collect());
                let Ok(rows) = rows else { out.fail("card_of_each_feature", &file.text(), &format!("table -t {big}"), "panic", "a table"); continue };
                if rows.len() != big as usize { out.fail("rows", &file.text(), &format!("table -t {big}"), &rows.len().to_string(), &big.to_string()); continue; }
                let total = tt.count();
                let scale = BigInt::from(1) << ((big - file.n) as usize);
                for f in (1..=file.n).chain([file.n + 1, big]) {
                    let (v, card, ratio) = &rows[f as usize - 1];
                    let (want_card, exact) = if f <= file.n { let w = tt.count_with(&[f as i32]); (BigInt::from(w) * &scale, w as f64 / total as f64) } else { (BigInt::from(total) * &scale / 2, 0.5) };
                    if *v != f as i32 { out.fail("row-order", &file.text(), &format!("table -t {big}"), &v.to_string(), &f.to_string()); }
                    if *card != want_card { out.fail("cardinality", &file.text(), &format!("feature {f} -t {big}"), &format!("{} bits", card.bits()), &format!("{} bits", want_card.bits())); }
                    if !((ratio - exact).abs() <= 1e-12) { out.fail("ratio", &file.text(), &format!("feature {f} -t {big}"), &ratio.to_string(), &exact.to_string()); }
                }
            }
        }
    }
    // the CSV writer on a path that already holds a longer table: the file must be exactly the new table
    {
        let mut r4 = rng.fork();
        let cfg3 = space_cfg(a, false);
        let mut pool: Vec<(GenFile, TT)> = Vec::new();
        let mut seen = 0usize;
        for_each_model(&cfg3, &mut r4, |file, tt| { seen += 1; if pool.len() < (if a.thorough() { 120 } else { 30 }) && tt.count() > 0 && seen % 9 == 4 { pool.push((file.clone(), tt.clone())); } });
        pool.sort_by_key(|(f, _)| std::cmp::Reverse(f.n));          // larger tables first, so later ones are shorter
        let path = format!("{}/reused.csv", a.out);
        let _ = std::fs::remove_file(&path);
        for (file, tt) in pool {
            let Some(mut d) = load_or_fail(&mut out, &file) else { continue };
            out.eval(Some(format!("{}|csv over an existing file", file.text())));
            out.count("csv_over_existing_file", 1);
            if guarded(|| d.card_of_each_feature_csv(std::path::Path::new(&path)).map_err(|e| e.to_string())).map(|r| r.is_err()).unwrap_or(true) { out.fail("csv-writer", &file.text(), "card_of_each_feature_csv", "error / panic", "a table"); continue; }
            let text = std::fs::read_to_string(&path).unwrap_or_default();
            let lines: Vec<&str> = text.lines().collect();
            let total = tt.count();
            let ok = lines.len() == file.n as usize && lines.iter().enumerate().all(|(i, l)| { let c: Vec<&str> = l.split(',').collect(); let w = tt.count_with(&[i as i32 + 1]);
                c.len() == 3 && c[0] == (i + 1).to_string() && c[1] == w.to_string() && c[2].parse::<f64>().map(|r| (r - w as f64 / total as f64).abs() <= 1e-9).unwrap_or(false) });
            if !ok { out.fail("csv-over-existing-file", &file.text(), "card_of_each_feature_csv on a path holding an earlier, longer table", &text.replace('\n', " / "), &format!("{} rows f,cardinality,ratio", file.n)); }
        }
    }
    // CSV writer and corpus
    let tmp = format!("{}/fcs.csv", a.out);
    for (path, tf) in corpus(a.thorough()) {
        let p = path.clone();
        let Ok(mut d) = guarded(move || ddnnife::parser::build_ddnnf(std::path::Path::new(&p), tf)) else { continue };
        out.eval(Some(path.clone()));
        let rows: Vec<(i32, BigInt, f64)> = d.card_of_each_feature().collect();
        let n = d.number_of_variables as usize;
        if rows.len() != n { out.fail("rows", &path, "table", &rows.len().to_string(), &n.to_string()); }
        let step = if n > 300 { n / 150 } else { 1 };
        for i in (0..rows.len()).step_by(step) {
            let single = d.execute_query(&[i as i32 + 1]);
            if single != rows[i].1 { out.fail("table-vs-single-count", &path, &format!("feature {}", i + 1), &rows[i].1.to_string(), &single.to_string()); }
        }
        d.card_of_each_feature_csv(std::path::Path::new(&tmp)).ok();
        if let Ok(text) = std::fs::read_to_string(&tmp) {
            let lines: Vec<&str> = text.lines().collect();
            if lines.len() != n { out.fail("csv-rows", &path, "csv", &lines.len().to_string(), &n.to_string()); }
            for (i, line) in lines.iter().enumerate() {
                let cols: Vec<&str> = line.split(',').collect();
                if cols.len() != 3 || cols[0] != (i + 1).to_string() || cols[1] != rows[i].1.to_string() {
                    out.fail("csv-row", &path, &format!("row {}", i + 1), line, &format!("{},{},…", i + 1, rows[i].1));
                    break;
                }
                // printed ratio (10 digits) against the exact rational
                let printed: f64 = cols[2].parse().unwrap_or(f64::NAN);
                let exact = rows[i].2;
                if !((printed - exact).abs() <= 1e-10 * exact.abs().max(1e-300) * 1.0001 + 1e-300) { out.fail("csv-ratio", &path, &format!("row {}", i + 1), cols[2], &exact.to_string()); break; }
            }
        }
        let _ = std::fs::remove_file(&tmp);
        if d.nodes.len() < 3000 {
            out.circuit(&export_nodes(&d), &circuit_line(&d));
            out.query("cardpd", "", &rows.iter().map(|r| r.1.to_string()).collect::<Vec<_>>().join(" "));
        }
    }
    degenerate(&mut out, "table");
    crate::cli_props::cli_pass(a, &mut out, &mut rng, &["count-features"]);
    crate::shifted_props::shifted(a, &mut out, &mut rng, &["table"]);
    out.finish("(+ renumbered models: features base+1..base+n for base 126 / 254 / 1020, judged by the small model's truth table: table) (+ CLI pass: the rebuilt binary's `count-features` on a sample of the models, judged by the same oracles) every model of the C01 space: per-feature table vs truth table (cardinality per feature, row order, ratio within 1e-12 of card/total), equality with the single-literal count; corpus: table vs execute_query([f]) and CSV rows; non-trivial = non-constant function; distinct by file text");
}

// ------------------------------------------------------------------------------------------------
fn oracle_core(tt: &TT, a: &[i32]) -> Vec<i32> {
    let base = tt.count_with(a);
    let mut out = Vec::new();
    for v in 1..=tt.n as i32 {
        for l in [v, -v] {
            let mut al = a.to_vec(); al.push(l);
            if tt.count_with(&al) == base { out.push(l); }
        }
    }
    out.sort();
    out
}

pub fn c05(a: &Args) {
    let mut rng = Rng::new(a.seed);
    let mut out = Out::new(&a.out);
    let cfg = space_cfg(a, true);
    let mut r2 = rng.fork();
    for_each_model(&cfg, &mut rng, |file, tt| {
        let Some(mut d) = load_or_fail(&mut out, file) else { return };
        out.circuit(&export_nodes(&d), &circuit_line(&d));
        let n = file.n as i32;
        // assumption lists of length 0..3
        let mut lists: Vec<Vec<i32>> = vec![vec![]];
        let lits: Vec<i32> = (1..=n).flat_map(|v| [v, -v]).collect();
        if file.n <= 5 {
            for &x in &lits { lists.push(vec![x]); for &y in &lits { lists.push(vec![x, y]); if a.thorough() || r2.chance(0.1) { for &z in &lits { if r2.chance(if a.thorough() { 0.5 } else { 0.2 }) { lists.push(vec![x, y, z]); } } } } }
        } else {
            for _ in 0..60 { let len = 1 + r2.below(3); lists.push((0..len).map(|_| *r2.pick(&lits)).collect()); }
        }
        for (qi, l) in lists.iter().enumerate() {
            out.eval(if nontrivial(file, tt) { Some(format!("{}|{:?}", file.text(), l)) } else { None });
            let want = oracle_core(tt, l);
            // now and then the marking of some other request is inspected first (what the CLI logging and the mermaid export
            // do): a read-only look must leave nothing behind
            if qi % 5 == 2 { let other: Vec<i32> = vec![*r2.pick(&lits)]; let _ = guarded(|| d.get_marked_nodes_clone(&other)); out.count("marking_inspected_before_core", 1); }
            let got = guarded(|| { let mut v = d.core_dead_with_assumptions(l); v.sort(); v.dedup(); v });
            match got {
                Ok(got) => {
                    if got != want { out.fail("core_dead_with_assumptions", &file.text(), &format!("core {:?} -t {}", l, file.n), &format!("{:?}", got), &format!("{:?}", want)); }
                    if l.is_empty() {
                        let mut gc: Vec<i32> = d.get_core().into_iter().collect(); gc.sort();
                        if gc != want { out.fail("get_core", &file.text(), "get_core", &format!("{:?}", gc), &format!("{:?}", want)); }
                        out.count("core_literals", want.len() as u64);
                    }
                    let cw: Vec<i32> = want.iter().copied().filter(|x| *x > 0).collect();
                    let dw: Vec<i32> = want.iter().copied().filter(|x| *x < 0).collect();
                    let mut c2 = d.core_with_assumptions(l); c2.sort();
                    let mut d2 = d.dead_with_assumptions(l); d2.sort();
                    if c2 != cw { out.fail("core_with_assumptions", &file.text(), &format!("{:?}", l), &format!("{:?}", c2), &format!("{:?}", cw)); }
                    if d2 != dw { out.fail("dead_with_assumptions", &file.text(), &format!("{:?}", l), &format!("{:?}", d2), &format!("{:?}", dw)); }
                    if qi % 3 == 0 { out.query("core", &fmt_ints(l), &fmt_ints(&got)); }
                    if qi % 7 == 0 {
                        // stream forms
                        let msg = if l.is_empty() { "core".to_string() } else { format!("core a {}", fmt_ints(l)) };
                        let s = guarded(|| d.handle_stream_msg(&msg)).unwrap_or_else(|e| format!("panic: {e}"));
                        if s != fmt_ints(&want) { out.fail("stream-core", &file.text(), &msg, &s, &fmt_ints(&want)); }
                        // per-candidate form: candidate reported iff adding it leaves the count unchanged
                        let cands: Vec<i32> = lits.iter().copied().filter(|_| r2.chance(0.5)).collect();
                        if !cands.is_empty() {
                            let msg = if l.is_empty() { format!("core v {}", fmt_ints(&cands)) } else { format!("core a {} v {}", fmt_ints(l), fmt_ints(&cands)) };
                            let s = guarded(|| d.handle_stream_msg(&msg)).unwrap_or_else(|e| format!("panic: {e}"));
                            let base = tt.count_with(l);
                            let want_c: Vec<String> = cands.iter().filter(|&&c| { let mut al = l.clone(); al.push(c); tt.count_with(&al) == base }).map(|c| c.to_string()).collect();
                            if s != want_c.join(";") { out.fail("stream-core-candidates", &file.text(), &msg, &s, &want_c.join(";")); }
                        }
                    }
                }
                Err(e) => out.fail("core_dead_with_assumptions", &file.text(), &format!("{:?}", l), &format!("panic: {e}"), &format!("{:?}", want)),
            }
            if qi % 40 == 0 { out.sample(format!("{} n={} core {:?} -> {:?}", file.origin, file.n, l, want)); }
        }
    });
    // corpus: core literal l  <=> count([-l]) == 0
    for (path, tf) in corpus(a.thorough()) {
        let p = path.clone();
        let Ok(mut d) = guarded(move || ddnnife::parser::build_ddnnf(std::path::Path::new(&p), tf)) else { continue };
        let n = d.number_of_variables as i32;
        let core = d.get_core();
        let step = if n > 300 { (n / 150) as usize } else { 1 };
        for v in (1..=n).step_by(step) { for l in [v, -v] {
            out.eval(Some(format!("{}|{}", path, l)));
            let fixed = d.execute_query(&[-l]) == BigInt::ZERO;
            if fixed != core.contains(&l) { out.fail("corpus-core", &path, &format!("literal {}", l), &core.contains(&l).to_string(), &fixed.to_string()); }
        } }
        if d.nodes.len() < 3000 {
            out.circuit(&export_nodes(&d), &circuit_line(&d));
            let mut c: Vec<i32> = core.into_iter().collect(); c.sort();
            out.query("core", "", &fmt_ints(&c));
        }
    }
    degenerate(&mut out, "core");
    crate::cli_props::cli_pass(a, &mut out, &mut rng, &["core", "anomalies"]);
    crate::shifted_props::shifted(a, &mut out, &mut rng, &["core"]);
    out.finish("(+ renumbered models: features base+1..base+n for base 126 / 254 / 1020, judged by the small model's truth table: core) (+ CLI pass: the rebuilt binary's `core / anomalies` on a sample of the models, judged by the same oracles) every model of the C01 space x assumption lists of length 0..3 (all of length<=2 for n<=5, sampled length 3) x every candidate literal: get_core, core_dead/core/dead_with_assumptions, stream core (plain and per-candidate) vs truth table; corpus: core literal iff count of its complement is 0");
}
