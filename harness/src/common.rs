//! Shared plumbing: loading through the real loader, export of `ddnnf.nodes`, case/result files.
use crate::gen::GenFile;
use ddnnife::{Ddnnf, NodeType};
use std::collections::HashSet;
use std::fmt::Write as _;
use std::io::Write as _;
use std::panic::{catch_unwind, AssertUnwindSafe};

pub fn quiet_panics() {
    std::panic::set_hook(Box::new(|_| {}));
}

/// run `f`, turning a panic into Err(message)
pub fn guarded<T>(f: impl FnOnce() -> T) -> Result<T, String> {
    catch_unwind(AssertUnwindSafe(f)).map_err(|e| {
        if let Some(s) = e.downcast_ref::<&str>() { s.to_string() }
        else if let Some(s) = e.downcast_ref::<String>() { s.clone() }
        else { "panic".to_string() }
    })
}

pub fn load(file: &GenFile) -> Result<Ddnnf, String> {
    let lines = file.lines.clone();
    let tf = file.total_features();
    guarded(move || ddnnife::parser::distribute_building(lines, tf, None))
}

pub fn export_nodes(ddnnf: &Ddnnf) -> String {
    let mut s = String::new();
    writeln!(s, "circuit {}", ddnnf.number_of_variables).unwrap();
    for node in &ddnnf.nodes {
        match &node.ntype {
            NodeType::And { children } => { s.push('A'); for c in children { write!(s, " {}", c).unwrap(); } s.push('\n'); }
            NodeType::Or { children } => { s.push('O'); for c in children { write!(s, " {}", c).unwrap(); } s.push('\n'); }
            NodeType::Literal { literal } => writeln!(s, "L {}", literal).unwrap(),
            NodeType::True => s.push_str("T\n"),
            NodeType::False => s.push_str("F\n"),
        }
    }
    s.push_str("end\n");
    s
}

/// what the implementation claims about an exported array: it is well-formed (the driver decides that
/// with `wfB` + `litUniqueB`; truth-table determinism only for n <= 12) and has this count
pub fn circuit_line(d: &Ddnnf) -> String {
    let wf = if d.number_of_variables <= 12 { "true" } else { "struct" };
    format!("circuit nodes={} wf={} count={}", d.nodes.len(), wf, d.rc())
}

pub fn fmt_ints(xs: &[i32]) -> String { xs.iter().map(|x| x.to_string()).collect::<Vec<_>>().join(" ") }
pub fn fmt_cfgs(cs: &[Vec<i32>]) -> String {
    cs.iter().map(|c| { let mut c = c.clone(); c.sort_by_key(|l| l.abs()); fmt_ints(&c) }).collect::<Vec<_>>().join(";")
}

/// Collector of everything one harness run produces.
pub struct Out {
    pub dir: String,
    cases: std::io::BufWriter<std::fs::File>,
    impl_: std::io::BufWriter<std::fs::File>,
    pub lines: u64,
    pub evaluations: u64,
    pub distinct: HashSet<u64>,
    pub samples: Vec<String>,
    pub failures: Vec<String>,
    pub counters: std::collections::BTreeMap<String, u64>,
    pub max_failures: usize,
    /// the circuit of the current block has a true node directly below an or-node (or is a single true node): outside the side
    /// condition `EnumOK` under which the Lean models of enumerate_node / sample_node are stated; such circuits are judged by
    /// the oracle only for the request kinds that go through those functions
    pub outside_enumok: bool,
}

fn json_str(s: &str) -> String {
    let mut o = String::from("\"");
    for ch in s.chars() {
        match ch {
            '"' => o.push_str("\\\""), '\\' => o.push_str("\\\\"), '\n' => o.push_str("\\n"), '\t' => o.push_str("\\t"), '\r' => o.push_str("\\r"),
            c if (c as u32) < 0x20 => { write!(o, "\\u{:04x}", c as u32).unwrap(); }
            c => o.push(c),
        }
    }
    o.push('"');
    o
}

pub fn hash64(s: &str) -> u64 {
    let mut h: u64 = 0xcbf29ce484222325;
    for b in s.bytes() { h ^= b as u64; h = h.wrapping_mul(0x100000001b3); }
    h
}

impl Out {
    pub fn new(dir: &str) -> Out {
        std::fs::create_dir_all(dir).unwrap();
        Out {
            dir: dir.to_string(),
            cases: std::io::BufWriter::new(std::fs::File::create(format!("{dir}/cases.txt")).unwrap()),
            impl_: std::io::BufWriter::new(std::fs::File::create(format!("{dir}/impl.txt")).unwrap()),
            lines: 0, evaluations: 0, distinct: HashSet::new(), samples: Vec::new(), failures: Vec::new(),
            counters: Default::default(), max_failures: 50, outside_enumok: false,
        }
    }
    pub fn count(&mut self, key: &str, by: u64) { *self.counters.entry(key.to_string()).or_insert(0) += by; }
    /// a circuit block for the driver; `impl_line` is what the implementation claims for it
    pub fn circuit(&mut self, export: &str, impl_line: &str) {
        {
            let lines: Vec<&str> = export.lines().filter(|l| !l.starts_with("circuit") && *l != "end").collect();
            let is_true = |i: usize| lines.get(i).map(|l| *l == "T").unwrap_or(false);
            self.outside_enumok = lines.last().map(|l| *l == "T").unwrap_or(false)
                || lines.iter().any(|l| l.starts_with("O ") && l.split_whitespace().skip(1).filter_map(|x| x.parse::<usize>().ok()).any(is_true));
            if self.outside_enumok { self.count("circuits_outside_enumok_oracle_only_for_enum_and_sampling", 1); }
        }
        self.cases.write_all(export.as_bytes()).unwrap();
        writeln!(self.impl_, "{}", impl_line).unwrap();
        self.lines += 1;
    }
    /// a query for the driver with the implementation's answer
    pub fn query(&mut self, kind: &str, args: &str, impl_answer: &str) {
        if self.outside_enumok && matches!(kind, "enum" | "sample" | "enumok" | "cfgprep" | "msg" | "msgc") { return; }
        writeln!(self.cases, "q {} {}", kind, args).unwrap();
        writeln!(self.impl_, "{} {}", kind, impl_answer).unwrap();
        self.lines += 1;
    }
    /// raw line for the driver (no output expected)
    pub fn raw(&mut self, line: &str) { writeln!(self.cases, "{}", line).unwrap(); }
    pub fn eval(&mut self, nontrivial_key: Option<String>) {
        self.evaluations += 1;
        if let Some(k) = nontrivial_key { self.distinct.insert(hash64(&k)); }
    }
    pub fn sample(&mut self, s: String) { if self.samples.len() < 6 { self.samples.push(s); } }
    /// implementation vs oracle failure: `what` is a JSON object text
    pub fn fail(&mut self, kind: &str, input: &str, request: &str, got: &str, want: &str) {
        self.count("oracle_failures", 1);
        if self.failures.len() < self.max_failures {
            self.failures.push(format!("{{\"kind\":{},\"input\":{},\"request\":{},\"impl\":{},\"oracle\":{}}}",
                json_str(kind), json_str(input), json_str(request), json_str(got), json_str(want)));
        }
    }
    pub fn finish(mut self, rule: &str) {
        self.cases.flush().unwrap();
        self.impl_.flush().unwrap();
        let mut s = String::new();
        write!(s, "{{\"evaluations\":{},\"distinct_nontrivial\":{},\"driver_lines\":{},\"rule\":{},", self.evaluations, self.distinct.len(), self.lines, json_str(rule)).unwrap();
        write!(s, "\"samples\":[{}],", self.samples.iter().map(|x| json_str(x)).collect::<Vec<_>>().join(",")).unwrap();
        write!(s, "\"failures\":[{}],", self.failures.join(",")).unwrap();
        write!(s, "\"counters\":{{{}}}}}", self.counters.iter().map(|(k, v)| format!("{}:{}", json_str(k), v)).collect::<Vec<_>>().join(",")).unwrap();
        std::fs::write(format!("{}/result.json", self.dir), s).unwrap();
    }
}

pub struct Args { pub prop: String, pub tier: String, pub seed: u64, pub out: String, pub replay: Option<String> }
impl Args {
    pub fn thorough(&self) -> bool { self.tier == "thorough" }
}
