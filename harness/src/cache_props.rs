//! C12 clause-update / undo-update / save-cnf follow the edited CNF.
//! The real stream handler runs on a model loaded from a CNF (the reference compiler stands in for
//! d4 behind the hook); after every command the save-cnf output and the query battery are compared
//! with an abstract clause-set machine (`Spec`, written here, shares nothing with ddnnife), and the
//! observable state is handed to the Lean model of the clause cache.
use crate::battery::battery;
use crate::common::*;
use crate::refcomp::{self, cnf_text, cnf_tt, parse_cnf, Clause};
use crate::rng::Rng;
use ddnnife::Ddnnf;
use std::collections::BTreeSet;

type ClauseSet = BTreeSet<Clause>;

#[derive(Clone, Debug)]
pub enum Cmd { Update { t: Option<u32>, add: Vec<Clause>, rmv: Vec<Clause> }, Undo }

#[derive(Clone, Debug, PartialEq)]
pub enum Verdict { Accepted, RejectedMissing, RejectedConflict, RejectedBoundary }

#[derive(Clone, Debug)]
pub struct Spec { pub cur: (ClauseSet, u32), pub prev: Option<(ClauseSet, u32)> }

impl Spec {
    pub fn step(&mut self, c: &Cmd) -> Verdict {
        match c {
            Cmd::Undo => { if let Some(p) = self.prev.take() { let old = std::mem::replace(&mut self.cur, p); self.prev = Some(old); } Verdict::Accepted }
            Cmd::Update { t, add, rmv } => {
                if let Some(t) = t { if self.cur.0.iter().any(|cl| cl.iter().any(|l| l.unsigned_abs() > *t)) { return Verdict::RejectedConflict; } }
                let total = t.unwrap_or(self.cur.1);
                if add.iter().chain(rmv.iter()).any(|cl| cl.iter().any(|l| l.unsigned_abs() > total)) { return Verdict::RejectedBoundary; }
                let mut set = self.cur.0.clone();
                for r in rmv { if !set.remove(r) { return Verdict::RejectedMissing; } }
                for a in add { set.insert(a.clone()); }
                let old = std::mem::replace(&mut self.cur, (set, total));
                self.prev = Some(old);
                Verdict::Accepted
            }
        }
    }
}

fn fmt_clause(c: &Clause) -> String { c.iter().map(|l| l.to_string()).collect::<Vec<_>>().join(" ") }
fn fmt_set(s: &ClauseSet) -> String { s.iter().map(fmt_clause).collect::<Vec<_>>().join(" / ") }
fn fmt_list(s: &[Clause]) -> String { s.iter().map(fmt_clause).collect::<Vec<_>>().join(" / ") }

pub fn cmd_line(c: &Cmd) -> String {
    match c {
        Cmd::Undo => "undo-update".into(),
        Cmd::Update { t, add, rmv } => {
            // the three parameters in an order that depends on the content only (the protocol evaluates `t` first wherever it stands)
            let tp = t.map(|t| format!(" t {}", t)).unwrap_or_default();
            let ap = if add.is_empty() { String::new() } else { format!(" add{}", add.iter().map(|c| format!(" {} 0", fmt_clause(c))).collect::<String>()) };
            let rp = if rmv.is_empty() { String::new() } else { format!(" rmv{}", rmv.iter().map(|c| format!(" {} 0", fmt_clause(c))).collect::<String>()) };
            let h = (t.unwrap_or(0) as i64 + add.iter().chain(rmv.iter()).flat_map(|c| c.iter()).map(|l| *l as i64).sum::<i64>()).rem_euclid(3);
            match h { 0 => format!("clause-update{tp}{ap}{rp}"), 1 => format!("clause-update{ap}{rp}{tp}"), _ => format!("clause-update{rp}{tp}{ap}") }
        }
    }
}

fn cl(l: &[i32]) -> Clause { l.iter().copied().collect() }

struct Ctx<'a> { out: &'a mut Out, dir: String, rng: Rng, steps: u64 }

/// load a CNF text through the real loader (with the hook compiler)
fn load_cnf(dir: &str, text: &str) -> Result<Ddnnf, String> {
    let p = format!("{dir}/start.cnf");
    std::fs::write(&p, text).unwrap();
    guarded(|| Ddnnf::from_file(std::path::Path::new(&p), None))
}

fn save_cnf(d: &mut Ddnnf, dir: &str) -> Result<(u32, ClauseSet, usize), String> {
    let p = format!("{dir}/saved.cnf");
    let _ = std::fs::remove_file(&p);
    let r = guarded(|| d.handle_stream_msg(&format!("save-cnf p {p}")))?;
    if !r.is_empty() { return Err(format!("save-cnf answered {r:?}")); }
    let text = std::fs::read_to_string(&p).map_err(|e| e.to_string())?;
    let declared = text.lines().find(|l| l.starts_with('p')).and_then(|l| l.split_whitespace().nth(3)).and_then(|x| x.parse::<usize>().ok()).unwrap_or(usize::MAX);
    let (n, cls) = parse_cnf(&text);
    Ok((n, cls.into_iter().collect(), declared))
}

/// run one command on the real model, compare with the spec; returns false when the instance must not be used further
type Trace = Vec<(String, String, String)>;
fn step(ctx: &mut Ctx, d: &mut Ddnnf, spec: &mut Spec, start: &str, hist: &mut Vec<String>, trace: &mut Trace, c: &Cmd) -> bool {
    let line = cmd_line(c);
    hist.push(line.clone());
    let label = hist.join(" ; ");
    ctx.steps += 1;
    let before_nodes = export_nodes(d);
    let before_spec = spec.clone();
    let verdict = spec.step(c);
    // updates that make the formula unsatisfiable are outside the quantifier
    if verdict == Verdict::Accepted && cnf_tt(spec.cur.1, &spec.cur.0.iter().cloned().collect::<Vec<_>>()).count() == 0 { *spec = before_spec; hist.pop(); return true; }
    ctx.out.eval(Some(format!("{start}|{label}")));
    let reply = match guarded(|| d.handle_stream_msg(&line)) {
        Ok(r) => r,
        Err(e) => { ctx.out.fail("cache-panic", start, &label, &format!("panic: {e}"), "a reply"); return false; }
    };
    let accepted = reply.is_empty();
    let want_accept = verdict == Verdict::Accepted;
    ctx.out.count(&format!("verdict_{:?}", verdict), 1);
    if accepted != want_accept {
        ctx.out.fail("update-verdict", start, &label, &format!("reply {:?}", reply), &format!("{:?}", verdict));
        return false;
    }
    if !want_accept {
        let code_ok = match verdict { Verdict::RejectedBoundary => reply.starts_with("E3 "), _ => reply.starts_with("E5 ") };
        if !code_ok { ctx.out.fail("update-error-code", start, &label, &reply, &format!("{:?}", verdict)); }
        if export_nodes(d) != before_nodes { ctx.out.fail("rejected-update-changed-model", start, &label, "nodes changed", "unchanged"); }
    }
    // save-cnf: exactly the current clause set and feature count
    let saved = save_cnf(d, &ctx.dir);
    let impl_state = match &saved {
        Ok((n, set, declared)) => {
            if *n != spec.cur.1 || *set != spec.cur.0 || *declared != set.len() {
                ctx.out.fail("save-cnf-state", start, &label, &format!("p cnf {} {} : {}", n, declared, fmt_set(set)), &format!("p cnf {} {} : {}", spec.cur.1, spec.cur.0.len(), fmt_set(&spec.cur.0)));
            }
            format!("{} | {}", n, fmt_set(set)).trim_end().to_string()
        }
        Err(e) => { ctx.out.fail("save-cnf", start, &label, e, "file written"); "?".into() }
    };
    // the Lean clause-cache machine gets the same command
    let verdict_s = if accepted { "ok" } else if reply.contains("conflict") { "conflict" } else if reply.starts_with("E3") { "boundary" } else { "rejected" };
    let q = match c {
        Cmd::Undo => ("ccundo".to_string(), String::new(), format!("{verdict_s} {impl_state}")),
        Cmd::Update { t, add, rmv } => ("ccupdate".to_string(), format!("{} | {} | {}", t.map(|x| x.to_string()).unwrap_or("-".into()), fmt_list(add), fmt_list(rmv)), format!("{verdict_s} {impl_state}")),
    };
    ctx.out.query(&q.0, &q.1, &q.2);
    trace.push(q);
    // every query answers as for the spec's current CNF
    let tt = cnf_tt(spec.cur.1, &spec.cur.0.iter().cloned().collect::<Vec<_>>());
    let mut r = ctx.rng.fork();
    let bad = battery(d, &tt, &mut r);
    ctx.out.count("battery_runs", 1);
    if let Some((req, got, want)) = bad.first() {
        ctx.out.fail("query-after-update", start, &format!("{label} ; {req}"), got, want);
        return false;
    }
    true
}

/// the fixed command alphabet of a start CNF
fn alphabet(n: u32, s0: &ClauseSet, rng: &mut Rng) -> Vec<Cmd> {
    let existing: Vec<Clause> = s0.iter().cloned().collect();
    let mut fresh: Vec<Clause> = Vec::new();
    let mut guard = 0;
    while fresh.len() < 3 && guard < 200 {
        guard += 1;
        let w = 1 + rng.below(3.min(n as usize));
        let mut c = Clause::new();
        while c.len() < w { let v = 1 + rng.below(n as usize) as i32; if c.contains(&v) || c.contains(&-v) { continue; } c.insert(if rng.chance(0.5) { v } else { -v }); }
        if !s0.contains(&c) && !fresh.contains(&c) { fresh.push(c); }
    }
    while fresh.len() < 3 { fresh.push(cl(&[1, -1])); }
    let mut a = vec![
        Cmd::Undo,
        Cmd::Update { t: None, add: vec![fresh[0].clone()], rmv: vec![] },
        Cmd::Update { t: None, add: vec![], rmv: vec![fresh[0].clone()] },          // valid only after the add above
        Cmd::Update { t: None, add: vec![fresh[1].clone(), fresh[2].clone()], rmv: vec![] },
        Cmd::Update { t: Some(n + 1), add: vec![], rmv: vec![] },
        Cmd::Update { t: Some(n + 1), add: vec![cl(&[n as i32 + 1, -1])], rmv: vec![] },
        Cmd::Update { t: Some(n.saturating_sub(1).max(1)), add: vec![], rmv: vec![] },
        Cmd::Update { t: None, add: vec![], rmv: vec![fresh[2].clone()] },          // absent unless added
    ];
    if let Some(e) = existing.first() {
        a.push(Cmd::Update { t: None, add: vec![e.clone()], rmv: vec![] });          // add a clause that is already stored
        a.push(Cmd::Update { t: None, add: vec![], rmv: vec![e.clone()] });
        a.push(Cmd::Update { t: None, add: vec![fresh[1].clone()], rmv: vec![e.clone()] });
        a.push(Cmd::Update { t: None, add: vec![e.clone()], rmv: vec![e.clone()] }); // remove and re-add in one update
    }
    if existing.len() > 1 { a.push(Cmd::Update { t: None, add: vec![], rmv: vec![existing[1].clone(), existing[1].clone()] }); }
    a
}

fn explore(ctx: &mut Ctx, d: &Ddnnf, spec: &Spec, start: &str, hist: &Vec<String>, trace: &Trace, alpha: &[Cmd], depth: usize) {
    if depth == 0 { return; }
    for c in alpha {
        let mut d2 = d.clone();
        let mut s2 = spec.clone();
        let mut h2 = hist.clone();
        let mut t2 = trace.clone();
        // the driver follows one branch at a time: restart its machine and replay the prefix
        ctx.out.query("ccinit", start, "ok");
        for (k, a, r) in trace { ctx.out.query(k, a, r); }
        if step(ctx, &mut d2, &mut s2, start, &mut h2, &mut t2, c) { explore(ctx, &d2, &s2, start, &h2, &t2, alpha, depth - 1); }
    }
}

pub fn c12(a: &Args) {
    refcomp::install();
    let mut rng = Rng::new(a.seed);
    let mut out = Out::new(&a.out);
    let dir = a.out.clone();
    let mut ctx = Ctx { out: &mut out, dir, rng: rng.fork(), steps: 0 };
    // start CNFs
    let mut starts: Vec<(u32, Vec<Clause>, String)> = Vec::new();
    // small: all satisfiable clause sets over <= 2 variables (thorough) / a sample (quick), a few over 3 variables
    let lits2: Vec<Clause> = vec![cl(&[1]), cl(&[-1]), cl(&[2]), cl(&[-2]), cl(&[1, 2]), cl(&[1, -2]), cl(&[-1, 2]), cl(&[-1, -2])];
    for mask in 1u32..256 {
        if !a.thorough() && mask % 23 != 5 { continue; }
        let cls: Vec<Clause> = (0..8).filter(|i| mask >> i & 1 == 1).map(|i| lits2[i].clone()).collect();
        if cnf_tt(2, &cls).count() == 0 { continue; }
        starts.push((2, cls, "exhaustive-2".into()));
    }
    let nrand = if a.thorough() { 60 } else { 14 };
    for i in 0..nrand {
        let n = if i % 3 == 0 { 3 } else { 3 + rng.below(8) as u32 };
        loop {
            let m = 1 + rng.below((n as usize * 2).max(2));
            let mut cls = Vec::new();
            for _ in 0..m {
                let w = 1 + rng.below(3.min(n as usize));
                let mut c = Clause::new();
                while c.len() < w { let v = 1 + rng.below(n as usize) as i32; if c.contains(&v) || c.contains(&-v) { continue; } c.insert(if rng.chance(0.5) { v } else { -v }); }
                cls.push(c);
            }
            if rng.chance(0.15) { cls.push(cl(&[1, -1])); }          // a tautology in the input
            if rng.chance(0.15) { let c = cls[0].clone(); cls.push(c); } // a duplicate in the input
            if cnf_tt(n, &cls).count() > 0 { starts.push((n, cls, "random".into())); break; }
        }
    }
    // a stored clause set beyond a few hundred clauses (every clause contains the literal 1, so the set is satisfiable)
    for big in 0..(if a.thorough() { 3 } else { 1 }) {
        let n = 9 + big as u32;
        let mut set: std::collections::BTreeSet<Clause> = Default::default();
        while set.len() < 270 + 40 * big { let mut c = cl(&[1]); while c.len() < 4 { let v = 2 + rng.below(n as usize - 1) as i32; if c.contains(&v) || c.contains(&-v) { continue; } c.insert(if rng.chance(0.5) { v } else { -v }); } set.insert(c); }
        starts.push((n, set.into_iter().collect(), "large".into()));
    }
    for (si, (n, cls, origin)) in starts.iter().enumerate() {
        // every fifth start CNF is written with two clauses on some lines (the format is a stream of numbers)
        let text = if si % 5 == 4 && cls.len() >= 2 && origin != "large" { ctx.out.count("start_cnf_two_clauses_on_a_line", 1); crate::refcomp::cnf_text_layout(*n, cls, 2) } else { cnf_text(*n, cls) };
        let mut d = match load_cnf(&ctx.dir, &text) {
            Ok(d) => d,
            Err(e) => { ctx.out.fail("cnf-load-panic", &text, "load", &format!("panic: {e}"), "a model"); continue; }
        };
        ctx.out.count(&format!("start_{origin}"), 1);
        let input_tt = cnf_tt(*n, cls);
        // 1. save-cnf of the freshly loaded model: logically equivalent to the input, same feature count
        let (sn, sset, _) = match save_cnf(&mut d, &ctx.dir) {
            Ok(x) => x,
            Err(e) => { ctx.out.fail("save-cnf-initial", &text, "save-cnf", &e, "a CNF file"); continue; }
        };
        ctx.out.eval(Some(format!("{text}|initial")));
        if sn != *n || cnf_tt(sn, &sset.iter().cloned().collect::<Vec<_>>()) != input_tt {
            ctx.out.fail("save-cnf-not-equivalent", &text, "save-cnf", &format!("p cnf {} : {}", sn, fmt_set(&sset)), "a clause set equivalent to the input over the same features");
            continue;
        }
        let mut r = ctx.rng.fork();
        if let Some((req, got, want)) = battery(&mut d, &input_tt, &mut r).first() { ctx.out.fail("query-after-load", &text, req, got, want); continue; }
        let start = format!("{} | {}", sn, fmt_set(&sset));
        let spec = Spec { cur: (sset.clone(), sn), prev: None };
        let alpha = alphabet(sn, &sset, &mut rng);
        // exhaustive command trees
        let depth = if origin == "large" { 1 } else if a.thorough() { if *n <= 2 { 4 } else { 3 } } else if *n <= 2 { 3 } else { 2 };
        if origin != "large" { explore(&mut ctx, &d, &spec, &start, &Vec::new(), &Vec::new(), &alpha, depth); }
        // random longer sequences
        for _ in 0..(if origin == "large" { 2 } else if a.thorough() { 12 } else { 3 }) {
            let mut d2 = d.clone(); let mut s2 = spec.clone(); let mut h: Vec<String> = Vec::new(); let mut tr: Trace = Vec::new();
            ctx.out.query("ccinit", &start, "ok");
            for _ in 0..(5 + rng.below(8)) {
                let c = if rng.chance(0.7) { rng.pick(&alpha).clone() } else {
                    // a command relative to the current state
                    let curset: Vec<Clause> = s2.cur.0.iter().cloned().collect();
                    if !curset.is_empty() && rng.chance(0.5) { Cmd::Update { t: None, add: vec![], rmv: vec![rng.pick(&curset).clone()] } }
                    else { let v = 1 + rng.below(s2.cur.1 as usize) as i32; let w = 1 + rng.below(s2.cur.1 as usize) as i32; Cmd::Update { t: None, add: vec![cl(&[if rng.chance(0.5) { v } else { -v }, if rng.chance(0.5) { w } else { -w }])], rmv: vec![] } }
                };
                if !step(&mut ctx, &mut d2, &mut s2, &start, &mut h, &mut tr, &c) { break; }
            }
        }
        ctx.out.sample(format!("start CNF ({origin}) {}", text.replace('\n', " / ")));
    }
    let steps = ctx.steps;
    out.count("commands_run", steps);
    out.count("compiler_calls", refcomp::compile_calls());
    out.finish("start CNFs: satisfiable clause sets over 2 variables (all in thorough, a sample in quick), random CNFs with 3..10 variables incl. tautologies and duplicates, and a CNF with 270+ stored clauses over 9..11 variables (random command sequences only), loaded through the real loader with the self-validated reference compiler behind the hook; the initial save-cnf must be equivalent to the input; command trees over a fixed alphabet per start (undo, add fresh / stored clause, remove stored / absent / just-added clause, combined add+remove, remove+re-add, duplicate removal, t up / down / with a new variable) explored exhaustively to depth 2..4 from cloned instances, plus random sequences of 5..12 commands; after every command: accepted/rejected as the abstract clause-set machine says (error code checked), a rejected command leaves the node array unchanged, save-cnf writes exactly the machine's current clause set and feature count, the C01-C06 battery answers as the truth table of that clause set; the Lean clause-cache machine replays every history and must reach the same observable state");
}
