//! C14 stream ordering under workers, C15 parallel query files, C17 concurrent enumeration.
use crate::common::*;
use crate::enum_props::judge_history;
use crate::gen::{random_d4, GenFile};
use crate::rng::Rng;
use crate::tt::TT;
use ddnnife::Ddnnf;
use std::io::Write;
use std::process::{Command, Stdio};
use std::sync::{Arc, Mutex};

fn bin_path() -> String {
    std::env::var("VERIF_DDNNIFE_BIN").unwrap_or_else(|_| "/verif/.cache/target-bin/debug/ddnnife".into())
}

fn pick_model(rng: &mut Rng, min_count: u64) -> (GenFile, TT) {
    loop {
        let n = 5 + rng.below(5) as u32;
        let depth = 3 + rng.below(4) as u32;
        let (f, _) = random_d4(rng, n, depth);
        let tt = f.tt();
        if tt.count() >= min_count { return (f, tt); }
    }
}

fn write_model(dir: &str, name: &str, f: &GenFile) -> String {
    let p = format!("{dir}/{name}.nnf");
    std::fs::write(&p, f.text() + "\n").unwrap();
    p
}

/// requests that neither page nor edit, of widely varying cost
fn stream_line(rng: &mut Rng, n: u32, heavy: bool) -> String {
    let lits = |rng: &mut Rng, len: usize| -> String {
        fmt_ints(&(0..len).map(|_| { let v = 1 + rng.below(n as usize) as i32; if rng.chance(0.5) { v } else { -v } }).collect::<Vec<_>>())
    };
    let (l3, l4, l5) = (1 + rng.below(3), 1 + rng.below(4), 1 + rng.below(5));
    // input lines that are no request at all are lines too: each gets its (error) answer in its place
    if rng.chance(0.04) { return ["", " ", "\t", "count a", "frobnicate 1 2", "count a 1 b"][rng.below(6)].to_string(); }
    // a t-wise request now and then (its answer differs from run to run, so only its place in the output is compared)
    if !heavy && n <= 12 && rng.chance(0.03) { return format!("t-wise l {}", 1 + rng.below(2)); }
    match rng.below(if heavy { 9 } else { 6 }) {
        0 => "count".to_string(),
        1 => format!("count a {}", lits(rng, l3)),
        2 => format!("sat a {}", lits(rng, l4)),
        3 => format!("count a {} v {}", lits(rng, 1), lits(rng, l5)),
        4 => "core".to_string(),
        5 => format!("random l {} s {}", 1 + rng.below(20), rng.below(1000)),
        6 => "atomic".to_string(),
        7 => format!("random l {} s {}", 200 + rng.below(800), rng.below(1000)),
        _ => format!("count a {}", lits(rng, 25)),
    }
}

struct RunOut { stdout: Vec<String>, ok: bool, trace: Vec<String> }

fn run_stream(model: &str, n: u32, jobs: usize, lines: &[String], with_exit: bool, trace: Option<&str>, delay_seed: Option<u64>) -> RunOut {
    let mut cmd = Command::new(bin_path());
    cmd.args(["-i", model, "-t", &n.to_string(), "stream", "-j", &jobs.to_string()])
        .stdin(Stdio::piped()).stdout(Stdio::piped()).stderr(Stdio::null());
    if let Some(t) = trace { let _ = std::fs::remove_file(t); cmd.env("DDNNIFE_VERIF_TRACE", t); }
    if let Some(s) = delay_seed { cmd.env("DDNNIFE_VERIF_DELAY_SEED", s.to_string()); cmd.env("DDNNIFE_VERIF_DELAY_MAX_US", "1500"); }
    let mut child = cmd.spawn().expect("spawn ddnnife");
    {
        let mut stdin = child.stdin.take().unwrap();
        let mut payload = lines.join("\n");
        payload.push('\n');
        if with_exit { payload.push_str("exit\n"); }
        let _ = stdin.write_all(payload.as_bytes());
    }
    // watchdog: 60 s
    let start = std::time::Instant::now();
    let out = loop {
        match child.try_wait() {
            Ok(Some(_)) => break child.wait_with_output().ok(),
            Ok(None) => {
                if start.elapsed().as_secs() > 60 { let _ = child.kill(); break None; }
                std::thread::sleep(std::time::Duration::from_millis(5));
            }
            Err(_) => break None,
        }
    };
    let trace_lines = trace.and_then(|t| std::fs::read_to_string(t).ok()).map(|s| s.lines().map(|l| l.to_string()).collect()).unwrap_or_default();
    match out {
        Some(o) => RunOut { stdout: String::from_utf8_lossy(&o.stdout).lines().map(|l| l.to_string()).collect(), ok: o.status.success(), trace: trace_lines },
        None => RunOut { stdout: vec![], ok: false, trace: trace_lines },
    }
}

// the stdout reader above only drains after exit; for large outputs the pipe could fill.  Use a thread.
fn run_stream_big(model: &str, n: u32, jobs: usize, lines: &[String], with_exit: bool, trace: Option<&str>, delay_seed: Option<u64>) -> RunOut {
    let mut cmd = Command::new(bin_path());
    cmd.args(["-i", model, "-t", &n.to_string(), "stream", "-j", &jobs.to_string()])
        .stdin(Stdio::piped()).stdout(Stdio::piped()).stderr(Stdio::null());
    if let Some(t) = trace { let _ = std::fs::remove_file(t); cmd.env("DDNNIFE_VERIF_TRACE", t); }
    if let Some(s) = delay_seed { cmd.env("DDNNIFE_VERIF_DELAY_SEED", s.to_string()); cmd.env("DDNNIFE_VERIF_DELAY_MAX_US", "1500"); }
    let mut child = cmd.spawn().expect("spawn ddnnife");
    let mut stdin = child.stdin.take().unwrap();
    let mut payload = lines.join("\n");
    payload.push('\n');
    if with_exit { payload.push_str("exit\n"); }
    let writer = std::thread::spawn(move || { let _ = stdin.write_all(payload.as_bytes()); });
    let mut stdout = child.stdout.take().unwrap();
    let reader = std::thread::spawn(move || { let mut s = String::new(); use std::io::Read; let _ = stdout.read_to_string(&mut s); s });
    let start = std::time::Instant::now();
    let mut ok = false;
    loop {
        match child.try_wait() {
            Ok(Some(st)) => { ok = st.success(); break; }
            Ok(None) => { if start.elapsed().as_secs() > 90 { let _ = child.kill(); let _ = child.wait(); break; } std::thread::sleep(std::time::Duration::from_millis(5)); }
            Err(_) => break,
        }
    }
    let _ = writer.join();
    let s = reader.join().unwrap_or_default();
    let trace_lines = trace.and_then(|t| std::fs::read_to_string(t).ok()).map(|s| s.lines().map(|l| l.to_string()).collect()).unwrap_or_default();
    RunOut { stdout: s.lines().map(|l| l.to_string()).collect(), ok, trace: trace_lines }
}

pub fn c14(a: &Args) {
    let mut rng = Rng::new(a.seed);
    let mut out = Out::new(&a.out);
    let _ = run_stream; // small variant kept for replay use
    let runs = if a.thorough() { 160 } else { 28 };
    // a dummy circuit so that the driver has a context for `q trace`
    out.circuit("circuit 1\nL 1\nend\n", "circuit nodes=1 wf=true count=1");
    let vp9 = "/repo/ddnnife/tests/data/VP9_d4.nnf".to_string();
    // run several processes at once: CPU contention diversifies the schedules
    let results: Arc<Mutex<Vec<(String, String, String, String, Vec<String>, usize, bool, usize)>>> = Arc::new(Mutex::new(Vec::new()));
    let mut jobs_list = Vec::new();
    for r in 0..runs {
        let use_vp9 = r % 4 == 3;
        let (model_path, n) = if use_vp9 { (vp9.clone(), 42u32) } else {
            let (f, _) = pick_model(&mut rng, 4);
            (write_model(&a.out, &format!("m{r}"), &f), f.n)
        };
        let nlines = match r % 5 { 0 => 1 + rng.below(3), 1 => 10 + rng.below(40), 2 => 100 + rng.below(200), 3 => 400 + rng.below(600), _ => if a.thorough() { 1500 + rng.below(500) } else { 700 + rng.below(300) } };
        let lines: Vec<String> = (0..nlines).map(|_| stream_line(&mut rng, n, use_vp9 || nlines < 300)).collect();
        let j = match r % 6 { 0 => 2, 1 => 3, 2 => 4, 3 => 8, 4 => 1 + rng.below(32), _ => 32 };
        let with_exit = rng.chance(0.5);
        let delay = if r % 3 == 0 { None } else { Some(rng.next()) };
        jobs_list.push((r, model_path, n, lines, j, with_exit, delay));
    }
    // short batches of cheap requests with many workers: the last answer arrives while the main loop
    // reads `exit` / end of input (the answers of that round must still be printed)
    {
        let (f, _) = pick_model(&mut rng, 4);
        let small = write_model(&a.out, "tail", &f);
        let tails = if a.thorough() { 900 } else { 240 };
        for t in 0..tails {
            let nlines = 1 + rng.below(8);
            let lines: Vec<String> = (0..nlines).map(|_| if rng.chance(0.5) { "count".to_string() } else { format!("sat a {}", 1 + rng.below(f.n as usize)) }).collect();
            let j = *rng.pick(&[4usize, 8, 16, 24, 32, 32]);
            jobs_list.push((runs + t, small.clone(), f.n, lines, j, t % 2 == 0, None));
        }
    }
    // a straggler: one expensive request followed by more than a thousand cheap ones (the answers of the cheap
    // requests pile up in the reorder buffer while the expensive one is still running)
    {
        let (f, _) = pick_model(&mut rng, 16);
        let mpath = write_model(&a.out, "straggler", &f);
        let base = jobs_list.len();
        for t in 0..(if a.thorough() { 8 } else { 3 }) {
            let mut lines: Vec<String> = (0..5).map(|_| "count".to_string()).collect();
            lines.push(format!("random l {} s 7", if t % 2 == 0 { 100000 } else { 60000 }));
            for i in 0..(1100 + rng.below(400)) { lines.push(if i % 3 == 0 { "count".to_string() } else { format!("count a {}", 1 + (i % f.n as usize)) }); }
            let j = [4usize, 2, 8, 16, 3, 32, 6, 12][t % 8];
            jobs_list.push((base + t, mpath.clone(), f.n, lines, j, t % 2 == 0, None));
        }
    }
    // a very long session: 70 000 cheap requests (request numbers beyond 16 bits) with a few expensive ones in between
    {
        let (f, _) = pick_model(&mut rng, 4);
        let mpath = write_model(&a.out, "long", &f);
        let base = jobs_list.len();
        let mut lines: Vec<String> = Vec::with_capacity(70_050);
        for i in 0..70_000usize { lines.push(if i % 9973 == 17 { "random l 3000 s 5".to_string() } else if i % 2 == 0 { "count".to_string() } else { format!("sat a {}", 1 + (i % f.n as usize)) }); }
        jobs_list.push((base, mpath, f.n, lines, if a.thorough() { 8 } else { 4 }, true, None));
    }
    let outdir = a.out.clone();
    let par = 6;
    let chunks: Vec<Vec<_>> = (0..par).map(|k| jobs_list.iter().filter(|x| x.0 % par == k).cloned().collect()).collect();
    let mut handles = Vec::new();
    for chunk in chunks {
        let results = results.clone();
        let outdir = outdir.clone();
        handles.push(std::thread::spawn(move || {
            for (r, model_path, n, lines, j, with_exit, delay) in chunk {
                let reference = run_stream_big(&model_path, n, 1, &lines, with_exit, None, None);
                let tfile = format!("{outdir}/trace{r}.txt");
                let got = run_stream_big(&model_path, n, j, &lines, with_exit, Some(&tfile), delay);
                let _ = std::fs::remove_file(&tfile);
                let what = format!("{} -t {} stream -j {} ({} lines, exit={}, delay_seed={:?})", model_path, n, j, lines.len(), with_exit, delay);
                let input = lines.join("\n");
                results.lock().unwrap().push((what, input, got.stdout.join("\n"), reference.stdout.join("\n"), got.trace, lines.len(), got.ok && reference.ok, got.stdout.len()));
            }
        }));
    }
    for h in handles { let _ = h.join(); }
    let results = Arc::try_unwrap(results).unwrap().into_inner().unwrap();
    for (what, input, got, reference, trace, nlines, ok, got_lines) in results {
        out.eval(Some(what.clone()));
        out.count("stream_runs", 1);
        out.count("stream_lines", nlines as u64);
        if !ok { out.fail("stream-exit-status", &input, &what, "non-zero exit or timeout", "clean exit"); }
        if got_lines != nlines { out.fail("stream-missing-answers", &input, &what, &format!("{got_lines} output lines"), &format!("{nlines} output lines")); }
        // answers to t-wise requests are compared by position only
        let tw: Vec<bool> = input.lines().map(|l| l.starts_with("t-wise")).collect();
        let mask = |s: &str| s.lines().enumerate().map(|(i, l)| if tw.get(i).copied().unwrap_or(false) && !l.starts_with('E') { "<a t-wise sample>" } else { l }).collect::<Vec<_>>().join("\n");
        let (got, reference) = (mask(&got), mask(&reference));
        if got != reference {
            let idx = got.lines().zip(reference.lines()).position(|(x, y)| x != y).unwrap_or(0);
            out.fail("stream-order", &input, &what, &format!("line {idx}: {:?}", got.lines().nth(idx)), &format!("line {idx}: {:?}", reference.lines().nth(idx)));
        }
        // trace through the Lean state machine
        if !trace.is_empty() {
            let evs: Vec<String> = trace.iter().map(|l| { let mut p = l.split_whitespace(); let name = p.next().unwrap_or(""); let id = p.next().unwrap_or("0"); if name == "park" { "park".to_string() } else if name == "unpark" { "unpark".to_string() } else { format!("{name}:{id}") } }).collect();
            out.count("trace_events", evs.len() as u64);
            out.query("trace", &evs.join(" "), &format!("ok accepted={nlines} printed={nlines} inorder=true finished=true"));
        }
        if nlines < 5 { out.sample(format!("{what}: input {:?} -> {:?}", input, got)); }
    }
    out.finish("the real binary `ddnnife stream -j N` (N in 1..32) on batches of 1..2000 request lines of very different cost (and one session of 70 000 lines) (count, sat, core, per-variable count, seeded sampling up to 1000 samples, atomic sets, 25-literal counts), 6 processes at a time for CPU contention, two thirds of the runs with seeded delays at the pull/send/recv/print points; stdout compared with -j 1, one answer per line, clean exit on `exit` and on end of input; the event trace of every run is replayed through the Lean state machine (every event must be enabled; final state must have printed everything in order)");
}

// ------------------------------------------------------------------------------------------------
pub fn c15(a: &Args) {
    let mut rng = Rng::new(a.seed);
    let mut out = Out::new(&a.out);
    out.circuit("circuit 1\nL 1\nend\n", "circuit nodes=1 wf=true count=1");
    let runs = if a.thorough() { 150 } else { 30 };
    // seeded delays inside the worker closure
    let delay_seed = Arc::new(Mutex::new(0u64));
    {
        let ds = delay_seed.clone();
        ddnnife::verif_hooks::set_callback(Some(Box::new(move |name, id| {
            if name != "query" { return; }
            let s = *ds.lock().unwrap();
            if s == 0 { return; }
            let mut r = Rng::new(s ^ id.wrapping_mul(0x9E37));
            if r.chance(0.3) { std::thread::sleep(std::time::Duration::from_micros(r.below(800) as u64)); }
        })));
    }
    let vp9 = ddnnife::parser::build_ddnnf(std::path::Path::new("/repo/ddnnife/tests/data/VP9_d4.nnf"), Some(42));
    for r in 0..runs {
        let (mut d, n): (Ddnnf, u32) = if r % 3 == 2 { (vp9.clone(), 42) } else { let (f, _) = pick_model(&mut rng, 2); (load(&f).unwrap(), f.n) };
        let nq = match r % 6 { 0 => 0, 1 => 1 + rng.below(5), 2 => 50 + rng.below(100), 3 => 500 + rng.below(500), 4 => if a.thorough() { 4000 + rng.below(1000) } else { 1500 }, _ => 20 };
        let mut queries: Vec<String> = Vec::new();
        let mut normal: Vec<String> = Vec::new();
        for _ in 0..nq {
            let len = match rng.below(10) { 0 => 0, 1..=5 => 1 + rng.below(3), 6..=8 => 4 + rng.below(12), _ => 21 + rng.below(10) };
            let q: Vec<i32> = (0..len).map(|_| { let v = 1 + rng.below(n as usize) as i32; if rng.chance(0.5) { v } else { -v } }).collect();
            // mostly normal form; sometimes several blanks / a tab between the literals, an explicit '+', leading zeros
            // or blanks around the line (the printed query is the parsed one, whatever the worker count)
            let line = if rng.chance(0.12) && !q.is_empty() {
                let mut sline = String::new();
                if rng.chance(0.3) { sline.push(' '); }
                for (i, l) in q.iter().enumerate() {
                    if i > 0 { sline.push_str(match rng.below(3) { 0 => "  ", 1 => "\t", _ => " " }); }
                    match rng.below(4) { 0 if *l > 0 => sline.push_str(&format!("+{}", l)), 1 => sline.push_str(&(if *l < 0 { format!("-0{}", -l) } else { format!("0{}", l) })), _ => sline.push_str(&l.to_string()) }
                }
                if rng.chance(0.3) { sline.push(' '); }
                sline
            } else { fmt_ints(&q) };
            queries.push(line);
            normal.push(fmt_ints(&q));
            if rng.chance(0.1) { let dup = queries.last().unwrap().clone(); queries.push(dup); let dn = normal.last().unwrap().clone(); normal.push(dn); }
        }
        let qfile = format!("{}/queries{}.txt", a.out, r);
        std::fs::write(&qfile, queries.join("\n") + if queries.is_empty() { "" } else { "\n" }).unwrap();
        let use_sat = r % 4 == 1;
        let run = |d: &mut Ddnnf, j: u16| -> Result<Vec<u8>, String> {
            d.max_worker = j;
            let mut buf: Vec<u8> = Vec::new();
            let p = std::path::Path::new(&qfile);
            guarded(|| { if use_sat { d.operate_on_queries(Ddnnf::sat, p, &mut buf).unwrap(); } else { d.operate_on_queries(Ddnnf::execute_query, p, &mut buf).unwrap(); } }).map(|_| buf)
        };
        *delay_seed.lock().unwrap() = 0;
        let reference = run(&mut d, 1);
        for j in [2u16, 4, 1 + rng.below(32) as u16, 32] {
            *delay_seed.lock().unwrap() = if rng.chance(0.6) { rng.next() | 1 } else { 0 };
            out.eval(Some(format!("{}|{}|{}", qfile, j, r)));
            out.count("query_file_runs", 1);
            out.count("queries", queries.len() as u64);
            let got = run(&mut d, j);
            let what = format!("{} with {} queries, j={}", if use_sat { "sat" } else { "count-queries" }, queries.len(), j);
            match (&reference, &got) {
                (Ok(rf), Ok(g)) => {
                    if rf != g { out.fail("query-file-output", &queries.join("\n"), &what, &String::from_utf8_lossy(g).chars().take(300).collect::<String>(), &String::from_utf8_lossy(rf).chars().take(300).collect::<String>()); }
                    let nl = g.iter().filter(|b| **b == b'\n').count();
                    if nl != queries.len() { out.fail("query-file-lines", &queries.join("\n"), &what, &nl.to_string(), &queries.len().to_string()); }
                }
                (_, Err(e)) | (Err(e), _) => out.fail("query-file-panic", &queries.join("\n"), &what, e, "output"),
            }
        }
        // formatting against the model: a few lines of the reference output
        if let Ok(rf) = &reference {
            let text = String::from_utf8_lossy(rf).to_string();
            for (i, line) in text.lines().enumerate().take(6) {
                let ans = line.rsplit(',').next().unwrap_or("");
                out.query("fmtline", &format!("{} {}", ans, normal[i]), &format!("{}\\n", line));
            }
            if r < 3 { out.sample(format!("{} queries, e.g. {:?} -> {:?}", queries.len(), queries.first(), text.lines().next())); }
        }
        let _ = std::fs::remove_file(&qfile);
    }
    ddnnife::verif_hooks::set_callback(None);
    // the CLI: count-queries -j N and sat -j N against -j 1
    let (f, _) = pick_model(&mut rng, 2);
    let mp = write_model(&a.out, "cli_model", &f);
    let queries: Vec<String> = (0..300).map(|_| fmt_ints(&(0..1 + rng.below(4)).map(|_| { let v = 1 + rng.below(f.n as usize) as i32; if rng.chance(0.5) { v } else { -v } }).collect::<Vec<_>>())).collect();
    let qfile = format!("{}/cli_queries.txt", a.out);
    std::fs::write(&qfile, queries.join("\n") + "\n").unwrap();
    for op in ["count-queries", "sat"] {
        let run = |j: usize| -> Vec<u8> {
            let o = format!("{}/cli_out_{}_{}.csv", a.out, op, j);
            let _ = Command::new(bin_path()).args(["-i", &mp, "-t", &f.n.to_string(), "-o", &o, op, &qfile, "-j", &j.to_string()]).stdout(Stdio::null()).stderr(Stdio::null()).status();
            let r = std::fs::read(&o).unwrap_or_default();
            let _ = std::fs::remove_file(&o);
            r
        };
        let reference = run(1);
        for j in [2usize, 7, 32] {
            out.eval(Some(format!("cli {op} {j}")));
            let got = run(j);
            if got != reference || got.is_empty() { out.fail("cli-query-file-output", &queries.join("\n"), &format!("ddnnife {op} -j {j}"), &String::from_utf8_lossy(&got).chars().take(200).collect::<String>(), &String::from_utf8_lossy(&reference).chars().take(200).collect::<String>()); }
        }
    }
    out.finish("operate_on_queries (count and sat) in-process with j in {2,4,random 1..32,32} vs j=1 on query files of 0..5000 lines (empty lines, duplicates, 0..30 literals per query), with seeded delays in the worker closure for 60% of the runs; CLI count-queries / sat -j N vs -j 1; output formatting compared with the Lean model of the line format");
}

// ------------------------------------------------------------------------------------------------
thread_local! { static TID: std::cell::Cell<u64> = const { std::cell::Cell::new(u64::MAX) }; }

pub fn c17(a: &Args) {
    let mut rng = Rng::new(a.seed);
    let mut out = Out::new(&a.out);
    out.circuit("circuit 1\nL 1\nend\n", "circuit nodes=1 wf=true count=1");
    // controlled scheduling through the hook callback
    struct Ctl { log: Vec<(String, u64)>, pause_tid: Option<u64>, paused: bool, resume: bool }
    let ctl = Arc::new((Mutex::new(Ctl { log: vec![], pause_tid: None, paused: false, resume: false }), std::sync::Condvar::new()));
    {
        let ctl = ctl.clone();
        ddnnife::verif_hooks::set_callback(Some(Box::new(move |name, _| {
            let tid = TID.with(|t| t.get());
            if tid == u64::MAX { return; }
            let (m, cv) = &*ctl;
            let mut g = m.lock().unwrap();
            match name {
                "enum.after_read" => {
                    g.log.push(("r".into(), tid));
                    if g.pause_tid == Some(tid) {
                        g.paused = true;
                        cv.notify_all();
                        while !g.resume { g = cv.wait(g).unwrap(); }
                    }
                }
                "enum.before_write" => g.log.push(("w".into(), tid)),
                _ => {}
            }
        })));
    }
    let runs = if a.thorough() { 260 } else { 50 };
    for r in 0..runs {
        let (f, tt) = pick_model(&mut rng, 4);
        let Ok(base) = load(&f) else { continue };
        let nreq = 2 + rng.below(if r % 3 == 0 { 1 } else { 3 });
        let same_a = rng.chance(0.7);
        let count = tt.count() as usize;
        let amounts: Vec<usize> = (0..nreq).map(|_| 1 + rng.below(count.min(4))).collect();
        let assumptions: Vec<Vec<i32>> = (0..nreq).map(|i| if same_a || i == 0 { vec![] } else { let v = 1 + rng.below(f.n as usize) as i32; vec![if rng.chance(0.5) { v } else { -v }] }).collect();
        // the order of the full enumeration for A = [] (on a separate load, so the shared cursor is untouched)
        let full: Vec<Vec<i32>> = load(&f).unwrap().enumerate(&mut vec![], count + 1).unwrap_or_default();
        {
            let (m, _) = &*ctl;
            let mut g = m.lock().unwrap();
            g.log.clear(); g.pause_tid = Some(0); g.paused = false; g.resume = false;
        }
        // thread 0 is paused right after its cursor read; the others are started meanwhile
        let results: Arc<Mutex<Vec<(u64, Option<Vec<Vec<i32>>>)>>> = Arc::new(Mutex::new(Vec::new()));
        let mut handles = Vec::new();
        let spawn = |tid: u64, handles: &mut Vec<std::thread::JoinHandle<()>>| {
            let mut d = base.clone();
            let mut al = assumptions[tid as usize].clone();
            let k = amounts[tid as usize];
            let results = results.clone();
            handles.push(std::thread::spawn(move || {
                TID.with(|t| t.set(tid));
                let p = guarded(|| d.enumerate(&mut al, k)).unwrap_or(None);
                results.lock().unwrap().push((tid, p));
            }));
        };
        spawn(0, &mut handles);
        {
            let (m, cv) = &*ctl;
            let mut g = m.lock().unwrap();
            let deadline = std::time::Instant::now() + std::time::Duration::from_secs(5);
            while !g.paused && std::time::Instant::now() < deadline { g = cv.wait_timeout(g, std::time::Duration::from_millis(50)).unwrap().0; }
        }
        for t in 1..nreq as u64 { spawn(t, &mut handles); }
        std::thread::sleep(std::time::Duration::from_millis(if a.thorough() { 60 } else { 40 }));
        let finished_while_paused = results.lock().unwrap().len();
        {
            let (m, cv) = &*ctl;
            let mut g = m.lock().unwrap();
            g.resume = true;
            cv.notify_all();
        }
        for h in handles { let _ = h.join(); }
        let log: Vec<(String, u64)> = ctl.0.lock().unwrap().log.clone();
        let res = results.lock().unwrap().clone();
        out.eval(Some(format!("{}|{:?}|{:?}", f.text(), amounts, assumptions)));
        out.count("controlled_schedules", 1);
        out.count(if same_a { "same_assumptions" } else { "different_assumptions" }, 1);
        let req = format!("{} concurrent enumerate requests, amounts {:?}, assumptions {:?}, request 0 paused after its cursor read; observed cursor events {:?}", nreq, amounts, assumptions, log);
        if same_a {
            if finished_while_paused > 0 { out.count("completed_inside_foreign_section", finished_while_paused as u64); }
            // serialisability: in the order of the write events the pages must be consecutive slices
            let order: Vec<u64> = log.iter().filter(|e| e.0 == "w").map(|e| e.1).collect();
            let ks: Vec<usize> = order.iter().map(|t| amounts[*t as usize]).collect();
            let pages: Vec<Option<Vec<Vec<i32>>>> = order.iter().map(|t| res.iter().find(|x| x.0 == *t).and_then(|x| x.1.clone())).collect();
            if let Err(e) = judge_history(&tt, &[], &ks, &pages) {
                out.fail("concurrent-enumeration", &f.text(), &req, &format!("{e}; pages in write order {:?}", pages), "pages as if the requests had been processed one after another");
            }
            // the same events through the Lean lock machine: pages as index lists into the full enumeration
            let evs: Vec<String> = log.iter().map(|(k, t)| format!("{k}:{t}")).collect();
            let idx = |c: &Vec<i32>| full.iter().position(|x| x == c).map(|i| i.to_string()).unwrap_or("?".into());
            let impl_pages: Vec<String> = order.iter().zip(pages.iter()).map(|(t, p)| format!("{}:{}", t, p.as_ref().map(|p| p.iter().map(idx).collect::<Vec<_>>().join(",")).unwrap_or_default())).collect();
            out.query("enumlock", &format!("{} {} {}", count, amounts.iter().map(|k| k.to_string()).collect::<Vec<_>>().join(","), evs.join(" ")), &impl_pages.join(";"));
        } else {
            // different assumption sets: every answer is the first page of its own set
            for (t, p) in &res {
                if let Err(e) = judge_history(&tt, &assumptions[*t as usize], &[amounts[*t as usize]], &[p.clone()]) {
                    // requests sharing the key [] are judged together below
                    if assumptions.iter().filter(|x| **x == assumptions[*t as usize]).count() == 1 {
                        out.fail("concurrent-enumeration-other-key", &f.text(), &req, &e, "first page of its own assumption set");
                    }
                }
            }
        }
        if r < 3 { out.sample(req.clone()); }
    }
    ddnnife::verif_hooks::set_callback(None);
    // free running in process: the FIRST requests for fresh assumption keys, released together on clones of one
    // instance by a spin barrier (a cursor slot that is created lazily must not be created twice)
    {
        let (f, tt) = pick_model(&mut rng, 60);
        let n = f.n as i32;
        // distinct keys (sorted by |literal|, as the cursor map normalises them) with at least 8 models each
        let mut keys: Vec<Vec<i32>> = Vec::new();
        let lits: Vec<i32> = (1..=n).flat_map(|v| [v, -v]).collect();
        for &x in &lits { if tt.count_with(&[x]) >= 8 { keys.push(vec![x]); } }
        for (i, &x) in lits.iter().enumerate() { for &y in &lits[i + 1..] { if x.abs() != y.abs() && tt.count_with(&[x, y]) >= 8 { keys.push(vec![x, y]); } } }
        for (i, &x) in lits.iter().enumerate() { for (j, &y) in lits.iter().enumerate().skip(i + 1) { for &z in &lits[j + 1..] { if x.abs() != y.abs() && y.abs() != z.abs() && x.abs() != z.abs() && tt.count_with(&[x, y, z]) >= 8 && keys.len() < 4000 { keys.push(vec![x, y, z]); } } } }
        let reps = if a.thorough() { 6 } else { 2 };
        let threads = 4usize;
        let mut violations = 0u64;
        for rep in 0..reps {
            let fresh = load(&f).unwrap();           // no key has a cursor yet
            let keys = Arc::new(keys.clone());
            let gate = Arc::new(std::sync::atomic::AtomicUsize::new(0));
            let mut hs = Vec::new();
            for _ in 0..threads {
                let mut d = fresh.clone();
                let keys = keys.clone();
                let gate = gate.clone();
                hs.push(std::thread::spawn(move || {
                    let mut res: Vec<Option<Vec<Vec<i32>>>> = Vec::with_capacity(keys.len());
                    for (r, k) in keys.iter().enumerate() {
                        gate.fetch_add(1, std::sync::atomic::Ordering::SeqCst);
                        while gate.load(std::sync::atomic::Ordering::SeqCst) < (r + 1) * 4 { std::hint::spin_loop(); }
                        let mut a2 = k.clone();
                        res.push(guarded(|| d.enumerate(&mut a2, 2)).ok().flatten());
                    }
                    res
                }));
            }
            let all: Vec<Vec<Option<Vec<Vec<i32>>>>> = hs.into_iter().map(|h| h.join().unwrap_or_default()).collect();
            for (r, k) in keys.iter().enumerate() {
                out.count("first_request_races", 1);
                if rep == 0 && r < 60 { out.eval(Some(format!("first-requests|{:?}", k))); } else { out.eval(None); }
                let pages: Vec<&Option<Vec<Vec<i32>>>> = all.iter().filter_map(|t| t.get(r)).collect();
                let mut seen = std::collections::HashSet::new();
                let mut ok = pages.len() == threads && pages.iter().all(|p| p.as_ref().map(|p| p.len() == 2).unwrap_or(false));
                for p in pages.iter().filter_map(|p| p.as_ref()) { for c in p { let mut c2 = c.clone(); c2.sort_by_key(|l| l.abs()); if !seen.insert(c2.clone()) { ok = false; } if tt.index_of(&c2).map(|i| !tt.bits[i]).unwrap_or(true) || !k.iter().all(|l| c2.contains(l)) { ok = false; } } }
                if !ok { violations += 1; if violations <= 2 { out.fail("concurrent-first-requests", &f.text(), &format!("4 threads on clones of a fresh instance, each enumerate({:?}, 2), released together", k), &format!("{:?}", pages), "four disjoint pages of two models containing the assumptions"); } }
            }
        }
        out.count("first_request_violations", violations);
    }
    // free running: stream -j N fed several `enum l k` lines (workers share the cursor of the loaded model)
    let free_runs = if a.thorough() { 60 } else { 12 };
    for r in 0..free_runs {
        let (f, tt) = pick_model(&mut rng, 6);
        let mp = write_model(&a.out, &format!("enum{r}"), &f);
        let count = tt.count() as usize;
        let nreq = 2 + rng.below(5);
        let ks: Vec<usize> = (0..nreq).map(|_| 1 + rng.below(3)).collect();
        let lines: Vec<String> = ks.iter().map(|k| format!("enum l {}", k)).collect();
        let j = 2 + rng.below(3);
        let got = run_stream_big(&mp, f.n, j, &lines, true, None, Some(rng.next()));
        out.eval(Some(format!("{}|{:?}|{}", f.text(), ks, j)));
        out.count("free_running_stream_runs", 1);
        let what = format!("stream -j {} with lines {:?} (count = {})", j, lines, count);
        if got.stdout.len() != nreq { out.fail("concurrent-enumeration-stream", &f.text(), &what, &format!("{} answers", got.stdout.len()), &format!("{nreq} answers")); continue; }
        // some order of the answers must be a valid sequential history: sort by first configuration's position
        let full: Vec<Vec<i32>> = load(&f).unwrap().enumerate(&mut vec![], count + 1).unwrap_or_default();
        let pages: Vec<Vec<Vec<i32>>> = got.stdout.iter().map(|l| l.split(';').map(|c| c.split_whitespace().filter_map(|x| x.parse().ok()).collect()).collect()).collect();
        // try all permutations for <= 6 requests: exists order with valid history
        let mut idxs: Vec<usize> = (0..nreq).collect();
        let mut found = false;
        permute(&mut idxs, 0, &mut |perm| {
            if found { return; }
            let k2: Vec<usize> = perm.iter().map(|i| ks[*i]).collect();
            let p2: Vec<Option<Vec<Vec<i32>>>> = perm.iter().map(|i| Some(pages[*i].clone())).collect();
            if judge_history(&tt, &[], &k2, &p2).is_ok() { found = true; }
        });
        let _ = full;
        if !found { out.fail("concurrent-enumeration-stream", &f.text(), &what, &format!("{:?}", got.stdout), "answers that are the pages of some sequential order of the requests"); }
    }
    // several cycles on worker clones: requests handed to 2..4 clones in turn (a legal schedule) over three and
    // more whole cycles must give the pages one model gives for the same requests in the same order; then the
    // same number of truly concurrent requests adding up to whole cycles: every model equally often
    TID.with(|t| t.set(u64::MAX));
    for r in 0..(if a.thorough() { 120 } else { 30 }) {
        let (f, tt) = pick_model(&mut rng, 4);
        let Ok(base) = load(&f) else { continue };
        let count = tt.count() as usize;
        if count == 0 || count > 64 { continue; }
        let nclones = 2 + rng.below(3);
        let mut clones: Vec<Ddnnf> = (0..nclones).map(|_| base.clone()).collect();
        let Ok(mut single) = load(&f) else { continue };
        let amount = if r % 2 == 0 { 1 + rng.below(count.min(4)) } else { [1usize, 2, count][rng.below(3)].min(count) };
        let nreq = (3 * count).div_ceil(amount) + 2;
        let what = format!("{nreq} x enumerate([], {amount}) handed to {nclones} clones in turn ({count} models)");
        out.eval(Some(format!("{}|{}", f.text(), what)));
        out.count("multi_cycle_runs", 1);
        // in every other run a further clone is edited in the middle of the cycles (a model-changing request handled by
        // another worker): the edited clone goes its own way, the paging of its siblings is not disturbed
        let edit_at = if r % 2 == 1 { Some(1 + rng.below(nreq - 1)) } else { None };
        for i in 0..nreq {
            if Some(i) == edit_at {
                let mut extra = clones[rng.below(nclones)].clone();
                let v = 1 + rng.below(f.n as usize) as i32;
                let lit = if rng.chance(0.5) { v } else { -v };
                let _ = crate::edit_props::apply(&mut extra, vec![(vec![lit], ddnnife::parser::intermediate_representation::ClauseApplication::Add)]);
                let _ = guarded(|| extra.enumerate(&mut vec![], amount));
                out.count("sibling_edited_mid_cycle", 1);
            }
            let c = &mut clones[i % nclones];
            let got = guarded(|| c.enumerate(&mut vec![], amount)).unwrap_or(None);
            let want = single.enumerate(&mut vec![], amount);
            if got != want { out.fail("enumeration-on-clones", &f.text(), &format!("{what}; request {i}"), &format!("{:?}", got), &format!("{:?}", want)); break; }
        }
        // the same with an assumption set of two literals whose order changes from request to request (one cursor per SET)
        if f.n >= 2 {
            let (v1, v2) = (1 + rng.below(f.n as usize) as i32, 1 + rng.below(f.n as usize) as i32);
            let aset = vec![if rng.chance(0.5) { v1 } else { -v1 }, if rng.chance(0.5) { v2 } else { -v2 }];
            let ca = tt.count_with(&aset) as usize;
            if v1 != v2 && ca >= 2 {
                let k = 1 + rng.below(ca.min(3));
                let total_req = (2 * ca).div_ceil(k) + 1;
                let mut seen: std::collections::HashSet<Vec<i32>> = Default::default();
                let mut served = 0usize;
                let what2 = format!("{total_req} x enumerate({:?} in alternating order, {k}) handed to {nclones} clones in turn ({ca} models)", aset);
                out.eval(Some(format!("{}|{}", f.text(), what2)));
                for i in 0..total_req {
                    let mut al = aset.clone();
                    if i % 2 == 1 { al.reverse(); }
                    let c = &mut clones[(i + 1) % nclones];
                    match guarded(|| c.enumerate(&mut al, k)) {
                        Ok(Some(page)) => {
                            let want = k.min(ca - served);
                            let bad = page.len() != want || page.iter().any(|cfg| !seen.insert(cfg.clone()));
                            if bad { out.fail("enumeration-on-clones", &f.text(), &format!("{what2}; request {i}"), &format!("{:?}", page), &format!("{want} models not yet returned in this cycle")); break; }
                            served += page.len();
                            if served == ca { served = 0; seen.clear(); }
                        }
                        other => { out.fail("enumeration-on-clones", &f.text(), &format!("{what2}; request {i}"), &format!("{:?}", other), "a page"); break; }
                    }
                }
            }
        }
        // concurrent: amount divides count => `cycles` whole cycles in total, each model handed out `cycles` times
        if count % amount == 0 {
            let cycles = 2 + rng.below(2);
            let total_req = cycles * (count / amount);
            let fresh = base.clone();
            let handed: Arc<Mutex<Vec<Vec<i32>>>> = Arc::new(Mutex::new(Vec::new()));
            let next = Arc::new(std::sync::atomic::AtomicUsize::new(0));
            let hs: Vec<_> = (0..nclones).map(|_| { let mut d = fresh.clone(); let handed = handed.clone(); let next = next.clone(); std::thread::spawn(move || {
                while next.fetch_add(1, std::sync::atomic::Ordering::SeqCst) < total_req {
                    if let Ok(Some(p)) = guarded(|| d.enumerate(&mut vec![], amount)) { handed.lock().unwrap().extend(p); }
                } }) }).collect();
            for h in hs { let _ = h.join(); }
            let mut tally: std::collections::HashMap<Vec<i32>, usize> = std::collections::HashMap::new();
            for c in handed.lock().unwrap().iter() { *tally.entry(c.clone()).or_default() += 1; }
            if tally.len() != count || tally.values().any(|&k| k != cycles) {
                let mut v: Vec<usize> = tally.values().copied().collect(); v.sort();
                out.fail("concurrent-enumeration-cycles", &f.text(), &format!("{total_req} concurrent enumerate([], {amount}) on {nclones} clones = {cycles} whole cycles"), &format!("{} distinct configurations, multiplicities {:?}", tally.len(), v), &format!("{count} configurations, each {cycles} times"));
            }
        }
    }
    out.finish("controlled: 2..4 concurrent Ddnnf::enumerate calls on clones (same and different assumption sets), request 0 paused by the hook right after its cursor read while the others are started; pages judged in cursor-write order as a sequential history and the observed read/write events replayed through the Lean lock machine; free-running: `stream -j 2..4` fed 2..6 `enum l k` lines with seeded delays, answers must be the pages of some sequential order; several whole cycles on 2..4 clones: requests in turn vs one model, and concurrent requests adding up to whole cycles (every model equally often)");
}

fn permute(xs: &mut Vec<usize>, k: usize, f: &mut dyn FnMut(&[usize])) {
    if k == xs.len() { f(xs); return; }
    for i in k..xs.len() { xs.swap(k, i); permute(xs, k + 1, f); xs.swap(k, i); }
}
