//! Reference CNF -> decision-DNNF compiler (d4 text format).  It stands in for the external d4
//! library behind the `ddnnife_verif` hook `set_cnf_compiler`.  It is NOT trusted: every file it
//! emits is compared with the truth table of the CNF before it is handed to ddnnife
//! (`install` panics with "reference compiler self-check failed" otherwise, n <= 16).
//!
//! Output conventions follow d4: `o`/`a`/`t`/`f` node lines, edges `src dst lits.. 0`; an or-node is
//! a decision (two edges carrying the decision literal and the literals implied by unit
//! propagation) or a single edge carrying implied literals only; and-nodes decompose variable-
//! disjoint components; variables that do not matter are simply not mentioned.
use crate::gen::eval_d4_text;
use crate::tt::{lit_true, TT};
use std::collections::{BTreeSet, HashMap};

pub type Clause = BTreeSet<i32>;

pub fn parse_cnf(text: &str) -> (u32, Vec<Clause>) {
    // DIMACS proper: after the problem line the file is a stream of numbers, every 0 ends a clause (several clauses may share
    // a line, as d4 reads it)
    let mut n = 0u32;
    let mut clauses = Vec::new();
    let mut c = Clause::new();
    for line in text.lines() {
        let line = line.trim();
        if line.is_empty() || line.starts_with('c') { continue; }
        if line.starts_with('p') {
            let t: Vec<&str> = line.split_whitespace().collect();
            n = t[2].parse().unwrap();
            continue;
        }
        for t in line.split_whitespace() {
            let v: i32 = t.parse().unwrap();
            if v == 0 { clauses.push(std::mem::take(&mut c)); } else { c.insert(v); }
        }
    }
    (n, clauses)
}

/// the same clause list in another legal layout: now and then two clauses share a line
pub fn cnf_text_layout(n: u32, clauses: &[Clause], pair_every: usize) -> String {
    let mut s = format!("p cnf {} {}\n", n, clauses.len());
    for (i, c) in clauses.iter().enumerate() {
        for l in c { s.push_str(&format!("{} ", l)); }
        s.push('0');
        s.push(if pair_every > 0 && i % pair_every == 0 && i + 1 < clauses.len() { ' ' } else { '\n' });
    }
    s
}

pub fn cnf_text(n: u32, clauses: &[Clause]) -> String {
    let mut s = format!("p cnf {} {}\n", n, clauses.len());
    for c in clauses { for l in c { s.push_str(&format!("{} ", l)); } s.push_str("0\n"); }
    s
}

pub fn cnf_tt(n: u32, clauses: &[Clause]) -> TT {
    TT::from_fn(n, |k| clauses.iter().all(|c| c.iter().any(|&l| lit_true(n, k, l))))
}

struct Comp { kinds: Vec<char>, edges: Vec<(usize, usize, Vec<i32>)>, memo: HashMap<Vec<Vec<i32>>, usize>, t: Option<usize>, f: Option<usize>, var_order: Vec<u32> }

impl Comp {
    fn node(&mut self, k: char) -> usize { self.kinds.push(k); self.kinds.len() - 1 }
    fn tnode(&mut self) -> usize { if let Some(t) = self.t { t } else { let t = self.node('t'); self.t = Some(t); t } }
    fn fnode(&mut self) -> usize { if let Some(f) = self.f { f } else { let f = self.node('f'); self.f = Some(f); f } }

    /// unit propagation: (implied literals, remaining clauses) or None on conflict
    fn propagate(mut clauses: Vec<Vec<i32>>, mut units: Vec<i32>) -> Option<(Vec<i32>, Vec<Vec<i32>>)> {
        let mut implied: Vec<i32> = Vec::new();
        loop {
            for c in &clauses { if c.len() == 1 && !units.contains(&c[0]) { units.push(c[0]); } }
            if units.is_empty() { break; }
            let u = units.remove(0);
            if implied.contains(&-u) { return None; }
            if !implied.contains(&u) { implied.push(u); }
            let mut next = Vec::new();
            for c in clauses {
                if c.contains(&u) { continue; }
                let r: Vec<i32> = c.into_iter().filter(|&l| l != -u).collect();
                if r.is_empty() { return None; }
                next.push(r);
            }
            clauses = next;
        }
        Some((implied, clauses))
    }

    fn components(clauses: &[Vec<i32>]) -> Vec<Vec<Vec<i32>>> {
        let mut comp_of: Vec<usize> = (0..clauses.len()).collect();
        fn find(c: &mut Vec<usize>, i: usize) -> usize { if c[i] != i { let r = find(c, c[i]); c[i] = r; } c[i] }
        let mut owner: HashMap<u32, usize> = HashMap::new();
        for (i, c) in clauses.iter().enumerate() {
            for l in c {
                let v = l.unsigned_abs();
                if let Some(&j) = owner.get(&v) { let (a, b) = (find(&mut comp_of, i), find(&mut comp_of, j)); comp_of[a] = b; } else { owner.insert(v, i); }
            }
        }
        let mut groups: Vec<(usize, Vec<Vec<i32>>)> = Vec::new();
        for (i, c) in clauses.iter().enumerate() {
            let r = find(&mut comp_of, i);
            if let Some(g) = groups.iter_mut().find(|g| g.0 == r) { g.1.push(c.clone()); } else { groups.push((r, vec![c.clone()])); }
        }
        groups.into_iter().map(|g| g.1).collect()
    }

    /// compiles a clause set without unit clauses (after propagation); returns a node
    fn compile(&mut self, clauses: Vec<Vec<i32>>) -> usize {
        if clauses.is_empty() { return self.tnode(); }
        let mut key = clauses.clone();
        for c in key.iter_mut() { c.sort(); }
        key.sort();
        key.dedup();
        if let Some(&i) = self.memo.get(&key) { return i; }
        let comps = Self::components(&key);
        let id = if comps.len() > 1 {
            let a = self.node('a');
            for comp in comps { let c = self.compile(comp); self.edges.push((a, c, vec![])); }
            a
        } else {
            // decision on the first variable of the preferred order that occurs
            let x = *self.var_order.iter().find(|v| key.iter().any(|c| c.iter().any(|l| l.unsigned_abs() == **v))).unwrap() as i32;
            let o = self.node('o');
            for d in [x, -x] {
                match Self::propagate(key.clone(), vec![d]) {
                    None => { let f = self.fnode(); self.edges.push((o, f, vec![d])); }
                    Some((implied, rest)) => { let c = self.compile(rest); self.edges.push((o, c, implied)); }
                }
            }
            o
        };
        self.memo.insert(key, id);
        id
    }
}

/// the d4 text (lines) of a decision-DNNF of the CNF; root is node 1
pub fn compile_cnf(n: u32, clauses: &[Clause], var_order: Option<Vec<u32>>) -> Vec<String> {
    let mut c = Comp { kinds: Vec::new(), edges: Vec::new(), memo: HashMap::new(), t: None, f: None, var_order: var_order.unwrap_or_else(|| (1..=n.max(1)).collect()) };
    // make sure every variable that occurs is in the order
    for cl in clauses { for l in cl { if !c.var_order.contains(&l.unsigned_abs()) { c.var_order.push(l.unsigned_abs()); } } }
    let cls: Vec<Vec<i32>> = clauses.iter().filter(|cl| !cl.iter().any(|l| cl.contains(&-l))).map(|cl| cl.iter().copied().collect()).collect();
    let root = c.node('o');
    if cls.iter().any(|cl| cl.is_empty()) {
        let f = c.fnode(); c.edges.push((root, f, vec![]));
    } else {
        match Comp::propagate(cls, vec![]) {
            None => { let f = c.fnode(); c.edges.push((root, f, vec![])); }
            Some((implied, rest)) => { let ch = c.compile(rest); c.edges.push((root, ch, implied)); }
        }
    }
    let mut lines = Vec::new();
    for (i, k) in c.kinds.iter().enumerate() { lines.push(format!("{} {} 0", k, i + 1)); }
    for (from, to, lits) in &c.edges {
        let mut l = format!("{} {}", from + 1, to + 1);
        for x in lits { l.push_str(&format!(" {}", x)); }
        l.push_str(" 0");
        lines.push(l);
    }
    lines
}

static COMPILES: std::sync::atomic::AtomicU64 = std::sync::atomic::AtomicU64::new(0);
pub fn compile_calls() -> u64 { COMPILES.load(std::sync::atomic::Ordering::Relaxed) }

/// installs the reference compiler behind ddnnife's hook; every output is self-checked (n <= 16)
pub fn install() {
    ddnnife::verif_hooks::set_cnf_compiler(Some(Box::new(|cnf, out| {
        let text = std::fs::read_to_string(cnf).expect("read cnf");
        let (n, clauses) = parse_cnf(&text);
        let lines = compile_cnf(n, &clauses, None);
        if n <= 16 {
            let want = cnf_tt(n, &clauses);
            let got = eval_d4_text(&lines, n);
            if want != got { panic!("reference compiler self-check failed on {:?}", text); }
        }
        COMPILES.fetch_add(1, std::sync::atomic::Ordering::Relaxed);
        std::fs::write(out, lines.join("\n") + "\n").expect("write ddnnf");
    })));
}
