//! The command line front end (`ddnnife_bin`) as a second observation point of C01, C03, C04, C05, C07, C08,
//! C09 and C19: the binary rebuilt from /repo's working tree is run on the model file and its output is
//! judged by the same truth-table oracles as the library calls.
use crate::common::*;
use crate::gen::{Fmt, GenFile};
use crate::rng::Rng;
use crate::tt::TT;
use std::process::{Command, Stdio};

fn bin_path() -> String {
    std::env::var("VERIF_DDNNIFE_BIN").unwrap_or_else(|_| "/verif/.cache/target-bin/debug/ddnnife".into())
}

/// run `ddnnife -i FILE [-t n] <args>`; `None` if the process does not exit with status 0
fn run(model: &str, file: &GenFile, args: &[String]) -> Option<String> {
    let mut cmd = Command::new(bin_path());
    cmd.arg("-i").arg(model);
    if matches!(file.fmt, Fmt::D4) { cmd.arg("-t").arg(file.n.to_string()); }
    cmd.args(args).stdin(Stdio::null()).stderr(Stdio::null());
    let o = cmd.output().ok()?;
    if !o.status.success() { return None; }
    Some(String::from_utf8_lossy(&o.stdout).to_string())
}

fn rand_lits(rng: &mut Rng, n: u32, lo: usize, span: usize) -> Vec<i32> {
    let len = lo + rng.below(span);
    // distinct variables (the command line takes lists as they are)
    let mut vs: Vec<i32> = (1..=n as i32).collect();
    rng.shuffle(&mut vs);
    vs.truncate(len.min(n as usize));
    vs.into_iter().map(|v| if rng.chance(0.5) { v } else { -v }).collect()
}

/// `what`: one of count, sat, count-features, core, anomalies, atomic-sets, urs, t-wise, to-cnf
pub fn cli(out: &mut Out, dir: &str, file: &GenFile, tt: &TT, rng: &mut Rng, what: &str) {
    let n = file.n;
    let model = format!("{dir}/cli_model.{}", if matches!(file.fmt, Fmt::D4) { "nnf" } else { "c2d.nnf" });
    std::fs::write(&model, file.text()).unwrap();
    let text = file.text();
    out.count(&format!("cli_{}", what.replace('-', "_")), 1);
    let s = |v: &[i32]| -> Vec<String> { v.iter().map(|x| x.to_string()).collect() };
    match what {
        "count" => {
            let a = rand_lits(rng, n, 0, 4);
            let mut args = vec!["count".to_string()];
            args.extend(s(&a));
            let req = format!("CLI count {:?}", a);
            out.eval(Some(format!("{text}|{req}")));
            match run(&model, file, &args) {
                None => out.fail("cli-count", &text, &req, "non-zero exit", "a count"),
                Some(o) => { let want = tt.count_with(&a).to_string(); if o.trim() != want { out.fail("cli-count", &text, &req, o.trim(), &want); } }
            }
        }
        "sat" | "count-queries" => {
            let nq = 1 + rng.below(6);
            let mut qs: Vec<Vec<i32>> = Vec::new();
            for _ in 0..nq {
                let mut q = rand_lits(rng, n, 1, 3);
                // query lines are taken as they are: repeated literals (adjacent or not) and contradictions included
                if rng.chance(0.3) { let l = q[0]; q.push(l); }
                if rng.chance(0.15) { let l = q[rng.below(q.len())]; q.insert(0, l); }
                if rng.chance(0.1) { let l = -q[0]; q.push(l); }
                qs.push(q);
            }
            let qfile = format!("{dir}/cli_queries.txt");
            std::fs::write(&qfile, qs.iter().map(|q| s(q).join(" ")).collect::<Vec<_>>().join("\n") + "\n").unwrap();
            let j = 1 + rng.below(4);
            let req = format!("CLI {what} {:?} -j {j}", qs);
            out.eval(Some(format!("{text}|{req}")));
            match run(&model, file, &[what.to_string(), qfile.clone(), "-j".into(), j.to_string()]) {
                None => out.fail("cli-queries", &text, &req, "non-zero exit", "one line per query"),
                Some(o) => {
                    let lines: Vec<&str> = o.lines().collect();
                    if lines.len() != qs.len() { out.fail("cli-queries", &text, &req, &format!("{} lines", lines.len()), &format!("{} lines", qs.len())); return; }
                    for (q, l) in qs.iter().zip(lines) {
                        let (lhs, rhs) = l.rsplit_once(',').unwrap_or(("", l));
                        let want = if what == "sat" { (tt.count_with(q) > 0).to_string() } else { tt.count_with(q).to_string() };
                        if rhs.trim() != want || lhs.trim() != s(q).join(" ") { out.fail("cli-queries", &text, &req, l, &format!("{},{}", s(q).join(" "), want)); break; }
                    }
                }
            }
        }
        "count-features" => {
            let req = "CLI count-features".to_string();
            out.eval(Some(format!("{text}|{req}")));
            match run(&model, file, &["count-features".to_string()]) {
                None => out.fail("cli-count-features", &text, &req, "non-zero exit", "a table"),
                Some(o) => {
                    let lines: Vec<&str> = o.lines().collect();
                    if lines.len() != n as usize { out.fail("cli-count-features", &text, &req, &format!("{} rows", lines.len()), &format!("{n} rows")); return; }
                    let total = tt.count();
                    for (i, l) in lines.iter().enumerate() {
                        let c: Vec<&str> = l.split(',').collect();
                        let want = tt.count_with(&[i as i32 + 1]);
                        let ratio_ok = c.get(2).and_then(|r| r.parse::<f64>().ok()).map(|r| (r - want as f64 / total as f64).abs() <= 1e-9).unwrap_or(false);
                        if c.len() != 3 || c[0] != (i + 1).to_string() || c[1] != want.to_string() || !ratio_ok { out.fail("cli-count-features", &text, &req, l, &format!("{},{},{:.10e}", i + 1, want, want as f64 / total as f64)); break; }
                    }
                }
            }
        }
        "core" | "anomalies" => {
            let total = tt.count();
            let mut core: Vec<i32> = Vec::new();
            for v in 1..=n as i32 { let c = tt.count_with(&[v]); if c == total { core.push(v); } else if c == 0 { core.push(-v); } }
            let req = format!("CLI {what}");
            out.eval(Some(format!("{text}|{req}")));
            match run(&model, file, &[what.to_string()]) {
                None => out.fail("cli-core", &text, &req, "non-zero exit", "the core and dead features"),
                Some(o) => {
                    if what == "core" {
                        let want = s(&core).join(" ");
                        if o.trim() != want { out.fail("cli-core", &text, &req, o.trim(), &want); }
                    } else {
                        let mut sorted = core.clone(); sorted.sort();
                        let all: Vec<u32> = (1..=n).collect();
                        let sets = crate::atomic_props::oracle_atomic(tt, &all, &[], false);
                        let want = format!("core: {:?}\natomic sets: {:?}\n", sorted, sets);
                        if o != want { out.fail("cli-anomalies", &text, &req, &o.replace('\n', " / "), &want.replace('\n', " / ")); }
                    }
                }
            }
        }
        "atomic-sets" => {
            let cross = rng.chance(0.4);
            let a = if rng.chance(0.5) { vec![] } else { rand_lits(rng, n, 1, 2) };
            if tt.count_with(&a) == 0 { return; }
            let cands: Option<Vec<u32>> = if rng.chance(0.5) { None } else { let mut c: Vec<u32> = (1..=n).filter(|_| rng.chance(0.7)).collect(); if c.is_empty() { c.push(n); } Some(c) };
            let mut args = vec!["atomic-sets".to_string()];
            if !a.is_empty() { args.push("-a".into()); args.extend(s(&a)); }
            if let Some(c) = &cands { args.push("-c".into()); args.extend(c.iter().map(|x| x.to_string())); }
            if cross { args.push("--cross".into()); }
            let req = format!("CLI {}", args.join(" "));
            out.eval(Some(format!("{text}|{req}")));
            match run(&model, file, &args) {
                None => out.fail("cli-atomic-sets", &text, &req, "non-zero exit", "a report"),
                Some(o) => {
                    let got: Vec<Vec<i32>> = o.lines().filter(|l| !l.trim().is_empty()).map(|l| l.split_whitespace().filter_map(|x| x.parse().ok()).collect()).collect();
                    let all: Vec<u32> = (1..=n).collect();
                    let want = crate::atomic_props::oracle_atomic(tt, cands.as_deref().unwrap_or(&all), &a, cross);
                    let ok = if cross { crate::atomic_props::canon_cross(&got) == want } else { got == want };
                    if !ok { out.fail("cli-atomic-sets", &text, &req, &format!("{:?}", got), &format!("{:?}", want)); }
                }
            }
        }
        "urs" => {
            let a = if rng.chance(0.15) { let v = 1 + rng.below(n as usize) as i32; vec![v, -v] } else if rng.chance(0.5) { vec![] } else { rand_lits(rng, n, 1, 2) };
            let k = 1 + rng.below(9);
            let seed = rng.below(1000);
            let mut args = vec!["urs".to_string(), "-s".into(), seed.to_string(), "-n".into(), k.to_string()];
            if !a.is_empty() { args.push("-a".into()); args.extend(s(&a)); }
            let req = format!("CLI {}", args.join(" "));
            out.eval(Some(format!("{text}|{req}")));
            if tt.count_with(&a) == 0 {
                // no model contains the assumptions: the command says so (no configuration on its output) and does not crash
                out.count("cli_urs_unsatisfiable", 1);
                match run(&model, file, &args) {
                    Some(o) if o.lines().all(|l| l.split_whitespace().all(|x| x.parse::<i32>().is_err())) => {}
                    Some(o) => out.fail("cli-urs", &text, &req, &o, "no configuration: no model contains the assumptions"),
                    None => out.fail("cli-urs", &text, &req, "crash / non-zero exit", "a report that no model contains the assumptions"),
                }
                return;
            }
            match (run(&model, file, &args), run(&model, file, &args)) {
                (Some(o), Some(o2)) => {
                    if o != o2 { out.fail("cli-urs", &text, &req, "two runs with the same seed differ", "the same sample"); return; }
                    let cfgs: Vec<Vec<i32>> = o.lines().map(|l| l.split_whitespace().filter_map(|x| x.parse().ok()).collect()).collect();
                    if cfgs.len() != k { out.fail("cli-urs", &text, &req, &format!("{} configurations", cfgs.len()), &format!("{k} configurations")); return; }
                    for c in &cfgs {
                        let mut sc = c.clone(); sc.sort_by_key(|l| l.abs());
                        let valid = tt.index_of(&sc).map(|i| tt.bits[i]).unwrap_or(false) && a.iter().all(|l| c.contains(l));
                        if !valid { out.fail("cli-urs", &text, &req, &format!("{:?}", c), "a complete model containing the assumptions"); break; }
                    }
                }
                _ => out.fail("cli-urs", &text, &req, "non-zero exit", "a sample"),
            }
        }
        "t-wise" => {
            let t = 1 + rng.below(3);
            let req = format!("CLI t-wise -t {t}");
            out.eval(Some(format!("{text}|{req}")));
            match run(&model, file, &["t-wise".to_string(), "-t".into(), t.to_string()]) {
                None => out.fail("cli-t-wise", &text, &req, "non-zero exit", "a sample"),
                Some(o) => match crate::twise_props::parse_sample(o.trim()) {
                    None => out.fail("cli-t-wise", &text, &req, &o.replace('\n', " / "), "a sample"),
                    Some(sample) => if let Some(e) = crate::twise_props::judge(tt, t, &sample) { out.fail("cli-t-wise", &text, &req, &e, "only models, every valid interaction covered"); }
                },
            }
        }
        "to-cnf" => {
            if n < 2 || n > 12 { return; }
            let req = "CLI to-cnf".to_string();
            out.eval(Some(format!("{text}|{req}")));
            match run(&model, file, &["to-cnf".to_string()]) {
                None => out.fail("cli-to-cnf", &text, &req, "non-zero exit", "a CNF"),
                Some(o) => {
                    let mut lines = o.lines();
                    let header: Vec<&str> = lines.next().unwrap_or("").split_whitespace().collect();
                    let clauses: Vec<Vec<isize>> = lines.filter(|l| !l.trim().is_empty()).map(|l| { let mut v: Vec<isize> = l.split_whitespace().filter_map(|x| x.parse().ok()).collect(); v.pop(); v }).collect();
                    let nv: usize = header.get(2).and_then(|x| x.parse().ok()).unwrap_or(0);
                    if header.len() != 4 || nv == 0 || nv > 40 { out.fail("cli-to-cnf", &text, &req, &header.join(" "), "p cnf V C"); return; }
                    let cnf = ddnnife_cnf::Cnf { clauses, num_variables: nv };
                    if let Err(e) = crate::cnf_props::judge_cnf(&cnf, o.trim_end(), tt) { out.fail("cli-to-cnf", &text, &req, &format!("{e}; cnf = {}", o.replace('\n', " / ")), "equi-countable CNF projecting onto the models"); }
                }
            }
        }
        "count-stdin" => {
            // the model piped to stdin instead of `-i FILE`
            // the last line with a line break, with a CRLF, or ending at end of input
            let ending = ["\n", "", "\r\n"][rng.below(3)];
            let req = format!("CLI count, model on stdin, last line ends with {:?}", ending);
            out.eval(Some(format!("{text}|{req}")));
            let mut cmd = Command::new(bin_path());
            if matches!(file.fmt, Fmt::D4) { cmd.arg("-t").arg(n.to_string()); }
            cmd.arg("count").stdin(Stdio::piped()).stdout(Stdio::piped()).stderr(Stdio::null());
            let got = cmd.spawn().ok().and_then(|mut c| { use std::io::Write; c.stdin.take().unwrap().write_all(format!("{}{}", text, ending).as_bytes()).ok()?; let o = c.wait_with_output().ok()?; if o.status.success() { Some(String::from_utf8_lossy(&o.stdout).to_string()) } else { None } });
            match got { None => out.fail("cli-count-stdin", &text, &req, "non-zero exit", "a count"), Some(o) => { let want = tt.count().to_string(); if o.trim() != want { out.fail("cli-count-stdin", &text, &req, o.trim(), &want); } } }
        }
        "save" => {
            // `--save-ddnnf PATH` without and with a subcommand before it
            let saved = format!("{dir}/cli_saved.nnf");
            let _ = std::fs::remove_file(&saved);
            let with_sub = rng.chance(0.5);
            let mut args = vec!["--save-ddnnf".to_string(), saved.clone()];
            if with_sub { args.push("count".into()); args.push(if rng.chance(0.5) { "1".into() } else { "-1".into() }); }
            let req = format!("CLI {}", args.join(" "));
            out.eval(Some(format!("{text}|{req}")));
            match run(&model, file, &args) {
                None => out.fail("cli-save", &text, &req, "non-zero exit", "a saved file"),
                Some(_) => {
                    let content = std::fs::read_to_string(&saved).unwrap_or_default();
                    let lines: Vec<String> = content.lines().map(|l| l.trim_end().to_string()).collect();
                    let hdr: Vec<&str> = lines.first().map(|l| l.split_whitespace().collect()).unwrap_or_default();
                    if hdr.len() != 4 || hdr[0] != "nnf" || hdr[3] != n.to_string() || hdr[1] != (lines.len().max(1) - 1).to_string() { out.fail("cli-save", &text, &req, &lines.first().cloned().unwrap_or_default(), &format!("nnf {} _ {}", lines.len().max(1) - 1, n)); return; }
                    match guarded(|| crate::gen::eval_c2d_text(&lines, n)) {
                        Ok(stt) => if stt != *tt { out.fail("cli-save", &text, &req, &format!("saved file denotes {}", stt.to_string01()), &tt.to_string01()); },
                        Err(e) => out.fail("cli-save", &text, &req, &format!("malformed file: {e}"), "a c2d file"),
                    }
                }
            }
        }
        "stream-queries" | "stream" => {
            // a few protocol lines through the binary; the replies must be those of the library handler, line by line
            let mut lines: Vec<String> = Vec::new();
            for _ in 0..(2 + rng.below(6)) {
                let a = rand_lits(rng, n, 1, 2);
                lines.push(match rng.below(9) {
                    0 => "count".to_string(), 1 => format!("count a {}", s(&a).join(" ")), 2 => format!("sat a {}", s(&a).join(" ")),
                    3 => "core".to_string(), 4 => format!("enum l {}", 1 + rng.below(3)), 5 => format!("random l 2 s {}", rng.below(50)),
                    6 => "frobnicate 1".to_string(), 7 => ["count a", "", " ", "\t"][rng.below(4)].to_string(), _ => format!("count v {}", s(&a).join(" ")) });
            }
            let req = format!("CLI {what}: {}", lines.join(" | "));
            out.eval(Some(format!("{text}|{req}")));
            let Ok(mut d) = crate::common::load(file) else { return };
            let want: Vec<String> = lines.iter().map(|l| guarded(|| d.handle_stream_msg(l)).unwrap_or_else(|e| format!("panic: {e}"))).collect();
            let got: Option<String> = if what == "stream-queries" {
                let qfile = format!("{dir}/cli_stream_queries.txt");
                std::fs::write(&qfile, lines.join("\n") + "\n").unwrap();
                run(&model, file, &["stream-queries".to_string(), qfile])
            } else {
                let mut cmd = Command::new(bin_path());
                cmd.arg("-i").arg(&model);
                if matches!(file.fmt, Fmt::D4) { cmd.arg("-t").arg(n.to_string()); }
                cmd.arg("stream").stdin(Stdio::piped()).stdout(Stdio::piped()).stderr(Stdio::null());
                let with_exit = rng.chance(0.5);
                cmd.spawn().ok().and_then(|mut c| { use std::io::Write; let mut input = lines.join("\n") + "\n"; if with_exit { input.push_str("exit\n"); }
                    c.stdin.take().unwrap().write_all(input.as_bytes()).ok()?; let o = c.wait_with_output().ok()?; if o.status.success() { Some(String::from_utf8_lossy(&o.stdout).to_string()) } else { None } })
            };
            match got {
                None => out.fail("cli-stream", &text, &req, "non-zero exit", "one reply per line"),
                Some(o) => { let g: Vec<&str> = o.lines().collect(); if g.len() != want.len() || g.iter().zip(&want).any(|(a, b)| a.trim_end() != b.trim_end()) { out.fail("cli-stream", &text, &req, &g.join(" | "), &want.join(" | ")); } }
            }
        }
        _ => {}
    }
}

/// the CLI pass of a property: a sample of the C01 space through the given subcommands
pub fn cli_pass(a: &Args, out: &mut Out, rng: &mut Rng, whats: &[&str]) {
    use crate::space::*;
    let mut picked: Vec<(GenFile, TT)> = Vec::new();
    let mut r = rng.fork();
    let cfg = crate::core_props::space_cfg(a, false);
    let want = if a.thorough() { 150 } else { 30 };
    let mut seen = 0usize;
    for_each_model(&cfg, &mut r, |file, tt| { seen += 1; if picked.len() < want && seen % 11 == 3 && tt.count() > 0 { picked.push((file.clone(), tt.clone())); } });
    let dir = a.out.clone();
    for (file, tt) in picked {
        for w in whats { cli(out, &dir, &file, &tt, &mut r, w); }
    }
}
