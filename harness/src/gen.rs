//! Generators of well-formed circuits in d4 and c2d text, and an evaluator of the *text*
//! (shares no code with ddnnife) that yields the truth table the file denotes.
use crate::rng::Rng;
use crate::tt::{lit_true, TT};
use std::collections::HashMap;

#[derive(Clone, Copy, PartialEq, Eq, Debug)]
pub enum Fmt { D4, C2d }

#[derive(Clone, Debug)]
pub struct GenFile {
    pub fmt: Fmt,
    pub lines: Vec<String>,
    pub n: u32,
    pub origin: String,
}

impl GenFile {
    pub fn text(&self) -> String { self.lines.join("\n") }
    pub fn tt(&self) -> TT {
        match self.fmt { Fmt::D4 => eval_d4_text(&self.lines, self.n), Fmt::C2d => eval_c2d_text(&self.lines, self.n) }
    }
    pub fn total_features(&self) -> Option<u32> { match self.fmt { Fmt::D4 => Some(self.n), Fmt::C2d => None } }
}

// ------------------------------------------------------------------------------------------------
// evaluators of the text

/// Denotation of a d4 file over features 1..n: t = true, f = false, a = conjunction of its edges,
/// o = disjunction over its edges of (edge literals ∧ target).  Unmentioned features are free.
pub fn eval_d4_text(lines: &[String], n: u32) -> TT {
    let mut kinds: Vec<char> = Vec::new();
    let mut edges: Vec<Vec<(usize, Vec<i32>)>> = Vec::new();
    for line in lines {
        let toks: Vec<&str> = line.split_whitespace().collect();
        if toks.is_empty() { continue; }
        match toks[0] {
            "o" | "a" | "t" | "f" => { kinds.push(toks[0].chars().next().unwrap()); edges.push(Vec::new()); }
            _ => {
                let nums: Vec<i64> = toks.iter().map(|t| t.parse::<i64>().unwrap()).collect();
                let from = nums[0] as usize - 1;
                let to = nums[1] as usize - 1;
                let lits: Vec<i32> = nums[2..nums.len() - 1].iter().map(|&x| x as i32).collect();
                edges[from].push((to, lits));
            }
        }
    }
    // nodes may reference later nodes: evaluate recursively with memo per assignment
    fn ev(i: usize, k: usize, n: u32, kinds: &[char], edges: &[Vec<(usize, Vec<i32>)>], memo: &mut [u8]) -> bool {
        if memo[i] != 2 { return memo[i] == 1; }
        let r = match kinds[i] {
            't' => true,
            'f' => false,
            'a' => edges[i].iter().all(|(to, lits)| lits.iter().all(|&l| lit_true(n, k, l)) && ev(*to, k, n, kinds, edges, memo)),
            _ => edges[i].iter().any(|(to, lits)| lits.iter().all(|&l| lit_true(n, k, l)) && ev(*to, k, n, kinds, edges, memo)),
        };
        memo[i] = r as u8;
        r
    }
    TT::from_fn(n, |k| { let mut memo = vec![2u8; kinds.len()]; ev(0, k, n, &kinds, &edges, &mut memo) })
}

/// Denotation of a c2d file (header `nnf v e n`, then one node per line, root last).
pub fn eval_c2d_text(lines: &[String], n: u32) -> TT {
    #[derive(Clone)]
    enum N { And(Vec<usize>), Or(Vec<usize>), Lit(i32) }
    let mut nodes = Vec::new();
    for line in lines.iter().skip(1) {
        let toks: Vec<&str> = line.split_whitespace().collect();
        if toks.is_empty() { continue; }
        match toks[0] {
            "A" => nodes.push(N::And(toks[2..].iter().map(|t| t.parse().unwrap()).collect())),
            "O" => nodes.push(N::Or(toks[3..].iter().map(|t| t.parse().unwrap()).collect())),
            "L" => nodes.push(N::Lit(toks[1].parse().unwrap())),
            _ => panic!("bad c2d line {line}"),
        }
    }
    TT::from_fn(n, |k| {
        let mut v = vec![false; nodes.len()];
        for i in 0..nodes.len() {
            v[i] = match &nodes[i] {
                N::And(cs) => cs.iter().all(|&c| v[c]),
                N::Or(cs) => cs.iter().any(|&c| v[c]),
                N::Lit(l) => lit_true(n, k, *l),
            };
        }
        *v.last().unwrap()
    })
}

// ------------------------------------------------------------------------------------------------
// random d4 circuits

struct D4B<'a> {
    kinds: Vec<char>,
    edges: Vec<(usize, usize, Vec<i32>)>,
    memo: Vec<(Vec<u32>, usize)>,
    t_node: Option<usize>,
    f_node: Option<usize>,
    rng: &'a mut Rng,
    share: f64,
    pub stats: GenStats,
}

#[derive(Default, Clone, Debug)]
pub struct GenStats { pub dead_subcircuits: u32, pub or_true: u32, pub ors: u32, pub nary_ors: u32, pub single_ors: u32, pub ands: u32, pub shared: u32, pub f_edges: u32, pub implied: u32 }

impl<'a> D4B<'a> {
    fn node(&mut self, k: char) -> usize { self.kinds.push(k); self.kinds.len() - 1 }
    fn t(&mut self) -> usize {
        if let Some(t) = self.t_node { if self.rng.chance(0.8) { return t; } }
        let t = self.node('t'); self.t_node = Some(t); t
    }
    fn f(&mut self) -> usize {
        if let Some(f) = self.f_node { return f; }
        let f = self.node('f'); self.f_node = Some(f); f
    }
    fn subset(&mut self, vars: &[u32], keep: f64) -> Vec<u32> {
        vars.iter().copied().filter(|_| self.rng.chance(keep)).collect()
    }
    /// an unsatisfiable node that is not the False leaf: a decision whose alternatives all end in `f`
    /// (or that has none), possibly below an and-node next to a satisfiable sibling
    fn dead_node(&mut self, vars: &[u32], depth: u32) -> usize {
        let o = self.node('o');
        self.stats.ors += 1;
        let mut used = 0i32;
        if !vars.is_empty() && self.rng.chance(0.7) {
            let x = *self.rng.pick(vars) as i32;
            used = x;
            let f = self.f();
            // sometimes the edges into `f` carry further literals (features that vanish with the false node)
            let mut extra: Vec<i32> = Vec::new();
            if self.rng.chance(0.5) { for &v in vars { if v as i32 != x && self.rng.chance(0.5) { extra.push(if self.rng.chance(0.5) { v as i32 } else { -(v as i32) }); } } }
            let mut l1 = vec![x]; l1.extend(extra.iter());
            self.edges.push((o, f, l1));
            if self.rng.chance(0.6) { let mut l2 = vec![-x]; if self.rng.chance(0.5) { l2.extend(extra.iter().map(|e| -e)); } self.edges.push((o, f, l2)); }
            self.stats.f_edges += 1;
        }
        if vars.len() >= 2 && self.rng.chance(0.5) {
            // and(dead, live sibling over other variables)
            let a = self.node('a');
            self.stats.ands += 1;
            let mentioned: Vec<u32> = self.edges.iter().filter(|e| e.0 == o).flat_map(|e| e.2.iter().map(|l| l.unsigned_abs())).collect();
            let _ = used;
            let sib_vars: Vec<u32> = vars.iter().copied().filter(|v| !mentioned.contains(v) && self.rng.chance(0.6)).collect();
            let sib = self.gen(&sib_vars, depth.saturating_sub(1), false);
            if self.rng.chance(0.5) { self.edges.push((a, o, vec![])); self.edges.push((a, sib, vec![])); }
            else { self.edges.push((a, sib, vec![])); self.edges.push((a, o, vec![])); }
            return a;
        }
        o
    }
    /// returns a satisfiable node whose mentioned variables are within `vars`
    fn gen(&mut self, vars: &[u32], depth: u32, is_root: bool) -> usize {
        if vars.is_empty() || (depth == 0 && !is_root) {
            // sometimes an or-node with an unlabelled edge to the true node (what d4 emits for an empty formula)
            if self.rng.chance(0.2) {
                let o = self.node('o');
                let t = self.t();
                self.edges.push((o, t, vec![]));
                self.stats.ors += 1; self.stats.single_ors += 1; self.stats.or_true += 1;
                return o;
            }
            return self.t();
        }
        if !is_root && self.rng.chance(self.share) {
            let cands: Vec<usize> = self.memo.iter().filter(|(vs, _)| vs.iter().all(|v| vars.contains(v))).map(|(_, i)| *i).collect();
            if !cands.is_empty() { self.stats.shared += 1; return *self.rng.pick(&cands); }
        }
        let w = self.rng.below(100);
        let id;
        if vars.len() >= 2 && w < 22 {
            // and-decomposition
            id = self.node('a');
            self.stats.ands += 1;
            let mut vs = vars.to_vec();
            self.rng.shuffle(&mut vs);
            let groups = if vs.len() >= 3 && self.rng.chance(0.4) { 3 } else { 2 };
            let mut cuts: Vec<usize> = Vec::new();
            while cuts.len() < groups - 1 { let c = 1 + self.rng.below(vs.len() - 1); if !cuts.contains(&c) { cuts.push(c); } }
            cuts.sort();
            cuts.push(vs.len());
            let mut start = 0;
            for c in cuts {
                let mut g = vs[start..c].to_vec(); g.sort();
                start = c;
                let child = self.gen(&g, depth.saturating_sub(1), false);
                self.edges.push((id, child, vec![]));
            }
            if self.rng.chance(0.1) { let t = self.t(); self.edges.push((id, t, vec![])); }
        } else if vars.len() >= 2 && w < 34 {
            // n-ary decision chain  [x1] | [-x1 x2] | [-x1 -x2 x3] | .. | [-x1 .. -xk]   (k+1 alternatives, k = 2..5)
            id = self.node('o');
            self.stats.ors += 1; self.stats.nary_ors += 1;
            let mut vs = vars.to_vec(); self.rng.shuffle(&mut vs);
            let k = 2 + self.rng.below((vs.len() - 1).min(4));
            let chain: Vec<i32> = vs[..k].iter().map(|&v| if self.rng.chance(0.5) { v as i32 } else { -(v as i32) }).collect();
            let mut labels: Vec<Vec<i32>> = Vec::new();
            for j in 0..k { let mut l: Vec<i32> = chain[..j].iter().map(|x| -x).collect(); l.push(chain[j]); labels.push(l); }
            labels.push(chain.iter().map(|x| -x).collect());
            let dead = if self.rng.chance(0.15) { Some(self.rng.below(labels.len())) } else { None };
            for (j, lab) in labels.into_iter().enumerate() {
                if dead == Some(j) { continue; }
                let used = lab.len();
                let rem: Vec<u32> = vars.iter().copied().filter(|&v| !chain[..used.min(k)].iter().any(|c| c.unsigned_abs() == v)).collect();
                let sub = self.subset(&rem, 0.8);
                let child = self.gen(&sub, depth.saturating_sub(1), false);
                self.edges.push((id, child, lab));
            }
        } else if w < 40 {
            // single-edge or
            id = self.node('o');
            self.stats.ors += 1; self.stats.single_ors += 1;
            let mut vs = vars.to_vec(); self.rng.shuffle(&mut vs);
            let k = 1 + self.rng.below(vs.len().min(2));
            let lab: Vec<i32> = vs[..k].iter().map(|&v| if self.rng.chance(0.5) { v as i32 } else { -(v as i32) }).collect();
            let mut rem: Vec<u32> = vs[k..].to_vec(); rem.sort();
            let sub = self.subset(&rem, 0.8);
            let child = self.gen(&sub, depth.saturating_sub(1), false);
            self.edges.push((id, child, lab));
        } else {
            // binary decision
            id = self.node('o');
            self.stats.ors += 1;
            let x = *self.rng.pick(vars) as i32;
            let rem: Vec<u32> = vars.iter().copied().filter(|&v| v as i32 != x).collect();
            let dead = if self.rng.chance(0.12) { Some(self.rng.below(2)) } else { None };
            for (j, s) in [1i32, -1].into_iter().enumerate() {
                if dead == Some(j) {
                    let w = self.rng.below(100);
                    if w < 45 { let f = self.f(); self.edges.push((id, f, vec![s * x])); self.stats.f_edges += 1; }
                    else if w < 75 {
                        // the branch leads to a zero-count sub-circuit that is not a False leaf
                        let z = self.dead_node(&rem, depth);
                        self.edges.push((id, z, vec![s * x]));
                        self.stats.dead_subcircuits += 1;
                    }
                    continue;
                }
                let mut lab = vec![s * x];
                let mut rem_j = rem.clone();
                let implied = if self.rng.chance(0.35) { 1 + self.rng.below(2) } else { 0 };
                for _ in 0..implied {
                    if rem_j.is_empty() { break; }
                    let idx = self.rng.below(rem_j.len());
                    let v = rem_j.remove(idx) as i32;
                    lab.push(if self.rng.chance(0.5) { v } else { -v });
                    self.stats.implied += 1;
                }
                if self.rng.chance(0.3) { self.rng.shuffle(&mut lab); }
                let sub = self.subset(&rem_j, 0.85);
                let child = self.gen(&sub, depth.saturating_sub(1), false);
                self.edges.push((id, child, lab));
            }
        }
        self.memo.push((vars.to_vec(), id));
        id
    }
}

/// a random well-formed d4 file over (a subset of) features 1..n
pub fn random_d4(rng: &mut Rng, n: u32, depth: u32) -> (GenFile, GenStats) {
    let share = [0.0, 0.15, 0.35][rng.below(3)];
    let mut b = D4B { kinds: vec![], edges: vec![], memo: vec![], t_node: None, f_node: None, rng, share, stats: GenStats::default() };
    // the file may leave some features entirely unmentioned
    let all: Vec<u32> = (1..=n).collect();
    let vars = if b.rng.chance(0.3) { b.subset(&all, 0.7) } else { all };
    b.gen(&vars, depth, true);
    let mut lines = Vec::new();
    for (i, k) in b.kinds.iter().enumerate() { lines.push(format!("{} {} 0", k, i + 1)); }
    for (from, to, lits) in &b.edges {
        let mut s = format!("{} {}", from + 1, to + 1);
        for l in lits { s.push_str(&format!(" {}", l)); }
        s.push_str(" 0");
        lines.push(s);
    }
    (GenFile { fmt: Fmt::D4, lines, n, origin: "random_d4".into() }, b.stats)
}

// ------------------------------------------------------------------------------------------------
// random c2d circuits (smooth by construction)

struct C2B<'a> {
    lines: Vec<String>,
    edges: usize,
    lits: HashMap<i32, usize>,
    memo: HashMap<Vec<u32>, Vec<usize>>,
    rng: &'a mut Rng,
    share: f64,
    true_nodes: bool,
}

impl<'a> C2B<'a> {
    fn push(&mut self, s: String, nchildren: usize) -> usize { self.lines.push(s); self.edges += nchildren; self.lines.len() - 1 }
    fn lit(&mut self, l: i32) -> usize {
        if let Some(&i) = self.lits.get(&l) { return i; }
        let i = self.push(format!("L {}", l), 0);
        self.lits.insert(l, i);
        i
    }
    fn and(&mut self, cs: &[usize]) -> usize {
        let mut cs = cs.to_vec();
        // a true node below an and-node, now and then listed twice (the same child index twice is legal in the format)
        if self.true_nodes && self.rng.chance(0.15) {
            let mut t = self.push("A 0".into(), 0);
            // ... now and then wrapped in an or-node whose alternatives are all constants: or(true) / or(true, false)
            if self.rng.chance(0.25) {
                if self.rng.chance(0.5) { let f = self.push("O 0 0".into(), 0); t = self.push(format!("O 0 2 {} {}", t, f), 2); } else { t = self.push(format!("O 0 1 {}", t), 1); }
            }
            cs.push(t);
            if self.rng.chance(0.3) { cs.push(t); }
        }
        if self.rng.chance(0.3) { self.rng.shuffle(&mut cs); }
        let s = format!("A {} {}", cs.len(), cs.iter().map(|c| c.to_string()).collect::<Vec<_>>().join(" "));
        self.push(s, cs.len())
    }
    fn or(&mut self, dec: u32, cs: &[usize]) -> usize {
        // a false node as a further alternative, listed twice (it adds no model, so the node stays deterministic and smooth)
        let mut cs = cs.to_vec();
        if self.true_nodes && self.rng.chance(0.05) { let f = self.push("O 0 0".into(), 0); cs.push(f); cs.push(f); }
        let s = format!("O {} {} {}", dec, cs.len(), cs.iter().map(|c| c.to_string()).collect::<Vec<_>>().join(" "));
        self.push(s, cs.len())
    }
    /// a satisfiable smooth node mentioning exactly `vars` (non-empty)
    fn gen(&mut self, vars: &[u32], depth: u32) -> usize {
        if self.rng.chance(self.share) {
            if let Some(c) = self.memo.get(vars) { if !c.is_empty() { let c = c.clone(); return *self.rng.pick(&c); } }
        }
        let id = if vars.len() == 1 {
            let x = vars[0] as i32;
            match self.rng.below(4) {
                0 => self.lit(x),
                1 => self.lit(-x),
                _ => { let a = self.lit(x); let b = self.lit(-x); self.or(x as u32, &[a, b]) }
            }
        } else if depth == 0 {
            // conjunction of free / fixed literals
            let cs: Vec<usize> = vars.iter().map(|&v| self.gen(&[v], 0)).collect();
            self.and(&cs)
        } else {
            let w = self.rng.below(100);
            if w < 25 {
                let mut vs = vars.to_vec(); self.rng.shuffle(&mut vs);
                let cut = 1 + self.rng.below(vs.len() - 1);
                let (mut g1, mut g2) = (vs[..cut].to_vec(), vs[cut..].to_vec());
                g1.sort(); g2.sort();
                let a = self.gen(&g1, depth - 1); let b = self.gen(&g2, depth - 1);
                self.and(&[a, b])
            } else if w < 40 && vars.len() >= 3 {
                // n-ary decision chain over k = 2..5 variables: k+1 alternatives
                let mut vs = vars.to_vec(); self.rng.shuffle(&mut vs);
                let k = 2 + self.rng.below((vs.len() - 1).min(4));
                let chain: Vec<i32> = vs[..k].iter().map(|&v| if self.rng.chance(0.5) { v as i32 } else { -(v as i32) }).collect();
                let mut bs = Vec::new();
                for j in 0..=k {
                    // alternative j: -c1 .. -c(j) c(j+1)   (the last one: all negated); the other chain variables stay free below
                    let fixed = (j + 1).min(k);
                    let mut cs: Vec<usize> = Vec::new();
                    for (i, c) in chain[..fixed].iter().enumerate() { let l = if i < j { -*c } else { *c }; cs.push(self.lit(if j == k { -*c } else { l })); }
                    let mut rem: Vec<u32> = vars.iter().copied().filter(|&v| !chain[..fixed].iter().any(|c| c.unsigned_abs() == v)).collect();
                    rem.sort();
                    if !rem.is_empty() { let c = self.gen(&rem, depth - 1); cs.push(c); }
                    bs.push(self.and(&cs));
                }
                if self.rng.chance(0.2) { bs.remove(self.rng.below(bs.len())); }
                self.or(0, &bs)
            } else {
                let x = *self.rng.pick(vars) as i32;
                let rem: Vec<u32> = vars.iter().copied().filter(|&v| v as i32 != x).collect();
                let mut branches = Vec::new();
                let dead = if self.rng.chance(0.12) { Some(self.rng.below(2)) } else { None };
                for (j, s) in [1i32, -1].into_iter().enumerate() {
                    if dead == Some(j) {
                        if self.rng.chance(0.5) {
                            // a zero-count branch: and(literal, rest, False)
                            let mut cs = vec![self.lit(s * x)];
                            if !rem.is_empty() { let c = self.gen(&rem, depth - 1); cs.push(c); }
                            let f = self.push("O 0 0".into(), 0);
                            cs.push(f);
                            branches.push(self.and(&cs));
                        }
                        continue;
                    }
                    let mut rem_j = rem.clone();
                    let mut cs = vec![self.lit(s * x)];
                    if self.rng.chance(0.3) && rem_j.len() >= 2 {
                        let idx = self.rng.below(rem_j.len());
                        let v = rem_j.remove(idx) as i32;
                        let l = if self.rng.chance(0.5) { v } else { -v };
                        cs.push(self.lit(l));
                    }
                    let c = self.gen(&rem_j, depth - 1);
                    cs.push(c);
                    branches.push(self.and(&cs));
                }
                self.or(x as u32, &branches)
            }
        };
        self.memo.entry(vars.to_vec()).or_default().push(id);
        id
    }
}

pub fn random_c2d(rng: &mut Rng, n: u32, depth: u32, true_nodes: bool) -> GenFile {
    let share = [0.0, 0.2, 0.4][rng.below(3)];
    let mut b = C2B { lines: vec![], edges: 0, lits: HashMap::new(), memo: HashMap::new(), rng, share, true_nodes };
    let all: Vec<u32> = (1..=n).collect();
    b.gen(&all, depth);
    let mut lines = vec![format!("nnf {} {} {}", b.lines.len(), b.edges, n)];
    lines.extend(b.lines);
    GenFile { fmt: Fmt::C2d, lines, n, origin: "random_c2d".into() }
}

// ------------------------------------------------------------------------------------------------
// G1: Shannon expansion of an explicit truth table (exhaustive small functions)

/// `func` is a truth table over n features (TT index order); `order` a permutation of 1..n.
pub fn shannon_d4(func: &TT, order: &[u32], share: bool, f_edges: bool) -> GenFile {
    let n = func.n;
    let mut kinds: Vec<char> = Vec::new();
    let mut edges: Vec<(usize, usize, Vec<i32>)> = Vec::new();
    let mut memo: HashMap<(usize, Vec<bool>), usize> = HashMap::new();
    let mut tnode: Option<usize> = None;
    let mut fnode: Option<usize> = None;
    // sub-function: restriction of func by a partial assignment of order[..level]
    fn rec(level: usize, sub: Vec<usize>, func: &TT, order: &[u32], share: bool, f_edges: bool,
           kinds: &mut Vec<char>, edges: &mut Vec<(usize, usize, Vec<i32>)>, memo: &mut HashMap<(usize, Vec<bool>), usize>,
           tnode: &mut Option<usize>, fnode: &mut Option<usize>) -> Option<usize> {
        let vals: Vec<bool> = sub.iter().map(|&k| func.bits[k]).collect();
        if vals.iter().all(|b| !*b) { return None; }
        if vals.iter().all(|b| *b) {
            if share { if let Some(t) = *tnode { return Some(t); } }
            kinds.push('t'); *tnode = Some(kinds.len() - 1); return Some(kinds.len() - 1);
        }
        if share { if let Some(&i) = memo.get(&(level, vals.clone())) { return Some(i); } }
        kinds.push('o');
        let id = kinds.len() - 1;
        let x = order[level];
        let n = func.n;
        let hi: Vec<usize> = sub.iter().copied().filter(|&k| crate::tt::feat(n, k, x)).collect();
        let lo: Vec<usize> = sub.iter().copied().filter(|&k| !crate::tt::feat(n, k, x)).collect();
        for (s, part) in [(1i32, hi), (-1, lo)] {
            match rec(level + 1, part, func, order, share, f_edges, kinds, edges, memo, tnode, fnode) {
                Some(c) => edges.push((id, c, vec![s * x as i32])),
                None => if f_edges {
                    let f = match *fnode { Some(f) => f, None => { kinds.push('f'); *fnode = Some(kinds.len() - 1); kinds.len() - 1 } };
                    edges.push((id, f, vec![s * x as i32]));
                },
            }
        }
        memo.insert((level, vals), id);
        Some(id)
    }
    let all: Vec<usize> = (0..func.bits.len()).collect();
    rec(0, all, func, order, share, f_edges, &mut kinds, &mut edges, &mut memo, &mut tnode, &mut fnode).expect("satisfiable");
    let mut lines = Vec::new();
    for (i, k) in kinds.iter().enumerate() { lines.push(format!("{} {} 0", k, i + 1)); }
    for (from, to, lits) in &edges {
        lines.push(format!("{} {} {} 0", from + 1, to + 1, lits.iter().map(|l| l.to_string()).collect::<Vec<_>>().join(" ")));
    }
    GenFile { fmt: Fmt::D4, lines, n, origin: format!("shannon_d4 order={:?} share={} f_edges={}", order, share, f_edges) }
}

pub fn shannon_c2d(func: &TT, order: &[u32], share: bool) -> GenFile {
    let n = func.n;
    struct B { lines: Vec<String>, edges: usize, lits: HashMap<i32, usize>, memo: HashMap<(usize, Vec<bool>), usize> }
    fn lit(b: &mut B, l: i32) -> usize {
        if let Some(&i) = b.lits.get(&l) { return i; }
        b.lines.push(format!("L {}", l)); let i = b.lines.len() - 1; b.lits.insert(l, i); i
    }
    fn rec(level: usize, sub: Vec<usize>, func: &TT, order: &[u32], share: bool, b: &mut B) -> Option<usize> {
        let vals: Vec<bool> = sub.iter().map(|&k| func.bits[k]).collect();
        if vals.iter().all(|x| !*x) { return None; }
        if level == order.len() { return None; } // handled by caller (no variables left)
        if share { if let Some(&i) = b.memo.get(&(level, vals.clone())) { return Some(i); } }
        let x = order[level];
        let n = func.n;
        let mut branches = Vec::new();
        for s in [1i32, -1] {
            let part: Vec<usize> = sub.iter().copied().filter(|&k| crate::tt::feat(n, k, x) == (s > 0)).collect();
            if part.iter().all(|&k| !func.bits[k]) { continue; }
            let l = lit(b, s * x as i32);
            if level + 1 == order.len() { branches.push(l); }
            else {
                let c = rec(level + 1, part, func, order, share, b).unwrap();
                b.lines.push(format!("A 2 {} {}", l, c)); b.edges += 2;
                branches.push(b.lines.len() - 1);
            }
        }
        let id = if branches.len() == 1 && level + 1 == order.len() { branches[0] } else {
            b.lines.push(format!("O {} {} {}", x, branches.len(), branches.iter().map(|c| c.to_string()).collect::<Vec<_>>().join(" ")));
            b.edges += branches.len();
            b.lines.len() - 1
        };
        b.memo.insert((level, vals), id);
        Some(id)
    }
    let mut b = B { lines: vec![], edges: 0, lits: HashMap::new(), memo: HashMap::new() };
    let all: Vec<usize> = (0..func.bits.len()).collect();
    rec(0, all, func, order, share, &mut b).expect("satisfiable");
    let mut lines = vec![format!("nnf {} {} {}", b.lines.len(), b.edges, n)];
    lines.extend(b.lines);
    GenFile { fmt: Fmt::C2d, lines, n, origin: format!("shannon_c2d order={:?} share={}", order, share) }
}

pub fn permutations(n: u32) -> Vec<Vec<u32>> {
    fn go(cur: &mut Vec<u32>, rest: &mut Vec<u32>, out: &mut Vec<Vec<u32>>) {
        if rest.is_empty() { out.push(cur.clone()); return; }
        for i in 0..rest.len() { let x = rest.remove(i); cur.push(x); go(cur, rest, out); cur.pop(); rest.insert(i, x); }
    }
    let mut out = Vec::new();
    go(&mut vec![], &mut (1..=n).collect(), &mut out);
    out
}
