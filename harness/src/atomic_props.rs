//! C08 atomic sets vs brute-force classes of always-equal features.
use crate::common::*;
use crate::rng::Rng;
use crate::space::*;
use crate::tt::{lit_true, TT};

/// brute force: classes (>= 2 members) of candidate literals with the same truth value in every model containing A
pub fn oracle_atomic(tt: &TT, cands: &[u32], a: &[i32], cross: bool) -> Vec<Vec<i32>> {
    let models = tt.models_with(a);
    let mut lits: Vec<i32> = Vec::new();
    for &c in cands { lits.push(c as i32); if cross { lits.push(-(c as i32)); } }
    lits.sort(); lits.dedup();
    let sig = |l: i32| -> Vec<bool> { models.iter().map(|&k| lit_true(tt.n, k, l)).collect() };
    let mut classes: Vec<(Vec<bool>, Vec<i32>)> = Vec::new();
    for &l in &lits {
        let s = sig(l);
        if let Some(c) = classes.iter_mut().find(|c| c.0 == s) { c.1.push(l); } else { classes.push((s, vec![l])); }
    }
    let mut sets: Vec<Vec<i32>> = classes.into_iter().map(|c| c.1).filter(|c| c.len() >= 2).collect();
    if cross {
        for s in sets.iter_mut() { s.sort_by_key(|x| x.abs()); }
        // one representative per mirrored pair: canonical = the one whose first element is negative … compare as sets up to negation
        let mut canon: Vec<Vec<i32>> = Vec::new();
        for s in sets {
            let neg: Vec<i32> = s.iter().map(|x| -x).collect();
            if !canon.contains(&s) && !canon.contains(&neg) { canon.push(if s[0] < 0 { s } else { neg }); }
        }
        canon.sort();
        canon
    } else {
        for s in sets.iter_mut() { s.sort(); }
        sets.sort();
        sets
    }
}

/// canonical form of a cross result: each class with negative first literal, sorted
pub fn canon_cross(sets: &[Vec<i32>]) -> Vec<Vec<i32>> {
    let mut out: Vec<Vec<i32>> = sets.iter().map(|s| { let mut s = s.clone(); s.sort_by_key(|x| x.abs()); if s[0] < 0 { s } else { s.iter().map(|x| -x).collect() } }).collect();
    out.sort();
    out
}

pub fn c08(a: &Args) {
    let mut rng = Rng::new(a.seed);
    let mut out = Out::new(&a.out);
    let cfg = if a.thorough() {
        SpaceCfg { g1_max_n: 3, g1_rate: 0.3, random_d4: 1500, random_c2d: 700, min_n: 2, max_n: 8 }
    } else {
        SpaceCfg { g1_max_n: 3, g1_rate: 0.04, random_d4: 220, random_c2d: 110, min_n: 2, max_n: 7 }
    };
    let mut r2 = rng.fork();
    for_each_model(&cfg, &mut rng, |file, tt| {
        let Ok(mut d) = load(file) else { out.fail("load-panic", &file.text(), "load", "panic", "model"); return };
        out.circuit(&export_nodes(&d), &circuit_line(&d));
        let n = file.n;
        // satisfiable assumption lists of length 0..3
        let mut asets: Vec<Vec<i32>> = vec![vec![]];
        for _ in 0..(if a.thorough() { 6 } else { 3 }) {
            let m = tt.config(*r2.pick(&tt.models_with(&[])));
            let len = 1 + r2.below(3.min(n as usize));
            asets.push((0..len).map(|_| *r2.pick(&m)).collect());
        }
        // the same set of assumptions written as a list of more than 20 literals (repeats), which takes the other counting strategy
        if let Some(short) = asets.get(1).cloned() { let k = 21 + r2.below(4); asets.push((0..k).map(|i| short[i % short.len()]).collect()); }
        for al in asets {
            // candidate subsets: all for n <= 4, random beyond
            let mut csets: Vec<Option<Vec<u32>>> = vec![None];
            if n <= 4 { for mask in 1u32..(1 << n) { if r2.chance(if a.thorough() { 1.0 } else { 0.4 }) { csets.push(Some((1..=n).filter(|v| mask >> (v - 1) & 1 == 1).collect())); } } }
            else { for _ in 0..3 { let c: Vec<u32> = (1..=n).filter(|_| r2.chance(0.6)).collect(); if !c.is_empty() { csets.push(Some(c)); } } }
            for cands in csets {
                for cross in [false, true] {
                    let cl: Vec<u32> = cands.clone().unwrap_or((1..=n).collect());
                    let want = oracle_atomic(tt, &cl, &al, cross);
                    let req = format!("atomic{} candidates {:?} assumptions {:?} -t {}", if cross { "-cross" } else { "" }, cands, al, n);
                    out.eval(if tt.count_with(&al) >= 2 { Some(format!("{}|{}", file.text(), req)) } else { None });
                    match guarded(|| d.get_atomic_sets(cands.clone(), &al, cross)) {
                        Err(e) => out.fail("atomic-panic", &file.text(), &req, &format!("panic: {e}"), &format!("{:?}", want)),
                        Ok(got) => {
                            let got: Vec<Vec<i32>> = got.iter().map(|s| s.iter().map(|&x| x as i32).collect()).collect();
                            let ok = if cross { canon_cross(&got) == want && got.iter().all(|s| s.windows(2).all(|w| w[0].abs() < w[1].abs())) } else { got == want };
                            if !ok { out.fail("atomic-sets", &file.text(), &req, &format!("{:?}", got), &format!("{:?}", want)); }
                            if !want.is_empty() { out.count(if cross { "nonempty_cross" } else { "nonempty_plain" }, 1); }
                            // equal counts but not equivalent: the confirmation step matters
                            out.query("atomic", &format!("{} {} | {}", if cross { 1 } else { 0 }, cl.iter().map(|c| c.to_string()).collect::<Vec<_>>().join(" "), fmt_ints(&al)),
                                &got.iter().map(|s| fmt_ints(s)).collect::<Vec<_>>().join(";"));
                            if cands.is_none() && r2.chance(0.2) {
                                let msg = format!("atomic{}{}", if cross { "-cross" } else { "" }, if al.is_empty() { String::new() } else { format!(" a {}", fmt_ints(&al)) });
                                let s = guarded(|| d.handle_stream_msg(&msg)).unwrap_or_else(|e| format!("panic: {e}"));
                                let w = got.iter().map(|s| fmt_ints(s)).collect::<Vec<_>>().join(";");
                                if s != w { out.fail("stream-atomic", &file.text(), &msg, &s, &w); }
                            }
                            if r2.chance(0.002) { out.sample(format!("{} n={} {} -> {:?}", file.origin, n, req, got)); }
                        }
                    }
                }
            }
        }
    });
    // corpus: every reported set must pass the pairwise count test, and adjacent features with equal counts not reported must fail it
    for (path, tf) in corpus(false) {
        let p = path.clone();
        let Ok(mut d) = guarded(move || ddnnife::parser::build_ddnnf(std::path::Path::new(&p), tf)) else { continue };
        if d.number_of_variables > 100 { continue; }
        out.eval(Some(path.clone()));
        let sets = d.get_atomic_sets(None, &[], false);
        for s in &sets { for w in s.windows(2) {
            let (x, y) = (w[0] as i32, w[1] as i32);
            if d.execute_query(&[x]) != d.execute_query(&[x, y]) || d.execute_query(&[y]) != d.execute_query(&[x, y]) { out.fail("corpus-atomic", &path, &format!("{:?}", s), "members not equivalent", "equivalent"); }
        } }
        let n = d.number_of_variables;
        out.circuit(&export_nodes(&d), &circuit_line(&d));
        out.query("atomic", &format!("0 {} | ", (1..=n).map(|c| c.to_string()).collect::<Vec<_>>().join(" ")), &sets.iter().map(|s| s.iter().map(|x| x.to_string()).collect::<Vec<_>>().join(" ")).collect::<Vec<_>>().join(";"));
    }
    crate::cli_props::cli_pass(a, &mut out, &mut rng, &["atomic-sets", "anomalies"]);
    crate::shifted_props::shifted(a, &mut out, &mut rng, &["atomic"]);
    out.finish("(+ renumbered models: features base+1..base+n for base 126 / 254 / 1020, judged by the small model's truth table: atomic) (+ CLI pass: the rebuilt binary's `atomic-sets / anomalies` on a sample of the models, judged by the same oracles) every model of the C01 space x satisfiable assumption lists of length 0..3 x candidate subsets (all for n<=4 in thorough / 40% in quick, random beyond, and the default 'all features') x {plain, cross} vs brute-force classes of literals with equal value in every model containing A (classes with >=2 members, members ascending; cross: up to negating all members); library and stream; the model (without sample prefilter) must give the identical report");
}
