//! C19 CNF export: equi-countable, projects onto the same models, honest header.
use crate::common::*;
use crate::rng::Rng;
use crate::space::*;
use crate::tt::{feat, TT};
use ddnnife_cnf::Cnf;

/// independent DPLL model counter with unit propagation; `assign[v]`: 0 unassigned, 1 true, -1 false.
/// Calls `on_model` for every total model over variables 1..nvars.
pub fn count_models(clauses: &[Vec<isize>], nvars: usize, assign: &mut Vec<i8>, on_model: &mut dyn FnMut(&[i8])) -> u64 {
    // unit propagation
    let mut trail: Vec<usize> = Vec::new();
    loop {
        let mut changed = false;
        for c in clauses {
            let mut unassigned = 0; let mut last = 0isize; let mut sat = false;
            for &l in c {
                let v = l.unsigned_abs();
                if v > nvars { continue; }
                match assign[v] { 0 => { unassigned += 1; last = l; } x => { if (x > 0) == (l > 0) { sat = true; break; } } }
            }
            if sat { continue; }
            if unassigned == 0 { for v in trail { assign[v] = 0; } return 0; }
            if unassigned == 1 { let v = last.unsigned_abs(); assign[v] = if last > 0 { 1 } else { -1 }; trail.push(v); changed = true; }
        }
        if !changed { break; }
    }
    let res = match (1..=nvars).find(|&v| assign[v] == 0) {
        None => { on_model(assign); 1 }
        Some(v) => {
            let mut total = 0;
            for val in [1i8, -1] { assign[v] = val; total += count_models(clauses, nvars, assign, on_model); }
            assign[v] = 0;
            total
        }
    };
    for v in trail { assign[v] = 0; }
    res
}

pub fn judge_cnf(cnf: &Cnf, text: &str, tt: &TT) -> Result<(), String> {
    let n = tt.n as usize;
    // header of the printed form
    let mut lines = text.lines();
    let header = lines.next().unwrap_or("");
    let clause_lines: Vec<&str> = lines.collect();
    let hp: Vec<&str> = header.split_whitespace().collect();
    if hp.len() != 4 || hp[0] != "p" || hp[1] != "cnf" { return Err(format!("bad header {header:?}")); }
    let (hv, hc): (usize, usize) = (hp[2].parse().map_err(|_| "bad header")?, hp[3].parse().map_err(|_| "bad header")?);
    if hc != clause_lines.len() || hc != cnf.clauses.len() { return Err(format!("header declares {hc} clauses, file contains {}", clause_lines.len())); }
    let mut vars: Vec<usize> = cnf.clauses.iter().flatten().map(|l| l.unsigned_abs()).collect();
    vars.sort(); vars.dedup();
    let maxv = vars.last().copied().unwrap_or(0);
    if hv != cnf.num_variables { return Err(format!("header {hv} vs num_variables {}", cnf.num_variables)); }
    if hv != maxv || vars.len() != maxv { return Err(format!("header declares {hv} variables, clauses use {} distinct variables with maximum {maxv}", vars.len())); }
    if maxv < n { return Err(format!("feature {} does not occur in the CNF", n)); }
    for (i, cl) in clause_lines.iter().enumerate() {
        let nums: Vec<isize> = cl.split_whitespace().map(|x| x.parse().unwrap_or(0)).collect();
        if nums.last() != Some(&0) || nums[..nums.len() - 1] != cnf.clauses[i][..] { return Err(format!("clause line {i} {cl:?} differs from the clause {:?}", cnf.clauses[i])); }
    }
    // models
    let mut per_projection: std::collections::HashMap<usize, u32> = Default::default();
    let mut assign = vec![0i8; maxv + 1];
    let total = count_models(&cnf.clauses, maxv, &mut assign, &mut |a| {
        let mut k = 0usize;
        for v in 1..=n { if a[v] > 0 { k |= 1 << (n - v); } }
        *per_projection.entry(k).or_insert(0) += 1;
    });
    if total != tt.count() { return Err(format!("CNF has {total} models over its {maxv} variables, the d-DNNF has {}", tt.count())); }
    for k in 0..tt.bits.len() {
        let c = per_projection.get(&k).copied().unwrap_or(0);
        if tt.bits[k] && c != 1 { return Err(format!("model {:?} is extended in {c} ways", tt.config(k))); }
        if !tt.bits[k] && c != 0 { return Err(format!("non-model {:?} is a projection of a CNF model", tt.config(k))); }
    }
    let _ = feat;
    Ok(())
}

pub fn fmt_cnf(cnf: &Cnf) -> String {
    format!("{} {} | {}", cnf.num_variables, cnf.clauses.len(),
        cnf.clauses.iter().map(|c| c.iter().map(|l| l.to_string()).collect::<Vec<_>>().join(" ")).collect::<Vec<_>>().join(" ; "))
}

pub fn c19(a: &Args) {
    let mut rng = Rng::new(a.seed);
    let mut out = Out::new(&a.out);
    let cfg = if a.thorough() {
        SpaceCfg { g1_max_n: 3, g1_rate: 1.0, random_d4: 3000, random_c2d: 1500, min_n: 2, max_n: 9 }
    } else {
        SpaceCfg { g1_max_n: 3, g1_rate: 0.12, random_d4: 500, random_c2d: 250, min_n: 2, max_n: 8 }
    };
    let mut r2 = rng.fork();
    let mut run = |file: &crate::gen::GenFile, tt: &TT, out: &mut Out| {
        if file.n < 2 { return; }
        let Ok(d) = load(file) else { out.fail("load-panic", &file.text(), "load", "panic", "model"); return };
        let has_true = d.nodes.iter().any(|nd| matches!(nd.ntype, ddnnife::NodeType::True | ddnnife::NodeType::False));
        out.count(if has_true { "with_constant_nodes" } else { "without_constant_nodes" }, 1);
        let shared = d.nodes.iter().enumerate().filter(|(_, nd)| nd.count > num::BigInt::from(0)).count();
        let _ = shared;
        out.eval(Some(file.text()));
        match guarded(|| { let c = Cnf::from(&d); let t = c.to_string(); (c, t) }) {
            Err(e) => out.fail("to_cnf-panic", &file.text(), "Cnf::from(&ddnnf)", &format!("panic: {e}"), "a CNF"),
            Ok((cnf, text)) => {
                if let Err(e) = judge_cnf(&cnf, &text, tt) { out.fail("cnf-export", &file.text(), &format!("Cnf::from(&ddnnf) -t {}", file.n), &format!("{e}; cnf = {}", fmt_cnf(&cnf)), "equi-countable CNF projecting onto the models, honest header"); }
                out.circuit(&export_nodes(&d), &circuit_line(&d));
                out.query("tocnf", "", &fmt_cnf(&cnf));
                out.query("cnfok", "", "true");
                if r2.chance(0.01) { out.sample(format!("{} n={} -> {}", file.origin, file.n, fmt_cnf(&cnf))); }
                // export, edit the same object, export again: the second export is the CNF of the edited model
                if r2.chance(0.25) {
                    let mut d = d;
                    let n = file.n as i32;
                    let f = { let v = 1 + r2.below(n as usize + 1) as i32; if r2.chance(0.5) { v } else { -v } };
                    let want = if f.unsigned_abs() <= tt.n { crate::edit_props::and_clause(tt, &[f]) } else { crate::edit_props::and_clause(&crate::edit_props::extend_tt(tt, f.unsigned_abs()), &[f]) };
                    if want.count() > 0 && want.n >= 2 && crate::edit_props::apply(&mut d, vec![(vec![f], ddnnife::parser::intermediate_representation::ClauseApplication::Add)]).is_ok() {
                        out.count("export_edit_export", 1);
                        match guarded(|| { let c = Cnf::from(&d); let t = c.to_string(); (c, t) }) {
                            Err(e) => out.fail("to_cnf-panic", &file.text(), &format!("Cnf::from ; add unit clause {f} ; Cnf::from"), &format!("panic: {e}"), "a CNF"),
                            Ok((cnf2, text2)) => if let Err(e) = judge_cnf(&cnf2, &text2, &want) { out.fail("cnf-export-after-edit", &file.text(), &format!("Cnf::from ; add unit clause {f} ; Cnf::from"), &format!("{e}; cnf = {}", fmt_cnf(&cnf2)), "the export of the edited model"); },
                        }
                    }
                }
            }
        }
    };
    for_each_model(&cfg, &mut rng, |file, tt| run(file, tt, &mut out));
    // c2d inputs with true nodes (`A 0`)
    let mut r3 = Rng::new(a.seed ^ 0x19);
    for _ in 0..(if a.thorough() { 600 } else { 120 }) {
        let n = 2 + r3.below(6) as u32;
        let depth = 1 + r3.below(4) as u32;
        let file = crate::gen::random_c2d(&mut r3, n, depth, true);
        let tt = file.tt();
        if tt.count() > 0 { run(&file, &tt, &mut out); }
    }
    // corpus: header honesty and count equality via the CLI-level text for the small models
    for (path, tf) in corpus(false) {
        let p = path.clone();
        let Ok(d) = guarded(move || ddnnife::parser::build_ddnnf(std::path::Path::new(&p), tf)) else { continue };
        if d.number_of_variables > 50 { continue; }
        out.eval(Some(path.clone()));
        match guarded(|| Cnf::from(&d)) {
            Err(e) => out.fail("to_cnf-panic", &path, "Cnf::from", &e, "a CNF"),
            Ok(cnf) => {
                let mut vars: Vec<usize> = cnf.clauses.iter().flatten().map(|l| l.unsigned_abs()).collect();
                vars.sort(); vars.dedup();
                if vars.len() != cnf.num_variables || vars.last().copied().unwrap_or(0) != cnf.num_variables { out.fail("corpus-header", &path, "Cnf::from", &cnf.num_variables.to_string(), &vars.len().to_string()); }
                out.circuit(&export_nodes(&d), &circuit_line(&d));
                out.query("tocnf", "", &fmt_cnf(&cnf));
            }
        }
    }
    crate::cli_props::cli_pass(a, &mut out, &mut rng, &["to-cnf"]);
    out.finish("(+ CLI pass: the rebuilt binary's `to-cnf` on a sample of the models, judged by the same oracles) every model of the C01 space with >= 2 features plus c2d inputs with true nodes: exported CNF counted by an independent DPLL counter over its declared variables, projection onto features compared with the truth table (each model extended exactly once), header vs content (distinct variables, max variable, clause lines); clause list compared exactly with the Lean model of the Tseitin transformation");
}
