//! C20 best / top-k configurations vs brute-force ranking of the truth table.
use crate::common::*;
use crate::rng::Rng;
use crate::space::*;
use crate::tt::TT;
use ddnnife::ddnnf::extended_ddnnf::ExtendedDdnnf;

fn value_of(vals: &[i64], cfg: &[i32]) -> i64 { cfg.iter().filter(|l| **l > 0).map(|l| vals[*l as usize - 1]).sum() }

/// objective vectors: tie-free (distinct subset sums: signed powers of two), tied / zero / negative ones
fn value_vectors(rng: &mut Rng, n: u32) -> Vec<(Vec<i64>, bool)> {
    let mut out = Vec::new();
    let mut pows: Vec<i64> = (0..n).map(|i| 1i64 << i).collect();
    rng.shuffle(&mut pows);
    out.push((pows.iter().map(|&p| if rng.chance(0.5) { p } else { -p }).collect(), true));
    out.push(((0..n).map(|_| rng.range(-3, 3)).collect(), false));
    out.push(((0..n).map(|_| if rng.chance(0.4) { 0 } else { rng.range(-1000000, 1000000) }).collect(), false));
    out.push((vec![0; n as usize], false));
    out.push(((0..n).map(|_| if rng.chance(0.5) { 5 } else { -5 }).collect(), false));
    out
}

pub fn c20(a: &Args) {
    let mut rng = Rng::new(a.seed);
    let mut out = Out::new(&a.out);
    let cfg = if a.thorough() {
        SpaceCfg { g1_max_n: 3, g1_rate: 0.2, random_d4: 1500, random_c2d: 700, min_n: 2, max_n: 8 }
    } else {
        SpaceCfg { g1_max_n: 3, g1_rate: 0.03, random_d4: 260, random_c2d: 130, min_n: 2, max_n: 7 }
    };
    let mut r2 = rng.fork();
    for_each_model(&cfg, &mut rng, |file, tt| {
        let Ok(d) = load(file) else { out.fail("load-panic", &file.text(), "load", "panic", "model"); return };
        out.circuit(&export_nodes(&d), &circuit_line(&d));
        let n = file.n;
        for (vals, tie_free) in value_vectors(&mut r2, n) {
            let ext = ExtendedDdnnf::verif_with_values(d.clone(), vals.iter().map(|&v| v as f64).collect());
            let mut asets: Vec<Vec<i32>> = vec![vec![]];
            for _ in 0..3 {
                let len = 1 + r2.below(n.min(3) as usize);
                asets.push((0..len).map(|_| { let v = 1 + r2.below(n as usize) as i32; if r2.chance(0.5) { v } else { -v } }).collect());
            }
            for al in asets {
                let models = tt.models_with(&al);
                let mut ranking: Vec<i64> = models.iter().map(|&k| value_of(&vals, &tt.config(k))).collect();
                ranking.sort_by(|x, y| y.cmp(x));
                let vs = fmt_ints(&vals.iter().map(|&v| v as i32).collect::<Vec<_>>());
                let args = format!("{} | {}", vs, fmt_ints(&al));
                let req = format!("values {:?} assumptions {:?} -t {}", vals, al, n);
                out.eval(if models.len() >= 2 { Some(format!("{}|{}", file.text(), req)) } else { None });
                out.count(if tie_free { "tie_free_vectors" } else { "tied_vectors" }, 1);
                // best
                match guarded(|| ext.verif_best(&al)) {
                    Err(e) => out.fail("best-panic", &file.text(), &req, &format!("panic: {e}"), "a configuration"),
                    Ok(None) => {
                        if !models.is_empty() { out.fail("best-none", &file.text(), &req, "None", &format!("value {}", ranking[0])); }
                        out.query(if tie_free { "best" } else { "bestv" }, &args, "none");
                    }
                    Ok(Some((cfgl, value))) => {
                        if models.is_empty() { out.fail("best-unsat", &file.text(), &req, &format!("{:?}", cfgl), "None"); }
                        else {
                            let ok = tt.index_of(&cfgl).map(|k| tt.bits[k]).unwrap_or(false) && al.iter().all(|l| cfgl.contains(l));
                            if !ok { out.fail("best-invalid", &file.text(), &req, &format!("{:?}", cfgl), "a complete model containing A"); }
                            if value != ranking[0] as f64 || value_of(&vals, &cfgl) != ranking[0] { out.fail("best-not-optimal", &file.text(), &req, &format!("{} {:?}", value, cfgl), &format!("value {}", ranking[0])); }
                        }
                        if tie_free { out.query("best", &args, &format!("{}:{}", value as i64, fmt_ints(&cfgl))); } else { out.query("bestv", &args, &format!("{}", value as i64)); }
                    }
                }
                // top-k for k in 1..count+1 (sampled)
                let mut ks: Vec<usize> = vec![1, 2, 3, models.len().max(1), models.len() + 1];
                ks.push(1 + r2.below(models.len() + 1));
                ks.sort(); ks.dedup();
                for k in ks {
                    match guarded(|| ext.verif_top_k(k, &al)) {
                        Err(e) => out.fail("topk-panic", &file.text(), &format!("top-{k} {req}"), &format!("panic: {e}"), "configurations"),
                        Ok(res) => {
                            let want: Vec<i64> = ranking.iter().copied().take(k).collect();
                            let got: Vec<i64> = res.iter().map(|(c, _)| value_of(&vals, c)).collect();
                            let mut distinct = std::collections::HashSet::new();
                            let valid = res.iter().all(|(c, v)| tt.index_of(c).map(|i| tt.bits[i]).unwrap_or(false) && al.iter().all(|l| c.contains(l)) && distinct.insert(c.clone()) && *v == value_of(&vals, c) as f64);
                            if got != want || !valid { out.fail("topk", &file.text(), &format!("top-{k} {req}"), &format!("{:?}", res), &format!("values {:?}, distinct models containing A", want)); }
                            let line = if tie_free { res.iter().map(|(c, v)| format!("{}:{}", *v as i64, fmt_ints(c))).collect::<Vec<_>>().join(";") } else { got.iter().map(|v| v.to_string()).collect::<Vec<_>>().join(";") };
                            out.query(if tie_free { "topk" } else { "topkv" }, &format!("{} {}", k, args), &line);
                        }
                    }
                }
                if r2.chance(0.01) { out.sample(format!("{} n={} {} -> best {:?}", file.origin, n, req, ranking.first())); }
            }
        }
    });
    // corpus: sandwich with the repository's test vector, against enumeration of all 2808 models
    {
        let path = "/repo/ddnnife/tests/data/sandwich.nnf";
        let d = ddnnife::parser::build_ddnnf(std::path::Path::new(path), Some(19));
        let vals: Vec<i64> = vec![9, 7, 0, 8, 4, 1, 2, -2, 3, 4, -2, -2, 5, -9, -1, 7, 3, 6, -5];
        let ext = ExtendedDdnnf::verif_with_values(d.clone(), vals.iter().map(|&v| v as f64).collect());
        let mut d2 = d.clone();
        let all = d2.enumerate(&mut vec![], 100000).unwrap_or_default();
        let mut ranking: Vec<i64> = all.iter().map(|c| value_of(&vals, c)).collect();
        ranking.sort_by(|x, y| y.cmp(x));
        for k in [1usize, 5, 50, 2808, 2809] {
            out.eval(Some(format!("sandwich top-{k}")));
            let res = ext.verif_top_k(k, &[]);
            let got: Vec<i64> = res.iter().map(|(c, _)| value_of(&vals, c)).collect();
            let want: Vec<i64> = ranking.iter().copied().take(k).collect();
            if got != want { out.fail("corpus-topk", path, &format!("top-{k}"), &format!("{:?}", &got[..got.len().min(10)]), &format!("{:?}", &want[..want.len().min(10)])); }
        }
    }
    // wide models: x1 and (x2 xor x3) with 63 / 64 / 70 / 130 features, almost all free (the root and-node has one child with two
    // configurations per free feature: the size of the product of the children's lists exceeds a machine word from 64 on).
    // With the values v_i = i (feature 1 selected, x2 xor x3 -> feature 3, every free feature selected) the best value is known,
    // and the next ones differ from it by deselecting the cheapest free features.
    for total in [63u32, 64, 70, 130] {
        let lines = vec!["o 1 0".to_string(), "t 2 0".to_string(), "1 2 1 2 -3 0".to_string(), "1 2 1 -2 3 0".to_string()];
        let text = format!("{} (-t {total})", lines.join(" / "));
        let Ok(d) = guarded(move || ddnnife::parser::distribute_building(lines, Some(total), None)) else { out.fail("load-panic", &text, "load", "panic", "model"); continue };
        let vals: Vec<i64> = (1..=total as i64).collect();
        let ext = ExtendedDdnnf::verif_with_values(d.clone(), vals.iter().map(|&v| v as f64).collect());
        let best: i64 = 1 + 3 + (4..=total as i64).sum::<i64>();
        // the k best values: deselect nothing; feature 4; feature 5 or (3 -> 2, i.e. -1); ...  (computed by brute force over the cheap choices)
        let mut losses: Vec<i64> = Vec::new();
        for mask in 0u32..(1 << 6) { let mut loss = 0; if mask & 1 == 1 { loss += 1; } for b in 1..6 { if mask >> b & 1 == 1 { loss += 3 + b as i64; } } losses.push(loss); }
        losses.sort();
        for k in [1usize, 2, 3, 5] {
            out.eval(Some(format!("{text}|top-{k}")));
            out.count("wide_topk", 1);
            let res = match guarded(|| ext.verif_top_k(k, &[])) { Ok(r) => r, Err(e) => { out.fail("topk-panic", &text, &format!("top-{k}"), &format!("panic: {e}"), "k configurations"); continue; } };
            let got: Vec<i64> = res.iter().map(|(c, _)| value_of(&vals, c)).collect();
            let want: Vec<i64> = losses.iter().take(k).map(|l| best - l).collect();
            if got != want { out.fail("wide-topk", &text, &format!("top-{k} with values v_i = i"), &format!("{:?}", got), &format!("{:?}", want)); continue; }
            let mut d2 = d.clone();
            if let Some((c, _)) = res.iter().find(|(c, _)| guarded(|| d2.execute_query(c).to_string()).ok().as_deref() != Some("1")) { out.fail("wide-topk", &text, &format!("top-{k}"), &format!("{:?}", &c[..c.len().min(6)]), "complete models"); }
        }
    }
    out.finish("every model of the C01 space x 5 integer objective vectors (tie-free signed powers of two; small tied; large with zeros; all zero; +-5) x 4 assumption lists x best and top-k for k in {1,2,3,count,count+1,random}, vs brute-force ranking of the truth table (ties by value; tie-free vectors compare configurations exactly with the model); corpus: sandwich top-k vs ranking of its full enumeration");
}
