mod atomic_props;
mod battery;
mod cache_props;
mod edit_props;
mod refcomp;
mod cnf_props;
mod cli_props;
mod shifted_props;
mod common;
mod conc_props;
mod core_props;
mod enum_props;
mod optimal_props;
mod persist_props;
mod gen;
mod history_props;
mod rng;
mod sample_props;
mod space;
mod stream_props;
mod tt;
mod twise_props;

use common::Args;

fn main() {
    let argv: Vec<String> = std::env::args().collect();
    let mut a = Args { prop: String::new(), tier: "quick".into(), seed: 1, out: "/verif/.cache/run".into(), replay: None };
    let mut i = 1;
    while i < argv.len() {
        match argv[i].as_str() {
            "--tier" => { a.tier = argv[i + 1].clone(); i += 1; }
            "--seed" => { a.seed = argv[i + 1].parse().unwrap_or(1); i += 1; }
            "--out" => { a.out = argv[i + 1].clone(); i += 1; }
            "--replay" => { a.replay = Some(argv[i + 1].clone()); i += 1; }
            p => a.prop = p.to_string(),
        }
        i += 1;
    }
    std::fs::create_dir_all(&a.out).ok();
    if let Ok(p) = std::fs::canonicalize(&a.out) { a.out = p.to_string_lossy().to_string(); }
    if std::env::var("VERIF_LOUD").is_err() { common::quiet_panics(); }
    match a.prop.as_str() {
        "C01" => core_props::c01(&a),
        "C02" => core_props::c02(&a),
        "C03" => core_props::c03(&a),
        "C04" => core_props::c04(&a),
        "C05" => core_props::c05(&a),
        "C06" => enum_props::c06(&a),
        "C07" => sample_props::c07(&a),
        "C18" => sample_props::c18(&a),
        "C08" => atomic_props::c08(&a),
        "C09" => twise_props::c09(&a),
        "C10" => persist_props::c10(&a),
        "C11" => edit_props::c11(&a),
        "C12" => cache_props::c12(&a),
        "C13" => stream_props::c13(&a),
        "C14" => conc_props::c14(&a),
        "C15" => conc_props::c15(&a),
        "C17" => conc_props::c17(&a),
        "C16" => history_props::c16(&a),
        "C19" => cnf_props::c19(&a),
        "C20" => optimal_props::c20(&a),
        "export" => probe_export(&a.out, a.seed as u32),
        "editprobe" => edit_props::probe(&a.out),
        "bigatomic2" => {
            // the same through the c2d loader (linear): every feature below K-1 as an or-triangle
            let k = a.seed as u32;
            let mut lines: Vec<String> = Vec::new();
            let mut tri: Vec<usize> = Vec::new();
            for f in 1..(k - 1) { let b = lines.len(); lines.push(format!("L {f}")); lines.push(format!("L -{f}")); lines.push(format!("O {f} 2 {} {}", b, b + 1)); tri.push(b + 2); }
            let b = lines.len();
            lines.push(format!("L {}", k - 1)); lines.push(format!("L {}", k)); lines.push(format!("A 2 {} {}", b, b + 1));
            lines.push(format!("L -{}", k - 1)); lines.push(format!("L -{}", k)); lines.push(format!("A 2 {} {}", b + 3, b + 4));
            lines.push(format!("O {} 2 {} {}", k - 1, b + 2, b + 5));
            tri.push(b + 6);
            lines.push(format!("A {} {}", tri.len(), tri.iter().map(|x| x.to_string()).collect::<Vec<_>>().join(" ")));
            let header = format!("nnf {} {} {}", lines.len(), 0, k);
            lines.insert(0, header);
            let t0 = std::time::Instant::now();
            let mut d = ddnnife::parser::distribute_building(lines, None, None);
            println!("loaded {} features, {} nodes in {:?}", d.number_of_variables, d.nodes.len(), t0.elapsed());
            let r = d.get_atomic_sets(Some(vec![k - 1, k]), &[], false);
            println!("atomic sets for candidates [{}, {}]: {:?} ({:?})", k - 1, k, r, t0.elapsed());
        }
        "bigatomic" => {
            // debugging aid: `vharness bigatomic --seed K`: features K-1 and K equivalent in a model of K features
            let k = a.seed as u32;
            let lines = vec!["o 1 0".to_string(), "t 2 0".to_string(), format!("1 2 {} {} 0", k - 1, k), format!("1 2 -{} -{} 0", k - 1, k)];
            let t0 = std::time::Instant::now();
            let mut d = ddnnife::parser::distribute_building(lines, Some(k), None);
            println!("loaded {} features, {} nodes in {:?}", d.number_of_variables, d.nodes.len(), t0.elapsed());
            let r = d.get_atomic_sets(Some(vec![k - 1, k]), &[], false);
            println!("atomic sets for candidates [{}, {}]: {:?} ({:?})", k - 1, k, r, t0.elapsed());
        }
        "streamprobe" => stream_props::probe(&a.out),
        other => { eprintln!("unknown property {other}"); std::process::exit(2); }
    }
}

#[allow(dead_code)]
pub fn probe_export(path: &str, n: u32) {
    let d = ddnnife::Ddnnf::from_file(std::path::Path::new(path), Some(n));
    print!("{}", common::export_nodes(&d));
}
