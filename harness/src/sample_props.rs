//! C07 uniform random sampling, C18 reproducibility across reloads and processes.
use crate::common::*;
use crate::gen::{Fmt, GenFile};
use crate::rng::Rng;
use crate::space::*;
use crate::tt::TT;
use std::process::{Command, Stdio};
use std::sync::{Arc, Mutex};

fn bin_path() -> String {
    std::env::var("VERIF_DDNNIFE_BIN").unwrap_or_else(|_| "/verif/.cache/target-bin/debug/ddnnife".into())
}

/// event tokens for the Lean replay (`q sample`)
fn encode_event(name: &str, data: &str) -> String {
    let (head, body) = data.split_once(" | ").unwrap_or((data.trim_end_matches(" |").trim_end_matches('|').trim(), ""));
    let head: Vec<&str> = head.split_whitespace().collect();
    let cfgs = |s: &str| s.split(';').map(|c| c.split_whitespace().collect::<Vec<_>>().join(",")).collect::<Vec<_>>().join(";");
    match name {
        "sample.and_shuffle" => format!("AS:{}:{}:{}:{}", head[0], head[1], head[2], cfgs(body)),
        "sample.or_picks" => format!("OP:{}:{}", head[0], body.split_whitespace().collect::<Vec<_>>().join(",")),
        "sample.or_shuffle" => format!("OS:{}:{}:{}", head[0], head[1], cfgs(body)),
        _ => format!("??:{name}"),
    }
}

fn valid_sample(tt: &TT, a: &[i32], cfg: &[i32]) -> bool {
    tt.index_of(cfg).map(|k| tt.bits[k]).unwrap_or(false) && a.iter().all(|l| cfg.contains(l))
}

/// Laurent–Massart: P(chi2_df >= df + 2 sqrt(df x) + 2x) <= exp(-x); x = ln(1e12) gives a false-alarm bound of 1e-12
fn chi2_threshold(df: f64) -> f64 { let x = 27.631021; df + 2.0 * (df * x).sqrt() + 2.0 * x }

pub fn c07(a: &Args) {
    let mut rng = Rng::new(a.seed);
    let mut out = Out::new(&a.out);
    let cfg = if a.thorough() {
        SpaceCfg { g1_max_n: 3, g1_rate: 0.1, random_d4: 900, random_c2d: 450, min_n: 2, max_n: 8 }
    } else {
        SpaceCfg { g1_max_n: 3, g1_rate: 0.02, random_d4: 160, random_c2d: 80, min_n: 2, max_n: 7 }
    };
    let events: Arc<Mutex<Vec<String>>> = Arc::new(Mutex::new(Vec::new()));
    {
        let ev = events.clone();
        ddnnife::verif_hooks::set_data_callback(Some(Box::new(move |name, data| { ev.lock().unwrap().push(encode_event(name, &data)); })));
    }
    let mut r2 = rng.fork();
    let mut chi_models: Vec<(GenFile, TT)> = Vec::new();
    let mut chi_nary = 0usize;
    for_each_model(&cfg, &mut rng, |file, tt| {
        let Ok(mut d) = load(file) else { out.fail("load-panic", &file.text(), "load", "panic", "model"); return };
        let export = export_nodes(&d);
        out.circuit(&export, &circuit_line(&d));
        let n = file.n;
        let mut asets: Vec<Vec<i32>> = vec![vec![]];
        for _ in 0..3 { let len = 1 + r2.below(n.min(3) as usize); asets.push((0..len).map(|_| { let v = 1 + r2.below(n as usize) as i32; if r2.chance(0.5) { v } else { -v } }).collect()); }
        if r2.chance(0.2) { asets.push((0..22).map(|_| { let v = 1 + r2.below(n as usize) as i32; v }).collect()); }
        // more than 20 literals that are all decided by the model itself (core features selected, dead ones deselected):
        // the request is equivalent to the empty one, whatever earlier requests left in the nodes
        { let total = tt.count(); let fixed: Vec<i32> = (1..=n as i32).filter_map(|v| { let c = tt.count_with(&[v]); if c == total { Some(v) } else if c == 0 { Some(-v) } else { None } }).collect();
          if !fixed.is_empty() && total > 0 { asets.push((0..(21 + r2.below(4))).map(|i| fixed[i % fixed.len()]).collect()); } }
        // a feature in both polarities (no model contains both), alone and next to another literal
        { let v = 1 + r2.below(n as usize) as i32; let w = 1 + r2.below(n as usize) as i32; asets.push(if r2.chance(0.5) { vec![v, -v] } else { vec![-v, w, v] }); }
        for al in asets {
            let count = tt.count_with(&al);
            for &k in &[0usize, 1, 2, 5, 17] {
                let seed = r2.below(1000) as u64;
                events.lock().unwrap().clear();
                let res = guarded(|| d.uniform_random_sampling(&al, k, seed));
                let evs: Vec<String> = events.lock().unwrap().drain(..).collect();
                let req = format!("urs a {:?} n {} s {} -t {}", al, k, seed, n);
                out.eval(if count >= 2 && k >= 1 { Some(format!("{}|{}", file.text(), req)) } else { None });
                match res {
                    Err(e) => out.fail("urs-panic", &file.text(), &req, &format!("panic: {e}"), "samples"),
                    Ok(None) => { if count > 0 { out.fail("urs-none", &file.text(), &req, "None", &format!("{k} samples")); } out.query("sample", &format!("{} {} | {}", k, fmt_ints(&al), evs.join(" ")), "none");
                        // the stream front end must refuse as well (an error reply, not configurations)
                        if count == 0 && k >= 1 && k <= 5 {
                            let msg = format!("random a {} l {} s {}", fmt_ints(&al), k, seed);
                            let s = guarded(|| d.handle_stream_msg(&msg)).unwrap_or_else(|e| format!("panic: {e}"));
                            events.lock().unwrap().clear();
                            let is_err = s.len() >= 2 && s.starts_with('E') && s.as_bytes()[1].is_ascii_digit();
                            if !is_err { out.fail("stream-random-unsat", &file.text(), &msg, &s, "an error reply (no model contains the assumptions)"); }
                        } }
                    Ok(Some(samples)) => {
                        if count == 0 { out.fail("urs-unsat", &file.text(), &req, &format!("{:?}", samples), "None"); }
                        if samples.len() != k { out.fail("urs-length", &file.text(), &req, &samples.len().to_string(), &k.to_string()); }
                        if let Some(bad) = samples.iter().find(|c| !valid_sample(tt, &al, c)) { out.fail("urs-invalid", &file.text(), &req, &format!("{:?}", bad), "a complete model containing A"); }
                        // repeated request on the same loaded model
                        events.lock().unwrap().clear();
                        let again = guarded(|| d.uniform_random_sampling(&al, k, seed)).ok().flatten();
                        events.lock().unwrap().clear();
                        if again.as_ref() != Some(&samples) { out.fail("urs-not-repeatable", &file.text(), &req, &format!("{:?}", again), &format!("{:?}", samples)); }
                        if k <= 5 {
                            let msg = format!("random{} l {} s {}", if al.is_empty() { String::new() } else { format!(" a {}", fmt_ints(&al)) }, k, seed);
                            let s = guarded(|| d.handle_stream_msg(&msg)).unwrap_or_else(|e| format!("panic: {e}"));
                            events.lock().unwrap().clear();
                            let want = samples.iter().map(|c| fmt_ints(c)).collect::<Vec<_>>().join(";");
                            if s != want { out.fail("stream-random", &file.text(), &msg, &s, &want); }
                        }
                        out.query("sample", &format!("{} {} | {}", k, fmt_ints(&al), evs.join(" ")), &fmt_cfgs(&samples));
                        out.count("trace_events", evs.len() as u64);
                        if r2.chance(0.002) { out.sample(format!("{} n={} {} -> {:?} via events {:?}", file.origin, n, req, samples, evs)); }
                    }
                }
            }
        }
        // large amount occasionally
        if r2.chance(0.05) {
            let k = 10000;
            events.lock().unwrap().clear();
            let res = guarded(|| d.uniform_random_sampling(&[], k, 7));
            events.lock().unwrap().clear();
            out.eval(None);
            match res { Ok(Some(s)) => { if s.len() != k || s.iter().any(|c| !valid_sample(tt, &[], c)) { out.fail("urs-large", &file.text(), "urs n 10000", &s.len().to_string(), "10000 valid samples"); } } _ => out.fail("urs-large", &file.text(), "urs n 10000", "none/panic", "10000 samples") }
        }
        let c = tt.count();
        // uniformity candidates: half of the slots are reserved for models with an or-node of >= 3 children
        if c >= 3 && c <= 256 {
            let cap = if a.thorough() { 40 } else { 12 };
            let nary = d.nodes.iter().any(|nd| matches!(&nd.ntype, ddnnife::NodeType::Or { children } if children.len() >= 3));
            if nary && chi_nary < cap / 2 { chi_nary += 1; chi_models.push((file.clone(), tt.clone())); }
            else if !nary && chi_models.len() - chi_nary < cap / 2 && r2.chance(0.3) { chi_models.push((file.clone(), tt.clone())); }
        }
    });
    ddnnife::verif_hooks::set_data_callback(None);
    // uniformity: chi-square per (model, A), >= 40 000 draws pooled over seeds
    for (file, tt) in chi_models {
        let mut d = load(&file).unwrap();
        let live_or3 = d.nodes.iter().any(|nd| matches!(&nd.ntype, ddnnife::NodeType::Or { children } if children.len() >= 3));
        let mut asets: Vec<Vec<i32>> = vec![vec![]];
        // single literals that remove some but not all models (they kill children of or-nodes); up to 4 of them
        let mut lits: Vec<i32> = (1..=file.n as i32).flat_map(|v| [v, -v]).filter(|&l| { let k = tt.count_with(&[l]); k >= 2 && k < tt.count() }).collect();
        r2.shuffle(&mut lits);
        for l in lits.into_iter().take(if live_or3 { 4 } else { 1 }) { asets.push(vec![l]); }
        for al in asets {
            let models = tt.models_with(&al);
            if models.len() < 2 { continue; }
            let mut hist = vec![0u64; tt.bits.len()];
            let per_seed = 800; let seeds = 52;
            for s in 0..seeds {
                match guarded(|| d.uniform_random_sampling(&al, per_seed, 1000 + s)) {
                    Ok(Some(samples)) => { for c in samples { if let Some(k) = tt.index_of(&c) { hist[k] += 1; } } }
                    Ok(None) => {}
                    Err(e) => { out.fail("urs-panic", &file.text(), &format!("urs a {:?} n {} s {}", al, per_seed, 1000 + s), &format!("panic: {e}"), "samples"); break; }
                }
            }
            let total = (per_seed * seeds as usize) as f64;
            let exp = total / models.len() as f64;
            let chi2: f64 = models.iter().map(|&k| { let o = hist[k] as f64; (o - exp) * (o - exp) / exp }).sum();
            let thr = chi2_threshold((models.len() - 1) as f64);
            out.eval(Some(format!("chi2|{}|{:?}", file.text(), al)));
            out.count("chi2_tests", 1);
            if live_or3 { out.count("chi2_models_with_nary_or", 1); }
            if chi2 > thr { out.fail("urs-not-uniform", &file.text(), &format!("urs a {:?}: {} draws over {} models", al, total, models.len()), &format!("chi2 = {:.1}, histogram {:?}", chi2, models.iter().map(|&k| hist[k]).collect::<Vec<_>>()), &format!("chi2 <= {:.1} (false alarm < 1e-12)", thr)); }
        }
    }
    // a model whose count exceeds u64 (72 features, 3 * 2^70 models): k complete models, reproducible
    {
        events.lock().unwrap().clear();
        let lines = vec!["o 1 0".to_string(), "t 2 0".to_string(), "1 2 1 0".to_string(), "1 2 -1 2 0".to_string()];
        let text = lines.join("\n");
        let n = 72u32;
        if let Ok(mut d) = guarded(move || ddnnife::parser::distribute_building(lines, Some(n), None)) {
            for (al, k, seed) in [(vec![], 7usize, 3u64), (vec![-1], 5, 11), (vec![70, -71], 9, 42)] {
                out.eval(Some(format!("{text}|huge|{:?}|{k}", al)));
                let r1 = guarded(|| d.uniform_random_sampling(&al, k, seed));
                let r2b = guarded(|| d.uniform_random_sampling(&al, k, seed));
                events.lock().unwrap().clear();
                let req = format!("urs a {:?} n {k} s {seed} -t {n}", al);
                match (r1, r2b) {
                    (Ok(Some(s1)), Ok(Some(s2))) => {
                        let ok = s1.len() == k && s1.iter().all(|c| c.len() == n as usize && (1..=n as i32).all(|v| c.contains(&v) != c.contains(&-v)) && (c.contains(&1) || c.contains(&2)) && al.iter().all(|l| c.contains(l)));
                        if !ok { out.fail("urs-invalid", &text, &req, &format!("{} samples", s1.len()), "k complete models containing A"); }
                        if s1 != s2 { out.fail("urs-not-repeatable", &text, &req, "two different lists", "the same list"); }
                    }
                    _ => out.fail("urs-panic", &text, &req, "None / panic", "samples"),
                }
            }
        }
    }
    crate::cli_props::cli_pass(a, &mut out, &mut rng, &["urs"]);
    crate::shifted_props::shifted(a, &mut out, &mut rng, &["urs"]);
    out.finish("(+ renumbered models: features base+1..base+n for base 126 / 254 / 1020, judged by the small model's truth table: urs) (+ CLI pass: the rebuilt binary's `urs` on a sample of the models, judged by the same oracles) every model of the C01 space x 4-5 assumption lists (incl. a 22-literal one) x amounts {0,1,2,5,17} (10^4 occasionally) x seeds: length, validity, None iff unsat, repeatability, stream `random`; every run's random decisions (or-splits, shuffles) recorded by the hook and replayed through the Lean model, which must accept each decision and reproduce the sample list; chi-square uniformity per (model, A) with <=256 models from 41 600 draws pooled over 52 seeds, threshold df+2sqrt(27.63 df)+55.26 (false alarm < 1e-12)");
}

// ------------------------------------------------------------------------------------------------
pub fn c18(a: &Args) {
    let mut rng = Rng::new(a.seed);
    let mut out = Out::new(&a.out);
    out.circuit("circuit 1\nL 1\nend\n", "circuit nodes=1 wf=true count=1");
    let cfg = if a.thorough() {
        SpaceCfg { g1_max_n: 3, g1_rate: 0.02, random_d4: 700, random_c2d: 100, min_n: 3, max_n: 10 }
    } else {
        SpaceCfg { g1_max_n: 3, g1_rate: 0.004, random_d4: 130, random_c2d: 20, min_n: 3, max_n: 9 }
    };
    let reloads = if a.thorough() { 20 } else { 8 };
    let mut r2 = rng.fork();
    let mut cli_models: Vec<GenFile> = Vec::new();
    let mut handle = |file: &GenFile, tt: &TT| {
        let Ok(mut first) = load(file) else { return };
        let smoothed = file.fmt == Fmt::D4 && first.nodes.len() > file.lines.len();
        out.count(if smoothed { "d4_smoothed" } else { "other" }, 1);
        let export0 = export_nodes(&first);
        // the model loader is a function of the file text alone (no hash-order parameter): same array
        match file.fmt {
            Fmt::D4 => out.query("d4load", &format!("{} | {}", file.n, file.lines.join(" / ")), &crate::persist_props::export_flat(&first)),
            Fmt::C2d => out.query("c2dload", &format!("| {}", file.lines.join(" / ")), &crate::persist_props::export_flat(&first)),
        }
        let al: Vec<i32> = if r2.chance(0.5) { vec![] } else { let v = 1 + r2.below(file.n as usize) as i32; vec![if r2.chance(0.5) { v } else { -v }] };
        let seed = r2.below(100000) as u64;
        let k = 1 + r2.below(12);
        let s0 = first.uniform_random_sampling(&al, k, seed);
        out.eval(if tt.count() >= 2 { Some(format!("{}|{:?}|{}|{}", file.text(), al, k, seed)) } else { None });
        for i in 1..reloads {
            let Ok(mut d) = load(file) else { continue };
            let e = export_nodes(&d);
            if e != export0 { out.fail("reload-node-array-differs", &file.text(), &format!("load #{} vs load #0 -t {}", i, file.n), &e.replace('\n', " / "), &export0.replace('\n', " / ")); break; }
            let s = d.uniform_random_sampling(&al, k, seed);
            if s != s0 { out.fail("reload-sample-differs", &file.text(), &format!("urs a {:?} n {} s {} on load #{} vs load #0", al, k, seed, i), &format!("{:?}", s), &format!("{:?}", s0)); break; }
        }
        if smoothed && cli_models.len() < if a.thorough() { 30 } else { 6 } { cli_models.push(file.clone()); }
        if r2.chance(0.02) { out.sample(format!("{} n={} urs a {:?} n {} s {} -> {:?} on {} loads", file.origin, file.n, al, k, seed, s0, reloads)); }
    };
    for_each_model(&cfg, &mut rng, &mut handle);
    // features that are only mentioned next to a False node (several at once): they come back as free
    // features under the root, in an order that must not depend on hash iteration
    {
        let mut r3 = Rng::new(a.seed ^ 0x51ed);
        for _ in 0..(if a.thorough() { 80 } else { 24 }) {
            let n = 4 + r3.below(6) as u32;
            let mut others: Vec<u32> = (2..=n).collect();
            r3.shuffle(&mut others);
            let k = 2 + r3.below((others.len() - 1).min(4));
            let vanish: Vec<i32> = others[..k].iter().map(|&v| if r3.chance(0.5) { v as i32 } else { -(v as i32) }).collect();
            let mut live: Vec<i32> = Vec::new();
            for &v in &others[k..] { if r3.chance(0.5) { live.push(if r3.chance(0.5) { v as i32 } else { -(v as i32) }); } }
            let fmt_l = |l: &[i32]| l.iter().map(|x| x.to_string()).collect::<Vec<_>>().join(" ");
            let mut lines: Vec<String> = vec!["o 1 0".into(), "t 2 0".into(), "o 3 0".into(), "f 4 0".into()];
            lines.push(format!("1 2 1 {} 0", fmt_l(&live)).replace("  ", " "));
            lines.push(format!("3 4 {} 0", fmt_l(&vanish)));
            if r3.chance(0.6) { lines.push(format!("3 4 {} 0", -vanish[0])); }
            lines.push("1 3 -1 0".into());
            let f = GenFile { fmt: Fmt::D4, lines, n, origin: "features vanishing with a false node".into() };
            let tt = f.tt();
            if tt.count() > 0 { handle(&f, &tt); }
        }
    }
    // the witness of D5: or-node whose second branch misses four variables
    {
        let f = GenFile { fmt: Fmt::D4, lines: vec!["o 1 0".into(), "t 2 0".into(), "1 2 1 2 3 4 5 0".into(), "1 2 -1 0".into()], n: 5, origin: "D5 witness".into() };
        let mut seen = std::collections::HashSet::new();
        for _ in 0..20 { let mut d = load(&f).unwrap(); seen.insert(format!("{:?}", d.uniform_random_sampling(&[], 5, 42))); }
        out.eval(Some("D5 witness".into()));
        if seen.len() != 1 { out.fail("reload-sample-differs", &f.text(), "urs n 5 s 42 on 20 loads -t 5", &format!("{} distinct sample lists", seen.len()), "1"); }
        cli_models.push(f);
    }
    // separate processes: CLI urs -s SEED twice, and stream `random s SEED`
    for (i, f) in cli_models.iter().enumerate() {
        let mp = format!("{}/reload{}.nnf", a.out, i);
        std::fs::write(&mp, f.text() + "\n").unwrap();
        let seed = 1 + rng.below(1000);
        let run_cli = || -> Vec<u8> {
            Command::new(bin_path()).args(["-i", &mp, "-t", &f.n.to_string(), "urs", "-s", &seed.to_string(), "-n", "7"]).stderr(Stdio::null()).output().map(|o| o.stdout).unwrap_or_default()
        };
        let run_stream = || -> Vec<u8> {
            use std::io::Write;
            let mut c = Command::new(bin_path()).args(["-i", &mp, "-t", &f.n.to_string(), "stream"]).stdin(Stdio::piped()).stdout(Stdio::piped()).stderr(Stdio::null()).spawn().unwrap();
            c.stdin.take().unwrap().write_all(format!("random l 7 s {}\nexit\n", seed).as_bytes()).unwrap();
            c.wait_with_output().map(|o| o.stdout).unwrap_or_default()
        };
        let (c1, c2, c3) = (run_cli(), run_cli(), run_cli());
        out.eval(Some(format!("cli|{}|{}", f.text(), seed)));
        out.count("separate_process_runs", 3);
        if c1 != c2 || c1 != c3 || c1.is_empty() { out.fail("process-sample-differs", &f.text(), &format!("ddnnife -t {} urs -s {} -n 7 in three processes", f.n, seed), &format!("{:?} / {:?}", String::from_utf8_lossy(&c2), String::from_utf8_lossy(&c3)), &String::from_utf8_lossy(&c1)); }
        let (s1, s2) = (run_stream(), run_stream());
        if s1 != s2 || s1.is_empty() { out.fail("process-sample-differs", &f.text(), &format!("stream: random l 7 s {} in two processes", seed), &String::from_utf8_lossy(&s2), &String::from_utf8_lossy(&s1)); }
        // CLI lines and stream answer carry the same samples
        let cli_line = String::from_utf8_lossy(&c1).lines().collect::<Vec<_>>().join(";");
        if cli_line != String::from_utf8_lossy(&s1).trim_end() { out.fail("cli-vs-stream-sample", &f.text(), &format!("urs -s {seed} -n 7 vs random l 7 s {seed}"), &cli_line, String::from_utf8_lossy(&s1).trim_end()); }
    }
    // large amounts (1 001, 2 500, 10 000 samples): the same list from two loads and from two runs of the binary
    {
        let mut picked: Vec<GenFile> = Vec::new();
        let mut r7 = Rng::new(a.seed ^ 0x19);
        let cfg7 = SpaceCfg { g1_max_n: 3, g1_rate: 0.0, random_d4: if a.thorough() { 24 } else { 6 }, random_c2d: if a.thorough() { 8 } else { 2 }, min_n: 4, max_n: 8 };
        for_each_model(&cfg7, &mut r7, |file, tt| { if tt.count() >= 4 { picked.push(file.clone()); } });
        for (i, file) in picked.iter().enumerate() {
            let k = [1001usize, 2500, 10000][i % 3];
            let (Ok(mut d1), Ok(mut d2)) = (load(file), load(file)) else { continue };
            out.eval(Some(format!("{}|urs {k}", file.text())));
            out.count("large_amount_reloads", 1);
            let (s1, s2) = (d1.uniform_random_sampling(&[], k, 5), d2.uniform_random_sampling(&[], k, 5));
            if s1 != s2 || s1.as_ref().map(|s| s.len()) != Some(k) { out.fail("reload-sample-differs", &file.text(), &format!("urs n {k} s 5 on two loads -t {}", file.n), "two different lists (or not k samples)", "the same list of k samples"); }
            let s3 = d1.uniform_random_sampling(&[], k, 5);
            if s3 != s1 { out.fail("reload-sample-differs", &file.text(), &format!("urs n {k} s 5 twice on one instance -t {}", file.n), "two different lists", "the same list"); }
            if i < 3 {
                let mp = format!("{}/large_amount_model.nnf", a.out);
                std::fs::write(&mp, file.text()).unwrap();
                let run = || { let mut c = Command::new(bin_path()); c.arg("-i").arg(&mp); if matches!(file.fmt, Fmt::D4) { c.arg("-t").arg(file.n.to_string()); } c.args(["urs", "-s", "5", "-n", &k.to_string()]).stderr(Stdio::null()).output().map(|o| o.stdout).unwrap_or_default() };
                let (o1, o2) = (run(), run());
                if o1 != o2 || o1.is_empty() { out.fail("cli-urs-not-reproducible", &file.text(), &format!("CLI urs -s 5 -n {k} twice -t {}", file.n), "two different outputs", "the same output"); }
            }
        }
    }
    // the same for models whose features carry large numbers (127.., 255..): every load gives the same array and the same seeded sample
    {
        let mut picked: Vec<GenFile> = Vec::new();
        let mut r6 = Rng::new(a.seed ^ 0x18);
        let cfg6 = SpaceCfg { g1_max_n: 3, g1_rate: 0.0, random_d4: if a.thorough() { 60 } else { 12 }, random_c2d: 0, min_n: 3, max_n: 7 };
        for_each_model(&cfg6, &mut r6, |file, tt| { if matches!(file.fmt, Fmt::D4) && tt.count() >= 2 { picked.push(file.clone()); } });
        for file in picked {
            for base in [126u32, 254] {
                let lines = crate::shifted_props::shift_d4(&file, base);
                let total = base + file.n;
                let text = lines.join("\n");
                let ls = lines.clone();
                let Ok(mut first) = guarded(move || ddnnife::parser::distribute_building(ls, Some(total), None)) else { continue };
                let e0 = export_nodes(&first);
                let s0 = first.uniform_random_sampling(&[], 4, 77);
                out.eval(Some(format!("{text}|-t {total}|reloads")));
                out.count("renumbered_reloads", 1);
                for i in 1..4 {
                    let ls = lines.clone();
                    let Ok(mut d) = guarded(move || ddnnife::parser::distribute_building(ls, Some(total), None)) else { continue };
                    if export_nodes(&d) != e0 { out.fail("reload-node-array-differs", &text, &format!("load #{i} vs load #0 -t {total}"), "a different node array", "the same node array"); break; }
                    if d.uniform_random_sampling(&[], 4, 77) != s0 { out.fail("reload-sample-differs", &text, &format!("urs n 4 s 77, load #{i} vs load #0 -t {total}"), "another sample", "the same sample"); break; }
                }
            }
        }
    }
    out.finish("every model of the C01 space (counted: d4 inputs that needed smoothing) loaded 8 (quick) / 20 (thorough) times in one process: exported node arrays must be identical and a seeded sampling request (random A, k, seed) must give the same list on every load; CLI `urs -s SEED -n 7` in three processes and stream `random s SEED` in two processes; the witness of the repaired HashSet-order defect");
}
