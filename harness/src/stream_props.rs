//! C13 every stream line gets the documented answer or a coded error, never a crash.
use crate::common::*;
use crate::gen::{random_d4, GenFile};
use crate::rng::Rng;
use crate::tt::TT;
use ddnnife::Ddnnf;

const COMMANDS: &[&str] = &["count", "sat", "core", "enum", "random", "atomic", "atomic-cross", "t-wise", "clause-update", "undo-update", "save-ddnnf", "save-cnf", "exit", "bogus"];
const KEYWORDS: &[&str] = &["a", "assumptions", "v", "variables", "l", "limit", "s", "seed", "p", "path", "f", "fitness", "t", "total-features", "add", "rmv"];
const VALUES: &[&str] = &["1", "-2", "3", "0", "9", "-2147483648", "2147483647", "99999999999", "1..3", "2..", "-1..1", "3..1", "..5", "1.5", "-", "--1", "abc", "1e3", "-0", "+1", "1..99999999999", "-2147483648..2147483647", "5..5", "0.5", "1..3", "-9..-1", "-9..2", "-9..", "-3..9"];

fn is_err(s: &str) -> bool { let b = s.as_bytes(); b.len() >= 3 && b[0] == b'E' && (b'1'..=b'6').contains(&b[1]) && b[2] == b' ' }

/// lines whose cost is a resource question (huge sample amounts), not modelled
fn resource_heavy(toks: &[String]) -> bool {
    let cmd = toks.first().map(|s| s.as_str()).unwrap_or("");
    for w in toks.windows(2) {
        // `clause-update t N` recompiles with N features: a huge N is a resource question as well
        if (w[0] == "t" || w[0] == "total-features") && cmd == "clause-update" {
            if let Ok(v) = w[1].trim_start_matches('+').parse::<u64>() { if v > 16 { return true; } }
        }
        if (w[0] == "l" || w[0] == "limit") && (cmd == "random" || cmd == "t-wise") {
            if let Ok(v) = w[1].trim_start_matches('+').parse::<u64>() { if v > (if cmd == "t-wise" { 3 } else { 10_000 }) { return true; } }
        }
    }
    false
}

/// an independent reading of the well-formed subset `cmd [a ints] [v ints]` (plain ints and ranges) → expected answer
fn simple_expected(tt: &TT, toks: &[String]) -> Option<String> {
    let n = tt.n as i64;
    if toks.is_empty() { return None; }
    let cmd = toks[0].as_str();
    if !matches!(cmd, "count" | "sat" | "core") { return None; }
    let mut a: Vec<i32> = Vec::new(); let mut v: Vec<i32> = Vec::new();
    let mut i = 1; let mut seen = std::collections::HashSet::new();
    let mut out_of_range = false;
    while i < toks.len() {
        let kw = toks[i].as_str();
        let target = match kw { "a" | "assumptions" => 0, "v" | "variables" => 1, _ => return None };
        if !seen.insert(target) { return None; }
        i += 1;
        let mut got = Vec::new();
        while i < toks.len() && !toks[i].chars().any(|c| c.is_alphabetic()) {
            let t = &toks[i];
            if let Ok(x) = t.parse::<i64>() { if x == 0 { return None; } if x.abs() > n { out_of_range = true; } else { got.push(x as i32); } }
            else if let Some((l, r)) = t.split_once("..") {
                let lo: i64 = l.parse().ok()?; let hi: i64 = if r.is_empty() { n } else { r.parse().ok()? };
                if lo.abs() > 1000 || hi.abs() > 1000 { return None; }
                for x in lo..=hi { if x == 0 { continue; } if x.abs() > n { out_of_range = true; } else { got.push(x as i32); } }
            } else { return None; }
            i += 1;
        }
        if got.is_empty() && !out_of_range { return None; }
        if target == 0 { a = got } else { v = got }
    }
    // a literal outside -n..n must be rejected with the boundary error
    if out_of_range { return Some("E3!".to_string()); }
    if cmd == "core" {
        // per variable: the literal is reported iff every model containing the assumptions contains it
        // (vacuously all of them when no model contains the assumptions)
        if v.is_empty() {
            if tt.count_with(&a) == 0 { return None; }
            let mut lits: Vec<i32> = Vec::new();
            for x in 1..=tt.n as i32 { for l in [x, -x] { let mut al = a.clone(); al.push(l); if tt.count_with(&al) == tt.count_with(&a) { lits.push(l); } } }
            lits.sort();
            return Some(lits.iter().map(|l| l.to_string()).collect::<Vec<_>>().join(" "));
        }
        return Some(v.iter().filter(|x| { let mut al = a.clone(); al.push(**x); tt.count_with(&al) == tt.count_with(&a) }).map(|x| x.to_string()).collect::<Vec<_>>().join(";"));
    }
    let one = |l: &[i32]| -> String { if cmd == "count" { tt.count_with(l).to_string() } else { (tt.count_with(l) > 0).to_string() } };
    if v.is_empty() { Some(one(&a)) } else { Some(v.iter().map(|x| { let mut l = a.clone(); l.push(*x); one(&l) }).collect::<Vec<_>>().join(";")) }
}

struct Session<'a> { d: Ddnnf, file: &'a GenFile, tt: TT, export: String, cnf: bool, cnf_text: String }

fn run_line(out: &mut Out, s: &mut Session, line: &str, save_dir: &str) {
    let toks: Vec<String> = line.split_whitespace().map(|x| x.to_string()).collect();
    if resource_heavy(&toks) { out.count("skipped_resource_heavy", 1); return; }
    let line = line.replace("SAVEDIR", save_dir);
    let before_vars = s.d.number_of_variables;
    let before_cnf = if s.cnf { saved_cnf(&mut s.d, save_dir) } else { String::new() };
    let reply = guarded(|| s.d.handle_stream_msg(&line));
    out.eval(Some(format!("{}|{}", s.file.n, line)));
    match reply {
        Err(e) => {
            out.fail("stream-panic", &s.file.text(), &line, &format!("panic: {e}"), "a result or an error E1..E6");
            // the instance may be in an arbitrary state after a panic: start over (the driver follows via a fresh circuit block)
            if s.cnf {
                s.d = load_cnf_session(&s.cnf_text, save_dir); s.tt = s.file.tt(); s.export = export_nodes(&s.d);
                let (n0, c0) = crate::refcomp::parse_cnf(&saved_cnf(&mut s.d, save_dir));
                out.circuit(&s.export, &circuit_line(&s.d));
                out.query("ccinit", &fmt_state(n0, &c0), "ok");
            }
            else { s.d = load(s.file).unwrap(); out.circuit(&s.export, &circuit_line(&s.d)); }
        }
        Ok(r) => {
            // "The end of an answer is indicated by a new line": one line per answer, for every command
            if r.contains('\n') { out.fail("multi-line-reply", &s.file.text(), &line, &r, "a one-line reply"); }
            if is_err(&r) {
                out.count(&format!("err_{}", &r[..2]), 1);
                if simple_expected(&s.tt, &toks).as_deref() == Some("E3!") { out.count("oracle_checked_out_of_range", 1); if !r.starts_with("E3 ") { out.fail("stream-answer", &s.file.text(), &line, &r, "E3 error: not all parameters are within the boundary"); } }
                // a rejected line leaves the loaded model unchanged
                if s.d.number_of_variables != before_vars || export_nodes(&s.d) != s.export { out.fail("rejected-line-changed-model", &s.file.text(), &line, "model changed", "model unchanged"); }
                if s.cnf { let now = saved_cnf(&mut s.d, save_dir); if now != before_cnf { out.fail("rejected-line-changed-clauses", &s.file.text(), &line, &now, &before_cnf); } }
            } else {
                out.count("ok_replies", 1);
                if simple_expected(&s.tt, &toks).as_deref() == Some("E3!") { out.fail("stream-answer", &s.file.text(), &line, &r, "E3 error: not all parameters are within the boundary"); }
                if let Some(want) = simple_expected(&s.tt, &toks) { if want != "E3!" { out.count("oracle_checked", 1); if want != r { out.fail("stream-answer", &s.file.text(), &line, &r, &want); } } }
            }
            if r.starts_with('E') && !is_err(&r) && toks.first().map(|c| c != "exit").unwrap_or(true) && r.len() > 1 && r.as_bytes()[1].is_ascii_digit() {
                out.fail("undocumented-error-code", &s.file.text(), &line, &r, "E1..E6");
            }
            let first_line = r.lines().next().unwrap_or("");
            let reply_for_driver = if toks.first().map(|c| c == "t-wise").unwrap_or(false) && !is_err(&r) { "TWISE".to_string() } else { first_line.split_whitespace().collect::<Vec<_>>().join(" ") };
            if s.cnf {
                // the Lean handler with the clause cache: same reply, same stored clause set afterwards
                let text = saved_cnf(&mut s.d, save_dir);
                let (n, cls) = crate::refcomp::parse_cnf(&text);
                out.query("msgc", &format!("{} ||| {}", reply_for_driver, line), &format!("agree {}", fmt_state(n, &cls)));
                // an accepted clause-update / undo-update changes the model: the oracle follows the stored CNF (C12 decides its exactness)
                if !is_err(&r) && toks.first().map(|c| c == "clause-update" || c == "undo-update").unwrap_or(false) {
                    s.tt = crate::refcomp::cnf_tt(n, &cls);
                    s.export = export_nodes(&s.d);
                    out.count("cnf_accepted_updates", 1);
                    if s.tt.count() == 0 { // never leave the session on an unsatisfiable model
                        s.d = load_cnf_session(&s.cnf_text, save_dir); s.tt = s.file.tt(); s.export = export_nodes(&s.d);
                        let (n0, c0) = crate::refcomp::parse_cnf(&saved_cnf(&mut s.d, save_dir));
                        out.circuit(&s.export, &circuit_line(&s.d));
                        out.query("ccinit", &fmt_state(n0, &c0), "ok");
                    } else {
                        out.circuit(&s.export, &circuit_line(&s.d));
                    }
                }
                return;
            }
            out.query("msg", &format!("{} ||| {}", reply_for_driver, line), "agree");
        }
    }
}

/// `n | c1 / c2 ..` with the clauses in BTreeSet order (the format of the Lean driver)
fn fmt_state(n: u32, cls: &[crate::refcomp::Clause]) -> String {
    let set: std::collections::BTreeSet<crate::refcomp::Clause> = cls.iter().cloned().collect();
    format!("{} | {}", n, set.iter().map(|c| c.iter().map(|l| l.to_string()).collect::<Vec<_>>().join(" ")).collect::<Vec<_>>().join(" / ")).trim_end().to_string()
}
fn load_cnf_session(text: &str, dir: &str) -> Ddnnf {
    let p = format!("{dir}/session.cnf");
    std::fs::write(&p, text).unwrap();
    Ddnnf::from_file(std::path::Path::new(&p), None)
}
fn saved_cnf(d: &mut Ddnnf, dir: &str) -> String {
    let p = format!("{dir}/session_saved.cnf");
    let _ = std::fs::remove_file(&p);
    let _ = guarded(|| d.handle_stream_msg(&format!("save-cnf p {p}")));
    std::fs::read_to_string(&p).unwrap_or_default()
}

fn permute_groups(rng: &mut Rng, toks: &[String]) -> Option<Vec<String>> {
    // split after the command into groups starting at a keyword
    let mut groups: Vec<Vec<String>> = Vec::new();
    for t in &toks[1..] {
        if KEYWORDS.contains(&t.as_str()) || groups.is_empty() { groups.push(vec![t.clone()]); } else { groups.last_mut().unwrap().push(t.clone()); }
    }
    if groups.len() < 2 { return None; }
    rng.shuffle(&mut groups);
    let mut out = vec![toks[0].clone()];
    for g in groups { out.extend(g); }
    Some(out)
}

fn drive(out: &mut Out, rng: &mut Rng, s: &mut Session, thorough: bool, save_dir: &str) {
        let alphabet: Vec<&str> = KEYWORDS.iter().chain(VALUES.iter()).copied().collect();
        // exhaustive: command followed by up to `depth` tokens
        let depth = 2;
        let mut stack: Vec<Vec<usize>> = vec![vec![]];
        while let Some(idx) = stack.pop() {
            for (ci, cmd) in COMMANDS.iter().enumerate() {
                // quick tier: thin out the deepest level
                if idx.len() == depth && !thorough && (ci + idx.iter().sum::<usize>()) % 4 != 0 { continue; }
                let mut toks = vec![cmd.to_string()];
                toks.extend(idx.iter().map(|&i| alphabet[i].to_string()));
                let line = toks.join(" ").replace("p abc", "p SAVEDIR/s.nnf").replace("path abc", "path SAVEDIR/s.nnf");
                run_line(out, s, &line, &save_dir);
            }
            if idx.len() < depth { for i in 0..alphabet.len() { let mut n = idx.clone(); n.push(i); stack.push(n); } }
        }
        out.count("exhaustive_depth", depth as u64);
        // random longer lines, mostly well-formed
        for _ in 0..(if thorough { 12000 } else { 2500 }) {
            let cmd = *rng.pick(COMMANDS);
            let mut toks = vec![cmd.to_string()];
            let groups = 1 + rng.below(3);
            for _ in 0..groups {
                let kw = *rng.pick(KEYWORDS);
                toks.push(kw.to_string());
                let nvals = rng.below(4);
                for _ in 0..nvals {
                    if rng.chance(0.75) { let v = 1 + rng.below(s.file.n as usize) as i32; toks.push(if rng.chance(0.5) { v.to_string() } else { (-v).to_string() }); }
                    else { toks.push(rng.pick(VALUES).to_string()); }
                }
            }
            if rng.chance(0.1) { let i = rng.below(toks.len()); let t = toks[i].clone(); toks.push(t); }
            let line = toks.join(if rng.chance(0.1) { "  " } else { " " });
            run_line(out, s, &line, &save_dir);
            // parameter order
            if rng.chance(0.3) && !matches!(cmd, "enum" | "random" | "t-wise") {
                if let Some(p) = permute_groups(rng, &toks) {
                    let has_alias_pair = [("a", "assumptions"), ("v", "variables"), ("l", "limit"), ("s", "seed"), ("p", "path"), ("f", "fitness"), ("t", "total-features")].iter().any(|(x, y)| toks.iter().any(|t| t == x) && toks.iter().any(|t| t == y));
                    let (l1, l2) = (toks.join(" "), p.join(" "));
                    if !resource_heavy(&toks) {
                        // on clones: the session itself must only see the lines the driver sees
                        let (mut c1, mut c2) = (s.d.clone(), s.d.clone());
                        let r1 = guarded(|| c1.handle_stream_msg(&l1)).unwrap_or_else(|e| format!("panic: {e}"));
                        let r2 = guarded(|| c2.handle_stream_msg(&l2)).unwrap_or_else(|e| format!("panic: {e}"));
                        out.count("order_pairs", 1);
                        // both accepted, or both rejected; when accepted the answers agree
                        if !is_err(&r1) && !is_err(&r2) && r1 != r2 {
                            if has_alias_pair { out.count("order_dependent_alias_pairs", 1); }
                            out.fail(if has_alias_pair { "parameter-order-alias" } else { "parameter-order" }, &s.file.text(), &format!("{:?} vs {:?}", l1, l2), &r2, &r1);
                        }
                    }
                }
            }
        }
        // printable junk
        for _ in 0..(if thorough { 3000 } else { 500 }) {
            let len = 1 + rng.below(30);
            let line: String = (0..len).map(|_| { let c = 32 + rng.below(95) as u8; if c == b'|' { 'x' } else { c as char } }).collect();
            run_line(out, s, &line, &save_dir);
        }
        // count / sat / core with assumptions and variables over all pairs of literals, incl. unsatisfiable assumptions
        {
            let lits: Vec<i32> = (1..=s.file.n as i32).flat_map(|x| [x, -x]).collect();
            for &x in &lits { for &y in &lits {
                for cmd in ["core", "count", "sat"] {
                    if cmd != "core" && (x + y) % 3 != 0 { continue; }
                    run_line(out, s, &format!("{cmd} a {x} v {y}"), &save_dir);
                    if (x * 7 + y) % 5 == 0 { run_line(out, s, &format!("{cmd} v {y} {x} a {x} {}", -x), &save_dir); }
                }
            } }
            for &x in &lits { run_line(out, s, &format!("core a {x}"), &save_dir); }
        }
        run_line(out, s, "", &save_dir);
        run_line(out, s, "   ", &save_dir);
        // the inputs of the repaired defects
        for l in ["clause-update t 5", "count a -2147483648", "enum l 1", "enum l 18446744073709551615", "clause-update t 5 add 1 2", "clause-update total-features 0", "clause-update t 2..", "count a -2147483648..2147483647", "clause-update t 1..2147483647 add 1", "count a 1..2147483647 v 1", "count a 1..2 v 1..2", "t-wise l 1 f 0.5 0.5 0.5 0.5", "count a 1 v 1", "sat v 2 2"] { run_line(out, s, l, &save_dir); }
}

pub fn c13(a: &Args) {
    let mut rng = Rng::new(a.seed);
    let mut out = Out::new(&a.out);
    let save_dir = a.out.clone();
    let models: Vec<(GenFile, TT)> = (0..(if a.thorough() { 3 } else { 1 })).map(|i| loop {
        let n = 4 + rng.below(3) as u32;
        let (f, _) = random_d4(&mut rng, n, 4);
        let tt = f.tt();
        // the first model has a core or dead feature (and a free one), so that assumptions can be unsatisfiable by a single literal
        let has_core = (1..=n as i32).any(|v| tt.count_with(&[v]) == 0 || tt.count_with(&[-v]) == 0);
        if tt.count() >= 3 && tt.count() < (1 << n) && (i != 0 || has_core) { break (f, tt); }
    }).collect();
    for (file, tt) in &models {
        let d = load(file).unwrap();
        let export = export_nodes(&d);
        out.circuit(&export, &circuit_line(&d));
        let mut s = Session { d, file, tt: tt.clone(), export, cnf: false, cnf_text: String::new() };
        drive(&mut out, &mut rng, &mut s, a.thorough(), &save_dir);
        out.sample(format!("model n={} : {}", file.n, file.lines.join(" / ")));
    }
    // a model loaded from a CNF (reference compiler behind the hook): same alphabet, plus clause commands.
    // Replies are judged by the oracle only (result or E1..E6, no panic, a rejected line changes neither the
    // model nor the stored clauses, count / sat / core of the well-formed subset vs the current clause set);
    // the Lean model of the handler covers the nnf-loaded case, the clause cache is C12's model.
    {
        crate::refcomp::install();
        for _ in 0..(if a.thorough() { 3 } else { 1 }) {
            let n = 4 + rng.below(2) as u32;
            let cls: Vec<crate::refcomp::Clause> = loop {
                let m = 2 + rng.below(4);
                let cls: Vec<crate::refcomp::Clause> = (0..m).map(|_| { let w = 1 + rng.below(3); let mut c = crate::refcomp::Clause::new(); while c.len() < w { let v = 1 + rng.below(n as usize) as i32; if c.contains(&v) || c.contains(&-v) { continue; } c.insert(if rng.chance(0.5) { v } else { -v }); } c }).collect();
                let t = crate::refcomp::cnf_tt(n, &cls);
                if t.count() >= 3 && t.count() < (1 << n) { break cls; }
            };
            let text = crate::refcomp::cnf_text(n, &cls);
            let file = GenFile { fmt: crate::gen::Fmt::D4, lines: crate::refcomp::compile_cnf(n, &cls, None), n, origin: "cnf".into() };
            let Ok(d) = guarded(|| load_cnf_session(&text, &save_dir)) else { out.fail("cnf-load-panic", &text, "load", "panic", "a model"); continue };
            let export = export_nodes(&d);
            let mut s = Session { d, file: &file, tt: crate::refcomp::cnf_tt(n, &cls), export, cnf: true, cnf_text: text.clone() };
            {
                let (n0, c0) = crate::refcomp::parse_cnf(&saved_cnf(&mut s.d, &save_dir));
                out.circuit(&s.export, &circuit_line(&s.d));
                out.query("ccinit", &fmt_state(n0, &c0), "ok");
            }
            drive(&mut out, &mut rng, &mut s, a.thorough(), &save_dir);
            // clause commands with plausible arguments
            for _ in 0..(if a.thorough() { 1500 } else { 400 }) {
                let lit = |rng: &mut Rng| { let v = 1 + rng.below(n as usize + 1) as i32; if rng.chance(0.5) { v } else { -v } };
                let clause = |rng: &mut Rng| { let w = 1 + rng.below(3); (0..w).map(|_| lit(rng).to_string()).collect::<Vec<_>>().join(" ") };
                let line = match rng.below(10) {
                    0 => "undo-update".to_string(),
                    1 => format!("clause-update add {} 0", clause(&mut rng)),
                    2 => format!("clause-update rmv {} 0", clause(&mut rng)),
                    3 => format!("clause-update add {} 0 {} 0 rmv {}", clause(&mut rng), clause(&mut rng), clause(&mut rng)),
                    4 => format!("clause-update t {} add {}", n as i32 + rng.below(3) as i32 - 1, clause(&mut rng)),
                    5 => format!("clause-update add {} 0 0", clause(&mut rng)),
                    6 => format!("clause-update rmv {} t {}", clause(&mut rng), n + 1),
                    7 => format!("save-cnf p {}", if rng.chance(0.5) { format!("{save_dir}/x.cnf") } else { "relative.cnf".to_string() }),
                    8 => format!("clause-update add {} {}", clause(&mut rng), rng.pick(VALUES)),
                    _ => format!("count a {}", lit(&mut rng)),
                };
                run_line(&mut out, &mut s, &line, &save_dir);
            }
            out.count("cnf_sessions", 1);
            out.sample(format!("CNF-loaded model: {}", text.replace('\n', " / ")));
        }
    }
    crate::cli_props::cli_pass(a, &mut out, &mut rng, &["stream-queries", "stream"]);
    out.finish("(+ CLI pass: the rebuilt binary's `stream-queries / stream` on a sample of the models) nnf-loaded models (and, judged by the oracle only, a model loaded from a CNF with clause-update / undo-update / save-cnf lines): every line `command t1 t2` (quick: the two-token level thinned to a quarter) over 14 commands x 37 tokens (all parameter keywords in both spellings, numbers, ranges, 0, out-of-range and extreme numbers, malformed numbers, a path), random longer lines with 1..3 parameter groups (duplicates injected), printable junk, empty lines, the inputs of the repaired defects; each reply: no panic, result or E1..E6, rejected line leaves the model unchanged, count/sat answers of the well-formed subset vs truth table, parameter groups permuted; every reply compared with the Lean model of handle_stream_msg (exact text where literal, code otherwise) on one long-lived instance (cursor state included). Lines asking `random`/`t-wise` for more than 10^4 / t>3 samples are skipped (resource question, not modelled).");
}

/// debugging aid: `vharness streamprobe --out FILE`: first line `p cnf ..` + clauses until a line `---`, then stream lines
pub fn probe(path: &str) {
    crate::refcomp::install();
    let text = std::fs::read_to_string(path).unwrap();
    let (cnf, lines) = text.split_once("---\n").unwrap();
    let dir = std::env::temp_dir().to_string_lossy().to_string();
    let mut d = load_cnf_session(cnf, &dir);
    for l in lines.lines() {
        let r = guarded(|| d.handle_stream_msg(l)).unwrap_or_else(|e| format!("panic: {e}"));
        let (n, cls) = crate::refcomp::parse_cnf(&saved_cnf(&mut d, &dir));
        println!("{l:40} -> {r:?}   state {}   n={} count={}", fmt_state(n, &cls), d.number_of_variables, d.rc());
    }
}
