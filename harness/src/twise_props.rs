//! C09 t-wise samples contain only models and cover every valid t-interaction.
//! The construction is randomised (hash iteration order, rng): every run is a distinct exploration.
//! Each sample is judged by brute force over the truth table of the input text and handed to the
//! Lean checker (`TWise.check`, proved sound) together with the exported node array.
use crate::common::*;
use crate::gen::GenFile;
use crate::rng::Rng;
use crate::space::*;
use crate::tt::TT;
use ddnnife::Ddnnf;

pub fn parse_sample(reply: &str) -> Option<Vec<Vec<i32>>> {
    if reply == "true" || reply == "false" || reply.is_empty() { return Some(vec![]); }
    let mut out = Vec::new();
    for line in reply.split(|c| c == '\n' || c == ';') {
        if line.trim().is_empty() { continue; }
        let mut c = Vec::new();
        for t in line.split_whitespace() { c.push(t.parse::<i32>().ok()?); }
        out.push(c);
    }
    Some(out)
}

/// first violation of the property by `sample`, judged by the truth table
pub fn judge(tt: &TT, t: usize, sample: &[Vec<i32>]) -> Option<String> {
    for c in sample {
        match tt.index_of(&{ let mut s = c.clone(); s.sort_by_key(|l| l.abs()); s }) {
            Some(k) if tt.bits[k] => {}
            _ => return Some(format!("configuration {:?} is not a complete model", c)),
        }
    }
    let n = tt.n as usize;
    if t > n { return None; }
    // all t-subsets of the variables x sign patterns
    let mut idx: Vec<usize> = (0..t).collect();
    loop {
        for signs in 0..(1u32 << t) {
            let inter: Vec<i32> = idx.iter().enumerate().map(|(j, &v)| if signs >> j & 1 == 1 { (v + 1) as i32 } else { -((v + 1) as i32) }).collect();
            if tt.count_with(&inter) > 0 && !sample.iter().any(|c| inter.iter().all(|l| c.contains(l))) {
                return Some(format!("interaction {:?} is contained in a model but in no configuration of the sample", inter));
            }
        }
        // next combination
        let mut i = t;
        while i > 0 && idx[i - 1] == n - t + (i - 1) { i -= 1; }
        if i == 0 { break; }
        idx[i - 1] += 1;
        for j in i..t { idx[j] = idx[j - 1] + 1; }
    }
    None
}

/// The construction itself: one library call with the hooks recording every order-dependent choice
/// (hash iteration order of the cross interactions, the unstable sort, the rank comparison, the
/// shuffle); the Lean model `TW.sampleTWiseQ` replays the run with these choices and must return the
/// same configurations in the same order.
fn construction(out: &mut Out, d: &Ddnnf, export: &str, t: usize) {
    use ddnnife::ddnnf::anomalies::t_wise_sampling::SamplingResult;
    use std::sync::{Arc, Mutex};
    let events: Arc<Mutex<Vec<String>>> = Arc::new(Mutex::new(Vec::new()));
    {
        let ev = events.clone();
        ddnnife::verif_hooks::set_data_callback(Some(Box::new(move |name, data| {
            let e = match name {
                "twise.inter" => format!("I {}", data.replace(';', " ; ")),
                "twise.sorted" => format!("S {data}"),
                "twise.drop" => format!("D {data}"),
                "twise.shuf" => format!("H {data}"),
                _ => return,
            };
            ev.lock().unwrap().push(e);
        })));
    }
    let res = guarded(|| d.sample_t_wise(t));
    ddnnife::verif_hooks::set_data_callback(None);
    let evs: Vec<String> = events.lock().unwrap().drain(..).collect();
    let Ok(res) = res else { return };   // panics are reported by the stream pass
    let body = match &res {
        SamplingResult::Void => "false".to_string(),
        SamplingResult::Empty => "true".to_string(),
        SamplingResult::ResultWithSample(s) => s.iter().map(|c| fmt_ints(c.get_literals())).collect::<Vec<_>>().join(";"),
    };
    out.count("construction_replays", 1);
    out.count("construction_oracle_entries", evs.len() as u64);
    out.circuit(export, &circuit_line(d));
    out.query("twgen", &format!("{t} | {}", evs.join(" | ")), &format!("rejected=0 left=0 | {body}"));
}

/// The fitness-guided construction: the stream request runs with the hooks recording every comparison of
/// float averages (merge_sorted_configs, the repositioning in cover_with_caching_sorted), the order in which the
/// cross interactions are covered, the completion calc_best_config chose, and the trim choices; the Lean model
/// `TW.sampleTWiseAQ` replays the run and must return the same configurations in the same order.
fn construction_fitness(out: &mut Out, d: &mut Ddnnf, export: &str, t: usize, line: &str) -> Result<String, String> {
    use std::sync::{Arc, Mutex};
    #[derive(Clone)]
    enum Ev { Lr(Vec<String>), Inter(Vec<String>), Other(String) }
    let events: Arc<Mutex<Vec<Ev>>> = Arc::new(Mutex::new(Vec::new()));
    {
        let ev = events.clone();
        ddnnife::verif_hooks::set_data_callback(Some(Box::new(move |name, data| {
            let mut v = ev.lock().unwrap();
            match name {
                "twise.mbegin" => v.push(Ev::Lr(Vec::new())),
                "twise.lr" => { if let Some(k) = v.iter().rposition(|e| matches!(e, Ev::Lr(_))) { if let Ev::Lr(l) = &mut v[k] { l.push(data); } } }
                "twise.abegin" => v.push(Ev::Inter(Vec::new())),
                "twise.ax" => { if let Some(k) = v.iter().rposition(|e| matches!(e, Ev::Inter(_))) { if let Ev::Inter(l) = &mut v[k] { l.push(data); } } }
                "twise.moved" => v.push(Ev::Other(format!("M {data}"))),
                "twise.best" => v.push(Ev::Other(format!("B {data}"))),
                "twise.drop" => v.push(Ev::Other(format!("D {data}"))),
                "twise.shuf" => v.push(Ev::Other(format!("H {data}"))),
                _ => {}
            }
        })));
    }
    let l = line.to_string();
    let res = guarded(|| d.handle_stream_msg(&l));
    ddnnife::verif_hooks::set_data_callback(None);
    let evs: Vec<String> = events.lock().unwrap().drain(..).map(|e| match e {
        Ev::Lr(l) => format!("L {}", l.join(" ")),
        Ev::Inter(l) => format!("I {}", l.join(" ; ")),
        Ev::Other(s) => s,
    }).collect();
    if let Ok(reply) = &res {
        if !reply.starts_with('E') {
            let body = if reply == "true" || reply == "false" { reply.clone() } else { reply.lines().map(|l| l.trim().to_string()).collect::<Vec<_>>().join(";") };
            out.count("fitness_construction_replays", 1);
            out.count("fitness_construction_oracle_entries", evs.len() as u64);
            out.circuit(export, &circuit_line(d));
            out.query("twgenA", &format!("{t} | {}", evs.join(" | ")), &format!("rejected=0 left=0 | {body}"));
        }
    }
    res
}

fn run(d: &mut Ddnnf, line: &str) -> Result<String, String> { let l = line.to_string(); guarded(|| d.handle_stream_msg(&l)) }

fn one(out: &mut Out, rng: &mut Rng, file: &GenFile, tt: &TT, d: &mut Ddnnf, tmax: usize, repeats: usize) {
    let n = tt.n;
    let export = export_nodes(d);
    for t in 1..=tmax {
        for variant in 0..2 {
            for rep in 0..repeats {
                let line = if variant == 0 { format!("t-wise l {t}") } else {
                    // fitness vectors incl. negative and tied values
                    let vals: Vec<String> = (0..n).map(|_| match rng.below(5) { 0 => "0".to_string(), 1 => "1".to_string(), 2 => "-1".to_string(), 3 => format!("{}", rng.below(7) as i32 - 3), _ => format!("{}.5", rng.below(4)) }).collect();
                    format!("t-wise l {t} f {}", vals.join(" "))
                };
                out.eval(if rep == 0 { Some(format!("{}|{}", file.text(), line)) } else { None });
                if variant == 0 { construction(out, d, &export, t); }
                out.count(if variant == 0 { "plain_runs" } else { "fitness_runs" }, 1);
                let reply = match if variant == 1 && (rep < 2 || repeats > 3) { construction_fitness(out, d, &export, t, &line) } else { run(d, &line) } {
                    Ok(r) => r,
                    Err(e) => { out.fail("twise-panic", &file.text(), &line, &format!("panic: {e}"), "a sample"); continue; }
                };
                let Some(sample) = parse_sample(&reply) else { out.fail("twise-reply", &file.text(), &line, &reply, "configurations"); continue; };
                out.count("configurations", sample.len() as u64);
                if let Some(why) = judge(tt, t, &sample) {
                    out.fail(if why.starts_with("configuration") { "twise-invalid-configuration" } else { "twise-uncovered-interaction" }, &file.text(), &format!("{line} -t {n}"), &format!("{why}; sample = {}", reply.replace('\n', " ; ")), "only models, every valid interaction covered");
                }
                // the Lean checker on the same sample (first run of each kind, and every run of small samples)
                if rep == 0 || sample.len() <= 6 {
                    out.circuit(&export, &circuit_line(d));
                    out.query("twise", &format!("{t} | {}", sample.iter().map(|c| fmt_ints(c)).collect::<Vec<_>>().join(" ; ")), "ok");
                }
            }
        }
    }
}

pub fn c09(a: &Args) {
    let mut rng = Rng::new(a.seed);
    let mut out = Out::new(&a.out);
    let cfg = if a.thorough() { SpaceCfg { g1_max_n: 3, g1_rate: 0.05, random_d4: 1500, random_c2d: 300, max_n: 8, min_n: 2 } }
              else { SpaceCfg { g1_max_n: 2, g1_rate: 0.3, random_d4: 260, random_c2d: 40, max_n: 8, min_n: 3 } };
    let (tmax, repeats) = if a.thorough() { (5, 5) } else { (5, 3) };
    let mut r2 = rng.fork();
    let mut shown = 0;
    for_each_model(&cfg, &mut rng, |file, tt| {
        let Ok(mut d) = load(file) else { return };
        one(&mut out, &mut r2, file, tt, &mut d, tmax, repeats);
        if shown < 4 { shown += 1; out.sample(format!("{} n={} count={}: t=1..{} plain and fitness-guided, {} runs each", file.origin, file.n, tt.count(), tmax, repeats)); }
    });
    // a constant node listed twice among the children of one node (legal in the format; the sampler's bookkeeping of which
    // partial samples may be dropped sees the same child twice)
    {
        use crate::gen::Fmt;
        let mk = |n: u32, lines: &[&str]| GenFile { fmt: Fmt::C2d, lines: lines.iter().map(|s| s.to_string()).collect(), n, origin: "repeated constant child".into() };
        let files = vec![
            mk(1, &["nnf 3 3 1", "L 1", "O 0 0", "O 0 3 0 1 1"]),
            mk(2, &["nnf 4 4 2", "L 1", "L 2", "A 0", "A 4 0 1 2 2"]),
            mk(3, &["nnf 13 14 3", "L 1", "L -1", "L 2", "L -2", "L 3", "L -3", "A 0", "O 2 2 2 3", "A 4 0 7 6 6", "O 0 0", "A 2 1 2", "O 1 4 8 10 9 9", "A 2 11 4"]),
        ];
        for file in files {
            let tt = file.tt();
            let Ok(mut d) = load(&file) else { out.fail("load-panic", &file.text(), "load", "panic", "model"); continue };
            out.count("repeated_constant_child_models", 1);
            one(&mut out, &mut r2, &file, &tt, &mut d, 3, repeats);
        }
    }
    // corpus: validity and coverage for t = 1, 2 on the repository models (judged by the model itself: sat / count queries)
    for (path, tf) in corpus(false).into_iter().take(if a.thorough() { 4 } else { 2 }) {
        let p = path.clone();
        let Ok(mut d) = guarded(move || ddnnife::parser::build_ddnnf(std::path::Path::new(&p), tf)) else { continue };
        if d.number_of_variables > 60 { continue; }
        for t in 1..=2usize {
            let line = format!("t-wise l {t}");
            out.eval(Some(format!("{path}|{line}")));
            let Ok(reply) = run(&mut d, &line) else { out.fail("twise-panic", &path, &line, "panic", "a sample"); continue };
            let Some(sample) = parse_sample(&reply) else { continue };
            out.count("corpus_runs", 1);
            // validity by the model's own count (C02), coverage of all pairs by sat (C03)
            for c in &sample { if guarded(|| d.execute_query(c).to_string()).ok().as_deref() != Some("1") { out.fail("twise-invalid-configuration", &path, &line, &format!("{:?}", c), "a complete model"); break; } }
            let n = d.number_of_variables as i32;
            let lits: Vec<i32> = (1..=n).flat_map(|v| [v, -v]).collect();
            'outer: for (i, &x) in lits.iter().enumerate() { for &y in &lits[i + 1..] {
                if t == 1 && y != lits[i + 1] { continue; }
                let inter: Vec<i32> = if t == 1 { vec![x] } else { if x.abs() == y.abs() { continue; } vec![x, y] };
                if d.sat(&inter) && !sample.iter().any(|c| inter.iter().all(|l| c.contains(l))) { out.fail("twise-uncovered-interaction", &path, &line, &format!("{:?} uncovered", inter), "covered"); break 'outer; }
            } }
        }
    }
    // models with 66 / 100 / 130 features, almost all of them free (the root and-node merges one child sample per free feature)
    for total in [66u32, 100, 130] {
        let lines = vec!["o 1 0".to_string(), "t 2 0".to_string(), "1 2 1 2 -3 0".to_string(), "1 2 1 -2 3 0".to_string()];   // x1 and (x2 xor x3)
        let text = format!("{} (-t {total})", lines.join(" / "));
        let Ok(mut d) = guarded(move || ddnnife::parser::distribute_building(lines, Some(total), None)) else { out.fail("load-panic", &text, "load", "panic", "model"); continue };
        for t in 1..=2usize {
            out.eval(Some(format!("{text}|t={t}")));
            out.count("twise_many_free_features", 1);
            let reply = guarded(|| d.handle_stream_msg(&format!("t-wise l {t}")));
            let Ok(reply) = reply else { out.fail("twise-panic", &text, &format!("t-wise l {t}"), "panic", "a sample"); continue };
            let Some(sample) = parse_sample(&reply) else { out.fail("twise-unparsable", &text, &format!("t-wise l {t}"), &reply.chars().take(80).collect::<String>(), "a sample"); continue };
            let n = total as i32;
            let bad = sample.iter().find(|c| c.len() != total as usize || !(1..=n).all(|v| c.contains(&v) != c.contains(&-v)) || !c.contains(&1) || (c.contains(&2) == c.contains(&3)));
            if let Some(c) = bad { out.fail("twise-invalid-configuration", &text, &format!("t-wise l {t}"), &format!("{} literals, starts {:?}", c.len(), &c[..c.len().min(5)]), "complete models"); continue; }
            // coverage: every single literal that occurs in a model; for t = 2 every pair of literals of two free features and of (x2, a free feature)
            let valid = |l: i32| l != -1;
            let uncovered1 = (1..=n).flat_map(|v| [v, -v]).find(|&l| valid(l) && !sample.iter().any(|c| c.contains(&l)));
            if let Some(l) = uncovered1 { out.fail("twise-uncovered-interaction", &text, &format!("t-wise l {t}"), &format!("literal {l} occurs in a model but in no configuration"), "every valid interaction covered"); continue; }
            if t == 2 {
                let probes = [(4, 5), (4, n), (n - 1, n), (2, n), (3, 37.min(n))];
                let unc = probes.iter().flat_map(|&(x, y)| [(x, y), (x, -y), (-x, y), (-x, -y)]).find(|&(x, y)| !sample.iter().any(|c| c.contains(&x) && c.contains(&y)));
                if let Some((x, y)) = unc { out.fail("twise-uncovered-interaction", &text, "t-wise l 2", &format!("interaction [{x}, {y}] is contained in a model but in no configuration"), "every valid interaction covered"); }
            }
        }
    }
    // the interaction iterator on its own: everything TIndicesIter::new(n, t) yields, against the state machine model and the list model
    for n in 0..=(if a.thorough() { 11usize } else { 9 }) {
        for t in 0..=n {
            let Ok(got) = guarded(|| ddnnife::ddnnf::anomalies::t_wise_sampling::verif_t_indices(n, t)) else { out.fail("titer-panic", "", &format!("TIndicesIter::new({n}, {t})"), "panic", "index tuples"); continue };
            out.count("iterator_runs", 1);
            out.eval(Some(format!("titer {n} {t}")));
            out.query("titer", &format!("{n} {t}"), &got.iter().map(|ix| ix.iter().map(|i| i.to_string()).collect::<Vec<_>>().join(" ")).collect::<Vec<_>>().join(";"));
        }
    }
    crate::cli_props::cli_pass(a, &mut out, &mut rng, &["t-wise"]);
    out.finish("(+ CLI pass: the rebuilt binary's `t-wise` on a sample of the models, judged by the same oracles) every model of the C01 space (n <= 8) x t in 1..5 x {plain, fitness vectors with negative, zero, tied and fractional values} x 3 (quick) / 5 (thorough) runs each (every run differs in hash iteration order): stream `t-wise l t [f ..]`; every configuration must be a complete model and every t-interaction contained in a model must be contained in a configuration (brute force over the truth table of the input text); the same sample is judged by the Lean checker TWise.check (proved sound) on the exported node array; corpus models with <= 60 features for t = 1, 2 judged by count / sat");
}
