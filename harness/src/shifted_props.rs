//! Models whose mentioned features carry LARGE numbers: a small generated d4 model over features 1..n is
//! renumbered to base+1..base+n (base 126 / 254 / 1020) and loaded with base+n features, the features 1..base
//! stay unmentioned (free).  Everything is judged by the truth table of the small model: an integer type that
//! is too narrow for a feature number, a node index or a count shows here.
use crate::common::*;
use crate::gen::{Fmt, GenFile};
use crate::rng::Rng;
use crate::tt::TT;
use num::BigInt;

pub fn shift_d4(file: &GenFile, base: u32) -> Vec<String> {
    file.lines.iter().map(|l| {
        let w: Vec<&str> = l.split(' ').collect();
        if w[0].chars().next().map(|c| c.is_ascii_alphabetic()).unwrap_or(true) { return l.clone(); }
        // edge: from to lits.. 0
        let mut o: Vec<String> = vec![w[0].to_string(), w[1].to_string()];
        for x in &w[2..w.len() - 1] { let v: i32 = x.parse().unwrap(); o.push(if v > 0 { (v + base as i32).to_string() } else { (v - base as i32).to_string() }); }
        o.push("0".into());
        o.join(" ")
    }).collect()
}

/// count of the shifted model under a list that may contain high (mentioned) and low (free) literals
fn want_count(tt: &TT, base: u32, q: &[i32]) -> BigInt {
    let mut high: Vec<i32> = Vec::new();
    let mut low: std::collections::BTreeSet<i32> = Default::default();
    for &l in q { if l.unsigned_abs() > base { high.push(if l > 0 { l - base as i32 } else { l + base as i32 }); } else { low.insert(l); } }
    if low.iter().any(|l| low.contains(&-l)) { return BigInt::from(0); }
    BigInt::from(tt.count_with(&high)) * (BigInt::from(1) << (base as usize - low.len()))
}

/// `which`: count, query, sat, core, table, atomic, enum, urs, save
pub fn shifted(a: &Args, out: &mut Out, rng: &mut Rng, which: &[&str]) {
    use crate::space::*;
    let mut picked: Vec<(GenFile, TT)> = Vec::new();
    let mut r = rng.fork();
    let cfg = crate::core_props::space_cfg(a, false);
    let want_models = if a.thorough() { 40 } else { 8 };
    let mut seen = 0usize;
    for_each_model(&cfg, &mut r, |file, tt| { seen += 1; if picked.len() < want_models && matches!(file.fmt, Fmt::D4) && file.n >= 2 && tt.count() >= 2 && seen % 17 == 6 { picked.push((file.clone(), tt.clone())); } });
    for (file, tt) in picked {
        for base in [126u32, 254, 1020] {
            let lines = shift_d4(&file, base);
            let text = lines.join("\n");
            let total = base + file.n;
            let ls = lines.clone();
            let Ok(mut d) = guarded(move || ddnnife::parser::distribute_building(ls, Some(total), None)) else { out.fail("load-panic", &text, &format!("-t {total}"), "panic", "a model"); continue };
            out.eval(Some(format!("{text}|-t {total}")));
            out.count("shifted_models", 1);
            let hi = |v: i32| if v > 0 { v + base as i32 } else { v - base as i32 };
            let n = file.n as i32;
            for w in which {
                let tag = format!("{w} on features {}..{} (-t {total})", base + 1, total);
                match *w {
                    "count" => { let want = want_count(&tt, base, &[]); if d.rc() != want { out.fail("count", &text, &tag, &d.rc().to_string(), &want.to_string()); } }
                    "query" => for q in [vec![hi(1)], vec![hi(-n)], vec![hi(1), hi(-2), 5], vec![hi(n), -(base as i32), base as i32 - 1], vec![3, -3, hi(1)]] {
                        let want = want_count(&tt, base, &q);
                        let got = guarded(|| d.execute_query(&q)).map(|x| x.to_string()).unwrap_or_else(|e| format!("panic: {e}"));
                        if got != want.to_string() { out.fail("execute_query", &text, &format!("count {:?} -t {total}", q), &got, &want.to_string()); }
                        let s = guarded(|| d.handle_stream_msg(&format!("count a {}", fmt_ints(&q)))).unwrap_or_else(|e| format!("panic: {e}"));
                        if s != want.to_string() { out.fail("stream-count", &text, &format!("count a {:?} -t {total}", q), &s, &want.to_string()); }
                    },
                    "sat" => for q in [vec![hi(1)], vec![hi(-1), hi(2)], vec![hi(-n), base as i32], vec![hi(1), hi(-1)]] {
                        let want = want_count(&tt, base, &q) > BigInt::from(0);
                        let got = guarded(|| d.sat(&q)).map(|x| x.to_string()).unwrap_or_else(|e| format!("panic: {e}"));
                        if got != want.to_string() { out.fail("sat", &text, &format!("sat {:?} -t {total}", q), &got, &want.to_string()); }
                    },
                    "core" => {
                        let tot = tt.count();
                        let mut want: Vec<i32> = (1..=n).filter_map(|v| { let c = tt.count_with(&[v]); if c == tot { Some(hi(v)) } else if c == 0 { Some(hi(-v)) } else { None } }).collect();
                        want.sort();
                        let mut got: Vec<i32> = d.get_core().into_iter().collect(); got.sort();
                        if got != want { out.fail("get_core", &text, &tag, &format!("{:?}", got), &format!("{:?}", want)); }
                        let a1 = vec![hi(1)];
                        if tt.count_with(&[1]) > 0 {
                            let t1 = tt.count_with(&[1]);
                            let mut want: Vec<i32> = (1..=n).filter_map(|v| { let c = tt.count_with(&[1, v]); if c == t1 { Some(hi(v)) } else if c == 0 { Some(hi(-v)) } else { None } }).collect();
                            want.sort();
                            let got = guarded(|| { let mut v = d.core_dead_with_assumptions(&a1); v.sort(); v.dedup(); v });
                            if got.as_ref().ok() != Some(&want) { out.fail("core_dead_with_assumptions", &text, &format!("core {:?} -t {total}", a1), &format!("{:?}", got), &format!("{:?}", want)); }
                        }
                    }
                    "table" => match guarded(|| d.card_of_each_feature().collect::<Vec<_>>()) {
                        Err(e) => out.fail("card_of_each_feature", &text, &tag, &format!("panic: {e}"), "a table"),
                        Ok(rows) => {
                            if rows.len() != total as usize { out.fail("rows", &text, &tag, &rows.len().to_string(), &total.to_string()); }
                            for f in [1u32, base, base + 1, total] {
                                let Some((v, card, ratio)) = rows.get(f as usize - 1) else { continue };
                                let want = want_count(&tt, base, &[f as i32]);
                                let exact = if f <= base { 0.5 } else { tt.count_with(&[(f - base) as i32]) as f64 / tt.count() as f64 };
                                if *v != f as i32 || *card != want || !((ratio - exact).abs() <= 1e-12) { out.fail("cardinality", &text, &format!("row {f} -t {total}"), &format!("{},{} bits,{}", v, card.bits(), ratio), &format!("{},{} bits,{}", f, want.bits(), exact)); }
                            }
                        }
                    },
                    "atomic" => {
                        let cands: Vec<u32> = (base + 1..=total).collect();
                        let small: Vec<u32> = (1..=file.n).collect();
                        for cross in [false, true] {
                            let want: Vec<Vec<i32>> = crate::atomic_props::oracle_atomic(&tt, &small, &[], cross).into_iter().map(|s| s.into_iter().map(hi).collect()).collect();
                            match guarded(|| d.get_atomic_sets(Some(cands.clone()), &[], cross)) {
                                Err(e) => out.fail("atomic-panic", &text, &tag, &format!("panic: {e}"), &format!("{:?}", want)),
                                Ok(got) => { let got: Vec<Vec<i32>> = got.iter().map(|s| s.iter().map(|&x| x as i32).collect()).collect();
                                    let ok = if cross { crate::atomic_props::canon_cross(&got) == crate::atomic_props::canon_cross(&want) } else { got == want };
                                    if !ok { out.fail("atomic-sets", &text, &format!("atomic{} candidates {}..{} -t {total}", if cross { "-cross" } else { "" }, base + 1, total), &format!("{:?}", got), &format!("{:?}", want)); } }
                            }
                        }
                    }
                    "enum" | "urs" => {
                        let al = vec![hi(1)];
                        if tt.count_with(&[1]) == 0 { continue; }
                        let res = if *w == "enum" { guarded(|| d.enumerate(&mut al.clone(), 3)) } else { guarded(|| d.uniform_random_sampling(&al, 3, 9)) };
                        match res {
                            Ok(Some(cfgs)) => {
                                let ok = !cfgs.is_empty() && cfgs.len() <= 3 && cfgs.iter().all(|c| c.len() == total as usize && (1..=total as i32).all(|v| c.contains(&v) != c.contains(&-v)) && c.contains(&al[0]) && {
                                    let small: Vec<i32> = (1..=n).map(|v| if c.contains(&hi(v)) { v } else { -v }).collect(); tt.index_of(&small).map(|k| tt.bits[k]).unwrap_or(false) });
                                if !ok { out.fail(if *w == "enum" { "enumeration-paging" } else { "urs-invalid" }, &text, &format!("{w} a {:?} -t {total}", al), &format!("{} configurations", cfgs.len()), "complete models containing the assumption"); }
                            }
                            other => out.fail(if *w == "enum" { "enumeration-paging" } else { "urs-panic" }, &text, &format!("{w} a {:?} -t {total}", al), &format!("{:?}", other.map(|o| o.map(|x| x.len()))), "configurations"),
                        }
                    }
                    "save" => {
                        let path = format!("{}/shifted_saved.nnf", a.out);
                        let _ = std::fs::remove_file(&path);
                        match guarded(|| ddnnife::parser::persisting::write_ddnnf_to_file(&d, std::path::Path::new(&path)).map_err(|e| e.to_string())) {
                            Ok(Ok(())) => {
                                let saved: Vec<String> = std::fs::read_to_string(&path).unwrap_or_default().lines().map(|l| l.to_string()).collect();
                                match guarded(move || ddnnife::parser::distribute_building(saved, None, None)) {
                                    Ok(mut r2) => {
                                        if r2.number_of_variables != total || r2.rc() != d.rc() { out.fail("reload-answer-differs", &text, &tag, &format!("{} features, count of {} bits", r2.number_of_variables, r2.rc().bits()), &format!("{} features, count of {} bits", total, d.rc().bits())); }
                                        for q in [vec![hi(1)], vec![hi(-n), 7]] { if r2.execute_query(&q) != want_count(&tt, base, &q) { out.fail("reload-answer-differs", &text, &format!("count {:?} after save / reload -t {total}", q), &r2.execute_query(&q).to_string(), &want_count(&tt, base, &q).to_string()); } }
                                    }
                                    Err(e) => out.fail("reload-panic", &text, &tag, &format!("panic: {e}"), "a model"),
                                }
                            }
                            other => out.fail("save-error", &text, &tag, &format!("{:?}", other), "a file"),
                        }
                    }
                    _ => {}
                }
            }
        }
    }
}
