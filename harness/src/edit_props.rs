//! C11 an incremental clause edit yields exactly the edited formula.
//! Part A (no compiler): every model of the C01 space x every unit clause (old and new features); the
//! edited node array is handed to the Lean model of `add_unit_clause` + `rebuild` for exact comparison.
//! Part B (reference compiler behind the hook): CNF-loaded models x sequences of add / remove edits.
use crate::battery::battery;
use crate::common::*;
use crate::refcomp::{self, cnf_text, cnf_tt, Clause};
use crate::rng::Rng;
use crate::space::*;
use crate::tt::{lit_true, TT};
use ddnnife::parser::intermediate_representation::{ClauseApplication, IncrementalStrategy};
use ddnnife::Ddnnf;

pub fn extend_tt(tt: &TT, n2: u32) -> TT {
    // same function over more features (the new ones free)
    let n = tt.n;
    TT::from_fn(n2, |k| tt.bits[k >> (n2 - n)])
}
pub fn and_clause(tt: &TT, c: &[i32]) -> TT { TT::from_fn(tt.n, |k| tt.bits[k] && c.iter().any(|&l| lit_true(tt.n, k, l))) }

fn strategy_name(s: IncrementalStrategy) -> &'static str {
    match s { IncrementalStrategy::Tautology => "Tautology", IncrementalStrategy::UnitClause => "UnitClause", IncrementalStrategy::SubDAGReplacement => "SubDAGReplacement",
              IncrementalStrategy::Recompile => "Recompile", IncrementalStrategy::Undo => "Undo", IncrementalStrategy::Error => "Error" }
}

pub fn apply(d: &mut Ddnnf, ops: Vec<(Vec<i32>, ClauseApplication)>) -> Result<IncrementalStrategy, String> {
    guarded(|| d.prepare_and_apply_incremental_edit(ops))
}

fn part_a(a: &Args, out: &mut Out, rng: &mut Rng) {
    let cfg = if a.thorough() { SpaceCfg { g1_max_n: 3, g1_rate: 0.25, random_d4: 1500, random_c2d: 800, max_n: 6, min_n: 2 } } else { SpaceCfg { g1_max_n: 2, g1_rate: 1.0, random_d4: 260, random_c2d: 120, max_n: 6, min_n: 2 } };
    let mut r2 = rng.fork();
    for_each_model(&cfg, rng, |file, tt| {
        let Ok(mut d0) = load(file) else { return };
        // the whole battery once before any edit (whatever it memoises must not survive an edit); the edits work on clones of that instance
        if tt.count() > 0 { let mut r0 = r2.fork(); if let Some((req, got, wanted)) = battery(&mut d0, tt, &mut r0).first() { out.fail("query-after-load", &file.text(), req, got, wanted); return; } }
        let n = tt.n as i32;
        let mut units: Vec<i32> = Vec::new();
        for v in 1..=n { units.push(v); units.push(-v); }
        // quick: a sample of the literals; thorough: all
        if !a.thorough() { r2.shuffle(&mut units); units.truncate(8); }
        // new features
        units.push(n + 1);
        if r2.chance(0.3) { units.push(-(n + 1 + r2.below(3) as i32)); }
        for f in units {
            let v = f.unsigned_abs();
            let want = if v <= tt.n { and_clause(tt, &[f]) } else { and_clause(&extend_tt(tt, v), &[f]) };
            if want.count() == 0 { continue; }           // must leave the formula satisfiable
            let mut d = d0.clone();
            out.eval(Some(format!("{}|unit {}", file.text(), f)));
            match apply(&mut d, vec![(vec![f], ClauseApplication::Add)]) {
                Err(e) => { out.fail("unit-edit-panic", &file.text(), &format!("add unit clause {f}"), &format!("panic: {e}"), "edited model"); continue; }
                Ok(s) => out.count(&format!("A_strategy_{}", strategy_name(s)), 1),
            }
            let mut r = r2.fork();
            if let Some((req, got, wanted)) = battery(&mut d, &want, &mut r).first() {
                out.fail("query-after-unit-edit", &file.text(), &format!("add unit clause {f} ; {req}"), got, wanted);
                continue;
            }
            // the Lean model of the edit on the exported array of the original
            out.circuit(&export_nodes(&d0), &circuit_line(&d0));
            let after: String = export_nodes(&d).lines().filter(|l| !l.starts_with("circuit") && *l != "end").collect::<Vec<_>>().join("|");
            out.query("addunit", &f.to_string(), &format!("{} {}", d.number_of_variables, after));
            // a second, different unit clause on top (multi-step)
            if r2.chance(0.3) && want.n >= 2 {
                let g = { let w = 1 + r2.below(want.n as usize) as i32; if r2.chance(0.5) { w } else { -w } };
                let want2 = and_clause(&want, &[g]);
                if want2.count() > 0 {
                    let before = d.clone();
                    if let Err(e) = apply(&mut d, vec![(vec![g], ClauseApplication::Add)]) { out.fail("unit-edit-panic", &file.text(), &format!("add unit clauses {f}, {g}"), &format!("panic: {e}"), "edited model"); continue; }
                    let mut r = r2.fork();
                    if let Some((req, got, wanted)) = battery(&mut d, &want2, &mut r).first() { out.fail("query-after-unit-edit", &file.text(), &format!("add unit clauses {f}, {g} ; {req}"), got, wanted); continue; }
                    out.circuit(&export_nodes(&before), &circuit_line(&before));
                    let after: String = export_nodes(&d).lines().filter(|l| !l.starts_with("circuit") && *l != "end").collect::<Vec<_>>().join("|");
                    out.query("addunit", &g.to_string(), &format!("{} {}", d.number_of_variables, after));
                    out.count("A_two_unit_edits", 1);
                    // a third one: a new feature, then the first clause again (node indices of removed leaves get reused)
                    if r2.chance(0.5) {
                        let h = want2.n as i32 + 1 + r2.below(2) as i32;
                        let want3 = and_clause(&extend_tt(&want2, h as u32), &[h]);
                        let seq = [h, f];
                        let mut ok = true;
                        for u in seq { if let Err(e) = apply(&mut d, vec![(vec![u], ClauseApplication::Add)]) { out.fail("unit-edit-panic", &file.text(), &format!("add unit clauses {f}, {g}, {h}, {f}"), &format!("panic: {e}"), "edited model"); ok = false; break; } }
                        if ok {
                            let mut r = r2.fork();
                            if let Some((req, got, wanted)) = battery(&mut d, &want3, &mut r).first() { out.fail("query-after-unit-edit", &file.text(), &format!("add unit clauses {f}, {g}, {h}, {f} ; {req}"), got, wanted); }
                            out.count("A_four_unit_edits", 1);
                        }
                    }
                }
            }
        }
    });
}

/// canonical text of a clause list (as the Lean driver prints it): literals ascending, clause strings sorted
fn fmt_stored(cs: &[Vec<i32>]) -> String {
    let mut v: Vec<String> = cs.iter().map(|c| { let mut c = c.clone(); c.sort(); c.iter().map(|l| l.to_string()).collect::<Vec<_>>().join(" ") }).collect();
    v.sort();
    v.join(" / ")
}
fn fmt_ops(ops: &[(Vec<i32>, ClauseApplication)]) -> String {
    ops.iter().map(|(c, ap)| format!("{} {}", if *ap == ClauseApplication::Add { "a" } else { "r" }, c.iter().map(|l| l.to_string()).collect::<Vec<_>>().join(" "))).collect::<Vec<_>>().join(" / ")
}

/// how an edit relates to the latest effective edit: the code answers the exact inverse (adds and removes
/// exchanged, as sets of clauses) from its undo cache, i.e. with the state before that edit
enum Rel { Plain, Inverse, Skip }
fn relation_to_latest(prev: &Option<(TT, u32, Vec<(Vec<i32>, ClauseApplication)>)>, prev_ambiguous: bool, adds: &[Clause], rmvs: &[Clause]) -> Rel {
    let Some((_, _, pops)) = prev else { return Rel::Plain };
    let eff = |ap: ClauseApplication| -> std::collections::BTreeSet<Clause> {
        pops.iter().filter(|(c, a)| *a == ap && !c.is_empty() && !c.iter().any(|l| c.contains(&-l))).map(|(c, _)| c.iter().copied().collect::<Clause>()).collect() };
    let (padds, prmvs) = (eff(ClauseApplication::Add), eff(ClauseApplication::Remove));
    let a: std::collections::BTreeSet<Clause> = adds.iter().cloned().collect();
    let r: std::collections::BTreeSet<Clause> = rmvs.iter().cloned().collect();
    if a == prmvs && r == padds { return if prev_ambiguous { Rel::Skip } else { Rel::Inverse }; }
    // the latest edit added a clause that was already stored: removing it again is neither a clean inverse nor a plain removal
    if prev_ambiguous && r.iter().any(|c| padds.contains(c)) { return Rel::Skip; }
    Rel::Plain
}

fn rand_clause(rng: &mut Rng, n: u32, maxw: usize) -> Clause {
    let w = 1 + rng.below(maxw.min(n as usize));
    let mut c = Clause::new();
    while c.len() < w { let v = 1 + rng.below(n as usize) as i32; if c.contains(&v) || c.contains(&-v) { continue; } c.insert(if rng.chance(0.5) { v } else { -v }); }
    c
}

fn part_b(a: &Args, out: &mut Out, rng: &mut Rng) {
    refcomp::install();
    let dir = a.out.clone();
    let nstart = if a.thorough() { 400 } else { 60 };
    for i in 0..nstart {
        let n = if i % 4 == 0 { 2 + rng.below(3) as u32 } else { 3 + rng.below(8) as u32 };
        let cls: Vec<Clause> = loop {
            let m = 1 + rng.below((n as usize * 2).max(2));
            let cls: Vec<Clause> = (0..m).map(|_| rand_clause(rng, n, 4)).collect();
            if cnf_tt(n, &cls).count() > 0 { break cls; }
        };
        let text = cnf_text(n, &cls);
        let p = format!("{dir}/edit_start.cnf");
        std::fs::write(&p, &text).unwrap();
        let mut d = match guarded(|| Ddnnf::from_file(std::path::Path::new(&p), None)) {
            Ok(d) => d,
            Err(e) => { out.fail("cnf-load-panic", &text, "load", &format!("panic: {e}"), "a model"); continue; }
        };
        // the Lean machine (Model/EditCnf.lean) follows the same history: stored clause list after loading ...
        out.query("ecinit", &format!("{} | {}", n, cls.iter().map(|c| c.iter().map(|l| l.to_string()).collect::<Vec<_>>().join(" ")).collect::<Vec<_>>().join(" / ")), &fmt_stored(&d.inter_graph.cnf_clauses));
        let mut ec_live = true;
        // the whole battery once before the first edit (whatever it memoises must not survive an edit)
        { let mut r0 = rng.fork(); if let Some((req, got, wanted)) = battery(&mut d, &cnf_tt(n, &cls), &mut r0).first() { out.fail("query-after-load", &text, req, got, wanted); continue; } }
        let mut cur_n = n;
        let mut cur_tt = cnf_tt(n, &cls);
        let mut hist: Vec<String> = Vec::new();
        let mut used_subdag = false;
        let mut last_strategy = IncrementalStrategy::Error;
        let mut prev_ambiguous = false;   // the latest edit added a clause that was already stored: its inverse is ill-defined
        let mut prev: Option<(TT, u32, Vec<(Vec<i32>, ClauseApplication)>)> = None;
        // mostly short histories; every eighth one is long enough to go round the bounded undo cache (10 entries) more than once
        let steps = if i % 8 == 7 { 12 + rng.below(6) } else { 1 + rng.below(4) };
        for _ in 0..steps {
            // the stored CNF of the model (simplified clause list) is what removals refer to
            let stored: Vec<Vec<i32>> = d.inter_graph.cnf_clauses.clone();
            let kind = rng.below(100);
            let (ops, want_tt, want_n, label): (Vec<(Vec<i32>, ClauseApplication)>, TT, u32, String);
            let mut step_is_inverse = false;
            let mut once_more = false;
            if last_strategy == IncrementalStrategy::Undo && prev.is_some() && !prev_ambiguous && rng.chance(0.5) {
                // the edit that was just answered from the undo cache, once more: its clauses are already added / removed,
                // so nothing changes (it must not be taken for the inverse of anything)
                let (_, _, pops) = prev.clone().unwrap();
                label = format!("the latest edit once more {:?}", pops.iter().map(|(c, ap)| format!("{}{:?}", if *ap == ClauseApplication::Add { "+" } else { "-" }, c)).collect::<Vec<_>>());
                ops = pops; want_tt = cur_tt.clone(); want_n = cur_n; once_more = true;
            } else if kind < 10 && prev.is_some() && !prev_ambiguous {
                // the inverse of the latest edit (should hit the undo cache)
                let (ptt, pn, pops) = prev.clone().unwrap();
                let inv: Vec<(Vec<i32>, ClauseApplication)> = pops.iter().map(|(c, ap)| (c.clone(), !*ap)).collect();
                label = format!("inverse of the latest edit {:?}", inv.iter().map(|(c, ap)| format!("{}{:?}", if *ap == ClauseApplication::Add { "+" } else { "-" }, c)).collect::<Vec<_>>());
                ops = inv; want_tt = ptt; want_n = pn; step_is_inverse = true;
            } else if kind < 35 && !stored.is_empty() {
                // remove a stored clause
                let c = rng.pick(&stored).clone();
                // "the formula without it": every copy of the clause goes
                let cset: Clause = c.iter().copied().collect();
                let rest: Vec<Clause> = stored.iter().map(|x| x.iter().copied().collect::<Clause>()).filter(|x| *x != cset).collect();
                // removing exactly what the latest edit added (as a set of clauses) is the inverse of that edit: all previous answers
                // come back; removing a clause that the latest edit added although it was already stored is ambiguous
                match relation_to_latest(&prev, prev_ambiguous, &[], &[cset.clone()]) {
                    Rel::Skip => continue,
                    Rel::Inverse => { step_is_inverse = true; let (ptt, pn, _) = prev.clone().unwrap(); want_tt = ptt; want_n = pn; }
                    Rel::Plain => { want_tt = cnf_tt(cur_n, &rest); want_n = cur_n; }
                }
                label = format!("remove {:?}", c);
                ops = vec![(c, ClauseApplication::Remove)];
            } else if kind < 53 && stored.len() >= 2 {
                // one edit that removes two different stored clauses
                let c1 = rng.pick(&stored).clone();
                let c2 = rng.pick(&stored).clone();
                let (s1, s2): (Clause, Clause) = (c1.iter().copied().collect(), c2.iter().copied().collect());
                if s1 == s2 { continue; }
                let rest: Vec<Clause> = stored.iter().map(|x| x.iter().copied().collect::<Clause>()).filter(|x| *x != s1 && *x != s2).collect();
                match relation_to_latest(&prev, prev_ambiguous, &[], &[s1.clone(), s2.clone()]) {
                    Rel::Skip => continue,
                    Rel::Inverse => { step_is_inverse = true; let (ptt, pn, _) = prev.clone().unwrap(); want_tt = ptt; want_n = pn; }
                    Rel::Plain => { want_tt = cnf_tt(cur_n, &rest); want_n = cur_n; }
                }
                label = format!("remove {:?} and {:?} in one edit", c1, c2);
                ops = vec![(c1, ClauseApplication::Remove), (c2, ClauseApplication::Remove)];
            } else if kind < 47 && !stored.is_empty() {
                // one edit that removes a stored clause and adds a clause (a unit clause half of the time)
                let c = rng.pick(&stored).clone();
                let cset: Clause = c.iter().copied().collect();
                let rest: Vec<Clause> = stored.iter().map(|x| x.iter().copied().collect::<Clause>()).filter(|x| *x != cset).collect();
                let addc: Clause = if rng.chance(0.5) { rand_clause(rng, cur_n, 1) } else { rand_clause(rng, cur_n, 3) };
                if stored.iter().any(|x| x.iter().copied().collect::<Clause>() == addc) { continue; }
                let t = and_clause(&cnf_tt(cur_n, &rest), &addc.iter().copied().collect::<Vec<i32>>());
                if t.count() == 0 { continue; }
                match relation_to_latest(&prev, prev_ambiguous, &[addc.clone()], &[cset.clone()]) {
                    Rel::Skip => continue,
                    Rel::Inverse => { step_is_inverse = true; let (ptt, pn, _) = prev.clone().unwrap(); want_tt = ptt; want_n = pn; }
                    Rel::Plain => { want_tt = t; want_n = cur_n; }
                }
                let addv: Vec<i32> = addc.into_iter().collect();
                label = format!("remove {:?} and add {:?} in one edit", c, addv);
                ops = if rng.chance(0.5) { vec![(c, ClauseApplication::Remove), (addv, ClauseApplication::Add)] } else { vec![(addv, ClauseApplication::Add), (c, ClauseApplication::Remove)] };
            } else {
                // add 1..2 clauses, sometimes with a new variable, a tautology or a duplicate
                let k = 1 + rng.below(2);
                let mut added: Vec<Vec<i32>> = Vec::new();
                let mut nn = cur_n;
                for _ in 0..k {
                    let w = rng.below(100);
                    if w < 12 { let v = 1 + rng.below(cur_n as usize) as i32; added.push(vec![v, -v]); }                       // tautology
                    else if w < 22 && !stored.is_empty() { added.push(rng.pick(&stored).clone()); }                                // duplicate of a stored clause
                    else if w < 34 { let other = 1 + rng.below(cur_n as usize) as i32; let fresh = cur_n + 1 + rng.below(2) as u32; nn = nn.max(fresh); added.push(vec![fresh as i32, if rng.chance(0.5) { other } else { -other }]); }
                    else if w < 40 { let fresh = cur_n + 1 + rng.below(3) as u32; nn = nn.max(fresh); added.push(vec![if rng.chance(0.5) { fresh as i32 } else { -(fresh as i32) }]); }   // unit clause over a new variable
                    else { added.push(rand_clause(rng, cur_n, 4).into_iter().collect()); }
                }
                let mut t = extend_tt(&cur_tt, nn);
                for c in &added { t = and_clause(&t, c); }
                if t.count() == 0 { continue; }
                want_tt = t; want_n = nn;
                label = format!("add {:?}", added);
                ops = added.into_iter().map(|c| (c, ClauseApplication::Add)).collect();
            }
            if want_tt.count() == 0 { continue; }
            hist.push(label);
            let h = hist.join(" ; ");
            out.eval(Some(format!("{text}|{h}")));
            let before = (cur_tt.clone(), cur_n, ops.clone());
            let ops_text = fmt_ops(&ops);
            let eff_empty = ops.iter().all(|(c, _)| c.is_empty() || c.iter().any(|l| c.contains(&-l)));
            match apply(&mut d, ops) {
                Err(e) => { out.fail(if used_subdag { "edit-panic-after-subdag-replacement" } else { "edit-panic" }, &text, &h, &format!("panic: {e}"), "edited model"); break; }
                Ok(s) => { out.count(&format!("B_strategy_{}", strategy_name(s)), 1); if s == IncrementalStrategy::SubDAGReplacement { used_subdag = true; } last_strategy = s; hist.last_mut().map(|l| l.push_str(&format!(" [{}]", strategy_name(s)))); }
            }
            // ... and strategy, stored clause list and denotation after every edit
            if ec_live {
                let untracked = last_strategy == IncrementalStrategy::SubDAGReplacement || (last_strategy == IncrementalStrategy::Tautology && !eff_empty);
                let choice = if untracked { "splice" } else { "recompile" };
                let expected = if untracked { "untracked".to_string() } else {
                    format!("{} | {} | {}", strategy_name(last_strategy), fmt_stored(&d.inter_graph.cnf_clauses), if want_n <= 10 { want_tt.to_string01() } else { "-".to_string() }) };
                out.query("ecedit", &format!("{choice} | {ops_text}"), &expected);
                out.count("B_lean_machine_steps", 1);
                if untracked { ec_live = false; }
            }
            // the inverse of an edit that added a unit clause to a CNF-backed model: the stored clauses were unit-propagated with it
            let undoes_unit = step_is_inverse && before.2.iter().any(|(c, ap)| *ap == ClauseApplication::Remove && c.len() == 1);
            let h = hist.join(" ; ");
            let mut r = rng.fork();
            if let Some((req, got, wanted)) = battery(&mut d, &want_tt, &mut r).first() {
                // the call site is part of the failure's identity: histories in which the sub-DAG splice (switch_sub_dag) ran
                out.fail(if used_subdag { "query-after-subdag-replacement" } else if undoes_unit { "query-after-undoing-a-unit-clause" } else { "query-after-edit" }, &text, &format!("{h} ; {req}"), got, wanted);
                break;
            }
            // an edit that changed nothing leaves the undo information of the edit before it in place
            if last_strategy == IncrementalStrategy::Tautology { cur_tt = want_tt; cur_n = want_n; continue; }
            prev_ambiguous = before.2.iter().any(|(c, ap)| *ap == ClauseApplication::Add && { let cs: Clause = c.iter().copied().collect(); stored.iter().any(|x| x.iter().copied().collect::<Clause>() == cs) });
            // removing a stored clause that the latest edit had (re-)added is neither a plain removal nor a clean inverse
            if prev_ambiguous && before.2.iter().any(|(_, ap)| *ap == ClauseApplication::Remove) { prev_ambiguous = false; }
            // an edit without effect (clauses already added / removed): "its inverse" is ill-defined - the code answers it with the
            // state before the no-op, the first half of the property with the effect of the inverted clauses
            if once_more { prev_ambiguous = true; }
            prev = Some(before);
            cur_tt = want_tt; cur_n = want_n;
        }
        if i < 3 { out.sample(format!("start CNF {} ; edits: {}", text.replace('\n', " / "), hist.join(" ; "))); }
    }
    out.count("compiler_calls", refcomp::compile_calls());
}

/// the inputs named in known_findings.json run first on every run, so that an open finding is reported
/// (as KNOWN-FINDING) for as long as it reproduces and disappears when it is repaired
fn pinned(a: &Args, out: &mut Out, rng: &mut Rng) {
    refcomp::install();
    let cases: Vec<(u32, Vec<Vec<i32>>, Vec<i32>)> = vec![
        (6, vec![vec![-3, -1], vec![-5, 2, 4], vec![-1], vec![-5, 1, 2, 3], vec![-5, -3, -1, 6], vec![-2, -1], vec![-5, 1, 6], vec![-4, -3], vec![-2, 5], vec![-3], vec![6]], vec![2, -5]),
    ];
    for (n, cls, rmv) in cases {
        let cls: Vec<Clause> = cls.into_iter().map(|c| c.into_iter().collect()).collect();
        let text = cnf_text(n, &cls);
        let p = format!("{}/edit_pinned.cnf", a.out);
        std::fs::write(&p, &text).unwrap();
        let mut d = match guarded(|| Ddnnf::from_file(std::path::Path::new(&p), None)) { Ok(d) => d, Err(_) => continue };
        let rset: Clause = rmv.iter().copied().collect();
        let rest: Vec<Clause> = cls.iter().filter(|c| **c != rset).cloned().collect();
        let want = cnf_tt(n, &rest);
        let h = format!("remove {:?}", rmv);
        out.eval(Some(format!("{text}|{h}")));
        match apply(&mut d, vec![(rmv.clone(), ClauseApplication::Remove)]) {
            Err(e) => out.fail("edit-panic", &text, &h, &format!("panic: {e}"), "edited model"),
            Ok(s) => {
                out.count(&format!("pinned_strategy_{}", strategy_name(s)), 1);
                let mut r = rng.fork();
                if let Some((req, got, wanted)) = battery(&mut d, &want, &mut r).first() {
                    out.fail(if s == IncrementalStrategy::SubDAGReplacement { "query-after-subdag-replacement" } else { "query-after-edit" }, &text, &format!("{h} [{}] ; {req}", strategy_name(s)), got, wanted);
                }
            }
        }
    }
}

pub fn c11(a: &Args) {
    let mut rng = Rng::new(a.seed);
    let mut out = Out::new(&a.out);
    pinned(a, &mut out, &mut rng);
    part_a(a, &mut out, &mut rng);
    part_b(a, &mut out, &mut rng);
    out.finish("A: every model of the C01 space x unit clauses (quick: 3 sampled literals per model, thorough: every literal) plus unit clauses over new features n+1..n+3, a second unit clause on top for a third of them; after each edit the C01-C06 battery (feature count, counts, SAT, core, enumeration set, sampling validity) against the truth table of `previous formula AND clause`, and the edited node array compared exactly with the Lean model of add_unit_clause + rebuild. B: random CNFs (2..10 variables) loaded through the real loader with the self-validated reference compiler behind the hook x sequences of 1..4 edits (add 1-2 clauses of width 1..4 incl. tautologies, duplicates of stored clauses, clauses over new variables; remove a clause of the stored CNF; the inverse of the latest edit), battery after each edit against the truth table of the edited clause set");
}


/// debugging aid: `vharness editprobe --out FILE` where FILE holds a CNF followed by edit lines `+ 1 2 / -3` or `- 1 2`
pub fn probe(path: &str) {
    refcomp::install();
    let text = std::fs::read_to_string(path).unwrap();
    let cnf: String = text.lines().filter(|l| !l.starts_with('*')).filter(|l| !l.starts_with('+') && !l.starts_with('-') || l.trim_start_matches('-').trim_start().chars().next().map(|c| c.is_ascii_digit()).unwrap_or(false) && l.trim_end().ends_with(" 0")).map(|l| format!("{l}\n")).collect();
    let p = format!("{path}.cnf");
    std::fs::write(&p, &cnf).unwrap();
    let mut d = Ddnnf::from_file(std::path::Path::new(&p), None);
    println!("loaded: n={} count={} stored={:?}", d.number_of_variables, d.rc(), d.inter_graph.cnf_clauses);
    for l in text.lines() {
        if let Some(r) = l.strip_prefix("* ") {
            // mixed edit: `* a 1 / r 2 3`
            let ops: Vec<(Vec<i32>, ClauseApplication)> = r.split('/').map(|c| { let c = c.trim(); let app = if c.starts_with('a') { ClauseApplication::Add } else { ClauseApplication::Remove }; (c[1..].split_whitespace().map(|x| x.parse().unwrap()).collect(), app) }).collect();
            let s = apply(&mut d, ops.clone());
            println!("{:?} -> {:?}: n={} count={} stored={:?}", ops, s.map(strategy_name), d.number_of_variables, d.rc(), d.inter_graph.cnf_clauses);
            continue;
        }
        let (app, rest) = if let Some(r) = l.strip_prefix("+ ") { (ClauseApplication::Add, r) } else if let Some(r) = l.strip_prefix("- ") { if l.trim_end().ends_with(" 0") { continue; } (ClauseApplication::Remove, r) } else { continue };
        let ops: Vec<(Vec<i32>, ClauseApplication)> = rest.split('/').map(|c| (c.split_whitespace().map(|x| x.parse().unwrap()).collect(), app)).collect();
        let s = apply(&mut d, ops.clone());
        println!("{:?} -> {:?}: n={} count={} stored={:?}", ops, s.map(strategy_name), d.number_of_variables, d.rc(), d.inter_graph.cnf_clauses);
        print!("{}", export_nodes(&d));
    }
}
