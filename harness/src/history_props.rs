//! C16 history independence: long-lived instance vs fresh instance vs clone; two models in one process.
use crate::common::*;
use crate::enum_props::judge_history;
use crate::gen::GenFile;
use crate::rng::Rng;
use crate::space::*;
use crate::tt::TT;
use ddnnife::Ddnnf;
use std::collections::HashMap;

#[derive(Clone, Debug)]
enum Req { Stream(String), Table, Mermaid(Vec<i32>), Save }

fn rand_lits(rng: &mut Rng, n: u32, len: usize) -> Vec<i32> {
    (0..len).map(|_| { let v = 1 + rng.below(n as usize) as i32; if rng.chance(0.5) { v } else { -v } }).collect()
}

/// one request of the given kind (0..KINDS)
const KINDS: usize = 15;
fn make_req(kind: usize, rng: &mut Rng, n: u32, sat_hint: &[i32]) -> Req {
    let a = |rng: &mut Rng, len: usize| -> String {
        // mostly satisfiable lists: take literals of a known model
        let l: Vec<i32> = (0..len).map(|_| if rng.chance(0.85) { *rng.pick(sat_hint) } else { -*rng.pick(sat_hint) }).collect();
        fmt_ints(&l)
    };
    match kind {
        0 => Req::Stream("count".into()),
        1 => Req::Stream(format!("count a {}", a(rng, 1))),
        2 => { let len = 2 + rng.below(5); Req::Stream(format!("count a {}", a(rng, len))) }
        3 => { let len = 21 + rng.below(5); Req::Stream(format!("count a {}", a(rng, len))) }
        4 => { let len = 1 + rng.below(4); Req::Stream(format!("sat a {}", a(rng, len))) }
        5 => Req::Table,
        6 => if rng.chance(0.5) { Req::Stream("core".into()) } else { Req::Stream(format!("core a {}", a(rng, 1))) },
        7 => { let k = 1 + rng.below(6); let seed = rng.below(5); Req::Stream(format!("random l {} s {}{}", k, seed, if rng.chance(0.5) { format!(" a {}", a(rng, 1)) } else { String::new() })) }
        8 => { let k = 1 + rng.below(4); Req::Stream(format!("enum l {}{}", k, if rng.chance(0.5) { format!(" a {}", a(rng, 1)) } else { String::new() })) }
        9 => if rng.chance(0.5) { Req::Stream("atomic".into()) } else { Req::Stream(format!("atomic a {}", a(rng, 1))) },
        10 => Req::Stream("atomic-cross".into()),
        11 => Req::Stream(format!("t-wise l {}", 1 + rng.below(2))),
        12 => { let len = 1 + rng.below(3); Req::Mermaid(rand_lits(rng, n, len)) }
        13 => Req::Save,
        _ => { let len = 1 + rng.below(3); Req::Stream(format!("count a {} v {}", a(rng, 1), fmt_ints(&rand_lits(rng, n, len)))) }
    }
}

fn is_enum(r: &Req) -> bool { matches!(r, Req::Stream(s) if s.starts_with("enum")) }
fn is_twise(r: &Req) -> bool { matches!(r, Req::Stream(s) if s.starts_with("t-wise")) }

fn run_req(d: &mut Ddnnf, r: &Req, tmp: &str) -> String {
    let res = guarded(|| match r {
        Req::Stream(s) => d.handle_stream_msg(s),
        Req::Table => d.card_of_each_feature().map(|(v, c, ratio)| format!("{v},{c},{ratio:e}")).collect::<Vec<_>>().join(";"),
        Req::Mermaid(f) => { let mut buf: Vec<u8> = Vec::new(); ddnnife::parser::persisting::write_as_mermaid_md(d, f, &mut buf).unwrap(); String::from_utf8_lossy(&buf).to_string() }
        Req::Save => { let p = format!("{tmp}/save.nnf"); ddnnife::parser::persisting::write_ddnnf_to_file(d, std::path::Path::new(&p)).unwrap(); std::fs::read_to_string(&p).unwrap_or_default() }
    });
    res.unwrap_or_else(|e| format!("panic: {e}"))
}

fn parse_enum(s: &str) -> (Vec<i32>, usize) {
    let toks: Vec<&str> = s.split_whitespace().collect();
    let mut a = Vec::new(); let mut k = 0; let mut i = 1;
    while i < toks.len() {
        match toks[i] { "l" => { k = toks[i + 1].parse().unwrap(); i += 2; } "a" => { i += 1; while i < toks.len() && toks[i].parse::<i32>().is_ok() { a.push(toks[i].parse().unwrap()); i += 1; } } _ => i += 1 }
    }
    (a, k)
}
fn parse_cfgs(s: &str) -> Option<Vec<Vec<i32>>> {
    if s.starts_with("E5") { None } else if s.is_empty() { Some(vec![]) } else { Some(s.split(';').map(|c| c.split_whitespace().map(|x| x.parse().unwrap_or(0)).collect()).collect()) }
}

fn twise_valid(ans: &str, tt: &TT) -> bool {
    if ans == "true" || ans == "false" { return true; }
    ans.split(|c| c == ';' || c == '\n').filter(|c| !c.trim().is_empty()).all(|c| {
        let cfg: Vec<i32> = c.split_whitespace().filter_map(|x| x.parse().ok()).collect();
        tt.index_of(&cfg).map(|k| tt.bits[k]).unwrap_or(false)
    })
}

/// drive a history on a long-lived instance; every non-paging answer must equal a fresh instance's and a clone's
fn history(out: &mut Out, file: &GenFile, tt: &TT, reqs: &[Req], tmp: &str, to_driver: bool) {
    let Ok(mut long) = load(file) else { return };
    let mut enum_hist: HashMap<Vec<i32>, (Vec<usize>, Vec<Option<Vec<Vec<i32>>>>)> = HashMap::new();
    if to_driver { out.circuit(&export_nodes(&long), &circuit_line(&long)); }
    for (i, r) in reqs.iter().enumerate() {
        let mut clone = long.clone();
        let ans = run_req(&mut long, r, tmp);
        let what = format!("request {} of history {:?}", i, reqs);
        if ans.starts_with("panic:") { out.fail("history-panic", &file.text(), &what, &ans, "an answer"); continue; }
        if is_enum(r) {
            let Req::Stream(s) = r else { unreachable!() };
            let (mut a, k) = parse_enum(s);
            let raw = a.clone();
            a.sort_by_key(|x| x.abs());
            let e = enum_hist.entry(a.clone()).or_default();
            e.0.push(k); e.1.push(parse_cfgs(&ans));
            if let Err(err) = judge_history(tt, &a, &e.0, &e.1) { out.fail("paging-state-disturbed", &file.text(), &what, &format!("{err}"), "paging unaffected by the other requests"); }
            if to_driver { out.query("enum", &format!("{} {}", k, fmt_ints(&raw)), &match parse_cfgs(&ans) { Some(p) => fmt_cfgs(&p), None => "none".into() }); }
            continue;
        }
        if is_twise(r) {
            if !twise_valid(&ans, tt) { out.fail("t-wise-invalid", &file.text(), &what, &ans, "only models"); }
            continue;
        }
        let mut fresh = load(file).unwrap();
        let want = run_req(&mut fresh, r, tmp);
        if ans != want { out.fail("history-dependence", &file.text(), &what, &ans, &want); }
        let cl = run_req(&mut clone, r, tmp);
        if cl != want { out.fail("clone-dependence", &file.text(), &what, &cl, &want); }
        if to_driver {
            if let Req::Stream(s) = r {
                let toks: Vec<&str> = s.split_whitespace().collect();
                if toks.len() >= 1 && !s.contains(" v ") && !s.contains(" s ") {
                    let args = if toks.len() > 2 { toks[2..].join(" ") } else { String::new() };
                    match toks[0] { "count" | "sat" | "core" => out.query(toks[0], &args, &ans), _ => {} }
                }
            }
        }
    }
}

pub fn c16(a: &Args) {
    let mut rng = Rng::new(a.seed);
    let mut out = Out::new(&a.out);
    let tmp = a.out.clone();
    let cfg = if a.thorough() {
        SpaceCfg { g1_max_n: 3, g1_rate: 0.01, random_d4: 260, random_c2d: 130, min_n: 3, max_n: 7 }
    } else {
        SpaceCfg { g1_max_n: 3, g1_rate: 0.002, random_d4: 40, random_c2d: 20, min_n: 3, max_n: 6 }
    };
    let mut r2 = rng.fork();
    let mut models: Vec<(GenFile, TT)> = Vec::new();
    for_each_model(&cfg, &mut rng, |file, tt| {
        let hint = tt.config(tt.models_with(&[])[0]);
        // random histories
        for h in 0..(if a.thorough() { 3 } else { 2 }) {
            let len = 10 + r2.below(25);
            let reqs: Vec<Req> = (0..len).map(|_| { let k = r2.below(KINDS); make_req(k, &mut r2, file.n, &hint) }).collect();
            out.eval(Some(format!("{}|{:?}", file.text(), reqs)));
            out.count("random_histories", 1);
            out.count("requests", reqs.len() as u64);
            history(&mut out, file, tt, &reqs, &tmp, h == 0);
            if h == 0 && r2.chance(0.1) { out.sample(format!("{} n={} history {:?}", file.origin, file.n, reqs)); }
        }
        if models.len() < 12 { models.push((file.clone(), tt.clone())); }
    });
    // bounded-exhaustive: every ordered pair of request kinds on a fresh instance
    for (file, tt) in models.iter().take(if a.thorough() { 8 } else { 3 }) {
        let hint = tt.config(tt.models_with(&[])[0]);
        for k1 in 0..KINDS { for k2 in 0..KINDS {
            let reqs = vec![make_req(k1, &mut r2, file.n, &hint), make_req(k2, &mut r2, file.n, &hint)];
            out.eval(Some(format!("{}|pair {} {}", file.text(), k1, k2)));
            out.count("kind_pairs", 1);
            history(&mut out, file, tt, &reqs, &tmp, false);
        } }
    }
    // the scratch state itself: sequences of counting requests on one instance; after each request the answer and
    // every node's `temp` must be what the Lean state machine (Model/MarkState.lean) holds, which must be clean
    for (file, tt) in models.iter() {
        let Ok(mut d) = load(file) else { continue };
        out.circuit(&export_nodes(&d), &circuit_line(&d));
        out.query("hasparents", "", "true");
        let n = file.n as i32;
        for _ in 0..(if a.thorough() { 40 } else { 16 }) {
            let len = match r2.below(8) { 0 => 1, 1..=5 => 2 + r2.below(4), 6 => 20, _ => 21 + r2.below(4) };
            let lits: Vec<i32> = (0..len).map(|_| { let v = 1 + r2.below(n as usize) as i32; if r2.chance(0.5) { v } else { -v } }).collect();
            out.eval(Some(format!("{}|ms {:?}", file.text(), lits)));
            out.count("scratch_state_requests", 1);
            let Ok(ans) = guarded(|| d.execute_query(&lits).to_string()) else { out.fail("count-panic", &file.text(), &format!("count {:?}", lits), "panic", "a count"); break };
            if ans != tt.count_with(&lits).to_string() { out.fail("count-in-history", &file.text(), &format!("count {:?}", lits), &ans, &tt.count_with(&lits).to_string()); }
            let temps: Vec<String> = d.nodes.iter().map(|nd| nd.temp.to_string()).collect();
            out.query("ms", &fmt_ints(&lits), &format!("{} | {} | clean=true", ans, temps.join(",")));
            // every third request: a sampling request in between (preprocess_config_creation + execute_query reset and
            // recompute the temp fields); the temps it leaves behind are compared as well
            if r2.chance(0.35) {
                let alen = match r2.below(6) { 0 => 0, 1..=3 => 1 + r2.below(2), 4 => 3, _ => 21 };
                let al: Vec<i32> = (0..alen).map(|_| { let v = 1 + r2.below(n as usize) as i32; if r2.chance(0.5) { v } else { -v } }).collect();
                let res = guarded(|| d.uniform_random_sampling(&al, 2, 5));
                let temps: Vec<String> = d.nodes.iter().map(|nd| nd.temp.to_string()).collect();
                match res {
                    Ok(_) => out.query("cfgprep", &fmt_ints(&al), &format!("{} | {}", tt.count_with(&al), temps.join(","))),
                    Err(e) => out.fail("urs-panic-in-history", &file.text(), &format!("urs a {:?}", al), &format!("panic: {e}"), "samples"),
                }
                out.count("config_preparations", 1);
            }
        }
    }
    // two different models enumerated alternately in one process
    for i in 0..models.len().saturating_sub(1) {
        let (f1, t1) = &models[i]; let (f2, t2) = &models[i + 1];
        let (Ok(mut d1), Ok(mut d2)) = (load(f1), load(f2)) else { continue };
        let (mut k1s, mut p1s, mut k2s, mut p2s) = (vec![], vec![], vec![], vec![]);
        out.eval(Some(format!("two-models {}|{}", f1.text(), f2.text())));
        out.count("two_model_histories", 1);
        for _ in 0..12 {
            let k = 1 + r2.below(4);
            if r2.chance(0.5) { k1s.push(k); p1s.push(guarded(|| d1.enumerate(&mut vec![], k)).unwrap_or(None)); }
            else { k2s.push(k); p2s.push(guarded(|| d2.enumerate(&mut vec![], k)).unwrap_or(None)); }
        }
        if let Err(e) = judge_history(t1, &[], &k1s, &p1s) { out.fail("cross-model-paging", &format!("{}\n----\n{}", f1.text(), f2.text()), &format!("alternating enumerate([],k): first model amounts {:?}, second {:?}", k1s, k2s), &e, "each model pages on its own"); }
        if let Err(e) = judge_history(t2, &[], &k2s, &p2s) { out.fail("cross-model-paging", &format!("{}\n----\n{}", f1.text(), f2.text()), &format!("alternating enumerate([],k): first model amounts {:?}, second {:?}", k1s, k2s), &e, "each model pages on its own"); }
        out.circuit(&export_nodes(&d1), &circuit_line(&d1));
        for (k, p) in k1s.iter().zip(p1s.iter()) { out.query("enum", &k.to_string(), &match p { Some(p) => fmt_cfgs(p), None => "none".into() }); }
        out.circuit(&export_nodes(&d2), &circuit_line(&d2));
        for (k, p) in k2s.iter().zip(p2s.iter()) { out.query("enum", &k.to_string(), &match p { Some(p) => fmt_cfgs(p), None => "none".into() }); }
    }
    // corpus: vp9 and small_ex in one process (the original reproduction of the shared cursor)
    {
        let mut vp9 = ddnnife::parser::build_ddnnf(std::path::Path::new("/repo/ddnnife/tests/data/VP9_d4.nnf"), Some(42));
        let mut small = ddnnife::parser::build_ddnnf(std::path::Path::new("/repo/ddnnife/tests/data/small_ex_c2d.nnf"), None);
        out.eval(Some("vp9+small_ex".into()));
        let _ = vp9.enumerate(&mut vec![], 3);
        let p = guarded(|| small.enumerate(&mut vec![], 2)).unwrap_or(None);
        if p.as_ref().map(|p| p.len()) != Some(2) { out.fail("cross-model-paging", "VP9_d4.nnf + small_ex_c2d.nnf", "vp9.enumerate([],3); small_ex.enumerate([],2)", &format!("{:?}", p), "the first 2 configurations of small_ex"); }
        for _ in 0..4 { let _ = vp9.enumerate(&mut vec![], 3); }
        let p = guarded(|| small.enumerate(&mut vec![], 5));
        if !matches!(&p, Ok(Some(v)) if v.len() == 2) { out.fail("cross-model-paging", "VP9_d4.nnf + small_ex_c2d.nnf", "after 5 pages of vp9: small_ex.enumerate([],5)", &format!("{:?}", p), "the remaining 2 configurations"); }
    }
    // many enumerations for other assumption lists between two pages of one list: the second page must be what a fresh
    // instance that only saw the requests for that list answers (70 and 1 100 other lists: bounded stores / caches)
    for others in [70usize, 1100] {
        let lines = vec!["o 1 0".to_string(), "t 2 0".to_string(), "1 2 1 0".to_string(), "1 2 -1 2 0".to_string()];
        let text = lines.join("\n");
        let n = 40u32;
        let (l1, l2) = (lines.clone(), lines.clone());
        let (Ok(mut long), Ok(mut fresh)) = (guarded(move || ddnnife::parser::distribute_building(l1, Some(n), None)), guarded(move || ddnnife::parser::distribute_building(l2, Some(n), None))) else { continue };
        let a0 = vec![3i32];
        let _ = guarded(|| long.enumerate(&mut a0.clone(), 5));
        let _ = guarded(|| fresh.enumerate(&mut a0.clone(), 5));
        let mut done = 0usize;
        'outer: for v in 4..=n as i32 { for w in (v + 1)..=n as i32 { for (sv, sw) in [(1, 1), (1, -1), (-1, 1)] {
            if done >= others { break 'outer; }
            let _ = guarded(|| long.enumerate(&mut vec![sv * v, sw * w], 1));
            let _ = guarded(|| long.execute_query(&[sv * v]));
            done += 1;
        } } }
        out.eval(Some(format!("{text}|{others} other lists")));
        out.count("histories_with_many_assumption_lists", 1);
        let got = guarded(|| long.enumerate(&mut a0.clone(), 5)).ok().flatten();
        let want = guarded(|| fresh.enumerate(&mut a0.clone(), 5)).ok().flatten();
        if got != want { out.fail("history-dependence", &text, &format!("enum a [3] l 5, one page for each of {done} other assumption lists, enum a [3] l 5 (-t {n})"), &format!("{:?}", got.map(|p| p.iter().map(|c| c[..4].to_vec()).collect::<Vec<_>>())), &format!("{:?}", want.map(|p| p.iter().map(|c| c[..4].to_vec()).collect::<Vec<_>>()))); }
    }
    out.finish("random histories (10..35 requests) over 15 request kinds (count by each strategy, sat, per-feature table, core, seeded sampling, enumeration, atomic sets, atomic-cross, t-wise, mermaid marking, save, per-variable count) on one long-lived instance, each non-paging answer compared with a fresh instance and with a clone taken just before; enumeration judged per assumption set; all ordered pairs of request kinds; pairs of different models enumerated alternately in one process; distinct by (file, history)");
}
