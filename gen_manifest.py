#!/usr/bin/env python3
"""Regenerates MANIFEST.json from the table below (kept in one place so it always validates)."""
import json, os
ROOT = os.path.dirname(os.path.abspath(__file__))
obl = json.load(open(os.path.join(ROOT, "lean", "obligations.json")))

CHECKS = {
 "C01": dict(
   technique="Lean 4 theorem (count = number of satisfying assignments for every well-formed node array) + per-input validated loader correspondence",
   text="Theorems count_is_model_count / same_function_same_count hold for every well-formed node array of any size (induction over the array, kernel-checked). The loader is tied per input: the Lean driver evaluates the decidable WF predicate and the truth table on the node array the real loader exported and compares with the truth table of the input text; the real code is compared with an independent oracle.",
   note="Modelled, not verified: the d4/c2d loader (petgraph passes, smoothing) is validated per input (WF + truth table of the export, n<=10 truth tables; structural WF only on corpus models), not proved; BigInt arithmetic is modelled by Nat and tied by the corpus; nom lexers, file IO trusted.",
   ref="DESIGN.md §8 C01"),
}

NOT_YET = "machinery for this property is being built in this session (see DESIGN.md §11); not claimed yet"

def main():
    props = [json.loads(l)["id"] for l in open(os.path.join(ROOT, "properties.jsonl"))]
    checks = []
    for pid in props:
        if pid not in CHECKS or pid not in obl:
            continue
        c = CHECKS[pid]
        checks.append({
            "property_id": pid,
            "quick_cmd": "./check %s --tier quick" % pid,
            "thorough_cmd": "./check %s --tier thorough" % pid,
            "evidence_file": "evidence/%s.json" % pid,
            "replay_cmd_template": "./check %s --replay {path}" % pid,
            "engine": "lean-proof+correspondence",
            "level_claimed": {"category": c.get("category", "proof"), "text": c["text"], "design_ref": c["ref"]},
            "level_note": c["note"],
            "technique": c["technique"],
        })
    man = {
        "version": 1,
        "setup_cmd": "./check --setup",
        "hooks": {
            "guard": "ddnnife_verif",
            "enable": "RUSTFLAGS='--cfg ddnnife_verif' (set by ./check and harness/.cargo/config.toml); hooks are #[cfg(ddnnife_verif)] items",
            "baseline_off_cmd": "cd /repo && cargo test --workspace --no-fail-fast --offline",
            "source_commits": json.load(open(os.path.join(ROOT, "hooks.json"))) if os.path.exists(os.path.join(ROOT, "hooks.json")) else [],
            "add_only": True,
        },
        "engines": [{"name": "lean-proof+correspondence", "path": "check",
                     "serves_properties": [c["property_id"] for c in checks],
                     "kind_free_text": "Lean 4 theorems about an executable model (lean/), Rust correspondence harness (harness/) that runs the real code, an independent oracle and the Lean driver on the same inputs, python orchestrator (check)"}],
        "checks": checks,
        "not_applicable": [{"property_id": p, "reason": NOT_YET} for p in props if p not in [c["property_id"] for c in checks]],
        "notes": "Technique family: machine-checked proof in Lean 4 with a hand-written model tied to the code by a correspondence check. See DESIGN.md.",
    }
    json.dump(man, open(os.path.join(ROOT, "MANIFEST.json"), "w"), indent=1)
    print("MANIFEST.json:", len(checks), "checks,", len(man["not_applicable"]), "not claimed")

if __name__ == "__main__":
    main()
