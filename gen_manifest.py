#!/usr/bin/env python3
"""Regenerates MANIFEST.json from the table below (kept in one place so it always validates)."""
import json, os
ROOT = os.path.dirname(os.path.abspath(__file__))
obl = json.load(open(os.path.join(ROOT, "lean", "obligations.json")))

CHECKS = {
 "C02": dict(
   technique="Lean 4 theorem execQuery = truth-table count for every assumption list (dispatch, core shortcuts, marking strategy with divide trick, default strategy all modelled) + correspondence on exported arrays",
   text="count_under_assumptions_exact: for every well-formed node array with unique literal leaves and every list of in-range literals (any length/order/repetition/contradiction) the model of execute_query equals the number of satisfying assignments containing the list; strategy_independent is unconditional. Tie: the Lean driver runs the same execQuery on the node arrays exported from the real loader for all 3^n partial assignments (n<=5 quick, n<=7 thorough) and boundary-length lists and is diffed with the real execute_query; the real code is also compared with the truth table of the input text and, on the corpus, with the split/permutation/padding laws; library and stream interfaces.",
   note="InRange hypothesis: literals with |f|>n or 0 are outside the theorem (the code ignores them; not generated). Modelled, not verified: BigInt as Nat; Node.parents / md bookkeeping of the marking algorithm is abstracted to 'ancestors of touched leaves' (tied by correspondence); CLI and count-queries file interfaces are exercised by C15/C13 checks, not here.",
   ref="DESIGN.md §8 C02"),
 "C03": dict(
   technique="Lean 4 theorem satQuery = (truth-table count > 0); unconditional mark invariant; correspondence incl. kept propagation state",
   text="sat_agrees_with_models / sat_iff_count_positive for every well-formed array and in-range list; mark_iff_no_compatible_model is the unconditional invariant of the propagation state (marked or count 0 iff no compatible model), which makes the state a function of the set of propagated literals. Tie: sat, sat_immutable, stream sat and chunked sat_propagate with a kept vector are diffed with the model (answers and the state vector node by node) and with the truth table.",
   note="Modelled, not verified: the worklist order of propagate_mark (parents recursion, early exits) is modelled by its least fixpoint; equality of the two is tied by comparing the kept mark vector with the model's fixpoint on every sampled incremental history, not proved.",
   ref="DESIGN.md §8 C03"),
 "C04": dict(
   technique="Lean 4 theorem: reverse-mode partial-derivative pass gives the single-literal counts (loop invariant over the downward pass) + correspondence",
   text="row_is_single_literal_count: for every well-formed array with unique leaves, row f of the model of card_of_each_feature equals the truth-table count of [f]; one_row_per_feature; row_eq_execQuery. Tie: table of the real code diffed with the model's cardPD on exported arrays and compared with the truth table; ratio checked against card/total within 1e-12; CSV writer rows on the corpus.",
   note="Modelled, not verified: f64 conversion/formatting of the ratio (BigRational::to_f64, {:.10e}) is trusted and checked numerically only.",
   ref="DESIGN.md §8 C04"),
 "C05": dict(
   technique="Lean 4 theorems: core = literals in all models (semantic core via partial derivatives), core with assumptions via exact counts + correspondence",
   text="core_exact (l reported iff every model contains l), core_with_assumptions_exact, core_candidate_exact for every well-formed array. Tie: get_core, core_dead/core/dead_with_assumptions and stream core (plain and per-candidate) diffed with the model on exported arrays and compared with the truth table for all assumption lists of length <=2 (n<=5) and sampled length 3; corpus: core literal iff count of complement is 0. The check found and the repo now carries the repair of calculate_core (known_findings: fixed c47cc16).",
   note="Requires count > 0 (satisfiable model) for core_exact. HashSet order of the library result is canonicalised by sorting.",
   ref="DESIGN.md §8 C05"),
 "C06": dict(
   technique="Lean 4 theorems: enumerate_node = slice of the fixed model list (and/or prefix lemmas), cursor state machine invariant over arbitrary request histories + correspondence on exact pages",
   text="paging_history: in any history of requests (interleaved with other assumption sets) the requests for one key are answered by consecutive pages of the fixed list of models containing A, min(k, remaining) each, restarting at 0 after the last model; page_source_is_model_set: that list is duplicate free, consists of complete configurations that are models containing A and has count(A) elements; none_iff_unsat; key_independent_of_order. Tie: every page of every history (all amount sequences over {1,2,3,5,count,count+1} to two cycles for small counts) is compared literally (same configurations, same order) with the Lean cursor machine on the exported array, and judged by the truth-table oracle; library and stream interfaces.",
   note="Side conditions EnumOK (children before parents, no True child under an or-node, root not True) are decided by the driver per exported array (q enumok). Modelled, not verified: usize conversions of BigInt (to_usize panics for > 2^64 models per page are outside the model), Mutex/Arc of the cursor (C17), itertools::multi_cartesian_product order (modelled by prodConfigs and tied by exact page comparison). FFI DdnnfMut::enumerate is a thin wrapper (read, not run).",
   ref="DESIGN.md §8 C06"),
 "C16": dict(
   technique="Lean 4 theorems on the request state machine of a loaded model (only state: per-model enumeration cursor) + correspondence: long-lived instance vs fresh instance vs clone, request by request, and the model's answers along the same history",
   text="answer_independent_of_history: in the model every non-paging request is answered from (node array, request) alone after any history; nonpaging_requests_keep_cursor; paging_state_belongs_to_one_model / _one_assumption_set for a process holding several models. The abstraction 'no scratch state survives a request' is what the tie checks: random histories over 15 request kinds and all ordered pairs of kinds on a long-lived instance are compared request-by-request with a fresh instance and with a clone taken just before, enumeration inside the history is judged per assumption set, count/sat/core/enum answers along the history are diffed with the Lean session machine; two models enumerated alternately in one process. The check found the process-global cursor (fixed fecd733).",
   note="Modelled, not verified: the scratch fields temp/marker/partial_derivative/md of Node are not part of the model state (every operation of the model recomputes what it reads); their harmlessness is established by the correspondence, not by a theorem. t-wise answers are only checked for validity (C09).",
   ref="DESIGN.md §8 C16"),
 "C20": dict(
   technique="Lean 4 theorems: best configuration = argmax over the models containing A (unconditional), top-k incl. n-ary frontier search and k-way merge = k largest values (unconditional) + correspondence with exact configurations for tie-free objectives",
   text="best_is_optimal_model, best_none_iff_unsat, topk_is_a_top_k_selection, topk_values_are_the_k_largest hold for every node array, objective vector, assumption list and k>0 (no well-formedness needed); candidates_are_models_containing_A links the ranged-over list to the models containing A for well-formed arrays. Tie: best/top-k of the real ExtendedDdnnf (hook accessor) vs the Lean model (exact configurations for tie-free vectors, value sequences for tied ones) and vs brute-force ranking of the truth table, k in {1,2,3,count,count+1,random}.",
   note="Objective values are integers in the model; the harness uses integer-valued f64 with |v| <= 2^20 so f64 sums are exact; f64 rounding for non-integer objectives is not modelled. Ties: BinaryHeap pop order among equal values is unspecified; theorems and comparison are by value.",
   ref="DESIGN.md §8 C20"),
 "C14": dict(
   technique="Lean 4 invariant proof over all interleavings of the reader/worker/printer state machine + replay of the real binary's event traces through that machine + stdout comparison with -j 1",
   text="output_in_input_order, every_accepted_line_answered_before_exit, accepted_lines_are_conserved, never_stuck_with_pending_work hold for every event sequence the state machine accepts (any number of workers, any interleaving). Tie: the real binary `ddnnife stream -j N` (N up to 32, batches up to 2000 lines, six processes at once, seeded delays at the pull/send/recv/print points) emits its events through the hook; every trace must be accepted by the Lean machine and end in a finished state that printed everything in order; stdout is compared with -j 1 byte for byte. The check found that answers received in the iteration that reads exit/EOF were never printed (fixed 9ea73e5).",
   note="Partial: liveness of thread::park/unpark, the mpsc channel and the OS scheduler are runtime behaviour; the model proves the safety form only (an enabled step exists while work is pending). 'identical to the single-worker answer' is established by comparison with -j 1 for count/sat/core/seeded random/atomic requests, and by C16 for the clone of the model each worker holds.",
   ref="DESIGN.md §8 C14"),
 "C15": dict(
   technique="Lean 4 theorem: sorting any permutation of the indexed results reproduces the sequential output + byte comparison j=N vs j=1 under injected delays",
   text="parallel_output_equals_sequential holds for every order of arrival of the worker results (every schedule, every j); exactly_one_line_per_query. Tie: operate_on_queries (count and sat) with j in {2,4,random,32} against j=1 byte for byte on query files of 0..5000 lines (empty lines, duplicates), seeded delays in the worker closure; CLI count-queries/sat -j N; the line format is compared with the model's fmtLine.",
   note="Modelled, not verified: workctl queue and mpsc channel deliver every result exactly once (the hypothesis 'arrivals is a permutation of the indexed results'); worker answers equal the original's because workers hold clones (C16).",
   ref="DESIGN.md §8 C15"),
 "C17": dict(
   technique="Lean 4 theorem: lock-protected cursor section is serialisable for every schedule; witness of the race for the split section + controlled scheduling of the real code through hook points",
   text="concurrent_requests_are_serialisable / pages_are_the_sequential_pages: every schedule admitted by the lock yields the pages of sequential processing in lock-acquisition order, i.e. consecutive slices (C06); split_cursor_section_races is the kernel-checked witness that the pre-repair code (two lock acquisitions) could hand out a page twice. Tie: 2..4 concurrent enumerate calls on clones with request 0 paused by the hook right after its cursor read while the others run; observed read/write events are replayed through the Lean lock machine (a read inside a foreign section is rejected) and the pages compared; pages judged as a sequential history by the truth-table oracle; free-running `stream -j 2..4` with several enum lines under seeded delays.",
   note="Modelled, not verified: std::sync::Mutex provides mutual exclusion (the lock discipline of the model); thread scheduling is explored by pausing at hook points and by delays, not exhaustively at instruction level.",
   ref="DESIGN.md §8 C17"),
 "C19": dict(
   technique="Lean 4 theorems: Tseitin export has exactly one extension per model (bijection), equi-countable, header = max variable with no gaps + exact clause comparison and independent DPLL count",
   text="cnf_is_equicountable, cnf_models_project_to_models, every_model_has_exactly_one_extension, header_declares_what_the_cnf_contains for every well-formed array satisfying the driver-checked side conditions (q cnfok). Tie: the clause list and num_variables of Cnf::from(&Ddnnf) are compared literally with the Lean toCnf on the exported array; an independent DPLL counter counts the exported CNF over its declared variables and checks that the projection onto the features hits every model exactly once; printed header vs content; c2d inputs with true nodes included (the panic on constants was repaired in 9dec93a).",
   note="Side conditions CnfOK (leaf literals in 1..n, some Tseitin variable introduced, root represented by the last variable) are decided per exported array; models with a single literal (n < 2) are outside the property. HashMap-based operation cache is modelled as an association list (lookup only, no iteration).",
   ref="DESIGN.md §8 C19"),
 "C07": dict(
   technique="Lean 4 theorems over every behaviour of the random source (sampler re-executed along recorded decisions): k samples, each a model containing A, None iff unsat, routing weights multiply to 1/count(A) + replay of every real run's decisions through the model + chi-square test (labelled a test)",
   text="samples_are_k_models_containing_A, none_iff_unsat hold for every well-formed array, every in-range assumption list, every amount and EVERY list of random decisions (or-node splits, shuffles) the sampler could draw; same_decisions_same_samples (answer is a function of array, request and decisions); routing_weights_are_uniform: the or-node routing weights temp(child)/temp(node) multiply to exactly 1/count(A) for every model containing A (exact rationals). Tie: the hook records the decisions of each real run of uniform_random_sampling; the Lean model must accept every decision (range checks) and reproduce the sample list exactly; length/validity/None/repeatability/stream `random` vs truth-table oracle.",
   note="Partial for the distributional clause: that rand_distr's Binomial / WeightedAliasIndex and SliceRandom::shuffle realise the multinomial split / uniform shuffles, that Pcg32 is a good generator, and f64 rounding of the weights are runtime behaviour outside any theorem here; they are checked by the chi-square statistic the quantifier prescribes (<=256 models, >=40 000 draws, false-alarm < 1e-12), labelled a test. Root = True (n=0) excluded (hroot).",
   ref="DESIGN.md §8 C07"),
 "C08": dict(
   technique="Lean 4 theorems: atomic-set report (grouping by count, prefilter, confirmation, union-find, plain/cross clean-up) = classes of always-equal literals with >=2 members, each once, sorted; prefilter samples admissible for every behaviour of the RNG + correspondence with brute force",
   text="plain_report_is_exactly_the_classes / cross_report_is_exactly_the_classes: for every well-formed array, in-range A, candidate list and every admissible sample list, S is reported iff S is the sorted list of a class (>=2 members) of candidates (signed literals in cross mode) with equal value in every model containing A; plain_/cross_report_lists_each_class_once; cross_report_once_up_to_negation; prefilter_samples_are_admissible (whatever the RNG does the 512 samples are models containing A, by C07); report_independent_of_samples. Tie: get_atomic_sets (library, stream atomic / atomic-cross) vs the Lean atomicSets on the exported array (identical report) and vs brute-force classes from the truth table, for satisfiable A of length 0..3 x candidate subsets x {plain, cross}.",
   note="Cross mode needs satisfiable A (hsat), as the property states. Union-find is abstracted to a list of classes (tied by identical reports); i16 conversion of features (n < 32768) not modelled; the hash-map grouping order is canonicalised by the final sort in both code and model.",
   ref="DESIGN.md §8 C08"),
 "C10": dict(
   technique="Lean 4 theorems: lexer(writer(node)) round trip, parse(write(nodes)) = nodes (constants normalised), DFS flattening preserves WF/denotation/count => save+reload yields an equivalent well-formed circuit answering count/sat/core/per-feature/model-set queries identically + byte comparison of the real writer with the model writer and node-by-node comparison of the real reload with the model's parse+flatten",
   text="every_written_line_lexes_back, written_file_parses_back, saved_file_is_wellformed_and_equivalent (the file is a smooth decomposable deterministic circuit over n features with the same denotation), reload_is_wellformed_and_equivalent, reload_answers_like_the_original (count under every assumption list, per-feature table, model set), reload_sat_and_core_like_the_original for every well-formed array. Tie: write_ddnnf_to_file (library, stream save-ddnnf) output compared with the model writer's text, truth table of the file text vs original, real reload compared node by node with model parse+flatten, reloaded array WF by the driver, battery incl. atomic sets answered identically.",
   note="Modelled, not verified: decimal printing/parsing of integers (Rust Display / nom digit parsers) is a token-level abstraction (`Tk.num`); file system. Atomic-set equality after reload follows from C08 (report is determined by the model set) and is compared by the harness rather than restated as a theorem.",
   ref="DESIGN.md §8 C10"),
 "C18": dict(
   technique="Lean 4 theorem: the model of build_d4_ddnnf with the HashSet iteration order as an explicit parameter yields the same node array for every order (repaired code sorts), kernel-checked witness for the unsorted variant + exact comparison of the real loader's array with the model loader, repeated loads in one process and in separate processes",
   text="loaded_array_independent_of_hash_order, seeded_samples_independent_of_hash_order (same file, n, A, k and random decisions => same sample list for every iteration order), samples_are_a_function_of_array_and_decisions, unsorted_iteration_is_order_dependent (witness of the repaired defect 9ffd425), loaded_array_is_topological. Tie: every d4/c2d input is loaded by the real code and by the Lean loader model and the node arrays are compared exactly (this pins petgraph neighbour order, DfsPostOrder and the smoothing order); each model loaded 8/20 times in one process (fresh hash keys) must export identical arrays and identical seeded samples; CLI urs -s and stream random s in separate processes.",
   note="Modelled, not verified: the claim that balance_or_children's missing-variable set is the ONLY hash-order-observing iteration in the loader is by reading, and is tied by the exact array comparison (any other order dependence shows as a disagreement between repeated loads or with the model); Pcg32 determinism for a fixed seed is trusted; address layout and thread timing do not enter the model (single-threaded load, no pointer-keyed containers).",
   ref="DESIGN.md §8 C18"),
 "C13": dict(
   technique="Lean 4 theorems on a total executable model of handle_stream_msg (every reply is a result or carries a code E2..E6, a rejected line leaves the state unchanged, only enum moves the cursor, ranges inclusive, per-variable answers joined in order, parameter-group order irrelevant) + line-by-line comparison of the real handler with the model over the protocol's token alphabet, with panic capture",
   text="reply_is_result_or_coded_error, rejected_line_changes_nothing, only_enum_moves_the_cursor, range_is_inclusive, variables_are_answered_one_by_one, parameter_order_is_irrelevant (any permutation of well-delimited parameter groups of distinct kinds is either rejected as well or yields the same parameter record) hold for every line, node array and cursor state: the model is a total function, so in the model every line has a reply. Tie: every line `command t1 t2` over 14 commands x 39 tokens (keywords in both spellings, numbers, ranges, 0, out-of-range / extreme / malformed numbers, huge ranges, a path), random longer lines with 1..3 parameter groups, printable junk, empty lines and the inputs of the eight repaired defects are sent to the real handle_stream_msg on one long-lived instance under catch_unwind; each reply must be a result or E1..E6, a rejected line must leave the node array and feature count unchanged, count/sat answers of the well-formed subset are judged by the truth table, permuted parameter groups must agree, and every reply is compared with the Lean model's (exact text where the text is a literal of stream.rs, code otherwise).",
   note="The model covers a model loaded from an nnf file (no clause cache); the CNF-loaded handler paths (clause-update / undo-update / save-cnf) are exercised by the C12 check. Not modelled: reply contents of random / t-wise (random source) and save-* side effects (model says 'some result'), texts of library error types (nom, ParseIntError, ParseFloatError, io: compared by code), non-ASCII alphabetic characters (char::is_alphabetic is Unicode; generators emit ASCII), resource use of `random l N` / `t-wise l N` for large N (skipped above 10^4 / 3). 'Never hangs' is established per line by the harness finishing; no liveness theorem.",
   ref="DESIGN.md §8 C13"),
 "C12": dict(
   technique="Lean 4 refinement proof: the clause-cache machine (setup_for_edit / undo / swap, stream arms) refines the abstract (current CNF, previous CNF) machine for every start CNF and every command sequence, compiler as a parameter + replay of every explored history through the Lean machine and comparison of the real handler (reference compiler behind the hook) with an independent abstract machine and the truth table of its current CNF",
   text="clause_cache_refines_spec: for every start clause set and every sequence of clause-update / undo-update commands the model of ClauseCache + update_cached_state + swap + undo_on_cached_state gives the verdicts of the abstract machine and ends with stored clause set = feature count = what the live model was compiled from = the abstract machine's current CNF, old model = its previous CNF; update_accepted_iff / accepted_update_result spell the abstract machine out (accepted iff no stored clause exceeds the new feature count, all literals within it, removals are distinct stored clauses; result = (stored minus rmv) union add); rejected_update_changes_nothing; undo_restores_and_redo_reapplies; save_writes_current_state; live_model_denotes_current_cnf (for every correct compiler). Tie: CNFs loaded through the real loader with the self-validated reference compiler behind the cfg hook; command trees over a fixed alphabet (undo, add fresh / stored clause, remove stored / absent / just-added clause, add+remove, remove+re-add, duplicate removal, t up / down / with new variable) explored exhaustively to depth 2..4 plus random sequences; after every command: verdict and error code vs an independent abstract machine, rejected command leaves the node array unchanged, save-cnf file = current clause set and feature count exactly, initial save-cnf equivalent to the input, C01-C06 battery vs truth table of the current clause set; the Lean machine replays every history and must reach the same saved state. The check found the undo defect (fixed 7a144ee).",
   note="Modelled, not verified: the CNF compiler (d4; here the reference compiler, validated per call against the truth table) is a parameter of the theorem (live_model_denotes_current_cnf assumes it correct); DIMACS writer/reader text (write_cnf_to_file, nom lexer) tied by parsing the saved file; clauses are canonical sorted lists (BTreeSet<i32>); updates that make the formula unsatisfiable are outside the quantifier and not generated; Ddnnf::new creates no clause cache for a CNF whose simplified clause list is empty (all answers 'input must be a CNF') - start CNFs with an empty stored set are not generated (noted in DESIGN.md as D12, not reproduced with a non-empty set).",
   ref="DESIGN.md §8 C12"),
 "C01": dict(
   technique="Lean 4 theorem (count = number of satisfying assignments for every well-formed node array) + per-input validated loader correspondence",
   text="Theorems count_is_model_count / same_function_same_count hold for every well-formed node array of any size (induction over the array, kernel-checked). The loader is tied per input: the Lean driver evaluates the decidable WF predicate and the truth table on the node array the real loader exported and compares with the truth table of the input text; the real code is compared with an independent oracle.",
   note="Modelled, not verified: the d4/c2d loader (petgraph passes, smoothing) is validated per input (WF + truth table of the export, n<=10 truth tables; structural WF only on corpus models), not proved; BigInt arithmetic is modelled by Nat and tied by the corpus; nom lexers, file IO trusted.",
   ref="DESIGN.md §8 C01"),
}

NOT_YET = "machinery for this property is being built in this session (see DESIGN.md §11); not claimed yet"

def main():
    props = [json.loads(l)["id"] for l in open(os.path.join(ROOT, "properties.jsonl"))]
    checks = []
    for pid in props:
        if pid not in CHECKS or pid not in obl:
            continue
        c = CHECKS[pid]
        checks.append({
            "property_id": pid,
            "quick_cmd": "./check %s --tier quick" % pid,
            "thorough_cmd": "./check %s --tier thorough" % pid,
            "evidence_file": "evidence/%s.json" % pid,
            "replay_cmd_template": "./check %s --replay {path}" % pid,
            "engine": "lean-proof+correspondence",
            "level_claimed": {"category": c.get("category", "proof"), "text": c["text"], "design_ref": c["ref"]},
            "level_note": c["note"],
            "technique": c["technique"],
        })
    man = {
        "version": 1,
        "setup_cmd": "./check --setup",
        "hooks": {
            "guard": "ddnnife_verif",
            "enable": "RUSTFLAGS='--cfg ddnnife_verif' (set by ./check and harness/.cargo/config.toml); hooks are #[cfg(ddnnife_verif)] items",
            "baseline_off_cmd": "cd /repo && cargo test --workspace --no-fail-fast --offline",
            "source_commits": json.load(open(os.path.join(ROOT, "hooks.json"))) if os.path.exists(os.path.join(ROOT, "hooks.json")) else [],
            "add_only": True,
        },
        "engines": [{"name": "lean-proof+correspondence", "path": "check",
                     "serves_properties": [c["property_id"] for c in checks],
                     "kind_free_text": "Lean 4 theorems about an executable model (lean/), Rust correspondence harness (harness/) that runs the real code, an independent oracle and the Lean driver on the same inputs, python orchestrator (check)"}],
        "checks": checks,
        "not_applicable": [{"property_id": p, "reason": NOT_YET} for p in props if p not in [c["property_id"] for c in checks]],
        "notes": "Technique family: machine-checked proof in Lean 4 with a hand-written model tied to the code by a correspondence check. See DESIGN.md.",
    }
    json.dump(man, open(os.path.join(ROOT, "MANIFEST.json"), "w"), indent=1)
    print("MANIFEST.json:", len(checks), "checks,", len(man["not_applicable"]), "not claimed")

if __name__ == "__main__":
    main()
