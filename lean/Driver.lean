/-
  Line protocol driver.  Reads a case file from stdin, prints the model's answer for every
  query line.  One output line per `q` line (and per `end` line of a circuit).

    circuit <n>            start of a circuit with n features
    A c1 c2 .. | O c1 c2 .. | L lit | T | F      node lines, in array order
    end                    end of the circuit  → prints  `circuit nodes=<N> wf=<bool> count=<c>`
    q <kind> args…         query on the current circuit → prints `<kind> <answer>`
-/
import DdnnfVerif.Model.Dispatch
import DdnnfVerif.Model.ClauseCache
import DdnnfVerif.Model.MarkState
import DdnnfVerif.Model.EditCnf
open Ddnnf

structure St where
  n : Nat := 0
  building : Array NType := #[]
  nodes : List NType := []
  cursor : Cursor := []
  cc : CC.Cache := {}
  ms : MS.St := { ns := #[], md := [] }
  ec : EC.State := { cur := { clauses := [], nvars := 0, den := [] } }

def parseInts (ws : List String) : List Int := ws.filterMap String.toInt?
def parseNats (ws : List String) : List Nat := ws.filterMap String.toNat?

/-- split a token list at the `|` tokens -/
def splitBars (ws : List String) : List (List String) :=
  ws.foldr (fun w acc => if w == "|" then [] :: acc else match acc with
    | cur :: rest => (w :: cur) :: rest
    | [] => [[w]]) [[]]
/-- `1 -2 / 3` : clauses separated by `/` -/
def parseClauses (ws : List String) : List (List Int) :=
  (ws.foldr (fun w acc => if w == "/" then [] :: acc else match acc with
    | cur :: rest => (w :: cur) :: rest
    | [] => [[w]]) [[]]).filterMap fun c => if c.isEmpty then none else some (c.filterMap String.toInt?)
def parseState (ws : List String) : Nat × List (List Int) :=
  let parts := splitBars ws
  (((parts.getD 0 []).headD "0").toNat?.getD 0, parseClauses (parts.getD 1 []))
def splitSlash (ws : List String) : List (List String) :=
  (ws.foldr (fun w acc => if w == "/" then [] :: acc else match acc with
    | cur :: rest => (w :: cur) :: rest
    | [] => [[w]]) [[]]).filter (!·.isEmpty)
/-- canonical text of a clause list: literals ascending, clauses as sorted strings -/
def fmtStored (cs : List (List Int)) : String :=
  " / ".intercalate (sortBy (fun a b => a < b) (cs.map fun c => " ".intercalate ((sortInts c).map toString)))
def fmtVerdict : CC.Verdict → String
  | .ok => "ok" | .conflict => "conflict" | .boundary => "boundary" | .rejected => "rejected"
def fmtSaved (c : CC.Cache) : String :=
  let (n, cs) := CC.saved c
  let body := " / ".intercalate (cs.map fun cl => " ".intercalate (cl.map toString))
  (toString n ++ " | " ++ body).trimAscii.toString

def step (st : St) (line : String) : St × Option String :=
  match (line.trimAscii.toString.splitOn " ").filter (· ≠ "") with
  | ["circuit", n] => ({ st with n := n.toNat?.getD 0, building := #[], nodes := [], cursor := [] }, none)
  | "A" :: cs => ({ st with building := st.building.push (.and (parseNats cs)) }, none)
  | "O" :: cs => ({ st with building := st.building.push (.or (parseNats cs)) }, none)
  | ["L", l] => ({ st with building := st.building.push (.lit (l.toInt?.getD 0)) }, none)
  | ["T"] => ({ st with building := st.building.push .tru }, none)
  | ["F"] => ({ st with building := st.building.push .fls }, none)
  | ["end"] =>
      let nodes := st.building.toList
      ({ st with nodes := nodes, ms := MS.initSt nodes (fun _ => 0) }, some (circuitLine nodes st.n))
  | "q" :: "enum" :: amount :: args =>
      let (cur, res) := enumerate st.nodes st.n st.cursor (parseInts args) (amount.toNat?.getD 0)
      ({ st with cursor := cur }, some ("enum " ++ (match res with | some cs => fmtCfgs cs | none => "none")))
  | "q" :: "msg" :: rest =>
      -- `q msg <implementation's reply> ||| <message>`: does the model's reply match?
      let implToks := rest.takeWhile (· ≠ "|||")
      let msgToks := (rest.dropWhile (· ≠ "|||")).drop 1
      let impl := " ".intercalate implToks
      let (cur, reply) := Msg.handle st.nodes st.n st.cursor (" ".intercalate msgToks)
      let norm := fun (s : String) => " ".intercalate ((s.split Char.isWhitespace).toList.map (·.toString) |>.filter (· ≠ ""))
      let isErr := fun (s : String) => match s.toList with
        | 'E' :: d :: ' ' :: _ => d.isDigit
        | _ => false
      let verdict := match reply with
        | .ok (some t) => if norm t == impl then "agree" else s!"DISAGREE model=ok {t}"
        | .ok none => if !isErr impl then "agree" else "DISAGREE model=ok ?"
        | .err c (some t) => if norm t == impl then "agree" else s!"DISAGREE model={t}"
        | .err c none => if impl.startsWith s!"E{c} " then "agree" else s!"DISAGREE model=E{c} ?"
      ({ st with cursor := cur }, some ("msg " ++ verdict))
  | "q" :: "ms" :: args =>
      -- `q ms lits..`: execute_query on the persistent scratch state; prints the answer and every node's temp
      let (s', r) := MS.execQuerySt st.nodes st.n st.ms (parseInts args)
      let temps := ",".intercalate ((List.range st.nodes.length).map fun i => toString (MS.tempOf s' i))
      ({ st with ms := s' }, some s!"ms {r} | {temps} | clean={decide (s'.md = []) && (List.range st.nodes.length).all fun i => !MS.markerOf s' i}")
  | "q" :: "cfgprep" :: args =>
      -- `q cfgprep lits..`: the temp fields as enumerate / uniform_random_sampling leave them
      match MS.prepareConfigs st.nodes st.n st.ms (parseInts args) with
      | none => (st, some "cfgprep none")
      | some (s', r) =>
          let temps := ",".intercalate ((List.range st.nodes.length).map fun i => toString (MS.tempOf s' i))
          ({ st with ms := s' }, some s!"cfgprep {r} | {temps}")
  | "q" :: "ccinit" :: rest =>
      -- `q ccinit n | c1 / c2 / ..`
      let (n, cs) := parseState rest
      ({ st with cc := CC.init cs n }, some "ccinit ok")
  | "q" :: "ccupdate" :: rest =>
      -- `q ccupdate t | add clauses | rmv clauses`   (t = `-` when absent)
      let parts := splitBars rest
      let t := ((parts.getD 0 []).headD "-").toNat?
      let (c', v) := CC.update st.cc t (parseClauses (parts.getD 1 [])) (parseClauses (parts.getD 2 []))
      ({ st with cc := c' }, some ("ccupdate " ++ fmtVerdict v ++ " " ++ fmtSaved c'))
  | ["q", "ccundo"] =>
      let (c', v) := CC.undo st.cc
      ({ st with cc := c' }, some ("ccundo " ++ fmtVerdict v ++ " " ++ fmtSaved c'))
  | "q" :: "msgc" :: rest =>
      -- like `q msg`, for a model loaded from a CNF: the clause cache of `q ccinit` is part of the state
      let implToks := rest.takeWhile (· ≠ "|||")
      let msgToks := (rest.dropWhile (· ≠ "|||")).drop 1
      let impl := " ".intercalate implToks
      let (hs, reply) := Msg.handleC st.nodes st.n { cur := st.cursor, cache := some st.cc } (" ".intercalate msgToks)
      let norm := fun (s : String) => " ".intercalate ((s.split Char.isWhitespace).toList.map (·.toString) |>.filter (· ≠ ""))
      let isErr := fun (s : String) => match s.toList with
        | 'E' :: d :: ' ' :: _ => d.isDigit
        | _ => false
      let verdict := match reply with
        | .ok (some t) => if norm t == impl then "agree" else s!"DISAGREE model=ok {t}"
        | .ok none => if !isErr impl then "agree" else "DISAGREE model=ok ?"
        | .err c (some t) => if norm t == impl then "agree" else s!"DISAGREE model={t}"
        | .err c none => if impl.startsWith s!"E{c} " then "agree" else s!"DISAGREE model=E{c} ?"
      ({ st with cursor := hs.cur, cc := hs.cache.getD st.cc }, some ("msgc " ++ verdict ++ " " ++ fmtSaved (hs.cache.getD st.cc)))
  | "q" :: "ecinit" :: rest =>
      -- `q ecinit n | c1 / c2 / ..`: a model loaded from this CNF; prints the stored clause list
      let (n, cs) := parseState rest
      let s0 := EC.init cs n
      ({ st with ec := s0 }, some ("ecinit " ++ fmtStored s0.cur.clauses))
  | "q" :: "ecedit" :: choice :: "|" :: rest =>
      -- `q ecedit recompile|splice | a 1 2 / r -3 / ..`: one incremental edit
      let ops := (splitSlash rest).filterMap fun c => match c with
        | "a" :: ls => some (ls.filterMap String.toInt?, EC.App.add)
        | "r" :: ls => some (ls.filterMap String.toInt?, EC.App.rmv)
        | _ => none
      let ch := if choice == "splice" then EC.Choice.splice else EC.Choice.recompile
      let (s', strat) := EC.step st.ec ops ch
      let name := match strat with
        | .tautology => "Tautology" | .undo => "Undo" | .unitClause => "UnitClause"
        | .recompile => "Recompile" | .subDag => "untracked"
      let body := if s'.tainted then "" else
        " | " ++ fmtStored s'.cur.clauses ++ " | " ++
          (if s'.cur.nvars ≤ 10 then String.ofList ((allBits s'.cur.nvars).map fun b =>
              if satCnf (assignOf b) s'.cur.den then '1' else '0') else "-")
      ({ st with ec := s' }, some ("ecedit " ++ name ++ body))
  | ["q", "enumreset"] => ({ st with cursor := [] }, some "enumreset ok")
  | "q" :: kind :: args => (st, some (kind ++ " " ++ answer st.nodes st.n kind args))
  | [] => (st, none)
  | _ => (st, some "bad-line")

partial def loop (h : IO.FS.Stream) (out : IO.FS.Stream) (st : St) : IO Unit := do
  let line ← h.getLine
  if line.isEmpty then return ()
  let (st', o) := step st line
  match o with
  | some s => out.putStrLn s
  | none => pure ()
  loop h out st'

def main : IO Unit := do
  let stdin ← IO.getStdin
  let stdout ← IO.getStdout
  loop stdin stdout {}
