import DdnnfVerif.Model.Basic
import DdnnfVerif.Model.Query
import DdnnfVerif.Model.WFCheck
import DdnnfVerif.Model.Dispatch
