import DdnnfVerif.Model.Basic
import DdnnfVerif.Model.Query
import DdnnfVerif.Model.WFCheck
import DdnnfVerif.Model.Dispatch
import DdnnfVerif.Model.Features
import DdnnfVerif.Proofs.Table
import DdnnfVerif.Proofs.Semantics
import DdnnfVerif.Proofs.Keystone
