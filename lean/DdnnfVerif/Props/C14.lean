/-
  C14  Stream answers come back in input order under any number of workers.
  `Stream.step` is the reader / workers / printer protocol of `Ddnnf::init_stream` over the events the
  hook points emit; any number of workers and any interleaving is a sequence of such events.
-/
import DdnnfVerif.Proofs.StreamOrder
namespace Ddnnf.C14
open Ddnnf.Stream

/-- under every interleaving the i-th printed answer is the answer to the i-th accepted line -/
theorem output_in_input_order (es : List Ev) (s : S) (hr : run {} es = some s) :
    s.printed = List.range s.outputId :=
  outputs_in_input_order es s hr

/-- every accepted line is answered before the process leaves the loop on `exit` / end of input -/
theorem every_accepted_line_answered_before_exit (es : List Ev) (s : S) (hr : run {} es = some s)
    (hf : s.finished = true) : s.outputId = s.nextId ∧ s.printed = List.range s.nextId :=
  all_answered_at_exit es s hr hf

/-- no accepted line is lost or duplicated on the way: queue, workers, channel, heap and output
partition the accepted ids, and `remaining_answers` counts the first three places -/
theorem accepted_lines_are_conserved (es : List Ev) (s : S) (hr : run {} es = some s) :
    (s.queue ++ s.inflight ++ s.channel ++ s.heap ++ s.printed).Perm (List.range s.nextId)
    ∧ s.remaining = s.queue.length + s.inflight.length + s.channel.length :=
  let h := inv_reachable es s hr
  ⟨h.partition, h.remaining_eq⟩

/-- safety form of progress: while an accepted line is unanswered some pull / send / recv / print is enabled -/
theorem never_stuck_with_pending_work (es : List Ev) (s : S) (hr : run {} es = some s)
    (hp : s.outputId < s.nextId) :
    ∃ e, (∃ id, e = .pull id ∨ e = .send id ∨ e = .recv id ∨ e = .print id) ∧ (step s e).isSome :=
  pending_enables_progress es s hr hp

/-- the trace of the defect repaired in 9ea73e5 (answer received in the iteration that reads `exit`,
never printed) is rejected by the model: `done` is not enabled while the next answer sits in the heap -/
example : run {} [.push 0, .unpark, .pull 0, .send 0, .recv 0, .stop 1, .done 0] = none := by decide
example : (run {} [.push 0, .unpark, .pull 0, .send 0, .recv 0, .stop 1, .print 0, .done 1]).isSome = true := by decide

end Ddnnf.C14
