/-
  C06  Enumeration pages through every model exactly once per cycle.
  `enumerate` mirrors `Ddnnf::enumerate` (after the repairs recorded in known_findings.json: the Or arm
  applies the requested window; the cursor belongs to the loaded model and is locked from read to
  write; the cursor addition is done in unbounded integers).
-/
import DdnnfVerif.Proofs.PagingWF
import DdnnfVerif.Proofs.WFCheck
import DdnnfVerif.Proofs.EnumOK
namespace Ddnnf.C06

/-- structural side conditions of the enumeration theorems, all decided by the driver on the exported
array: children precede parents, no or-node has a `True` child, the root is not `True` -/
structure EnumOK (nodes : List NType) : Prop where
  topo : Topo nodes
  noTru : NoTruUnderOr nodes
  root : nodes.getLast? ≠ some .tru
  ne : nodes ≠ []

/-- the executable check the driver runs (`q enumok`) establishes the side conditions -/
theorem enumOK_of_check (nodes : List NType) (h : enumOkB nodes = true) : EnumOK nodes :=
  let ⟨a, b, c, d⟩ := enumOkB_sound nodes h
  ⟨a, b, c, d⟩

/-- The list a request for assumptions `key` pages through: the models containing the assumptions.
Every element is a listed model of the root that contains every assumed literal and is a complete
configuration (exactly one literal per feature 1..n); the list has no duplicates and `count(key)`
elements. -/
theorem page_source_is_model_set (nodes : List NType) (n : Nat) (h : WF nodes n) (hu : LitUnique nodes)
    (key : List Int) (hA : InRange key n) :
    (∀ c ∈ enumList nodes key, c ∈ models nodes (rootIx nodes) ∧ Complete n c ∧ ∀ a ∈ key, a ∈ c)
    ∧ (enumList nodes key).Nodup
    ∧ (enumList nodes key).length = specCount nodes n key := by
  refine ⟨?_, enumList_nodup nodes n h key, ?_⟩
  · intro c hc
    rw [enumList_eq_filter, List.mem_filter] at hc
    obtain ⟨hm, hall⟩ := hc
    have hcomp := root_models_complete nodes n h c hm
    refine ⟨hm, hcomp, ?_⟩
    intro a ha
    rcases hcomp.mem_or (a := a) (hA a ha).1 (hA a ha).2 with hin | hneg
    · exact hin
    · exfalso
      have := (List.all_eq_true.mp hall) (-a) hneg
      simp only [Bool.not_eq_true', List.contains_eq_mem, decide_eq_false_iff_not, List.mem_map,
        not_exists, not_and] at this
      exact this a ha rfl
  · rw [enumList_length nodes n h (pdLeaf_of_WF nodes n h hu) key hA,
        execQuery_exact nodes n h (pdLeaf_of_WF nodes n h hu) key hA]

/-- 'unsatisfiable' is reported exactly when no model contains A (amount > 0, literals in range) -/
theorem none_iff_unsat (nodes : List NType) (n : Nat) (h : WF nodes n) (hu : LitUnique nodes)
    (cur : Cursor) (A : List Int) (k : Nat) (hk : 0 < k) (hA : InRange (sortAbs A) n)
    (hin : ∀ f ∈ A, f.natAbs ≤ n) :
    (enumerate nodes n cur A k).2 = none ↔ specCount nodes n (sortAbs A) = 0 := by
  have hex := execQuery_exact nodes n h (pdLeaf_of_WF nodes n h hu) (sortAbs A) hA
  unfold enumerate
  have hk' : (k == 0) = false := by simp; omega
  have hin' : (A.any fun f => decide (f.natAbs > n)) = false := by
    simp only [List.any_eq_false, decide_eq_true_eq]; intro f hf; have := hin f hf; omega
  simp only [hk', hin', Bool.false_eq_true, ↓reduceIte, hex]
  split <;> simp <;> omega

/-- the cursor key does not depend on the order in which the literals of A are given -/
theorem key_independent_of_order (A B : List Int) (hperm : A.Perm B) (hd : (A.map Int.natAbs).Nodup) :
    sortAbs A = sortAbs B :=
  sortAbs_eq_of_perm A B hperm hd

/-- C06 proper: in ANY history of requests (arbitrarily interleaved with requests for other
assumption sets) the requests for `key` are answered with the successive pages of the fixed list
`enumList nodes key`, starting at position 0 of a fresh model. -/
theorem paging_history (nodes : List NType) (n : Nat) (ok : EnumOK nodes)
    (key : List Int) (hin : ∀ f ∈ key, f.natAbs ≤ n) (hsat : 0 < execQuery nodes n key)
    (reqs : List (List Int × Nat)) (hk : ∀ q ∈ reqs, sortAbs q.1 = key → 0 < q.2) :
    answersFor nodes n key [] reqs
        = (servePages (enumList nodes key) 0 (amountsFor key reqs)).map some
      ∧ (runCursor nodes n [] reqs).get key
        = finalPos (enumList nodes key) 0 (amountsFor key reqs) :=
  enumerate_history_fresh nodes n ok.topo ok.noTru ok.root ok.ne key hin hsat reqs hk

/-- a page holds min(k, number of models not yet returned in this cycle) configurations … -/
theorem page_size (ms : List Config) (pos k : Nat) : (page ms pos k).length = min k (ms.length - pos) :=
  length_page ms pos k

/-- … the next request continues where this one stopped, and the cycle restarts at 0 once all models
have been returned (a page never wraps around) -/
theorem next_position (ms : List Config) (pos k : Nat) :
    nextPos ms pos k = if pos + k < ms.length then pos + k else 0 :=
  nextPos_eq ms pos k

/-- the pages served in one cycle are pairwise disjoint and together are exactly the models containing A -/
theorem one_cycle_is_a_partition (nodes : List NType) (n : Nat) (h : WF nodes n) (key : List Int)
    (ks : List Nat) (hk : ∀ k ∈ ks, 0 < k) (hround : OneRound (enumList nodes key) 0 ks) :
    (servePages (enumList nodes key) 0 ks).flatten = enumList nodes key ∧
      (servePages (enumList nodes key) 0 ks).Pairwise (fun p q => ∀ x ∈ p, x ∉ q) := by
  have := pages_disjoint_within_cycle (enumList nodes key) ks hk hround
  exact ⟨this.1, this.2 (enumList_nodup nodes n h key)⟩

/-- over any number of requests the concatenation of the pages is a prefix of ms ++ ms ++ … -/
theorem pages_follow_the_cycle (ms : List Config) (ks : List Nat) :
    (servePages ms 0 ks).flatten <+: cycle ms (ks.length + 1) :=
  servePages_prefix_cycle ms ks

/-- a request for another assumption set never moves this set's position -/
theorem other_keys_do_not_interfere (nodes : List NType) (n : Nat) (cur : Cursor) (B : List Int) (k : Nat)
    (key : List Int) (hne : sortAbs B ≠ key) :
    (enumerate nodes n cur B k).1.get key = cur.get key :=
  enumerate_other_key nodes n cur B k key hne

/-- non-vacuity: three requests on the small example page through its 4 models and restart -/
example : (answersFor smallEx 4 [] [] [([], 3), ([], 3), ([], 1)]).map (Option.map List.length)
    = [some 3, some 1, some 1] := by decide

end Ddnnf.C06
