/-
  C19  The CNF export is equi-countable and projects onto the same models.
  `toCnf` mirrors `Cnf::from(&Ddnnf)` (Tseitin transformation with single-child collapse, operation
  cache, constants as empty operations — the repair recorded in known_findings.json) and the header
  computation of ddnnife_cnf (`num_variables` = number of distinct variables in the clauses).
-/
import DdnnfVerif.Proofs.CnfHeader
namespace Ddnnf.C19

/-- what the driver checks per exported array (`q cnfok`): leaves are literals of features 1..n, at
least one Tseitin variable was introduced, and the root is represented by the variable introduced last -/
def cnfOkB (nodes : List NType) (n : Nat) : Bool :=
  litRangeB nodes n && ((tseitin nodes n).next != n + 1) && rootIsLastVarB nodes n

structure CnfOK (nodes : List NType) (n : Nat) : Prop where
  range : LitRange nodes n
  new : (tseitin nodes n).next ≠ n + 1
  root : (tseitin nodes n).nodeLits.getD (rootIx nodes) 0 = (((tseitin nodes n).next - 1 : Nat) : Int)

theorem cnfOK_of_check (nodes : List NType) (n : Nat) (h : cnfOkB nodes n = true) : CnfOK nodes n := by
  unfold cnfOkB at h
  simp only [Bool.and_eq_true, bne_iff_ne, ne_eq] at h
  exact ⟨litRange_of_litRangeB nodes n h.1.1, h.1.2, rootIsLastVarB_spec nodes n h.2⟩

/-- the number of models of the CNF over its declared variables 1..T equals the model count -/
theorem cnf_is_equicountable (nodes : List NType) (n : Nat) (h : WF nodes n) (ok : CnfOK nodes n) :
    ((allBits ((tseitin nodes n).next - 1)).filter
        (fun b => satCnf (assignOf b) (toCnf nodes n).2)).length = count nodes (rootIx nodes) :=
  cnf_model_count_wf nodes n h ok.range ok.new ok.root

/-- restricting a CNF model to the features gives a model of the d-DNNF -/
theorem cnf_models_project_to_models (nodes : List NType) (n : Nat) (htopo : Topo nodes) (ok : CnfOK nodes n)
    (τ : Assignment) (hτ : satCnf τ (toCnf nodes n).2 = true) : eval τ nodes (rootIx nodes) = true :=
  cnf_models_project nodes n htopo ok.range ok.new ok.root τ hτ

/-- every model of the d-DNNF is extended in exactly one way -/
theorem every_model_has_exactly_one_extension (nodes : List NType) (n : Nat) (htopo : Topo nodes) (ok : CnfOK nodes n)
    (σ : Assignment) (hσ : eval σ nodes (rootIx nodes) = true) :
    satCnf (extend σ (tseitin nodes n).biconds) (toCnf nodes n).2 = true
    ∧ ∀ τ : Assignment, (∀ v, 1 ≤ v → v ≤ n → τ v = σ v) → satCnf τ (toCnf nodes n).2 = true →
        ∀ v, n < v → v ≤ (tseitin nodes n).next - 1 → τ v = extend σ (tseitin nodes n).biconds v :=
  cnf_model_unique_extension nodes n htopo ok.range ok.new ok.root σ hσ

/-- the header: `num_variables` is the largest variable T, every variable 1..T occurs and no other -/
theorem header_declares_what_the_cnf_contains (nodes : List NType) (n : Nat) (h : WF nodes n) (ok : CnfOK nodes n) :
    (toCnf nodes n).1 = (tseitin nodes n).next - 1
    ∧ (∀ v, 1 ≤ v → v ≤ (tseitin nodes n).next - 1 → ∃ c ∈ (toCnf nodes n).2, ∃ l ∈ c, l.natAbs = v)
    ∧ (∀ c ∈ (toCnf nodes n).2, ∀ l ∈ c, 1 ≤ l.natAbs ∧ l.natAbs ≤ (tseitin nodes n).next - 1) :=
  cnf_header_wf nodes n h ok.range ok.new ok.root

example : cnfOkB smallEx 4 = true := by decide

end Ddnnf.C19
