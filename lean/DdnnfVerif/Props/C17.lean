/-
  C17  Concurrent enumeration requests never hand out a model twice within a cycle.
  `EnumLock.stepLocked`: the cursor section of `Ddnnf::enumerate` with the lock held from the cursor
  read to the cursor write (the code after repair 8810853); `stepSplit`: two separate acquisitions.
-/
import DdnnfVerif.Proofs.EnumLockSerial
namespace Ddnnf.C17
open Ddnnf.EnumLock

/-- every schedule of the requests' steps that the lock admits produces exactly the pages of
processing the requests one after another in the order in which they acquired the lock -/
theorem concurrent_requests_are_serialisable {α} (ms : List α) (amount : Nat → Nat) (es : List Ev) (s : S α)
    (hr : runWith (stepLocked ms amount) {} es = some s) (hidle : s.holder = none) :
    s.pages = serial ms amount 0 (acquires es) ∧ s.pos = posAfter ms amount 0 (acquires es) :=
  locked_is_serial_acquires ms amount es s hr hidle

/-- … which are the consecutive pages of the sequential paging specification of C06 -/
theorem pages_are_the_sequential_pages {α} (ms : List α) (amount : Nat → Nat) (es : List Ev) (s : S α)
    (hr : runWith (stepLocked ms amount) {} es = some s) (hidle : s.holder = none) :
    s.pages.map (·.2) = servePages ms 0 ((acquires es).map amount)
    ∧ s.pos = finalPos ms 0 ((acquires es).map amount) :=
  locked_pages_eq_servePages ms amount es s hr hidle

/-- hence, within one cycle, no configuration is handed out twice (C06.one_cycle_is_a_partition applies to
`servePages`).  Before the repair a schedule existed in which two requests got the same page: -/
theorem split_cursor_section_races :
    ∃ es s, runWith (stepSplit [0, 1, 2, 3] (fun _ => 2)) {} es = some s ∧ s.pages = [(0, [0, 1]), (1, [0, 1])] :=
  split_race

end Ddnnf.C17
