/-
  C10  Saving writes a smooth c2d d-DNNF of the same function; reloading is lossless.

  `writeFile` models `write_ddnnf_to_file` (token level), `parseFile` the c2d lexer in the order of
  its alternatives (`A 0` / `O 0 0` before and / or), `flatten` the DFS post-order flattening the
  loader applies; `saveReload = flatten ∘ parse ∘ write`.
-/
import DdnnfVerif.Proofs.Flatten
import DdnnfVerif.Proofs.AtomicSame
import DdnnfVerif.Proofs.Lex
namespace Ddnnf.C10

/-- the lexer reads back every line the writer emits (and / or without children come back as
true / false, which is what `normalizeNode` says) -/
theorem every_written_line_lexes_back (nd : NType) : lexNode (writeNode nd) = some (normalizeNode nd) :=
  lexNode_writeNode nd

/-- the written file parses to the header's `n` and the same nodes, line by line -/
theorem written_file_parses_back (nodes : List NType) (n : Nat) :
    parseFile (writeFile nodes n) = some (n, nodes.map normalizeNode) :=
  parse_write nodes n

/-- the file is itself a well-formed (smooth, decomposable, deterministic) circuit over the same `n`
features with the same denotation: the parsed node list satisfies `WF` and evaluates like the
original under every assignment -/
theorem saved_file_is_wellformed_and_equivalent (nodes : List NType) (n : Nat) (h : WF nodes n) :
    parseFile (writeFile nodes n) = some (n, nodes.map normalizeNode) ∧
      WF (nodes.map normalizeNode) n ∧
      ∀ σ, eval σ (nodes.map normalizeNode) (rootIx (nodes.map normalizeNode)) = eval σ nodes (rootIx nodes) :=
  ⟨parse_write nodes n, WF_normalize nodes n h, fun σ => by rw [rootIx_map_normalize, eval_normalize]⟩

/-- save + load yields a well-formed array over the same features denoting the same function -/
theorem reload_is_wellformed_and_equivalent (nodes : List NType) (n : Nat) (h : WF nodes n) :
    ∃ out, saveReload nodes n = some (n, out) ∧ WF out n ∧
      (∀ σ, eval σ out (rootIx out) = eval σ nodes (rootIx nodes)) ∧
      count out (rootIx out) = count nodes (rootIx nodes) :=
  saveReload_sound nodes n h

/-- … and answers count-under-assumptions, per-feature and model-set (enumeration set) queries like
the original -/
theorem reload_answers_like_the_original (nodes : List NType) (n : Nat) (h : WF nodes n) (hu : LitUnique nodes) :
    ∃ out, saveReload nodes n = some (n, out) ∧
      (∀ A, InRange A n → execQuery out n A = execQuery nodes n A) ∧
      cardPD out n = cardPD nodes n ∧
      (∀ c, Complete n c →
        ((∃ m ∈ models out (rootIx out), m.Perm c) ↔ (∃ m ∈ models nodes (rootIx nodes), m.Perm c))) :=
  saveReload_answers nodes n h hu

/-- … as well as SAT and core / dead queries (with and without assumptions) -/
theorem reload_sat_and_core_like_the_original (nodes : List NType) (n : Nat) (h : WF nodes n)
    (hu : LitUnique nodes) (hpos : 0 < count nodes (rootIx nodes)) :
    ∃ out, saveReload nodes n = some (n, out) ∧
      (∀ A, InRange A n → satQuery out n A = satQuery nodes n A) ∧
      (∀ l : Int, l ∈ coreOf out n ↔ l ∈ coreOf nodes n) ∧
      (∀ A, InRange A n → A ≠ [] → ∀ l : Int, l ∈ coreDeadA out n A ↔ l ∈ coreDeadA nodes n A) := by
  obtain ⟨out, he, hw, huo, hsf⟩ := saveReload_sameFunction nodes n h hu
  have hc : count out (rootIx out) = count nodes (rootIx nodes) :=
    same_function_count out nodes n hw h hsf
  exact ⟨out, he, fun A hA => same_function_satQuery out nodes n hw h huo hu hsf (hc ▸ hpos) A hA,
    fun l => same_function_core out nodes n hw h huo hu hsf (hc ▸ hpos) l,
    fun A hA hne l => same_function_coreDeadA out nodes n hw h huo hu hsf A hA hne l⟩

/-- … and reports the same atomic sets (plain and cross mode, with satisfiable assumptions) -/
theorem reload_atomic_sets_like_the_original (nodes : List NType) (n : Nat) (h : WF nodes n)
    (hu : LitUnique nodes) (A : List Int) (hA : InRange A n) (hsat : 0 < specCount nodes n A)
    (cands : List Nat) (hc : ∀ f ∈ cands, 1 ≤ f ∧ f ≤ n) (cross : Bool) :
    ∃ out, saveReload nodes n = some (n, out) ∧
      atomicSets out n cands A cross [] = atomicSets nodes n cands A cross [] :=
  saveReload_atomicSets nodes n h hu A hA hsat cands hc cross

/-! ### character level: the real lexer (nom combinators) on the writer's bytes (Model/Lex.lean)

`Lex.lexC2d` models `lex_line_c2d` on the characters of a line: the alternatives in the code's order,
`A 0` / `O 0 0` as prefix tests, `(" " digits)+` number lists, `parse::<usize>` / `parse::<i32>` with their
ranges (`NodeInRange`: child indices and counts below 2^64, literals in the i32 range — outside it the
code panics, and so does the model). -/

/-- every node line the writer emits, as characters, lexes back to the node it was written from -/
theorem every_written_line_lexes_back_at_character_level (nd : NType) (h : Lex.NodeInRange nd) :
    Lex.lexC2d (Lex.renderTokLine (writeNode nd)) = .ok (.node (normalizeNode nd)) :=
  Lex.lexC2d_writeNode nd h

/-- the written file, as characters (header test on the trimmed first line, lexer on every node line),
parses to the header's `n` and the same nodes — exactly what the token-level `parseFile` of the theorems
above yields -/
theorem written_file_parses_back_at_character_level (nodes : List NType) (n : Nat)
    (hr : ∀ nd ∈ nodes, Lex.NodeInRange nd) (hlen : nodes.length < 2 ^ 64) (hn : n < 2 ^ 64) :
    Lex.parseC2dText ((writeFile nodes n).map Lex.renderTokLine) = some (n, nodes.map normalizeNode) ∧
    Lex.parseC2dText ((writeFile nodes n).map Lex.renderTokLine) = parseFile (writeFile nodes n) :=
  ⟨Lex.parseC2dText_writeFile nodes n hr hlen hn, Lex.parseC2dText_eq_parseFile nodes n hr hlen hn⟩

end Ddnnf.C10
