/-
  C09  t-wise samples contain only models and cover every valid t-interaction.

  Two layers.
  (1) The construction itself, plain variant (`Ddnnf::sample_t_wise`): `TW.run nodes n t q`
      (`Model/TWiseGen.lean`) is the bottom-up construction of ddnnife — one partial sample per node, zip +
      cover of the cross interactions at and-nodes, similarity merge at or-nodes, trim / resample /
      completion at the root, with the cached SAT states of the configurations.  Everything the real
      code takes from a hash iteration order, from `sort_unstable` on equal keys, from floating point
      ranks and from the random number generator is the queue `q` of recorded choices; an entry that is
      not admissible is ignored.  `construction_returns_only_models` and
      `construction_covers_every_valid_interaction` hold for EVERY queue, hence for every run of the
      real code whose recorded choices replay to the same sample — which the harness checks on every
      run (`q twgen`: same configurations in the same order, no recorded choice rejected, none left).
  (1b) The fitness-guided construction (`ExtendedDdnnf::sample_t_wise`: `AttributeZippingMerger`,
      `AttributeSimilarityMerger`, `cover_with_caching_sorted`, `complete_partial_configs_optimal`):
      `TW.runA nodes n t q`.  The fitness values are floats and are only ever compared; every comparison
      result (`merge_sorted_configs`, the repositioning in `cover_with_caching_sorted`, the order in
      which the cross interactions are covered) and the completion `calc_best_config` picks are entries
      of the queue, so `fitness_guided_construction_*` hold for every fitness vector there is.
  (2) Any sample: soundness of the checker `TWise.check` that the driver also runs on every sample the
      real code returns (a second, independent layer).
-/
import DdnnfVerif.Proofs.TWise
import DdnnfVerif.Proofs.TW.Root
import DdnnfVerif.Proofs.TW.EndToEnd
import DdnnfVerif.Proofs.TW.RootA
import DdnnfVerif.Proofs.TIter
import DdnnfVerif.Proofs.WFCheck
namespace Ddnnf.C09
open Ddnnf.TWise

/-! ### (1) the construction -/

/-- Whatever the hash orders, the sort, the ranks and the shuffles were: every configuration the
construction returns decides every feature and is a model. -/
theorem construction_returns_only_models (nodes : List NType) (n : Nat) (h : WF nodes n)
    (hu : LitUnique nodes) (t : Nat) (ht : 1 ≤ t) (q : TW.Queue) :
    ∀ c ∈ (TW.run nodes n t q).configs, Complete n c ∧ ∃ m ∈ models nodes (rootIx nodes), m.Perm c :=
  TW.run_valid_all nodes n h hu t ht q

/-- … and every set of `t` literals over distinct features that is contained in at least one model is
contained in at least one configuration it returns. -/
theorem construction_covers_every_valid_interaction (nodes : List NType) (n : Nat) (h : WF nodes n)
    (hu : LitUnique nodes) (t : Nat) (ht : 1 ≤ t) (q : TW.Queue)
    (I : List Int) (hlen : I.length = t) (hrange : ∀ l ∈ I, l ≠ 0 ∧ l.natAbs ≤ n)
    (hdistinct : (I.map Int.natAbs).Nodup) (hsat : 0 < specCount nodes n I) :
    ∃ c ∈ (TW.run nodes n t q).configs, ∀ l ∈ I, l ∈ c :=
  TW.run_covers_all nodes n h hu t ht q I hlen hrange hdistinct hsat

/-- an unsatisfiable model yields no configuration at all -/
theorem construction_on_unsatisfiable_model_returns_nothing (nodes : List NType) (n : Nat) (h : WF nodes n)
    (hzero : count nodes (rootIx nodes) = 0) (t : Nat) (q : TW.Queue) : (TW.run nodes n t q).configs = [] :=
  TW.run_void_of_unsat nodes n h hzero t q

/-- End to end for d4 texts (hypothesis: the executable conventions check of C01): whatever the
recorded choices, the construction on the loaded array returns only complete configurations that
satisfy the TEXT, and covers every set of t literals over distinct features that some assignment
satisfying the text contains. -/
theorem d4_end_to_end_twise_only_models : type_of% @D4.loaded_twise_only_models := @D4.loaded_twise_only_models
theorem d4_end_to_end_twise_covers : type_of% @D4.loaded_twise_covers := @D4.loaded_twise_covers

/-- non-vacuity: the hypotheses hold for the small example of the repository, so for every recorded
run on it (any queue) and `t = 2` the sample consists of models only -/
example (q : TW.Queue) : ∀ c ∈ (TW.run smallEx 4 2 q).configs, Complete 4 c ∧ ∃ m ∈ models smallEx (rootIx smallEx), m.Perm c :=
  construction_returns_only_models smallEx 4 (wfB_sound _ _ (by decide)) (litUniqueB_sound _ (by decide))
    2 (by decide) q

/-! ### (1b) the fitness-guided construction -/

/-- Whatever the fitness values are (whatever every comparison of objective values answers, whichever
completion `calc_best_config` picks), and whatever is trimmed and in which order it is re-covered:
every configuration the fitness-guided construction returns decides every feature and is a model. -/
theorem fitness_guided_construction_returns_only_models (nodes : List NType) (n : Nat) (h : WF nodes n)
    (hu : LitUnique nodes) (t : Nat) (ht : 1 ≤ t) (q : TW.Queue) :
    ∀ c ∈ (TW.runA nodes n t q).configs, Complete n c ∧ ∃ m ∈ models nodes (rootIx nodes), m.Perm c :=
  TW.runA_valid nodes n h hu t ht q

/-- … and every set of `t` literals over distinct features that is contained in at least one model is
contained in at least one configuration it returns. -/
theorem fitness_guided_construction_covers_every_valid_interaction (nodes : List NType) (n : Nat)
    (h : WF nodes n) (hu : LitUnique nodes) (t : Nat) (ht : 1 ≤ t) (q : TW.Queue)
    (I : List Int) (hlen : I.length = t) (hrange : ∀ l ∈ I, l ≠ 0 ∧ l.natAbs ≤ n)
    (hdistinct : (I.map Int.natAbs).Nodup) (hsat : 0 < specCount nodes n I) :
    ∃ c ∈ (TW.runA nodes n t q).configs, ∀ l ∈ I, l ∈ c :=
  TW.runA_covers nodes n h hu t ht q I hlen hrange hdistinct hsat

theorem fitness_guided_construction_on_unsatisfiable_model_returns_nothing (nodes : List NType) (n : Nat)
    (h : WF nodes n) (hzero : count nodes (rootIx nodes) = 0) (t : Nat) (q : TW.Queue) :
    (TW.runA nodes n t q).configs = [] :=
  TW.runA_void_of_unsat nodes n h hzero t q

/-- end to end for d4 texts -/
theorem d4_end_to_end_fitness_guided_twise_only_models : type_of% @D4.loaded_twiseA_only_models :=
  @D4.loaded_twiseA_only_models
theorem d4_end_to_end_fitness_guided_twise_covers : type_of% @D4.loaded_twiseA_covers := @D4.loaded_twiseA_covers

example (q : TW.Queue) : ∀ c ∈ (TW.runA smallEx 4 2 q).configs, Complete 4 c ∧ ∃ m ∈ models smallEx (rootIx smallEx), m.Perm c :=
  fitness_guided_construction_returns_only_models smallEx 4 (wfB_sound _ _ (by decide)) (litUniqueB_sound _ (by decide))
    2 (by decide) q

/-! ### the interaction iterator -/

/-- The state machine of `t_iterator.rs` (`Model/TIter.lean`: `new`, `advance` with its carry and repair
loops, `get`, drained until `None`) yields exactly the list the construction models use
(`TW.tIter literals t`: the `t`-sublists in lexicographic position order, each listed from the largest
position down), for every list of literals and every `t` not larger than its length. -/
theorem interaction_iterator_enumerates_the_sublists (lits : List Int) (t : Nat) (h : t ≤ lits.length) :
    TI.interactions lits t = TW.tIter lits t :=
  TI.interactions_eq lits t h

/-! ### (2) the checker -/

/-- an accepted sample consists of complete configurations that are models … -/
theorem accepted_sample_contains_only_models (nodes : List NType) (n t : Nat) (h : WF nodes n)
    (sample : List Config) (hc : check nodes n t sample = true) :
    ∀ c ∈ sample, Complete n c ∧ ∃ m ∈ models nodes (rootIx nodes), m.Perm c :=
  check_valid nodes n t h sample hc

/-- … and every set of `t` literals over distinct features that is contained in at least one model
is contained in at least one configuration of the sample -/
theorem accepted_sample_covers_every_valid_interaction (nodes : List NType) (n t : Nat) (h : WF nodes n)
    (hu : LitUnique nodes) (sample : List Config) (hc : check nodes n t sample = true)
    (I : List Int) (hlen : I.length = t) (hrange : ∀ l ∈ I, l ≠ 0 ∧ l.natAbs ≤ n)
    (hdistinct : (I.map Int.natAbs).Nodup) (hsat : 0 < specCount nodes n I) :
    ∃ c ∈ sample, ∀ l ∈ I, l ∈ c :=
  check_covers nodes n t h hu sample hc I hlen hrange hdistinct hsat

/-- the diagnostic form the driver prints agrees with the checker -/
theorem verdict_ok_iff_check (nodes : List NType) (n t : Nat) (sample : List Config) :
    verdict nodes n t sample = "ok" ↔ check nodes n t sample = true :=
  verdict_ok_iff nodes n t sample

end Ddnnf.C09
