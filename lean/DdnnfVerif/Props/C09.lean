/-
  C09  t-wise samples contain only models and cover every valid t-interaction.

  The randomised construction is not modelled (it depends on hash iteration order and an RNG).
  What is proved is the soundness of the checker `TWise.check` that the driver runs on every sample
  the real code returns: an accepted sample has the property, for every well-formed node array,
  every `t` and every sample.  The property itself is therefore established per run
  (validation of each output by a verified checker), not for all runs.
-/
import DdnnfVerif.Proofs.TWise
namespace Ddnnf.C09
open Ddnnf.TWise

/-- an accepted sample consists of complete configurations that are models … -/
theorem accepted_sample_contains_only_models (nodes : List NType) (n t : Nat) (h : WF nodes n)
    (sample : List Config) (hc : check nodes n t sample = true) :
    ∀ c ∈ sample, Complete n c ∧ ∃ m ∈ models nodes (rootIx nodes), m.Perm c :=
  check_valid nodes n t h sample hc

/-- … and every set of `t` literals over distinct features that is contained in at least one model
is contained in at least one configuration of the sample -/
theorem accepted_sample_covers_every_valid_interaction (nodes : List NType) (n t : Nat) (h : WF nodes n)
    (hu : LitUnique nodes) (sample : List Config) (hc : check nodes n t sample = true)
    (I : List Int) (hlen : I.length = t) (hrange : ∀ l ∈ I, l ≠ 0 ∧ l.natAbs ≤ n)
    (hdistinct : (I.map Int.natAbs).Nodup) (hsat : 0 < specCount nodes n I) :
    ∃ c ∈ sample, ∀ l ∈ I, l ∈ c :=
  check_covers nodes n t h hu sample hc I hlen hrange hdistinct hsat

/-- the diagnostic form the driver prints agrees with the checker -/
theorem verdict_ok_iff_check (nodes : List NType) (n t : Nat) (sample : List Config) :
    verdict nodes n t sample = "ok" ↔ check nodes n t sample = true :=
  verdict_ok_iff nodes n t sample

end Ddnnf.C09
