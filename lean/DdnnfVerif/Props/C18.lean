/-
  C18  Seeded results are reproducible across reloads and processes.

  `D4.loadWith sorted h lines total` is the model of `build_d4_ddnnf` + `rebuild` in which the only
  hash-container iteration the code observes (the set of missing variables in
  `balance_or_children`) is an explicit parameter: `h` is the iteration order the `HashSet` happens
  to have, `sorted` says whether the code sorts the collected variables (the repaired code does).
  The model is tied to the code by exact comparison of `load` with the exported node array.
-/
import DdnnfVerif.Proofs.LoadWF
import DdnnfVerif.Props.C07
namespace Ddnnf.C18
open Ddnnf.D4

/-- the loaded node array (and feature count) is the same for every hash iteration order -/
theorem loaded_array_independent_of_hash_order (h₁ h₂ : List Nat → List Nat)
    (hp₁ : ∀ xs, (h₁ xs).Perm xs) (hp₂ : ∀ xs, (h₂ xs).Perm xs) (lines : List Line) (total : Nat) :
    loadWith true h₁ lines total = loadWith true h₂ lines total := by
  rw [load_independent_of_hash_order h₁ hp₁, load_independent_of_hash_order h₂ hp₂]

/-- hence a seeded sampling request (same assumptions, amount and random decisions, i.e. same seed)
gives the same sample list on every reload -/
theorem seeded_samples_independent_of_hash_order (h₁ h₂ : List Nat → List Nat)
    (hp₁ : ∀ xs, (h₁ xs).Perm xs) (hp₂ : ∀ xs, (h₂ xs).Perm xs) (lines : List Line) (total : Nat)
    (A : List Int) (amount : Nat) (evs : List SEv) :
    sampleAlong (loadWith true h₁ lines total).2.1 (loadWith true h₁ lines total).1 A amount evs =
      sampleAlong (loadWith true h₂ lines total).2.1 (loadWith true h₂ lines total).1 A amount evs := by
  rw [loaded_array_independent_of_hash_order h₁ h₂ hp₁ hp₂]

/-- the sample list is a function of (node array, n, request, random decisions) only -/
theorem samples_are_a_function_of_array_and_decisions (nodes nodes' : List NType) (n n' : Nat)
    (A A' : List Int) (amount amount' : Nat) (evs evs' : List SEv)
    (h1 : nodes = nodes') (h2 : n = n') (h3 : A = A') (h4 : amount = amount') (h5 : evs = evs') :
    sampleAlong nodes n A amount evs = sampleAlong nodes' n' A' amount' evs' := by
  subst h1 h2 h3 h4 h5; rfl

/-- kernel-checked witness of the repaired defect: without the sort the loaded array depends on the
iteration order -/
theorem unsorted_iteration_is_order_dependent :
    ∃ (h₁ h₂ : List Nat → List Nat) (lines : List Line) (total : Nat),
      (∀ xs, (h₁ xs).Perm xs) ∧ (∀ xs, (h₂ xs).Perm xs) ∧
      loadWith false h₁ lines total ≠ loadWith false h₂ lines total :=
  unsorted_depends_on_hash_order

/-- the loaded array has children before parents whenever the graph the loader built is acyclic
(rank function `r`), and is not empty as soon as the file declares a node: the structural part of
well-formedness, for every d4 text and every iteration order -/
theorem loaded_array_is_topological (sorted : Bool) (h : List Nat → List Nat) (lines : List Line) (total : Nat)
    (r : Nat → Nat)
    (hacyc : ∀ x, ∀ c ∈ (loadGraph sorted h lines total).1.outs.getD x [], r c < r x)
    (hn : ∃ k, Line.node k ∈ lines) :
    Topo (loadWith sorted h lines total).2.1 ∧ (loadWith sorted h lines total).2.1 ≠ [] :=
  ⟨load_topo sorted h lines total r hacyc, load_nonempty sorted h lines total hn⟩

end Ddnnf.C18
