/-
  C01  Total model count equals the number of models of the loaded formula.

  Property theorems only (helper lemmas live in Proofs/).  The loader itself is tied per input:
  the driver evaluates `wfB` on the node array the real loader produced and compares its truth table
  with the truth table of the input text (`q tt`), so the hypotheses below are checked on what the
  code produced, never assumed of it.
-/
import DdnnfVerif.Proofs.Keystone
import DdnnfVerif.Proofs.LoadSem
import DdnnfVerif.Proofs.LoadWF2_14
import DdnnfVerif.Proofs.D4Conv
import DdnnfVerif.Proofs.Lex
import DdnnfVerif.Proofs.LoadAll
import DdnnfVerif.Proofs.LoadOK3
import DdnnfVerif.Proofs.Flatten
import DdnnfVerif.Proofs.EndToEnd
import DdnnfVerif.Proofs.EndToEnd2
namespace Ddnnf.C01

/-- The reported count (`Ddnnf::rc()` = count of the last node) is the number of assignments to
features 1..n satisfying the circuit, for every well-formed node array of every size.  `Nat` is
unbounded, as `BigInt` in the implementation. -/
theorem count_is_model_count (nodes : List NType) (n : Nat) (h : WF nodes n) :
    count nodes (rootIx nodes) = specCount nodes n [] :=
  count_eq_specCount nodes n h

/-- unconditional: the count of every node is the length of its list of models -/
theorem count_is_length_of_model_list (nodes : List NType) (j : Nat) :
    count nodes j = (models nodes j).length :=
  count_eq_length_models nodes j

/-- Two circuits (any format, any shape) that denote the same Boolean function report the same count. -/
theorem same_function_same_count (nodes₁ nodes₂ : List NType) (n : Nat)
    (h₁ : WF nodes₁ n) (h₂ : WF nodes₂ n)
    (hsame : ∀ σ : Assignment, eval σ nodes₁ (rootIx nodes₁) = eval σ nodes₂ (rootIx nodes₂)) :
    count nodes₁ (rootIx nodes₁) = count nodes₂ (rootIx nodes₂) := by
  rw [count_is_model_count nodes₁ n h₁, count_is_model_count nodes₂ n h₂]
  simp [specCount, hsame]

/-- What the per-input check establishes: if the exported array is well-formed and agrees with the
denotation `den` of the input file on every assignment, the reported count is the number of models
of the file. -/
theorem checked_load_count (nodes : List NType) (n : Nat) (den : Assignment → Bool)
    (h : WF nodes n) (hden : ∀ σ, eval σ nodes (rootIx nodes) = den σ) :
    count nodes (rootIx nodes) = ((allBits n).filter (fun b => den (assignOf b))).length := by
  rw [count_is_model_count nodes n h]
  simp [specCount, hden]


/-! ### the d4 loader (Model/D4Load.lean, tied to the code by exact comparison of the loaded arrays) -/

/-- **The d4 loader preserves the denotation of the file.**  `sem σ g r 0` is the value of the file's
first node in the graph phase 1 builds from the text (t = true, f = false, a = conjunction of its
edges, o = disjunction over its edges of (edge literals ∧ target); removed nodes do not exist yet in
that graph).  Free-feature handling, True/False elimination (incl. chains of and-nodes above a false
node), re-adding features that vanished with a false node, smoothing and the post-order flattening
leave it unchanged — for every d4 text whose graph is acyclic (`r` ranks it), that mentions no
literal 0 and on which the loader model does not raise its error flag. -/
theorem d4_loader_preserves_denotation (lines : List D4.Line) (total : Nat)
    (hnode : ∃ k, D4.Line.node k ∈ lines)
    (hnz : D4.LitNZ (lines.foldl D4.stepLine { total := total }).g)
    (r : Nat → Nat) (hacyc : D4.Acyclic (lines.foldl D4.stepLine { total := total }).g r)
    (hok : (D4.load lines total).2.2 = false) (σ : Assignment) :
    eval σ (D4.load lines total).2.1 (rootIx (D4.load lines total).2.1) =
      D4.sem σ (lines.foldl D4.stepLine { total := total }).g r 0 :=
  D4.load_preserves_denotation lines total hnode hnz r hacyc hok σ

/-- … and the loaded array has its children before their parents -/
theorem d4_loader_yields_topological_array (lines : List D4.Line) (total : Nat)
    (hnode : ∃ k, D4.Line.node k ∈ lines) (r : Nat → Nat)
    (hacyc : D4.Acyclic (lines.foldl D4.stepLine { total := total }).g r) :
    Topo (D4.load lines total).2.1 :=
  D4.load_topo_of_phase1 true id lines total hnode r hacyc

/-- hence: if the loaded array passes the structural check `WF` (decided per input by the driver), the
reported count is the number of assignments satisfying the file's denotation — for any number of
features, no truth table of the file needed -/
theorem d4_count_is_number_of_models_of_the_file (lines : List D4.Line) (total : Nat)
    (hnode : ∃ k, D4.Line.node k ∈ lines)
    (hnz : D4.LitNZ (lines.foldl D4.stepLine { total := total }).g)
    (r : Nat → Nat) (hacyc : D4.Acyclic (lines.foldl D4.stepLine { total := total }).g r)
    (hok : (D4.load lines total).2.2 = false)
    (hwf : WF (D4.load lines total).2.1 (D4.load lines total).1) :
    count (D4.load lines total).2.1 (rootIx (D4.load lines total).2.1) =
      ((allBits (D4.load lines total).1).filter fun b =>
        D4.sem (assignOf b) (lines.foldl D4.stepLine { total := total }).g r 0).length :=
  checked_load_count _ _ _ hwf (fun σ => d4_loader_preserves_denotation lines total hnode hnz r hacyc hok σ)

/-! ### the d4 loader, no per-input check left: well-formedness of the loaded array is proved

`D4.GDec` : the successors of every and-node of the text's graph mention pairwise disjoint variables
(decomposable); `hdet` : at most one successor of an or-node is true under any assignment
(deterministic); `hdecl` : the text declares no literal nodes (d4 writes literals on edges only). -/

/-- **The array the d4 loader builds is well formed** (children first, decomposable, smooth,
deterministic, root mentions every feature, no literal 0) for every d4 text that follows the d4
conventions, is satisfiable and on which the loader model raises no error flag — free features,
True/False elimination, vanished features, smoothing and flattening included. -/
theorem d4_loader_yields_wellformed_array (lines : List D4.Line) (total : Nat)
    (hnode : ∃ k, D4.Line.node k ∈ lines) (hdecl : ∀ l, D4.Line.node (.lit l) ∉ lines)
    (r : Nat → Nat) (hacyc : D4.Acyclic (D4.phase1 lines total).g r)
    (hnz : D4.LitNZ (D4.phase1 lines total).g) (hdec : D4.GDec (D4.phase1 lines total).g)
    (hdet : ∀ (σ : Assignment) (x : Nat), (D4.phase1 lines total).g.kindOf x = some .or →
      ((D4.phase1 lines total).g.outs.getD x []).countP (D4.sem σ (D4.phase1 lines total).g r) ≤ 1)
    (hok : (D4.load lines total).2.2 = false)
    (hsat : ∃ σ, D4.sem σ (D4.phase1 lines total).g r 0 = true) :
    WF (D4.load lines total).2.1 (D4.load lines total).1 :=
  D4.load_wf' lines total hnode hdecl r hacyc hnz hdec hdet hok hsat

/-- **C01 for d4 input, end to end in the model**: the count reported for the loaded array is the
number of assignments to the loader's feature range that satisfy the text — for every d4 text under
the same hypotheses, any number of features, no truth table and no per-input structural check. -/
theorem d4_count_is_number_of_models_of_the_text (lines : List D4.Line) (total : Nat)
    (hnode : ∃ k, D4.Line.node k ∈ lines) (hdecl : ∀ l, D4.Line.node (.lit l) ∉ lines)
    (r : Nat → Nat) (hacyc : D4.Acyclic (D4.phase1 lines total).g r)
    (hnz : D4.LitNZ (D4.phase1 lines total).g) (hdec : D4.GDec (D4.phase1 lines total).g)
    (hdet : ∀ (σ : Assignment) (x : Nat), (D4.phase1 lines total).g.kindOf x = some .or →
      ((D4.phase1 lines total).g.outs.getD x []).countP (D4.sem σ (D4.phase1 lines total).g r) ≤ 1)
    (hok : (D4.load lines total).2.2 = false)
    (hsat : ∃ σ, D4.sem σ (D4.phase1 lines total).g r 0 = true) :
    count (D4.load lines total).2.1 (rootIx (D4.load lines total).2.1) =
      ((allBits (D4.load lines total).1).filter fun b =>
        D4.sem (assignOf b) (D4.phase1 lines total).g r 0).length :=
  D4.load_count' lines total hnode hdecl r hacyc hnz hdec hdet hok hsat

/-- the hypotheses are satisfiable: `o 1 0 / t 2 0 / 1 2 1 0 / 1 2 -1 0` with two features (feature 2
free) loads to a well-formed array -/
example : WF (D4.load D4.exLines 2).2.1 (D4.load D4.exLines 2).1 := D4.ex_wf

/-! ### the d4 conventions as an executable check (Model/D4Conv.lean)

`D4.conventionsB lines total` decides all hypotheses of the two theorems above on a concrete text of at
most ten features (acyclicity by longest-path relaxation, decomposability by mentioned-variable sets,
determinism and satisfiability by truth table).  The driver evaluates it on every generated d4 input and
reports how many inputs the loader theorem applies to. -/

/-- a text that passes the check loads to a well-formed array … -/
theorem d4_conventions_check_is_sound (lines : List D4.Line) (total : Nat)
    (h : D4.conventionsB lines total = true) :
    WF (D4.load lines total).2.1 (D4.load lines total).1 :=
  D4.conventionsB_sound lines total h

/-- … whose count is the number of satisfying assignments of the text (evaluated by `D4.evalB`) -/
theorem d4_conventions_check_gives_the_count (lines : List D4.Line) (total : Nat)
    (h : D4.conventionsB lines total = true) :
    count (D4.load lines total).2.1 (rootIx (D4.load lines total).2.1) =
      ((allBits (D4.load lines total).1).filter fun b =>
        D4.evalB (assignOf b) (D4.phase1B lines total).g ((D4.phase1B lines total).g.kind.size + 1) 0).length :=
  D4.conventionsB_count lines total h

/-! ### character level: the d4 lexer (Model/Lex.lean)

`Lex.lexD4` models `lex_line_d4` on the characters of a line (edge = at least two `number blanks` groups
followed by `0`, greedy and without backtracking; node lines by keyword). The loader theorems above speak
about `List D4.Line`; a d4 text in normal form is exactly such a list: -/

/-- a d4 text in normal form (what d4 writes, what the harness generates) lexes, character by character,
to the list of lines it denotes (node numbers and literals within i32, node numbers ≥ 1) -/
theorem d4_text_in_normal_form_lexes_to_its_lines (ls : List (D4.Line × Nat))
    (h : ∀ p ∈ ls, Lex.LineInRange p.1) :
    Lex.parseD4Text (ls.map fun p => Lex.renderD4 p.1 p.2) = some (ls.map (·.1)) :=
  Lex.parseD4Text_render ls h

/-! ### every structural hypothesis of the other property theorems, for loaded arrays

The theorems of C02–C08, C16, C20 assume `WF`, `LitUnique` (no literal in two leaves) and, for the
scratch-state theorems, `MS.HasParents` (every node but the root is a child of a later node) of the
node array.  For the arrays the d4 loader builds these are theorems, not per-input checks: -/

/-- no literal occurs in two leaves of a loaded array — for every text that declares no literal nodes -/
theorem d4_loaded_array_has_unique_literal_leaves (lines : List D4.Line) (total : Nat)
    (hdecl : ∀ l, D4.Line.node (.lit l) ∉ lines) : LitUnique (D4.load lines total).2.1 :=
  D4.load_litUnique' lines total hdecl

/-- every node of a loaded array except the root has a parent — for every acyclic, satisfiable text
without literal 0 in which only and/or nodes have out-edges (`D4.SrcInner`; the two machine-checked
counterexamples `D4.hasParents_needs_srcInner` / `D4.hasParents_needs_sat` show that neither condition
can be dropped: an edge leaving a `t` node, resp. an unsatisfiable text whose root is eliminated, leave
a node without parent) -/
theorem d4_loaded_array_has_parents (lines : List D4.Line) (total : Nat)
    (hnode : ∃ k, D4.Line.node k ∈ lines) (r : Nat → Nat)
    (hacyc : D4.Acyclic (D4.phase1 lines total).g r) (hsrc : D4.SrcInner (D4.phase1 lines total).g)
    (hnz : D4.LitNZ (D4.phase1 lines total).g) (hok : (D4.load lines total).2.2 = false)
    (hsat : ∃ σ, D4.sem σ (D4.phase1 lines total).g r 0 = true) :
    MS.HasParents (D4.load lines total).2.1 :=
  D4.load_hasParents lines total hnode r hacyc hsrc hnz hok hsat

/-- all three from the executable check (`D4.conventions2B` = the conventions + `SrcInner`) -/
theorem d4_conventions_check_gives_every_structural_hypothesis (lines : List D4.Line) (total : Nat)
    (h : D4.conventions2B lines total = true) :
    WF (D4.load lines total).2.1 (D4.load lines total).1 ∧ LitUnique (D4.load lines total).2.1 ∧
      MS.HasParents (D4.load lines total).2.1 :=
  D4.conventions2B_sound lines total h

/-- … and the side conditions of the enumeration (C06) and CNF export (C19) theorems: no `True` node below
an or-node, the root not `True`, leaf literals within 1..n, the root represented by the Tseitin variable
introduced last.  None of them follows from `WF` alone (machine-checked counterexamples
`wf_not_noTruUnderOr`, `cnfOK_needs_hasParents`, `wf_not_litRange`), they are invariants of the loader;
the feature bounds cannot be dropped (`D4.enumOK_needs_feature`, `D4.cnfOK_needs_two_features`). -/
theorem d4_conventions_check_gives_the_enumeration_and_export_side_conditions (lines : List D4.Line)
    (total : Nat) (h : D4.conventions2B lines total = true) :
    (1 ≤ (D4.load lines total).1 → C06.EnumOK (D4.load lines total).2.1) ∧
    (2 ≤ (D4.load lines total).1 → C19.CnfOK (D4.load lines total).2.1 (D4.load lines total).1) :=
  ⟨D4.conventions2B_enumOK lines total h, D4.conventions2B_cnfOK lines total h⟩

/-! ### the c2d loader, from the characters of the file

A c2d file *is* a node array (children referenced by line number).  `Lex.parseC2dText` is the header test
on the trimmed first line plus the character-level lexer on every other line (Model/Lex.lean); the
loader then flattens the array from its last node in DFS post-order (`flatten`, Model/Persist.lean). -/

/-- **C01 for c2d input**: if the lines of a c2d file lex to a header with `n` variables and a node list
that is well formed (smooth, decomposable, deterministic, all `n` variables mentioned — the c2d half of
the input space), the loaded array is well formed, denotes the same function, and its count is the number
of assignments to 1..n satisfying the file -/
theorem c2d_count_is_number_of_models_of_the_file (lines : List (List Char)) (n : Nat)
    (file : List NType) (hp : Lex.parseC2dText lines = some (n, file)) (h : WF file n) :
    WF (flatten file) n ∧
      (∀ σ, eval σ (flatten file) (rootIx (flatten file)) = eval σ file (rootIx file)) ∧
      count (flatten file) (rootIx (flatten file)) = specCount file n [] := by
  have _ := hp
  refine ⟨flatten_WF file n h, fun σ => flatten_eval file h.topo h.nonempty σ, ?_⟩
  rw [flatten_count file h.topo h.nonempty]
  exact count_is_model_count file n h

/-! ### end to end for d4 input: text → loader → query, stated over the denotation of the text

`D4.textCount lines total A` is the number of assignments to 1..n under which the *text* is true
(`D4.evalB` on the graph phase 1 reads from it) and every literal of `A` holds.  For every d4 text that
passes the conventions check — no hypothesis about the node array, no per-input structural check — the
answers of the loaded model are functions of the text: -/

/-- total count (C01), count under assumptions (C02), satisfiability (C03) and the per-feature table (C04) -/
theorem d4_end_to_end_counts (lines : List D4.Line) (total : Nat)
    (h : D4.conventions2B lines total = true) :
    count (D4.load lines total).2.1 (rootIx (D4.load lines total).2.1) = D4.textCount lines total [] ∧
    (∀ A, InRange A (D4.load lines total).1 →
      execQuery (D4.load lines total).2.1 (D4.load lines total).1 A = D4.textCount lines total A) ∧
    (∀ A, InRange A (D4.load lines total).1 →
      satQuery (D4.load lines total).2.1 (D4.load lines total).1 A =
        decide (0 < D4.textCount lines total A)) ∧
    (∀ k, k < (D4.load lines total).1 →
      (cardPD (D4.load lines total).2.1 (D4.load lines total).1).getD k 0 =
        D4.textCount lines total [((k : Int) + 1)]) :=
  ⟨D4.loaded_count lines total h, D4.loaded_execQuery lines total h, D4.loaded_satQuery lines total h,
    D4.loaded_feature_rows lines total h⟩

/-- core / dead literals under assumptions (C05): literal l is reported exactly when adding it to the
in-range assumption list leaves the number of models of the text unchanged -/
theorem d4_end_to_end_core (lines : List D4.Line) (total : Nat)
    (h : D4.conventions2B lines total = true) (A : List Int)
    (hA : InRange A (D4.load lines total).1) (l : Int) :
    l ∈ coreDeadA (D4.load lines total).2.1 (D4.load lines total).1 A ↔
      (l ≠ 0 ∧ l.natAbs ≤ (D4.load lines total).1 ∧
        D4.textCount lines total (A ++ [l]) = D4.textCount lines total A) :=
  D4.loaded_core_any lines total h A hA l

/-! … and for the remaining request kinds (Proofs/EndToEnd2.lean instantiates the theorems of C06, C07, C08,
C19 and C20 at the loaded array, 27 corollaries; the short ones are stated here, the long ones re-exported) -/

/-- sampling answers "unsatisfiable" exactly when no model of the text contains the assumptions (C07), the
best-configuration search likewise (C20), the k best configurations are min(k, number of models of the
text containing A) many (C20), and a request pages through a list of exactly that many models (C06) -/
theorem d4_end_to_end_unsat_and_sizes (lines : List D4.Line) (total : Nat)
    (h : D4.conventions2B lines total = true) (A : List Int) (hA : InRange A (D4.load lines total).1) :
    (∀ amount evs, sampleAlong (D4.load lines total).2.1 (D4.load lines total).1 A amount evs = some none ↔
      D4.textCount lines total A = 0) ∧
    (∀ vals, bestConfig (D4.load lines total).2.1 vals A = none ↔ D4.textCount lines total A = 0) ∧
    (∀ vals k, 0 < k →
      (topK (D4.load lines total).2.1 vals A k).length = min k (D4.textCount lines total A)) :=
  ⟨fun amount evs => D4.loaded_sample_none_iff_unsat lines total h A hA amount evs,
   fun vals => D4.loaded_best_none_iff_unsat lines total h vals A hA,
   fun vals k hk => D4.loaded_topk_length lines total h vals A hA k hk⟩

/-- the Tseitin export of a loaded model (at least two features) has exactly as many models over its
declared variables as the text has models (C19), and every model of the CNF makes the text true -/
theorem d4_end_to_end_cnf_export (lines : List D4.Line) (total : Nat)
    (h : D4.conventions2B lines total = true) (hn : 2 ≤ (D4.load lines total).1) :
    ((allBits ((tseitin (D4.load lines total).2.1 (D4.load lines total).1).next - 1)).filter
        (fun b => satCnf (assignOf b) (toCnf (D4.load lines total).2.1 (D4.load lines total).1).2)).length
      = D4.textCount lines total [] ∧
    ∀ τ : Assignment, satCnf τ (toCnf (D4.load lines total).2.1 (D4.load lines total).1).2 = true →
      D4.evalB τ (D4.phase1B lines total).g ((D4.phase1B lines total).g.kind.size + 1) 0 = true :=
  ⟨D4.loaded_cnf_is_equicountable lines total h hn,
   fun τ hτ => D4.loaded_cnf_models_project_to_models lines total h hn τ hτ⟩

/-- paging over arbitrary request histories (statement: `D4.loaded_paging_history`, = `C06.paging_history`
at the loaded array with the count condition on the text) -/
theorem d4_end_to_end_paging : type_of% @D4.loaded_paging_history := @D4.loaded_paging_history

/-- k samples, each a model containing the assumptions, whatever the random source does
(`D4.loaded_samples_are_k_models_containing_A`) -/
theorem d4_end_to_end_sampling : type_of% @D4.loaded_samples_are_k_models_containing_A :=
  @D4.loaded_samples_are_k_models_containing_A

/-- atomic sets of a loaded model, plain and cross mode (`D4.loaded_plain_report_is_exactly_the_classes`,
`D4.loaded_cross_report_is_exactly_the_classes`) -/
theorem d4_end_to_end_atomic_sets_plain : type_of% @D4.loaded_plain_report_is_exactly_the_classes :=
  @D4.loaded_plain_report_is_exactly_the_classes
theorem d4_end_to_end_atomic_sets_cross : type_of% @D4.loaded_cross_report_is_exactly_the_classes :=
  @D4.loaded_cross_report_is_exactly_the_classes

end Ddnnf.C01
