/-
  C01  Total model count equals the number of models of the loaded formula.

  Property theorems only (helper lemmas live in Proofs/).  The loader itself is tied per input:
  the driver evaluates `wfB` on the node array the real loader produced and compares its truth table
  with the truth table of the input text (`q tt`), so the hypotheses below are checked on what the
  code produced, never assumed of it.
-/
import DdnnfVerif.Proofs.Keystone
namespace Ddnnf.C01

/-- The reported count (`Ddnnf::rc()` = count of the last node) is the number of assignments to
features 1..n satisfying the circuit, for every well-formed node array of every size.  `Nat` is
unbounded, as `BigInt` in the implementation. -/
theorem count_is_model_count (nodes : List NType) (n : Nat) (h : WF nodes n) :
    count nodes (rootIx nodes) = specCount nodes n [] :=
  count_eq_specCount nodes n h

/-- unconditional: the count of every node is the length of its list of models -/
theorem count_is_length_of_model_list (nodes : List NType) (j : Nat) :
    count nodes j = (models nodes j).length :=
  count_eq_length_models nodes j

/-- Two circuits (any format, any shape) that denote the same Boolean function report the same count. -/
theorem same_function_same_count (nodes₁ nodes₂ : List NType) (n : Nat)
    (h₁ : WF nodes₁ n) (h₂ : WF nodes₂ n)
    (hsame : ∀ σ : Assignment, eval σ nodes₁ (rootIx nodes₁) = eval σ nodes₂ (rootIx nodes₂)) :
    count nodes₁ (rootIx nodes₁) = count nodes₂ (rootIx nodes₂) := by
  rw [count_is_model_count nodes₁ n h₁, count_is_model_count nodes₂ n h₂]
  simp [specCount, hsame]

/-- What the per-input check establishes: if the exported array is well-formed and agrees with the
denotation `den` of the input file on every assignment, the reported count is the number of models
of the file. -/
theorem checked_load_count (nodes : List NType) (n : Nat) (den : Assignment → Bool)
    (h : WF nodes n) (hden : ∀ σ, eval σ nodes (rootIx nodes) = den σ) :
    count nodes (rootIx nodes) = ((allBits n).filter (fun b => den (assignOf b))).length := by
  rw [count_is_model_count nodes n h]
  simp [specCount, hden]

end Ddnnf.C01
