/-
  C05  Core and dead features are exactly the literals fixed in all models.
  `coreOf` mirrors the repaired `calculate_core` (leaf present, complementary leaf absent or part of
  no configuration), `coreDeadA` mirrors `core_dead_with_assumptions` (n+1 count queries).
-/
import DdnnfVerif.Proofs.Core
import DdnnfVerif.Proofs.WFCheck
namespace Ddnnf.C05

/-- without assumptions: a signed literal is reported exactly when every model contains it -/
theorem core_exact (nodes : List NType) (n : Nat) (h : WF nodes n) (hu : LitUnique nodes)
    (hpos : 0 < count nodes (rootIx nodes)) (l : Int) :
    l ∈ coreOf nodes n ↔ (l ≠ 0 ∧ l.natAbs ≤ n ∧ ∀ c ∈ models nodes (rootIx nodes), l ∈ c) :=
  coreOf_exact nodes n h (pdLeaf_of_WF nodes n h hu) hpos l

/-- with assumptions A: literal l is reported exactly when adding it to A leaves the number of
models unchanged, i.e. every model containing A contains l (both polarities when A is unsatisfiable) -/
theorem core_with_assumptions_exact (nodes : List NType) (n : Nat) (h : WF nodes n) (hu : LitUnique nodes)
    (A : List Int) (hA : InRange A n) (hne : A ≠ []) (l : Int) :
    l ∈ coreDeadA nodes n A ↔
      (l ≠ 0 ∧ l.natAbs ≤ n ∧ specCount nodes n (A ++ [l]) = specCount nodes n A) :=
  coreDeadA_exact nodes n h (pdLeaf_of_WF nodes n h hu) A hA hne l

/-- the per-candidate form (stream `core a A v c`): the candidate is reported exactly when adding it
to A leaves the count unchanged -/
theorem core_candidate_exact (nodes : List NType) (n : Nat) (h : WF nodes n) (hu : LitUnique nodes)
    (A : List Int) (hA : InRange A n) (c : Int) (hc : c ≠ 0 ∧ c.natAbs ≤ n) :
    (execQuery nodes n (A ++ [c]) = execQuery nodes n A) ↔
      (specCount nodes n (A ++ [c]) = specCount nodes n A) := by
  have hpd := pdLeaf_of_WF nodes n h hu
  have hAc : InRange (A ++ [c]) n := by
    intro a ha
    rcases List.mem_append.mp ha with ha | ha
    · exact hA a ha
    · simp only [List.mem_singleton] at ha; subst ha; exact hc
  rw [execQuery_exact nodes n h hpd A hA, execQuery_exact nodes n h hpd _ hAc]

/-- the old purely syntactic rule is exact only for "live" arrays; the witness below is the reason
`calculate_core` was repaired (D13): the rule misses feature 1 although every model contains it -/
example : coreSynOf [.lit 1, .lit (-1), .fls, .and [1, 2], .or [0, 3]] 1 = [] ∧
          coreOf [.lit 1, .lit (-1), .fls, .and [1, 2], .or [0, 3]] 1 = [1] := by decide

example : coreOf smallEx 4 = [1] := by decide

end Ddnnf.C05
