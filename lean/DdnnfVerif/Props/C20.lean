/-
  C20  Best and top-k configurations are optimal models.
  `bestConfig` / `topK` mirror `calc_best_config` / `calc_top_k_configs` including the frontier search
  `merge_top_k_results_and` and the k-way merge `merge_top_k_results_or`.  Objective values are integers
  (the harness uses integer-valued f64 below 2^20, for which f64 sums are exact).
  `modelsA nodes (A.map (-·)) root` is the list of models containing A (C06.page_source_is_model_set).
-/
import DdnnfVerif.Proofs.Best
import DdnnfVerif.Proofs.TopK
import DdnnfVerif.Props.C06
namespace Ddnnf.C20

/-- the candidates the optimisation ranges over are exactly the models containing A: complete
configurations, pairwise distinct, count(A) many -/
theorem candidates_are_models_containing_A (nodes : List NType) (n : Nat) (h : WF nodes n) (hu : LitUnique nodes)
    (A : List Int) (hA : InRange A n) :
    (∀ c ∈ modelsA nodes (A.map (fun f => -f)) (rootIx nodes),
        c ∈ models nodes (rootIx nodes) ∧ Complete n c ∧ ∀ a ∈ A, a ∈ c)
    ∧ (modelsA nodes (A.map (fun f => -f)) (rootIx nodes)).Nodup
    ∧ (modelsA nodes (A.map (fun f => -f)) (rootIx nodes)).length = specCount nodes n A :=
  C06.page_source_is_model_set nodes n h hu A hA

/-- nothing is returned exactly when no model contains A -/
theorem best_none_iff_unsat (nodes : List NType) (vals : Nat → Int) (A : List Int) :
    bestConfig nodes vals A = none ↔ modelsA nodes (A.map (fun f => -f)) (rootIx nodes) = [] :=
  bestConfig_none_iff nodes vals A

/-- the returned configuration is a model containing A (up to the order of its literals), its value
is the sum of the values of its selected features, and no model containing A has a larger sum -/
theorem best_is_optimal_model (nodes : List NType) (vals : Nat → Int) (A : List Int) (o : OC)
    (h : bestConfig nodes vals A = some o) :
    (o.value = cfgValue vals o.cfg ∧ ∃ m ∈ modelsA nodes (A.map (fun f => -f)) (rootIx nodes), o.cfg.Perm m)
    ∧ ∀ m ∈ modelsA nodes (A.map (fun f => -f)) (rootIx nodes), cfgValue vals m ≤ o.value :=
  ⟨bestConfig_is_model nodes vals A o h, bestConfig_optimal nodes vals A o h⟩

/-- top-k: min(k, count(A)) entries, sorted non-increasingly, a sub-multiset of the models containing A
(up to the order of literals inside a configuration), and nothing omitted is better than anything
returned.  `IsTopK` is defined in Proofs/TopKBase.lean. -/
theorem topk_is_a_top_k_selection (nodes : List NType) (vals : Nat → Int) (A : List Int) (k : Nat) (hk : 0 < k) :
    IsTopK k ((modelsA nodes (A.map (fun f => -f)) (rootIx nodes)).map (fun c => ⟨cfgValue vals c, c⟩))
      (topK nodes vals A k) :=
  topK_root_correct nodes vals A k hk

/-- the value sequence of the answer is exactly the k largest values, in order -/
theorem topk_values_are_the_k_largest (nodes : List NType) (vals : Nat → Int) (A : List Int) (k : Nat) (hk : 0 < k) :
    (topK nodes vals A k).map (·.value)
      = (sortDesc ((modelsA nodes (A.map (fun f => -f)) (rootIx nodes)).map (cfgValue vals))).take k :=
  topK_root_values nodes vals A k hk

example : (bestConfig smallEx (fun v => if v = 3 then 5 else -1) []).map (·.value) = some 4 := by decide
example : (topK smallEx (fun v => if v = 3 then 5 else -1) [] 3).map (·.value) = [4, 3, -2] := by decide

end Ddnnf.C20
