/-
  C16  Answers depend only on the model and the query, not on history or other models.
-/
import DdnnfVerif.Model.Session
import DdnnfVerif.Proofs.Paging
import DdnnfVerif.Proofs.MarkState
import DdnnfVerif.Proofs.ConfigPrep
import DdnnfVerif.Proofs.LoadAll
namespace Ddnnf.C16

/-- a non-paging request is answered from the model and the request alone, and leaves the state unchanged -/
theorem nonpaging_answer_is_function_of_request (nodes : List NType) (n : Nat) (cur cur' : Cursor) (r : Req)
    (h : r.isPaging = false) :
    (respond nodes n cur r).2 = (respond nodes n cur' r).2 ∧ (respond nodes n cur r).1 = cur := by
  cases r <;> simp_all [respond, Req.isPaging]

/-- after ANY history of requests of any kind, a non-paging request gets the answer a fresh instance gives -/
theorem answer_independent_of_history (nodes : List NType) (n : Nat) (hist : List Req) (r : Req)
    (h : r.isPaging = false) :
    (respond nodes n (runSession nodes n [] hist).1 r).2 = (respond nodes n [] r).2 :=
  (nonpaging_answer_is_function_of_request nodes n _ [] r h).1

/-- non-paging requests do not move any enumeration position -/
theorem nonpaging_requests_keep_cursor (nodes : List NType) (n : Nat) (cur : Cursor) (hist : List Req)
    (h : ∀ r ∈ hist, r.isPaging = false) : (runSession nodes n cur hist).1 = cur := by
  induction hist generalizing cur with
  | nil => rfl
  | cons r rest ih =>
    have hr := (nonpaging_answer_is_function_of_request nodes n cur cur r (h r (List.mem_cons_self ..))).2
    simp only [runSession]
    rw [show (respond nodes n cur r) = ((respond nodes n cur r).1, (respond nodes n cur r).2) from rfl]
    simp only [hr]
    exact ih cur (fun r' hr' => h r' (List.mem_cons_of_mem _ hr'))

/-- requests addressed to another model loaded in the same process leave this model's state unchanged -/
theorem other_model_requests_do_not_interfere (m₁ m₂ : List NType × Nat) (st : Cursor × Cursor)
    (reqs : List (Bool × Req)) (h : ∀ q ∈ reqs, q.1 = false) :
    (runProcess m₁ m₂ st reqs).1.1 = st.1 := by
  induction reqs generalizing st with
  | nil => rfl
  | cons q rest ih =>
    have hq : q.1 = false := h q (List.mem_cons_self ..)
    simp only [runProcess, respond2, hq, Bool.false_eq_true, ↓reduceIte]
    exact ih _ (fun q' hq' => h q' (List.mem_cons_of_mem _ hq'))

/-- … hence the answers this model gives afterwards are those it would give without the other model's requests -/
theorem paging_state_belongs_to_one_model (m₁ m₂ : List NType × Nat) (st : Cursor × Cursor)
    (reqs : List (Bool × Req)) (h : ∀ q ∈ reqs, q.1 = false) (r : Req) :
    (respond2 m₁ m₂ (runProcess m₁ m₂ st reqs).1 (true, r)).2 = (respond m₁.1 m₁.2 st.1 r).2 := by
  simp only [respond2, ↓reduceIte, other_model_requests_do_not_interfere m₁ m₂ st reqs h]

/-- and within one model, paging state belongs to one assumption set (see C06.other_keys_do_not_interfere) -/
theorem paging_state_belongs_to_one_assumption_set (nodes : List NType) (n : Nat) (cur : Cursor)
    (B : List Int) (k : Nat) (key : List Int) (hne : sortAbs B ≠ key) :
    (enumerate nodes n cur B k).1.get key = cur.get key :=
  enumerate_other_key nodes n cur B k key hne


/-! ### the scratch state (`temp`, `marker`, `md`) made explicit: Model/MarkState.lean -/

/-- whatever an earlier request left in the `temp` fields: a counting request on a clean state (nothing
marked, `md` empty) returns exactly `execute_query`'s pure answer, and leaves the state clean again
with the cached counts untouched — stale `temp` values are never read -/
theorem count_ignores_stale_scratch_state (nodes : List NType) (n : Nat) (htopo : Topo nodes)
    (hne : nodes ≠ []) (hu : LitUnique nodes) (hpar : MS.HasParents nodes)
    (s : MS.St) (hclean : MS.Clean s) (hcnt : MS.CountsOK nodes s) (A : List Int) :
    (MS.execQuerySt nodes n s A).2 = execQuery nodes n A ∧
      MS.Clean (MS.execQuerySt nodes n s A).1 ∧ MS.CountsOK nodes (MS.execQuerySt nodes n s A).1 :=
  MS.execQuerySt_spec nodes n htopo hne hu hpar s hclean hcnt A

/-- any sequence of counting requests on one long-lived instance, starting from arbitrary `temp`
contents, is answered like a sequence of requests on fresh instances -/
theorem counting_history_is_irrelevant (nodes : List NType) (n : Nat) (htopo : Topo nodes)
    (hne : nodes ≠ []) (hu : LitUnique nodes) (hpar : MS.HasParents nodes)
    (tmp : Nat → Nat) (reqs : List (List Int)) :
    (MS.runSt nodes n (MS.initSt nodes tmp) reqs).2 = reqs.map (execQuery nodes n) :=
  MS.history_independent nodes n htopo hne hu hpar tmp reqs

/-- `enumerate` / `uniform_random_sampling` read the `temp` fields after `preprocess_config_creation` and
`execute_query`: that state (and the count) is the same whatever earlier requests left in `temp` -/
theorem enumeration_and_sampling_read_state_independent_of_history (nodes : List NType) (n : Nat)
    (s₁ s₂ : MS.St) (h₁ : MS.Clean s₁) (h₂ : MS.Clean s₂) (c₁ : MS.CountsOK nodes s₁)
    (c₂ : MS.CountsOK nodes s₂) (A : List Int) :
    MS.prepareConfigs nodes n s₁ A = MS.prepareConfigs nodes n s₂ A :=
  MS.prepareConfigs_state_independent nodes n s₁ s₂ h₁ h₂ c₁ c₂ A

/-- the preparation of enumeration / sampling returns `execute_query`'s count and leaves a clean state
(nothing marked, `md` empty, cached counts untouched) to the requests that follow -/
theorem config_preparation_leaves_a_clean_state (nodes : List NType) (n : Nat) (htopo : Topo nodes)
    (hne : nodes ≠ []) (hu : LitUnique nodes) (hpar : MS.HasParents nodes)
    (s : MS.St) (hclean : MS.Clean s) (hcnt : MS.CountsOK nodes s) (A : List Int) (s' : MS.St) (r : Nat)
    (h : MS.prepareConfigs nodes n s A = some (s', r)) :
    r = execQuery nodes n A ∧ MS.Clean s' ∧ MS.CountsOK nodes s' :=
  MS.prepareConfigs_spec nodes n htopo hne hu hpar s hclean hcnt A s' r h

/-- the same for every model loaded from a d4 text that passes the conventions check — no per-input
hypothesis about the node array is left: any sequence of counting requests on the long-lived loaded
instance, whatever the scratch fields held, is answered like requests on fresh instances -/
theorem counting_history_is_irrelevant_for_loaded_models (lines : List D4.Line) (total : Nat)
    (h : D4.conventions2B lines total = true) (tmp : Nat → Nat) (reqs : List (List Int)) :
    (MS.runSt (D4.load lines total).2.1 (D4.load lines total).1
        (MS.initSt (D4.load lines total).2.1 tmp) reqs).2 =
      reqs.map (execQuery (D4.load lines total).2.1 (D4.load lines total).1) := by
  obtain ⟨hwf, hu, hpar⟩ := D4.conventions2B_sound lines total h
  exact MS.history_independent _ _ hwf.topo hwf.nonempty hu hpar tmp reqs

end Ddnnf.C16
