/-
  C12  clause-update / undo-update / save-cnf follow the edited CNF.

  `CC.Cache` (Model/ClauseCache.lean) is the model of the clause cache, of `update_cached_state` /
  `swap` / `undo_on_cached_state` and of the stream arms that drive them; `CC.Spec` is the abstract
  machine of the property: a current CNF (clause set, feature count) and the CNF before the latest
  accepted update.  The compiler is outside the model: the ghost fields `cur` / `old` of the cache
  record what the live / the old model were compiled from.
-/
import DdnnfVerif.Proofs.ClauseCache
namespace Ddnnf.C12
open Ddnnf.CC

/-- for every start CNF and every command sequence: the real machine gives the abstract machine's
verdicts, and afterwards its stored clause set and feature count, and what the live model was
compiled from, are the abstract machine's current CNF; what the old model was compiled from is the
abstract machine's previous CNF -/
theorem clause_cache_refines_spec (cs : ClauseSet) (n : Nat) (hnd : cs.Nodup) (cmds : List Cmd) :
    (run (init cs n) cmds).2 = (Spec.run { cur := (cs, n) } cmds).2 ∧
      Agrees (run (init cs n) cmds).1 (Spec.run { cur := (cs, n) } cmds).1 :=
  run_refines cs n hnd cmds

/-- what the abstract machine does with an update: it is accepted iff the new feature count does not
cut off a variable still in use, all literals are within it, and the clauses to remove are distinct
stored clauses … -/
theorem update_accepted_iff (s : Spec) (hnd : s.cur.1.Nodup) (t : Option Nat) (add rmv : List Clause) :
    (s.step (.update t add rmv)).2 = .ok ↔
      ((∀ t', t = some t' → ∀ cl ∈ s.cur.1, ∀ l ∈ cl, l.natAbs ≤ t') ∧
       (∀ cl ∈ add ++ rmv, ∀ l ∈ cl, l.natAbs ≤ t.getD s.cur.2) ∧
       rmv.Nodup ∧ ∀ r ∈ rmv, r ∈ s.cur.1) :=
  spec_update_accepted_iff s hnd t add rmv

/-- … and then the current CNF is (stored \ rmv) ∪ add with the new feature count, and the previous
CNF is the one before the update -/
theorem accepted_update_result (s : Spec) (hnd : s.cur.1.Nodup) (t : Option Nat) (add rmv : List Clause)
    (h : (s.step (.update t add rmv)).2 = .ok) :
    (∀ x, x ∈ (s.step (.update t add rmv)).1.cur.1 ↔ (x ∈ s.cur.1 ∧ x ∉ rmv) ∨ x ∈ add) ∧
      (s.step (.update t add rmv)).1.cur.2 = t.getD s.cur.2 ∧
      (s.step (.update t add rmv)).1.prev = some s.cur :=
  spec_update_result s hnd t add rmv h

/-- a rejected update changes nothing (concrete machine: the whole cache is unchanged) -/
theorem rejected_update_changes_nothing (c : Cache) (t : Option Nat) (add rmv : List Clause)
    (h : (update c t add rmv).2 ≠ .ok) : (update c t add rmv).1 = c :=
  update_rejected_unchanged c t add rmv h

/-- undo restores the CNF before the latest accepted update, a second undo re-applies it -/
theorem undo_restores_and_redo_reapplies (s : Spec) (t : Option Nat) (add rmv : List Clause)
    (h : (s.step (.update t add rmv)).2 = .ok) :
    let s1 := (s.step (.update t add rmv)).1
    ((s1.step .undo).1.cur = s.cur) ∧ (((s1.step .undo).1.step .undo).1.cur = s1.cur) :=
  spec_undo_redo s t add rmv h

/-- `save-cnf` writes exactly the current clause set (each clause once) and the feature count of the
live model -/
theorem save_writes_current_state (cs : ClauseSet) (n : Nat) (hnd : cs.Nodup) (cmds : List Cmd) :
    let c := (run (init cs n) cmds).1
    let s := (Spec.run { cur := (cs, n) } cmds).1
    (saved c).1 = s.cur.2 ∧ (∀ x, x ∈ (saved c).2 ↔ x ∈ s.cur.1) ∧ (saved c).2.Nodup :=
  saved_is_current cs n hnd cmds

/-- hence, for every compiler that is correct (`den (compile cnf) = cnfDen cnf`, where `cnfDen` only
depends on the clause set as a set), the live model denotes the abstract machine's current CNF after
every command sequence -/
theorem live_model_denotes_current_cnf {M D : Type} (compile : ClauseSet × Nat → M) (den : M → D)
    (cnfDen : ClauseSet × Nat → D)
    (hcorrect : ∀ cnf, den (compile cnf) = cnfDen cnf)
    (hset : ∀ a b : ClauseSet, (∀ x, x ∈ a ↔ x ∈ b) → ∀ n, cnfDen (a, n) = cnfDen (b, n))
    (cs : ClauseSet) (n : Nat) (hnd : cs.Nodup) (cmds : List Cmd) :
    den (compile (run (init cs n) cmds).1.cur) = cnfDen (Spec.run { cur := (cs, n) } cmds).1.cur :=
  live_model_correct compile den cnfDen hcorrect hset cs n hnd cmds

end Ddnnf.C12
