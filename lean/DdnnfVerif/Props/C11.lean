/-
  C11  An incremental clause edit yields exactly the edited formula — the unit clause case.

  `addUnit nodes n f` (Model/Edit.lean) is the model of `prepare_and_apply_incremental_edit` for a
  unit clause: `add_unit_clause` (delete the complementary leaf with its chains of and-ancestors /
  hang the new literal and the or-triangles of the features in between under an and-root) followed
  by `rebuild`.  The theorems say that the edited circuit denotes `previous formula ∧ f`.
  The CNF-backed strategies (sub-DAG replacement, recompilation, undo cache) are not modelled: they
  are validated against the truth table of the edited clause set by the harness only.
-/
import DdnnfVerif.Proofs.Edit
namespace Ddnnf.C11

/-- old feature: the edited circuit is true exactly on the assignments that satisfy the previous
circuit and the unit clause -/
theorem unit_clause_denotes_conjunction (nodes : List NType) (n : Nat) (h : WF nodes n) (f : Int)
    (hf : f ≠ 0 ∧ f.natAbs ≤ n) (hroot : removedBy nodes f (rootIx nodes) = false) (σ : Assignment) :
    eval σ (addUnit nodes n f).2 (rootIx (addUnit nodes n f).2) =
      (eval σ nodes (rootIx nodes) && litTrue σ f) :=
  addUnitOld_eval nodes n h f hf hroot σ

/-- … and its count is the number of models of the previous circuit that contain `f` -/
theorem unit_clause_count (nodes : List NType) (n : Nat) (h : WF nodes n) (f : Int)
    (hf : f ≠ 0 ∧ f.natAbs ≤ n) (hroot : removedBy nodes f (rootIx nodes) = false) :
    count (addUnit nodes n f).2 (rootIx (addUnit nodes n f).2) = specCount nodes n [f] ∧
      (addUnit nodes n f).1 = n :=
  addUnitOld_count nodes n h f hf hroot

/-- unconditional core of the two: on the model lists, deleting the complementary leaf with its
and-ancestor chains keeps exactly the configurations that do not contain `-f` -/
theorem pruning_keeps_the_models_without_the_complement (nodes : List NType) (htopo : Topo nodes)
    (f : Int) (i : Nat) (hi : removedBy nodes f i = false) :
    models (nodes.map (pruneNode (removedBy nodes f))) i =
      (models nodes i).filter (fun c => !c.contains (-f)) :=
  models_prune nodes htopo f i hi

/-- the root is removed only if no model contains `f` (the edit would make the formula
unsatisfiable, which the property excludes) -/
theorem root_removed_only_if_unsat (nodes : List NType) (n : Nat) (h : WF nodes n) (f : Int)
    (hf : f ≠ 0 ∧ f.natAbs ≤ n) (hroot : removedBy nodes f (rootIx nodes) = true) :
    specCount nodes n [f] = 0 :=
  removed_root_unsat nodes n h f hf hroot

/-- new feature: the feature count grows to `|f|`, the circuit denotes `previous ∧ f` (the features
in between are free), and the count is multiplied by 2 for every feature in between -/
theorem new_feature_unit_clause (nodes : List NType) (n : Nat) (htopo : Topo nodes) (hne : nodes ≠ [])
    (f : Int) (hf : n < f.natAbs) :
    (addUnit nodes n f).1 = f.natAbs ∧
      (∀ σ : Assignment, eval σ (addUnit nodes n f).2 (rootIx (addUnit nodes n f).2) =
        (eval σ nodes (rootIx nodes) && litTrue σ f)) ∧
      count (addUnit nodes n f).2 (rootIx (addUnit nodes n f).2) =
        count nodes (rootIx nodes) * 2 ^ (f.natAbs - 1 - n) :=
  addUnitNew_spec nodes n htopo hne f hf

end Ddnnf.C11
