/-
  C11  An incremental clause edit yields exactly the edited formula — the unit clause case.

  `addUnit nodes n f` (Model/Edit.lean) is the model of `prepare_and_apply_incremental_edit` for a
  unit clause: `add_unit_clause` (delete the complementary leaf with its chains of and-ancestors /
  hang the new literal and the or-triangles of the features in between under an and-root) followed
  by `rebuild`.  The theorems say that the edited circuit denotes `previous formula ∧ f`.
  The CNF-backed strategies: clause bookkeeping, strategy choice, recompilation and the undo cache are
  modelled in Model/EditCnf.lean (second half of this file, compiler a parameter); the sub-DAG splice
  is not (open finding), it is validated against the truth table of the edited clause set only.
-/
import DdnnfVerif.Proofs.Edit
import DdnnfVerif.Proofs.EditCnfEx
namespace Ddnnf.C11

/-- old feature: the edited circuit is true exactly on the assignments that satisfy the previous
circuit and the unit clause -/
theorem unit_clause_denotes_conjunction (nodes : List NType) (n : Nat) (h : WF nodes n) (f : Int)
    (hf : f ≠ 0 ∧ f.natAbs ≤ n) (hroot : removedBy nodes f (rootIx nodes) = false) (σ : Assignment) :
    eval σ (addUnit nodes n f).2 (rootIx (addUnit nodes n f).2) =
      (eval σ nodes (rootIx nodes) && litTrue σ f) :=
  addUnitOld_eval nodes n h f hf hroot σ

/-- … and its count is the number of models of the previous circuit that contain `f` -/
theorem unit_clause_count (nodes : List NType) (n : Nat) (h : WF nodes n) (f : Int)
    (hf : f ≠ 0 ∧ f.natAbs ≤ n) (hroot : removedBy nodes f (rootIx nodes) = false) :
    count (addUnit nodes n f).2 (rootIx (addUnit nodes n f).2) = specCount nodes n [f] ∧
      (addUnit nodes n f).1 = n :=
  addUnitOld_count nodes n h f hf hroot

/-- unconditional core of the two: on the model lists, deleting the complementary leaf with its
and-ancestor chains keeps exactly the configurations that do not contain `-f` -/
theorem pruning_keeps_the_models_without_the_complement (nodes : List NType) (htopo : Topo nodes)
    (f : Int) (i : Nat) (hi : removedBy nodes f i = false) :
    models (nodes.map (pruneNode (removedBy nodes f))) i =
      (models nodes i).filter (fun c => !c.contains (-f)) :=
  models_prune nodes htopo f i hi

/-- the root is removed only if no model contains `f` (the edit would make the formula
unsatisfiable, which the property excludes) -/
theorem root_removed_only_if_unsat (nodes : List NType) (n : Nat) (h : WF nodes n) (f : Int)
    (hf : f ≠ 0 ∧ f.natAbs ≤ n) (hroot : removedBy nodes f (rootIx nodes) = true) :
    specCount nodes n [f] = 0 :=
  removed_root_unsat nodes n h f hf hroot

/-- new feature: the feature count grows to `|f|`, the circuit denotes `previous ∧ f` (the features
in between are free), and the count is multiplied by 2 for every feature in between -/
theorem new_feature_unit_clause (nodes : List NType) (n : Nat) (htopo : Topo nodes) (hne : nodes ≠ [])
    (f : Int) (hf : n < f.natAbs) :
    (addUnit nodes n f).1 = f.natAbs ∧
      (∀ σ : Assignment, eval σ (addUnit nodes n f).2 (rootIx (addUnit nodes n f).2) =
        (eval σ nodes (rootIx nodes) && litTrue σ f)) ∧
      count (addUnit nodes n f).2 (rootIx (addUnit nodes n f).2) =
        count nodes (rootIx nodes) * 2 ^ (f.natAbs - 1 - n) :=
  addUnitNew_spec nodes n htopo hne f hf

/-! ### the CNF-backed strategies: clause bookkeeping and strategy machine (Model/EditCnf.lean)

`EC.State` = stored clause list, feature count, the clause list the live graph was compiled from
(`den`, ghost: the compiler is a parameter) and the undo cache of whole-graph snapshots.  The sub-DAG
splice is not modelled (open finding): a history in which it ran ends in a `tainted` state about which
nothing is claimed. -/

/-- **Recompilation yields exactly the edited formula**: the graph is compiled from a clause list whose
models are those of `stored clauses − every copy of the removed clauses + the added clauses` (the
clause list is adjusted twice on this path, which changes nothing). -/
theorem recompilation_yields_the_edited_formula (s s' : EC.State) (e : EC.Edit)
    (hnz : EC.NZ (s.cur.clauses ++ e.adds))
    (h : EC.applyEdit s e .recompile = (s', .recompile)) (σ : Assignment) :
    satCnf σ s'.cur.den = satCnf σ (EC.specEdit s.cur.clauses e) :=
  EC.recompile_den s s' e hnz h σ

/-- an edit that only adds clauses yields the conjunction of the previous formula with them -/
theorem added_clauses_are_conjoined (s s' : EC.State) (e : EC.Edit) (hs : EC.Agree s.cur)
    (hnz : EC.NZ (s.cur.clauses ++ e.adds)) (hr : e.rmvs = [])
    (h : EC.applyEdit s e .recompile = (s', .recompile)) (σ : Assignment) :
    satCnf σ s'.cur.den = (satCnf σ s.cur.den && satCnf σ e.adds) :=
  EC.recompile_adds s s' e hs hnz hr h σ

/-- the unit clause shortcut is taken only for an edit that adds one unit clause and removes nothing
(the guard that was missing: defect D29), and conjoins that literal -/
theorem unit_shortcut_only_for_pure_unit_edits (s s' : EC.State) (e : EC.Edit) (ch : EC.Choice)
    (h : EC.applyEdit s e ch = (s', .unitClause)) :
    ∃ l, e.adds = [[l]] ∧ e.rmvs = [] ∧ s'.cur.den = s.cur.den ++ [[l]] ∧ s'.cache = [(e, s.cur)] :=
  EC.unit_den s s' e ch h

/-- **the inverse of the latest edit restores all previous answers**: after a recompiled edit the edit
with adds and removes exchanged is answered from the cache with the state before the edit (stored
clauses, feature count and graph), and the edit once more brings the edited state back -/
theorem inverse_of_latest_edit_restores_previous_state (s s1 : EC.State) (e : EC.Edit) (ch' : EC.Choice)
    (h : EC.applyEdit s e .recompile = (s1, .recompile)) :
    (EC.applyEdit s1 e.inv ch').2 = .undo ∧ (EC.applyEdit s1 e.inv ch').1.cur = s.cur ∧
    (EC.applyEdit (EC.applyEdit s1 e.inv ch').1 e ch').2 = .undo ∧
    (EC.applyEdit (EC.applyEdit s1 e.inv ch').1 e ch').1.cur = s1.cur :=
  EC.inverse_restores s s1 e ch' h

/-- … and so does the inverse of a unit clause edit (the state before it is cached under the edit:
repair D32 — before, removing a unit clause over a new feature left the feature count raised) -/
theorem inverse_of_unit_clause_edit_restores_previous_state (s s1 : EC.State) (e : EC.Edit)
    (ch ch' : EC.Choice) (h : EC.applyEdit s e ch = (s1, .unitClause)) :
    (EC.applyEdit s1 e.inv ch').2 = .undo ∧ (EC.applyEdit s1 e.inv ch').1.cur = s.cur ∧
    (EC.applyEdit (EC.applyEdit s1 e.inv ch').1 e ch').2 = .undo ∧
    (EC.applyEdit (EC.applyEdit s1 e.inv ch').1 e ch').1.cur = s1.cur :=
  EC.inverse_restores_unit s s1 e ch ch' h

/-- `Undo` never does anything but restore a cached snapshot whose edit is the inverse of the request -/
theorem undo_only_restores_the_inverse (s s' : EC.State) (e : EC.Edit) (ch : EC.Choice)
    (h : EC.applyEdit s e ch = (s', .undo)) :
    ∃ p ∈ s.cache, EC.isInverseOf e p.1 = true ∧ s'.cur = p.2 :=
  EC.undo_restores_cached s s' e ch h

/-- `simplify_clauses` (unit propagation to a fixpoint, run on the clauses of every compiled CNF) keeps
the models of a satisfiable clause list; for an unsatisfiable one the code drops falsified clauses
silently, which is why the hypothesis is needed (the property assumes satisfiable formulas) -/
theorem stored_clauses_keep_the_models (cs : List EC.Clause) (hnz : EC.NZ cs) (hsat : EC.Sat cs)
    (σ : Assignment) : satCnf σ (EC.simplify cs) = satCnf σ cs :=
  EC.satCnf_simplify cs hnz hsat σ

/-- **every history**: from a satisfiable CNF through any sequence of edits (tautological, duplicate,
mixed add/remove, unit, inverse edits …) during which no sub-DAG splice ran and the formula stayed
satisfiable: in every state the stored clause list has exactly the models of what the graph was
compiled from, the same holds for every cached snapshot, and the cache holds at most the latest edit -/
theorem stored_clauses_and_graph_agree_along_every_history (cs : List EC.Clause) (n : Nat)
    (hnz : EC.NZ cs) (hsat : EC.Sat cs)
    (reqs : List (List (EC.Clause × EC.App) × EC.Choice)) (hops : ∀ r ∈ reqs, EC.OpsNZ r.1)
    (hall : ∀ t ∈ EC.runAll (EC.init cs n) reqs, t.tainted = false ∧ EC.Sat t.cur.den) :
    ∀ t ∈ EC.runAll (EC.init cs n) reqs, EC.Inv t ∧ t.cache.length ≤ 1 :=
  EC.history_inv cs n hnz hsat reqs hops hall

/-- the hypotheses of the history theorem are satisfiable: `init [[1,2]] 3`, add (¬1 ∨ ¬2) (recompiled),
its inverse (answered from the cache), the unit clause 3 -/
example : EC.Inv (EC.init [[1, 2]] 3) :=
  EC.init_inv [[1, 2]] 3 (by intro c hc l hl; simp at hc; subst hc; simp at hl; rcases hl with rfl | rfl <;> decide)
    ⟨fun v => v == 1, by decide⟩

end Ddnnf.C11
