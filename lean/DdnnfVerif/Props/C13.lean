/-
  C13  Every stream line gets the documented answer or a coded error, never a crash.

  `Msg.handle nodes n cursor line` is the model of `Ddnnf::handle_stream_msg` for a model loaded from
  an nnf file.  It is a total Lean function (structural recursion / fuel = number of tokens), so in
  the model every line has a reply; that the Rust code does what the model does — in particular that
  it does not panic where the model answers — is what the correspondence check establishes line by
  line.  The theorems below are about the replies.
-/
import DdnnfVerif.Proofs.StreamMsg
namespace Ddnnf.C13
open Ddnnf.Msg

/-- every reply is a result or an error with a documented code E2..E6 (E1 is reserved by the
protocol for "operation is not yet supported" and never produced by the handler) -/
theorem reply_is_result_or_coded_error (nodes : List NType) (n : Nat) (cur : Cursor) (line : String) :
    match (handle nodes n cur line).2 with
    | .ok _ => True
    | .err c _ => 2 ≤ c ∧ c ≤ 6 :=
  handle_code_ok nodes n cur line

/-- a rejected line leaves the state (the only state the handler has for an nnf model: the
enumeration cursor) unchanged -/
theorem rejected_line_changes_nothing (nodes : List NType) (n : Nat) (cur : Cursor) (line : String)
    (c : Nat) (t : Option String) (h : (handle nodes n cur line).2 = .err c t) :
    (handle nodes n cur line).1 = cur :=
  handle_err_keeps_cursor nodes n cur line c t h

/-- every command other than `enum` leaves the cursor unchanged, whatever it answers -/
theorem only_enum_moves_the_cursor (nodes : List NType) (n : Nat) (cur : Cursor) (line : String)
    (h : (tokens line).head? ≠ some "enum") : (handle nodes n cur line).1 = cur :=
  handle_non_enum_keeps_cursor nodes n cur line h

/-- ranges are expanded inclusively: `a..b` stands for exactly the numbers `a ≤ x ≤ b`, `a..` for
`a ≤ x ≤ n` -/
theorem range_is_inclusive (a b x : Int) : x ∈ rangeIncl a b ↔ a ≤ x ∧ x ≤ b :=
  mem_rangeIncl a b x

/-- per-variable results are joined by ';' in the order of the variables, each being the answer for
the assumptions extended by that variable -/
theorem variables_are_answered_one_by_one (op : List Int → Bool → Option String) (A V : List Int)
    (hV : V ≠ []) :
    opWithVars op A V = joinSemi (V.filterMap fun v => op (A ++ [v]) true) :=
  opWithVars_vars op A V hV

/-- the answer does not depend on the order in which the parameter groups are given: for a line
whose parameters form well-delimited groups of distinct kinds, any permutation of the groups is
either rejected as well or yields the same parameter record (hence the same reply).
`WellDelimited total` includes, for assumptions / variables, that the group is not one that
`get_numbers` rejects as "no value supplied" at the end of a line (e.g. `a 0`, which is accepted with
an empty list before another group and rejected at the end: for such a group the order matters) -/
theorem parameter_order_is_irrelevant (total : Nat) (gs gs' : List Group) (hp : gs.Perm gs')
    (hk : (gs.map Group.kind).Nodup) (hw : ∀ g ∈ gs, g.WellDelimited total) :
    ParamsAgree (paramLoop total (renderGroups gs).length.succ (renderGroups gs) {})
                (paramLoop total (renderGroups gs').length.succ (renderGroups gs') {}) :=
  paramLoop_perm total gs gs' hp hk hw

/-! ### a model loaded from a CNF: `Msg.handleC`, whose state is the cursor and the clause cache -/

/-- for a CNF-loaded model as well every reply is a result or an error with a documented code E2..E6 -/
theorem cnf_model_reply_is_result_or_coded_error (nodes : List NType) (n : Nat) (st : HState)
    (line : String) :
    match (handleC nodes n st line).2 with
    | .ok _ => True
    | .err c _ => 2 ≤ c ∧ c ≤ 6 :=
  handleC_code_ok nodes n st line

/-- a rejected line changes neither the cursor nor the clause cache -/
theorem cnf_model_rejected_line_changes_nothing (nodes : List NType) (n : Nat) (st : HState)
    (line : String) (c : Nat) (t : Option String) (h : (handleC nodes n st line).2 = .err c t) :
    (handleC nodes n st line).1 = st :=
  handleC_err_keeps_state nodes n st line c t h

/-- only `clause-update` and `undo-update` change the clause cache -/
theorem cache_changes_only_by_update_or_undo (nodes : List NType) (n : Nat) (st : HState)
    (line : String) (h : (tokens line).head? ≠ some "clause-update")
    (h' : (tokens line).head? ≠ some "undo-update") :
    (handleC nodes n st line).1.cache = st.cache :=
  handleC_cache_changes_only_by_update_or_undo nodes n st line h h'

/-- an accepted `clause-update` is an accepted update of the clause cache (`CC.update`, the function
the refinement theorem of C12 is about), and the cache afterwards is the one that update produces -/
theorem accepted_clause_update_is_a_cache_update (nodes : List NType) (n : Nat) (st : HState)
    (line : String) (c : CC.Cache) (t : Option String)
    (hcmd : (tokens line).head? = some "clause-update") (hc : st.cache = some c)
    (hok : (handleC nodes n st line).2 = .ok t) :
    ∃ total adds rmvs, (CC.update c (some total) adds rmvs).2 = .ok ∧
      (handleC nodes n st line).1.cache = some (CC.update c (some total) adds rmvs).1 :=
  handleC_update_is_cache_update nodes n st line c t hcmd hc hok

end Ddnnf.C13
