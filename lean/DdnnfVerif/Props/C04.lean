/-
  C04  Per-feature cardinalities equal the single-literal counts.
  `cardPD` mirrors `annotate_partial_derivatives` + `card_of_feature_with_partial_derivatives`
  (reverse-mode pass from the root down) as used by `card_of_each_feature`.
-/
import DdnnfVerif.Proofs.Features
import DdnnfVerif.Proofs.ExecQuery
namespace Ddnnf.C04

/-- one row per feature 1..n, in order -/
theorem one_row_per_feature (nodes : List NType) (n : Nat) : (cardPD nodes n).length = n :=
  cardPD_length nodes n

/-- row f holds the number of models that select f -/
theorem row_is_single_literal_count (nodes : List NType) (n : Nat) (h : WF nodes n)
    (hu : LitUnique nodes) (k : Nat) (hk : k < n) :
    (cardPD nodes n).getD k 0 = specCount nodes n [((k : Int) + 1)] :=
  cardPD_exact nodes n h hu k hk

/-- the table agrees with the single-literal count query -/
theorem row_eq_execQuery (nodes : List NType) (n : Nat) (h : WF nodes n)
    (hu : LitUnique nodes) (k : Nat) (hk : k < n) :
    (cardPD nodes n).getD k 0 = execQuery nodes n [((k : Int) + 1)] := by
  rw [row_is_single_literal_count nodes n h hu k hk]
  symm
  apply execQuery_exact nodes n h (pdLeaf_of_WF nodes n h hu)
  intro a ha
  simp only [List.mem_singleton] at ha
  subst ha
  constructor <;> omega

example : cardPD smallEx 4 = [4, 2, 2, 2] := by decide

end Ddnnf.C04
