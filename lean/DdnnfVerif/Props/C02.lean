/-
  C02  Count under a partial configuration is exact for every assumption list.
  `execQuery` mirrors `Ddnnf::execute_query` (dispatch on the length of the list: 0 / 1 / 2..=20 / >20,
  core shortcuts, marking strategy with the divide trick, default strategy).
-/
import DdnnfVerif.Proofs.ExecQuery
import DdnnfVerif.Proofs.WFCheck
namespace Ddnnf.C02

/-- For every well-formed node array with one leaf per literal and every list of literals over
features 1..n (any length, order, repetition, contradictions, core or dead features), the reported
cardinality is the number of assignments satisfying the circuit and all listed literals. -/
theorem count_under_assumptions_exact (nodes : List NType) (n : Nat) (h : WF nodes n)
    (hu : LitUnique nodes) (A : List Int) (hA : InRange A n) :
    execQuery nodes n A = specCount nodes n A :=
  execQuery_exact nodes n h (pdLeaf_of_WF nodes n h hu) A hA

/-- The marking strategy (lists of 1..20 literals) computes the same number as the default strategy
(longer lists), for every node array and every set of zeroed leaves — unconditionally. -/
theorem strategy_independent (nodes : List NType) (negs : List Int) :
    markerCount nodes negs = countA nodes negs (rootIx nodes) :=
  marker_eq_countA nodes negs

/-- The default strategy counts the listed models compatible with the assumptions (unconditional). -/
theorem default_counts_compatible_models (nodes : List NType) (negs : List Int) (i : Nat) :
    countA nodes negs i = ((models nodes i).filter (fun c => c.all (fun l => !negs.contains l))).length := by
  rw [countA_eq_length_modelsA, modelsA_eq_filter]

/-- Hence the answer does not depend on order, repetition or padding of the list. -/
theorem answer_depends_on_literal_set_only (nodes : List NType) (n : Nat) (h : WF nodes n)
    (hu : LitUnique nodes) (A B : List Int) (hA : InRange A n) (hB : InRange B n)
    (hsame : ∀ l, l ∈ A ↔ l ∈ B) :
    execQuery nodes n A = execQuery nodes n B := by
  rw [count_under_assumptions_exact nodes n h hu A hA, count_under_assumptions_exact nodes n h hu B hB]
  unfold specCount
  congr 1
  apply List.filter_congr
  intro b _
  congr 1
  rw [Bool.eq_iff_iff]
  simp only [List.all_eq_true]
  constructor
  · intro hh l hl; exact hh l ((hsame l).mpr hl)
  · intro hh l hl; exact hh l ((hsame l).mp hl)

/-- non-vacuity: the hypotheses hold for the circuit of tests/data/small_ex_c2d.nnf and the theorem
gives its partial counts -/
example : execQuery smallEx 4 [3, 4] = specCount smallEx 4 [3, 4] :=
  count_under_assumptions_exact smallEx 4 (wfB_sound _ _ (by decide)) (litUniqueB_sound _ (by decide))
    _ (by intro a ha; simp at ha; rcases ha with rfl | rfl <;> decide)
example : execQuery smallEx 4 [3, 4] = 1 := by decide

end Ddnnf.C02
