/-
  C07  Uniform random samples are valid, complete, seeded and uniform.
  `sampleAlong` re-executes `uniform_random_sampling` / `sample_node` along the random decisions of a
  run (or-node splits, shuffles).  The theorems quantify over ALL event lists, i.e. over every
  behaviour of the random source.
-/
import DdnnfVerif.Proofs.Sample
import DdnnfVerif.Proofs.Uniform
import DdnnfVerif.Props.C06
namespace Ddnnf.C07

/-- exactly k samples, each (up to the order of its literals) a model containing A — whatever the
random source does -/
theorem samples_are_k_models_containing_A (nodes : List NType) (n : Nat) (A : List Int) (amount : Nat)
    (evs : List SEv) (samples : List Config) (hwf : WF nodes n) (hu : LitUnique nodes) (hA : InRange A n)
    (hroot : nodes.getLast? ≠ some .tru)
    (h : sampleAlong nodes n A amount evs = some (some samples)) :
    samples.length = amount ∧
      ∀ c ∈ samples, ∃ m ∈ modelsA nodes (A.map (fun f => -f)) (rootIx nodes), c.Perm m :=
  sampleAlong_valid_wf nodes n A amount evs samples hwf (pdLeaf_of_WF nodes n hwf hu) hA hroot h

/-- the models containing A are complete configurations (one literal per feature) -/
theorem samples_range_over_complete_models (nodes : List NType) (n : Nat) (h : WF nodes n) (hu : LitUnique nodes)
    (A : List Int) (hA : InRange A n) :
    (∀ c ∈ modelsA nodes (A.map (fun f => -f)) (rootIx nodes),
        c ∈ models nodes (rootIx nodes) ∧ Complete n c ∧ ∀ a ∈ A, a ∈ c)
    ∧ (modelsA nodes (A.map (fun f => -f)) (rootIx nodes)).Nodup
    ∧ (modelsA nodes (A.map (fun f => -f)) (rootIx nodes)).length = specCount nodes n A :=
  C06.page_source_is_model_set nodes n h hu A hA

/-- 'unsatisfiable' exactly when no model contains A -/
theorem none_iff_unsat (nodes : List NType) (n : Nat) (h : WF nodes n) (hu : LitUnique nodes)
    (A : List Int) (hA : InRange A n) (amount : Nat) (evs : List SEv) :
    sampleAlong nodes n A amount evs = some none ↔ specCount nodes n A = 0 := by
  rw [sampleAlong_none_iff nodes n A amount evs (fun f hf => (hA f hf).2),
      execQuery_exact nodes n h (pdLeaf_of_WF nodes n h hu) A hA]

/-- the answer is a function of the loaded node array, the request and the random decisions: the same
seed on the same loaded model gives the same list -/
theorem same_decisions_same_samples (nodes : List NType) (n : Nat) (A : List Int) (amount : Nat)
    (evs₁ evs₂ : List SEv) (h : evs₁ = evs₂) :
    sampleAlong nodes n A amount evs₁ = sampleAlong nodes n A amount evs₂ := by rw [h]

/-- routing weights: if every or-node sends a sample to child c with probability temp c / temp node
and and-nodes combine independently, every model containing A has probability exactly 1 / count(A).
(That the RNG library realises these probabilities, and f64 rounding, are outside this theorem.) -/
theorem routing_weights_are_uniform (nodes : List NType) (negs : List Int) (i : Nat) :
    (∀ mw ∈ weightedModels nodes negs i, mw.2 = 1 / (countA nodes negs i : Rat))
    ∧ (weightedModels nodes negs i).map (·.1) = modelsA nodes negs i :=
  ⟨branch_weight_eq nodes negs i, weightedModels_fst nodes negs i⟩

end Ddnnf.C07
