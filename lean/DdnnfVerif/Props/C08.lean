/-
  C08  Atomic sets are exactly the classes of always-equal features.

  `atomicSets nodes n cands A cross samples` is the model of `get_atomic_sets` (grouping by
  `count(A, f)`, pair loop with `equiv` skip / sample prefilter / confirming count query, union-find
  as a list of classes, `subsets`, plain and cross clean-up).  The prefilter samples are a parameter:
  the theorems hold for EVERY list of samples that consists of models containing `A`
  (`SamplesOK`), and `prefilter_samples_are_admissible` shows that whatever the random source does,
  the 512 samples `uniform_random_sampling` hands to the prefilter are of that kind (C07).
-/
import DdnnfVerif.Proofs.AtomicCross
import DdnnfVerif.Props.C07
import DdnnfVerif.Proofs.UnionFind5
namespace Ddnnf.C08

/-- plain mode: `S` is reported iff it is the ascending list of a class, with at least two members,
of candidate features that take the same value in every model containing `A` -/
theorem plain_report_is_exactly_the_classes (nodes : List NType) (n : Nat) (h : WF nodes n)
    (hu : LitUnique nodes) (A : List Int) (hA : InRange A n) (cands : List Nat)
    (hc : ∀ f ∈ cands, 1 ≤ f ∧ f ≤ n) (samples : List Config)
    (hs : SamplesOK nodes A samples) (S : List Int) :
    S ∈ atomicSets nodes n cands A false samples ↔
      (S.Pairwise (fun a b => a < b) ∧ 2 ≤ S.length ∧ (∀ x ∈ S, x > 0 ∧ x.toNat ∈ cands) ∧
        (∀ x ∈ S, ∀ y ∈ S, AlwaysEqual (modelsWith nodes A) x y) ∧
        ∀ f ∈ cands, (∃ x ∈ S, AlwaysEqual (modelsWith nodes A) x (f : Int)) → (f : Int) ∈ S) :=
  atomicSets_plain_exact nodes n h hu A hA cands hc samples hs S

/-- plain mode: every class is listed once; the report is sorted lexicographically -/
theorem plain_report_lists_each_class_once (nodes : List NType) (n : Nat) (h : WF nodes n)
    (hu : LitUnique nodes) (A : List Int) (hA : InRange A n) (cands : List Nat)
    (hc : ∀ f ∈ cands, 1 ≤ f ∧ f ≤ n) (samples : List Config)
    (hs : SamplesOK nodes A samples) :
    (atomicSets nodes n cands A false samples).Nodup ∧
      (atomicSets nodes n cands A false samples).Pairwise (fun a b => lexLt a b = true) :=
  atomicSets_plain_nodup_sorted nodes n h hu A hA cands hc samples hs

/-- cross mode: `S` is reported iff it is (in the order of `|·|`) a class with at least two members
of the signed literals `±f` of the candidates whose first literal is negative … -/
theorem cross_report_is_exactly_the_classes (nodes : List NType) (n : Nat) (h : WF nodes n)
    (hu : LitUnique nodes) (A : List Int) (hA : InRange A n) (hsat : 0 < specCount nodes n A)
    (cands : List Nat) (hc : ∀ f ∈ cands, 1 ≤ f ∧ f ≤ n) (samples : List Config)
    (hs : SamplesOK nodes A samples) (S : List Int) :
    S ∈ atomicSets nodes n cands A true samples ↔
      (IsCrossClass nodes A cands S ∧ S.headD 0 < 0) :=
  atomicSets_cross_exact nodes n h hu A hA hsat cands hc samples hs S

/-- … so that of every class and its mirror image (all members negated) exactly one is reported -/
theorem cross_report_once_up_to_negation (nodes : List NType) (n : Nat) (h : WF nodes n)
    (hu : LitUnique nodes) (A : List Int) (hA : InRange A n) (hsat : 0 < specCount nodes n A)
    (cands : List Nat) (hc : ∀ f ∈ cands, 1 ≤ f ∧ f ≤ n) (samples : List Config)
    (hs : SamplesOK nodes A samples) (C : List Int) (hC : IsCrossClass nodes A cands C) :
    (C ∈ atomicSets nodes n cands A true samples ∧
        C.map (fun a => -a) ∉ atomicSets nodes n cands A true samples) ∨
      (C ∉ atomicSets nodes n cands A true samples ∧
        C.map (fun a => -a) ∈ atomicSets nodes n cands A true samples) :=
  atomicSets_cross_one_of_mirror nodes n h hu A hA hsat cands hc samples hs C hC

theorem cross_report_lists_each_class_once (nodes : List NType) (n : Nat) (h : WF nodes n)
    (hu : LitUnique nodes) (A : List Int) (hA : InRange A n) (cands : List Nat)
    (hc : ∀ f ∈ cands, 1 ≤ f ∧ f ≤ n) (samples : List Config)
    (hs : SamplesOK nodes A samples) :
    (atomicSets nodes n cands A true samples).Nodup ∧
      (atomicSets nodes n cands A true samples).Pairwise
        (fun a b => (a.headD 0).natAbs < (b.headD 0).natAbs) :=
  atomicSets_cross_nodup_sorted nodes n h hu A hA cands hc samples hs

/-- the samples the prefilter uses are admissible for every behaviour of the random source: a run
of the sampler (any decisions `evs`) only returns models containing `A` -/
theorem prefilter_samples_are_admissible (nodes : List NType) (n : Nat) (A : List Int) (amount : Nat)
    (evs : List SEv) (samples : List Config) (hwf : WF nodes n) (hu : LitUnique nodes)
    (hA : InRange A n) (hroot : nodes.getLast? ≠ some .tru)
    (h : sampleAlong nodes n A amount evs = some (some samples)) :
    SamplesOK nodes A samples := by
  intro s hs
  obtain ⟨_, hv⟩ := C07.samples_are_k_models_containing_A nodes n A amount evs samples hwf hu hA hroot h
  obtain ⟨m, hm, hp⟩ := hv s hs
  obtain ⟨hsrc, _, _⟩ := C07.samples_range_over_complete_models nodes n hwf hu A hA
  obtain ⟨hmm, _, hAm⟩ := hsrc m hm
  refine ⟨m, ?_, hp⟩
  unfold modelsWith
  rw [List.mem_filter]
  refine ⟨hmm, ?_⟩
  rw [List.all_eq_true]
  intro a ha
  simpa using hAm a ha

/-- the empty sample list (prefilter switched off) is admissible: the prefilter is an optimisation,
the report does not depend on it -/
theorem report_independent_of_samples (nodes : List NType) (n : Nat) (h : WF nodes n)
    (hu : LitUnique nodes) (A : List Int) (hA : InRange A n) (cands : List Nat)
    (hc : ∀ f ∈ cands, 1 ≤ f ∧ f ≤ n) (samples : List Config)
    (hs : SamplesOK nodes A samples) (S : List Int) :
    S ∈ atomicSets nodes n cands A false samples ↔ S ∈ atomicSets nodes n cands A false [] := by
  rw [atomicSets_plain_exact nodes n h hu A hA cands hc samples hs S,
    atomicSets_plain_exact nodes n h hu A hA cands hc [] (by intro s hs; cases hs) S]

/-! ### the union-find structure of the code (Model/UnionFind.lean)

`UF.atomicSetsUF` is the same algorithm with `UnionFind<i16>` transcribed as it is written: `parents`
and `rank` maps, `find` with path compression (and insertion of unknown nodes), `equiv`, union by rank
with the rank entries created for both roots before the equality test, `subsets` over the keys of
`rank`.  It is what the driver executes; the theorems above are about the class-list abstraction. -/

/-- the fuel of the transcribed `find` is never observable: on every state the code can reach (parents
form a forest) any larger fuel gives the same result -/
theorem union_find_fuel_is_sufficient (s : UF.State) (h : UF.WF s) (x : Int) (f : Nat)
    (hf : s.parents.length < f) : UF.findF f s x = UF.find s x :=
  UF.findF_eq_find s h x f hf

/-- plain mode, unconditionally (any node array, any candidates incl. duplicates, any samples): the
transcription with the real union-find reports exactly what the class model reports -/
theorem union_find_refines_the_class_model_plain (nodes : List NType) (n : Nat) (cands : List Nat)
    (A : List Int) (samples : List Config) :
    UF.atomicSetsUF nodes n cands A false samples = atomicSets nodes n cands A false samples :=
  UF.atomicSetsUF_eq_plain nodes n cands A samples

/-- both modes under the hypotheses of the theorems above (cross mode needs satisfiable assumptions: no
class then contains a literal together with its complement, whose stored order the clean-up would
expose) -/
theorem union_find_refines_the_class_model (nodes : List NType) (n : Nat) (h : WF nodes n)
    (hu : LitUnique nodes) (A : List Int) (hA : InRange A n) (cands : List Nat)
    (hc : ∀ f ∈ cands, 1 ≤ f ∧ f ≤ n) (samples : List Config) (hs : SamplesOK nodes A samples)
    (cross : Bool) (hsat : cross = true → 0 < specCount nodes n A) :
    UF.atomicSetsUF nodes n cands A cross samples = atomicSets nodes n cands A cross samples :=
  UF.atomicSetsUF_eq_of_wf nodes n h hu A hA cands hc samples hs cross hsat

/-- … and whenever the prefilter has at least one sample (the code draws 512 unless the assumptions are
unsatisfiable), for arbitrary arrays and candidates -/
theorem union_find_refines_the_class_model_with_samples (nodes : List NType) (n : Nat)
    (cands : List Nat) (A : List Int) (cross : Bool) (samples : List Config) (hs : samples ≠ []) :
    UF.atomicSetsUF nodes n cands A cross samples = atomicSets nodes n cands A cross samples :=
  UF.atomicSetsUF_eq_of_samples nodes n cands A cross samples hs

end Ddnnf.C08
