/-
  C15  Parallel query-file evaluation is byte-identical to single-threaded evaluation.
  Workers send `(index, query, answer)` in any order; the main thread sorts and formats.
-/
import DdnnfVerif.Proofs.QueryFileOrder
namespace Ddnnf.C15
open Ddnnf.QueryFile

/-- for EVERY order of arrival (every scheduling and number of workers) the output equals the
single-threaded output, line by line -/
theorem parallel_output_equals_sequential (f : List Int → String) (qs : List (List Int))
    (arrivals : List (Nat × List Int × String)) (h : arrivals.Perm (indexed f qs 0)) :
    parOut arrivals = seqOut f qs :=
  parOut_eq_seqOut f qs arrivals h

theorem exactly_one_line_per_query (f : List Int → String) (qs : List (List Int))
    (arrivals : List (Nat × List Int × String)) (h : arrivals.Perm (indexed f qs 0)) :
    (parOut arrivals).length = qs.length :=
  one_line_per_query f qs arrivals h

example : parOut [(2, [3], "c"), (0, [1, -2], "a"), (1, [], "b")] = seqOut (fun q => if q = [1, -2] then "a" else if q = [] then "b" else "c") [[1, -2], [], [3]] := by decide

end Ddnnf.C15
