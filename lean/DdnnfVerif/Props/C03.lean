/-
  C03  Satisfiability answers agree with the model set.
  `satQuery` mirrors `Ddnnf::sat` / `sat_propagate`: the marked nodes are the least set closed under
  "leaf ¬f; and-node with a marked child; or-node (reached from a marked child) all of whose children
  are marked or have count 0".
-/
import DdnnfVerif.Proofs.Sat
import DdnnfVerif.Proofs.WFCheck
import DdnnfVerif.Proofs.SatState
namespace Ddnnf.C03

/-- SAT answers true exactly when at least one model contains all listed literals. -/
theorem sat_agrees_with_models (nodes : List NType) (n : Nat) (h : WF nodes n) (hu : LitUnique nodes)
    (hsat : 0 < count nodes (rootIx nodes)) (A : List Int) (hA : InRange A n) :
    satQuery nodes n A = decide (0 < specCount nodes n A) :=
  satQuery_exact nodes n h (pdLeaf_of_WF nodes n h hu) hsat A hA

/-- … i.e. it agrees with `count > 0` on every input. -/
theorem sat_iff_count_positive (nodes : List NType) (n : Nat) (h : WF nodes n) (hu : LitUnique nodes)
    (hsat : 0 < count nodes (rootIx nodes)) (A : List Int) (hA : InRange A n) :
    satQuery nodes n A = decide (0 < execQuery nodes n A) :=
  sat_iff_count_pos nodes n h (pdLeaf_of_WF nodes n h hu) hsat A hA

/-- Unconditional invariant of the propagation state: a node is marked (or has count 0) exactly when
no model of the node is compatible with the literals propagated so far.  The state therefore depends
only on the set of literals propagated, which is why a kept state answers like a fresh query for all
literals added so far. -/
theorem mark_iff_no_compatible_model (nodes : List NType) (negs : List Int) (i : Nat) :
    (((satMarks nodes negs).getD i (false, 0)).1 = true ∨ count nodes i = 0) ↔ countA nodes negs i = 0 :=
  satMark_iff nodes negs i

example : satQuery smallEx 4 [3, 4] = true ∧ satQuery smallEx 4 [-1] = false := by decide

/-- The imperative algorithm (`propagate_mark` recursing from the complementary leaves upwards
through the parents, with the "already marked" cut, the or-test at the moment a child reports and
the early return at the root; `Model/SatState.lean`) on a fresh vector answers like the fixpoint
model `satQuery`. -/
theorem imperative_propagation_answers_like_the_fixpoint (nodes : List NType) (n : Nat)
    (htopo : Topo nodes) (hne : nodes ≠ []) (hu : LitUnique nodes) (A : List Int) :
    SatS.sat nodes n A = satQuery nodes n A :=
  SatS.sat_eq_satQuery nodes n htopo hne hu A

/-- Kept vector (decision propagation): as long as all earlier calls answered `true`, the k-th
call on the vector the earlier calls left behind answers like a fresh query for all literals
passed so far. -/
theorem kept_state_answers_like_a_fresh_query (nodes : List NType) (n : Nat) (htopo : Topo nodes)
    (hne : nodes ≠ []) (hu : LitUnique nodes) (chunks : List (List Int)) (k : Nat)
    (hk : k < chunks.length)
    (hprev : ∀ j, j < k →
      ((SatS.satChunks nodes n (Array.replicate nodes.length false) chunks).2).getD j false = true) :
    ((SatS.satChunks nodes n (Array.replicate nodes.length false) chunks).2).getD k false
      = satQuery nodes n ((chunks.take (k + 1)).flatten) :=
  SatS.satChunks_spec nodes n htopo hne hu chunks k hk hprev

end Ddnnf.C03
