/-
  `queries_multi_thread` (model: `Model/Concurrency.lean`, namespace `Ddnnf.QueryFile`): the workers
  deliver `(index, query, answer)` in any order; the results are sorted by index and formatted.
  For every order of arrival the output is the output of the single-threaded evaluation.
-/
import DdnnfVerif.Model.Concurrency

namespace Ddnnf
namespace QueryFile

abbrev Res := Nat × List Int × String

/-- sorted by index -/
def SortedIdx (xs : List Res) : Prop := xs.Pairwise (fun a b => a.1 ≤ b.1)

theorem insertIdx_perm (x : Res) (xs : List Res) : (insertIdx x xs).Perm (x :: xs) := by
  induction xs with
  | nil => exact List.Perm.refl _
  | cons y ys ih =>
    unfold insertIdx
    by_cases h : x.1 ≤ y.1
    · rw [if_pos h]
    · rw [if_neg h]
      exact (List.Perm.cons y ih).trans (List.Perm.swap x y ys)

/-- sorting only reorders -/
theorem sortIdx_perm (xs : List Res) : (sortIdx xs).Perm xs := by
  induction xs with
  | nil => exact List.Perm.refl _
  | cons x xs ih =>
    show (insertIdx x (sortIdx xs)).Perm (x :: xs)
    exact (insertIdx_perm x _).trans (List.Perm.cons x ih)

theorem insertIdx_sorted (x : Res) (xs : List Res) (h : SortedIdx xs) :
    SortedIdx (insertIdx x xs) := by
  unfold SortedIdx at h ⊢
  induction xs with
  | nil => simp [insertIdx]
  | cons y ys ih =>
    rw [List.pairwise_cons] at h
    unfold insertIdx
    by_cases hxy : x.1 ≤ y.1
    · rw [if_pos hxy]
      refine List.Pairwise.cons ?_ (List.Pairwise.cons h.1 h.2)
      intro z hz
      rcases List.mem_cons.mp hz with rfl | hz
      · exact hxy
      · have := h.1 z hz; omega
    · rw [if_neg hxy]
      refine List.Pairwise.cons ?_ (ih h.2)
      intro z hz
      rcases List.mem_cons.mp ((insertIdx_perm x ys).mem_iff.mp hz) with rfl | hz
      · omega
      · exact h.1 z hz

/-- the result of sorting is sorted by index -/
theorem sortIdx_sorted (xs : List Res) : SortedIdx (sortIdx xs) := by
  induction xs with
  | nil => exact List.Pairwise.nil
  | cons x xs ih => exact insertIdx_sorted x _ ih

/-! ### what the workers produce -/

theorem indexed_fst_ge (f : List Int → String) (qs : List (List Int)) (start : Nat) :
    ∀ r ∈ indexed f qs start, start ≤ r.1 := by
  induction qs generalizing start with
  | nil => intro r hr; simp [indexed] at hr
  | cons q qs ih =>
    intro r hr
    simp only [indexed, List.mem_cons] at hr
    rcases hr with rfl | hr
    · exact Nat.le_refl _
    · have := ih (start + 1) r hr; omega

/-- the indices are strictly increasing: in particular pairwise distinct -/
theorem indexed_strict (f : List Int → String) (qs : List (List Int)) (start : Nat) :
    (indexed f qs start).Pairwise (fun a b => a.1 < b.1) := by
  induction qs generalizing start with
  | nil => exact List.Pairwise.nil
  | cons q qs ih =>
    simp only [indexed]
    refine List.Pairwise.cons ?_ (ih (start + 1))
    intro r hr
    have := indexed_fst_ge f qs (start + 1) r hr
    show start < r.1
    omega

theorem indexed_sorted (f : List Int → String) (qs : List (List Int)) (start : Nat) :
    SortedIdx (indexed f qs start) :=
  (indexed_strict f qs start).imp (fun h => Nat.le_of_lt h)

theorem length_indexed (f : List Int → String) (qs : List (List Int)) (start : Nat) :
    (indexed f qs start).length = qs.length := by
  induction qs generalizing start with
  | nil => rfl
  | cons q qs ih => simp [indexed, ih]

/-- two entries of a list with strictly increasing indices that have the same index are equal -/
theorem eq_of_fst_eq_of_strict {l : List Res} (hl : l.Pairwise (fun a b => a.1 < b.1))
    {a b : Res} (ha : a ∈ l) (hb : b ∈ l) (hab : a.1 = b.1) : a = b := by
  induction l with
  | nil => cases ha
  | cons z zs ih =>
    rw [List.pairwise_cons] at hl
    rcases List.mem_cons.mp ha with rfl | ha' <;> rcases List.mem_cons.mp hb with rfl | hb'
    · rfl
    · have := hl.1 b hb'; omega
    · have := hl.1 a ha'; omega
    · exact ih hl.2 ha' hb'

/-- uniqueness of sorted permutations with distinct keys: a list sorted by index that is a
permutation of a list with strictly increasing indices is that list -/
theorem eq_of_sorted_of_perm_strict {xs ys : List Res} (hx : SortedIdx xs)
    (hy : ys.Pairwise (fun a b => a.1 < b.1)) (hp : xs.Perm ys) : xs = ys := by
  apply List.Perm.eq_of_pairwise _ hx (hy.imp (fun h => Nat.le_of_lt h)) hp
  intro a b ha hb hab hba
  exact eq_of_fst_eq_of_strict hy (hp.mem_iff.mp ha) hb (by omega)

/-- the results in file order are already sorted: sorting does not change them -/
theorem sortIdx_indexed (f : List Int → String) (qs : List (List Int)) (start : Nat) :
    sortIdx (indexed f qs start) = indexed f qs start :=
  eq_of_sorted_of_perm_strict (sortIdx_sorted _) (indexed_strict f qs start) (sortIdx_perm _)

/-- for every order of arrival, sorting restores the file order -/
theorem sortIdx_arrivals (f : List Int → String) (qs : List (List Int)) (start : Nat)
    (arrivals : List Res) (h : arrivals.Perm (indexed f qs start)) :
    sortIdx arrivals = indexed f qs start :=
  eq_of_sorted_of_perm_strict (sortIdx_sorted _) (indexed_strict f qs start)
    ((sortIdx_perm _).trans h)

theorem map_fmt_indexed (f : List Int → String) (qs : List (List Int)) (start : Nat) :
    (indexed f qs start).map (fun r => fmtLine r.2.1 r.2.2) = seqOut f qs := by
  induction qs generalizing start with
  | nil => rfl
  | cons q qs ih =>
    simp only [indexed, List.map_cons, seqOut]
    rw [ih (start + 1)]
    rfl

/-- for EVERY order of arrival of the results (every scheduling of the workers) the multi-threaded
output is the single-threaded output, line by line -/
theorem parOut_eq_seqOut (f : List Int → String) (qs : List (List Int)) (arrivals : List Res)
    (h : arrivals.Perm (indexed f qs 0)) : parOut arrivals = seqOut f qs := by
  unfold parOut
  rw [sortIdx_arrivals f qs 0 arrivals h, map_fmt_indexed]

theorem one_line_per_query (f : List Int → String) (qs : List (List Int)) (arrivals : List Res)
    (h : arrivals.Perm (indexed f qs 0)) : (parOut arrivals).length = qs.length := by
  rw [parOut_eq_seqOut f qs arrivals h, seqOut, List.length_map]

/-- the i-th line of the output is the formatted answer to the i-th query of the file -/
theorem parOut_getElem (f : List Int → String) (qs : List (List Int)) (arrivals : List Res)
    (h : arrivals.Perm (indexed f qs 0)) (i : Nat) (hi : i < qs.length) :
    (parOut arrivals)[i]? = some (fmtLine qs[i] (f qs[i])) := by
  rw [parOut_eq_seqOut f qs arrivals h, seqOut, List.getElem?_map, List.getElem?_eq_getElem hi]
  rfl

/-! ### non-vacuity -/

example :
    parOut [(2, [3], "c"), (0, [1, -2], "a"), (1, [], "b")]
      = seqOut (fun q => if q = [1, -2] then "a" else if q = [] then "b" else "c")
          [[1, -2], [], [3]] := by
  decide

end QueryFile
end Ddnnf
