/-
  Denotation of the graphs of the d4 loader (part 6, phase 3): the True/False elimination keeps the
  value of every node; removed nodes were false.

  Everything is stated for a fixed assignment `σ` and a fixed valuation `v`: if `v` is a model of the
  graph before (`Model σ g v`) then it is a model of the graph after, unless the error flag is raised.
  For a removed node `x` the equation `v x = stepV … x = false` says that `x` was false.

  * `deleteChain_sem`: with `ChainInv` (all `and` nodes still to be visited are false and are the only
    nodes whose equation may be broken) and enough fuel;  `deleteFuel` is enough (`pot`);
  * `elimNode_sem`, `eliminate_sem`;
  * `ERel`: what the elimination does to kinds / successor lists / the error flag, unconditionally.
-/
import DdnnfVerif.Proofs.LoadSem5

namespace Ddnnf.D4

/-! ### unconditional facts -/

/-- kinds only change `and ↦ removed` and `or ↦ tru`, successor lists only shrink, the error flag is sticky -/
structure ERel (g g' : G) : Prop where
  kinds : ∀ x, g'.kindOf x = g.kindOf x ∨ (g'.kindOf x = none ∧ g.kindOf x = some .and) ∨
    (g'.kindOf x = some .tru ∧ g.kindOf x = some .or)
  outs : ∀ x, ∀ c ∈ g'.outs.getD x [], c ∈ g.outs.getD x []
  err : g.err = true → g'.err = true

theorem ERel.refl (g : G) : ERel g g := ⟨fun _ => Or.inl rfl, fun _ _ h => h, fun h => h⟩

theorem ERel.trans {g g' g'' : G} (h1 : ERel g g') (h2 : ERel g' g'') : ERel g g'' := by
  refine ⟨?_, fun x c hc => h1.outs x c (h2.outs x c hc), fun h => h2.err (h1.err h)⟩
  intro x
  rcases h2.kinds x with e2 | ⟨e2, e2'⟩ | ⟨e2, e2'⟩
  · rw [e2]; exact h1.kinds x
  · rcases h1.kinds x with e1 | ⟨e1, _⟩ | ⟨e1, _⟩
    · right; left; exact ⟨e2, by rw [← e1]; exact e2'⟩
    · rw [e1] at e2'; cases e2'
    · rw [e1] at e2'; cases e2'
  · rcases h1.kinds x with e1 | ⟨e1, _⟩ | ⟨e1, _⟩
    · right; right; exact ⟨e2, by rw [← e1]; exact e2'⟩
    · rw [e1] at e2'; cases e2'
    · rw [e1] at e2'; cases e2'

theorem erel_err (g : G) : ERel g { g with err := true } := ⟨fun _ => Or.inl rfl, fun _ _ h => h, fun _ => rfl⟩

theorem erel_removeEdge (g : G) (a b : Nat) : ERel g (g.removeEdge a b) := by
  refine ⟨fun _ => Or.inl rfl, ?_, fun h => h⟩
  intro x c hc
  rw [outs_removeEdge] at hc
  split at hc
  · rename_i h; rw [← h.1]; exact List.mem_of_mem_erase hc
  · exact hc

theorem erel_removeNode (g : G) (x : Nat) (hk : g.kindOf x = some .and) : ERel g (g.removeNode x) := by
  refine ⟨?_, ?_, fun h => by rw [removeNode_err]; exact h⟩
  · intro y
    rw [removeNode_kindOf]
    split
    · rename_i h; subst h; right; left; exact ⟨rfl, hk⟩
    · left; rfl
  · intro y c hc
    rw [removeNode_outs] at hc
    split at hc
    · cases hc
    · split at hc
      · exact (List.mem_filter.1 hc).1
      · exact hc

theorem erel_makeTrue (g : G) (x : Nat) (hk : g.kindOf x = some .or) : ERel g (g.makeTrue x) := by
  refine ⟨?_, ?_, fun h => by rw [makeTrue_err]; exact h⟩
  · intro y
    rw [makeTrue_kindOf g x y (kindOf_lt hk)]
    split
    · rename_i h; subst h; right; right; exact ⟨rfl, hk⟩
    · left; rfl
  · intro y c hc
    rw [makeTrue_outs] at hc
    split at hc
    · cases hc
    · exact hc

/-! ### `deleteChain` -/

/-- what `deleteChain` does after it has looked at the current node -/
def chainNext (g : G) (fuel : Nat) (pending : List Nat) : G :=
  match pending.reverse with
  | [] => g
  | h :: restRev => deleteChain g fuel h restRev.reverse

theorem chainNext_nil (g : G) (fuel : Nat) : chainNext g fuel [] = g := rfl

theorem chainNext_concat (g : G) (fuel : Nat) (l : List Nat) (h : Nat) :
    chainNext g fuel (l ++ [h]) = deleteChain g fuel h l := by
  unfold chainNext
  simp

theorem deleteChain_none (g : G) (fuel current : Nat) (pending : List Nat) (hk : g.kindOf current = none) :
    deleteChain g (fuel + 1) current pending = { g with err := true } := by
  rw [deleteChain]; simp only [hk]

theorem deleteChain_and (g : G) (fuel current : Nat) (pending : List Nat)
    (hk : g.kindOf current = some .and) :
    deleteChain g (fuel + 1) current pending =
      chainNext (g.removeNode current) fuel (pending ++ g.ins.getD current []) := by
  rw [deleteChain]; simp only [hk]; rfl

theorem deleteChain_other (g : G) (fuel current : Nat) (pending : List Nat) (k : GK)
    (hk : g.kindOf current = some k) (hne : k ≠ .and) :
    deleteChain g (fuel + 1) current pending = chainNext g fuel pending := by
  rw [deleteChain]
  have : (k == GK.and) = false := by simpa using hne
  simp only [hk, this]; rfl

theorem erel_deleteChain : ∀ (fuel : Nat) (g : G) (current : Nat) (pending : List Nat),
    ERel g (deleteChain g fuel current pending) := by
  intro fuel
  induction fuel with
  | zero => intro g _ _; exact ERel.refl g
  | succ fuel ih =>
    intro g current pending
    have next : ∀ g' p, ERel g' (chainNext g' fuel p) := by
      intro g' p
      rcases List.eq_nil_or_concat p with e | ⟨l, b, e⟩
      · subst e; exact ERel.refl g'
      · rw [List.concat_eq_append] at e; subst e; rw [chainNext_concat]; exact ih g' b l
    cases hk : g.kindOf current with
    | none => rw [deleteChain_none g fuel current pending hk]; exact erel_err g
    | some k =>
      by_cases hand : k = .and
      · subst hand
        rw [deleteChain_and g fuel current pending hk]
        exact (erel_removeNode g current hk).trans (next _ _)
      · rw [deleteChain_other g fuel current pending k hk hand]; exact next _ _

/-- a model, up to the error flag -/
def Res (σ : Assignment) (v : Nat → Bool) (g : G) : Prop := g.err = true ∨ (Model σ g v ∧ InsOK g)

structure ChainInv (σ : Assignment) (v : Nat → Bool) (g : G) (todo : List Nat) : Prop where
  fls : ∀ y ∈ todo, g.kindOf y = some .and → v y = false
  eqn : ∀ y, v y = stepV σ g v y ∨ (y ∈ todo ∧ g.kindOf y = some .and)
  ins : InsOK g

theorem ChainInv.congr {σ : Assignment} {v : Nat → Bool} {g : G} {todo todo' : List Nat}
    (h : ChainInv σ v g todo) (hiff : ∀ y, y ∈ todo ↔ y ∈ todo') : ChainInv σ v g todo' :=
  ⟨fun y hy => h.fls y ((hiff y).2 hy), fun y => (h.eqn y).imp id (fun hh => ⟨(hiff y).1 hh.1, hh.2⟩), h.ins⟩

theorem all_false_of_mem {l : List Nat} {v : Nat → Bool} {c : Nat} (hc : c ∈ l) (hv : v c = false) :
    l.all v = false := by
  rw [List.all_eq_false]
  exact ⟨c, hc, by simp [hv]⟩

theorem any_true_of_mem {l : List Nat} {v : Nat → Bool} {c : Nat} (hc : c ∈ l) (hv : v c = true) :
    l.any v = true := List.any_eq_true.2 ⟨c, hc, hv⟩

theorem any_filter_ne {l : List Nat} {v : Nat → Bool} {c : Nat} (hv : v c = false) :
    (l.filter (· != c)).any v = l.any v := by
  induction l with
  | nil => rfl
  | cons a l ih =>
    by_cases e : a = c
    · subst e; simp [hv, ih]
    · have : (a != c) = true := by simpa using e
      simp [this, ih]

/-- filtering a false successor out of the list of a node that is not an `and` -/
theorem stepV_filter (σ : Assignment) (g g' : G) (v : Nat → Bool) (y c : Nat)
    (hk : g'.kindOf y = g.kindOf y) (ho : g'.outs.getD y [] = (g.outs.getD y []).filter (· != c))
    (hv : v c = false) (hnand : g.kindOf y ≠ some .and) : stepV σ g' v y = stepV σ g v y := by
  unfold stepV
  rw [hk, ho]
  cases hky : g.kindOf y with
  | none => rfl
  | some k =>
    cases k with
    | and => exact absurd hky hnand
    | or => exact any_filter_ne hv
    | tru => rfl
    | fls => rfl
    | lit l => rfl

/-- removing a false `and` node: the broken equations move to its `and` predecessors -/
theorem chainInv_removeNode {σ : Assignment} {v : Nat → Bool} {g : G} {current : Nat} {pending : List Nat}
    (h : ChainInv σ v g (current :: pending)) (hk : g.kindOf current = some .and) :
    ChainInv σ v (g.removeNode current) (pending ++ g.ins.getD current []) := by
  have hcur : v current = false := h.fls current (List.mem_cons_self ..) hk
  have hkind : ∀ y, y ≠ current → (g.removeNode current).kindOf y = g.kindOf y := by
    intro y hy; rw [removeNode_kindOf, if_neg hy]
  refine ⟨?_, ?_, insOK_removeNode h.ins current⟩
  · intro y hy hky
    have hyc : y ≠ current := by
      intro e; subst e; rw [removeNode_kindOf, if_pos rfl] at hky; cases hky
    rw [hkind y hyc] at hky
    rcases List.mem_append.1 hy with hy | hy
    · exact h.fls y (List.mem_cons_of_mem _ hy) hky
    · rcases h.eqn y with e | ⟨hm, _⟩
      · rw [e]
        simp only [stepV, hky]
        exact all_false_of_mem (h.ins.mem hy) hcur
      · exact h.fls y hm hky
  · intro y
    by_cases hyc : y = current
    · subst hyc
      left
      rw [hcur]
      simp only [stepV, removeNode_kindOf, if_true]
    · by_cases hyin : y ∈ g.ins.getD current []
      · by_cases hya : g.kindOf y = some .and
        · right; exact ⟨List.mem_append_right _ hyin, by rw [hkind y hyc]; exact hya⟩
        · left
          rcases h.eqn y with e | ⟨_, hh⟩
          · rw [e]
            symm
            apply stepV_filter σ g _ v y current (hkind y hyc) _ hcur hya
            rw [removeNode_outs, if_neg hyc, if_pos hyin]
          · exact absurd hh hya
      · have ho : (g.removeNode current).outs.getD y [] = g.outs.getD y [] := by
          rw [removeNode_outs, if_neg hyc, if_neg hyin]
        rcases h.eqn y with e | ⟨hm, hh⟩
        · left
          rw [e]
          exact (stepV_congr_g σ g _ v v y (hkind y hyc) ho (fun _ _ => rfl)).symm
        · right
          rcases List.mem_cons.1 hm with e | hm
          · exact absurd e hyc
          · exact ⟨List.mem_append_left _ hm, by rw [hkind y hyc]; exact hh⟩

/-- `deleteChain` with enough fuel: if all `and` nodes to be visited are false and all other nodes satisfy
their equation, the result satisfies all equations (or the error flag is raised) -/
theorem deleteChain_sem (σ : Assignment) (v : Nat → Bool) : ∀ (fuel : Nat) (g : G) (current : Nat)
    (pending : List Nat), pending.length + pot g + 1 ≤ fuel → ChainInv σ v g (current :: pending) →
    Res σ v (deleteChain g fuel current pending) := by
  intro fuel
  induction fuel with
  | zero => intro g _ _ h; omega
  | succ fuel ih =>
    intro g current pending hfuel hinv
    have next : ∀ g' p, p.length + pot g' ≤ fuel → ChainInv σ v g' p → Res σ v (chainNext g' fuel p) := by
      intro g' p hf hi
      rcases List.eq_nil_or_concat p with e | ⟨l, b, e⟩
      · subst e
        rw [chainNext_nil]
        right
        refine ⟨fun y => ?_, hi.ins⟩
        rcases hi.eqn y with e | ⟨hm, _⟩
        · exact e
        · cases hm
      · rw [List.concat_eq_append] at e
        subst e
        rw [chainNext_concat]
        apply ih g' b l
        · simp only [List.length_append, List.length_singleton] at hf
          omega
        · exact hi.congr (fun y => by simp [or_comm])
    cases hk : g.kindOf current with
    | none => rw [deleteChain_none g fuel current pending hk]; exact Or.inl rfl
    | some k =>
      by_cases hand : k = .and
      · subst hand
        rw [deleteChain_and g fuel current pending hk]
        apply next
        · have := pot_removeNode g current (kindOf_lt hk)
          simp only [List.length_append]
          omega
        · exact chainInv_removeNode hinv hk
      · rw [deleteChain_other g fuel current pending k hk hand]
        apply next
        · omega
        · refine ⟨fun y hy => hinv.fls y (List.mem_cons_of_mem _ hy), ?_, hinv.ins⟩
          intro y
          rcases hinv.eqn y with e | ⟨hm, hh⟩
          · exact Or.inl e
          · right
            rcases List.mem_cons.1 hm with e | hm
            · subst e; rw [hk] at hh; cases hh; exact absurd rfl hand
            · exact ⟨hm, hh⟩

/-! ### `elimNode` and `eliminate` -/

theorem erel_go (nx : Nat) : ∀ (cs : List Nat) (g : G), ERel g (elimNode.go nx cs g) := by
  intro cs
  induction cs with
  | nil => intro g; exact ERel.refl g
  | cons c cs ih =>
    intro g
    unfold elimNode.go
    split
    · exact ih g
    · split
      · exact (erel_removeEdge g nx c).trans (ih _)
      · rename_i hk; exact erel_makeTrue g nx hk
      · exact erel_err g
      · exact erel_err g
    · split
      · exact (erel_removeEdge g nx c).trans (ih _)
      · exact erel_deleteChain _ g nx []
      · exact erel_err g
      · exact erel_err g
    · exact ih g

theorem erel_elimNode (g : G) (nx : Nat) : ERel g (elimNode g nx) := erel_go nx _ g

theorem erel_eliminate (g : G) (root : Nat) : ERel g (eliminate g root) := by
  unfold eliminate
  exact foldl_inv (fun g' => ERel g g') elimNode _ (fun g' nx _ h => h.trans (erel_elimNode g' nx)) g
    (ERel.refl g)

theorem model_makeTrue {σ : Assignment} {v : Nat → Bool} {g : G} (hm : Model σ g v) (x : Nat)
    (hk : g.kindOf x = some .or) (hv : v x = true) : Model σ (g.makeTrue x) v := by
  refine model_frame hm (fun y => y = x) ?_ ?_
  · intro y hy
    refine ⟨rfl, by rw [makeTrue_kindOf g x y (kindOf_lt hk), if_neg hy], by rw [makeTrue_outs, if_neg hy],
      fun _ _ => rfl⟩
  · intro y hy
    subst hy
    rw [hv]
    simp only [stepV, makeTrue_kindOf g y y (kindOf_lt hk), if_true]

theorem outs_removeEdge_self (g : G) (a b : Nat) (hb : b ∈ g.outs.getD a []) :
    (g.removeEdge a b).outs.getD a [] = (g.outs.getD a []).erase b := by
  rw [outs_removeEdge]
  split
  · rfl
  · rename_i hn
    have hlt : ¬ a < g.outs.size := fun h => hn ⟨rfl, h⟩
    rw [arr_getD_nil_of_ge g.outs a hlt] at hb
    cases hb

/-- the walker of `elimNode`: `cs` are the successors still to be looked at -/
theorem go_sem (σ : Assignment) (v : Nat → Bool) (nx : Nat) : ∀ (cs : List Nat) (g : G),
    Model σ g v → InsOK g → (∀ c, cs.count c ≤ (g.outs.getD nx []).count c) →
    Res σ v (elimNode.go nx cs g) := by
  intro cs
  induction cs with
  | nil => intro g hm hi _; exact Or.inr ⟨hm, hi⟩
  | cons c cs ih =>
    intro g hm hi hcnt
    have hc : c ∈ g.outs.getD nx [] := by
      apply List.count_pos_iff.1
      have := hcnt c
      rw [List.count_cons_self] at this
      omega
    have hcnt' : ∀ c', cs.count c' ≤ (g.outs.getD nx []).count c' :=
      fun c' => Nat.le_trans List.count_le_count_cons (hcnt c')
    have hcntE : ∀ c', cs.count c' ≤ ((g.removeEdge nx c).outs.getD nx []).count c' := by
      intro c'
      rw [outs_removeEdge_self g nx c hc, List.count_erase]
      have h0 := hcnt c'
      rw [List.count_cons] at h0
      by_cases hcc : c = c'
      · have hb : (c == c') = true := by simpa using hcc
        simp only [hb, if_true] at h0 ⊢
        omega
      · have hb : (c == c') = false := by simpa using hcc
        simp only [hb, Bool.false_eq_true, if_false] at h0 ⊢
        omega
    unfold elimNode.go
    split
    · exact ih g hm hi hcnt'
    · rename_i hkc
      have hvc : v c = true := hm.tru hkc
      split
      · rename_i hk
        exact ih _ (model_removeEdge hm nx c (fun _ => hvc) (fun h => by rw [hk] at h; cases h))
          (insOK_removeEdge hi nx c) hcntE
      · rename_i hk
        refine Or.inr ⟨model_makeTrue hm nx hk ?_, insOK_makeTrue hi nx⟩
        rw [hm.or hk]; exact any_true_of_mem hc hvc
      · exact Or.inl rfl
      · exact Or.inl rfl
    · rename_i hkc
      have hvc : v c = false := hm.fls hkc
      split
      · rename_i hk
        exact ih _ (model_removeEdge hm nx c (fun h => by rw [hk] at h; cases h) (fun _ => hvc))
          (insOK_removeEdge hi nx c) hcntE
      · rename_i hk
        apply deleteChain_sem σ v _ g nx []
        · have := pot_le_deleteFuel g
          simp only [List.length_nil]
          omega
        · refine ⟨?_, fun y => Or.inl (hm y), hi⟩
          intro y hy _
          rw [List.mem_singleton.1 hy, hm.and hk]
          exact all_false_of_mem hc hvc
      · exact Or.inl rfl
      · exact Or.inl rfl
    · exact ih g hm hi hcnt'

theorem elimNode_res {σ : Assignment} {v : Nat → Bool} (g : G) (nx : Nat) (h : Res σ v g) :
    Res σ v (elimNode g nx) := by
  rcases h with h | ⟨hm, hi⟩
  · exact Or.inl ((erel_elimNode g nx).err h)
  · exact go_sem σ v nx _ g hm hi (fun _ => Nat.le_refl _)

/-- phase 3: a model of the graph is a model of the graph after the elimination (every surviving node
keeps its value, every removed node was false), unless the error flag is raised -/
theorem eliminate_sem {σ : Assignment} {v : Nat → Bool} (g : G) (root : Nat) (hm : Model σ g v)
    (hi : InsOK g) : (eliminate g root).err = true ∨ (Model σ (eliminate g root) v ∧ InsOK (eliminate g root)) := by
  unfold eliminate
  exact foldl_inv (Res σ v) elimNode _ (fun g' nx _ h => elimNode_res g' nx h) g (Or.inr ⟨hm, hi⟩)

end Ddnnf.D4
