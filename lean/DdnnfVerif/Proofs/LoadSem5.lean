/-
  Denotation of the graphs of the d4 loader (part 5, phase 3): the graph operations of the True/False
  elimination, observed through `kindOf`, `outs.getD`, `ins.getD`.

  * `removeNode_kindOf/_outs/_ins`, `makeTrue_kindOf/_outs/_ins`;
  * `InsOK g`: the predecessor lists under-approximate the successor lists (with multiplicities); kept by
    `removeEdge`, `removeNode`, `makeTrue`, `addNode`, `addEdge`;
  * `pot`: the total length of the predecessor lists, the fuel measure of `deleteChain`.
-/
import DdnnfVerif.Proofs.LoadSem3
import DdnnfVerif.Proofs.Table

namespace Ddnnf.D4

/-! ### the two folds of `removeNode` / `makeTrue` -/

def insFilter (x : Nat) (l : List Nat) (g : G) : G :=
  l.foldl (fun g b => { g with ins := g.ins.setIfInBounds b ((g.ins.getD b []).filter (· != x)) }) g

def outFilter (x : Nat) (l : List Nat) (g : G) : G :=
  l.foldl (fun g a => { g with outs := g.outs.setIfInBounds a ((g.outs.getD a []).filter (· != x)) }) g

theorem arr_getD_nil_of_ge (a : Array (List Nat)) (j : Nat) (h : ¬ j < a.size) : a.getD j [] = [] :=
  Ddnnf.getD_of_ge a [] j (by omega)

theorem insFilter_spec (x : Nat) (l : List Nat) : ∀ g : G,
    (insFilter x l g).kind = g.kind ∧ (insFilter x l g).outs = g.outs ∧ (insFilter x l g).err = g.err ∧
    ∀ b, (insFilter x l g).ins.getD b [] =
      if b ∈ l then (g.ins.getD b []).filter (· != x) else g.ins.getD b [] := by
  induction l with
  | nil => intro g; exact ⟨rfl, rfl, rfl, fun b => by simp [insFilter]⟩
  | cons b0 l ih =>
    intro g
    obtain ⟨h1, h2, h3, h4⟩ := ih { g with ins := g.ins.setIfInBounds b0 ((g.ins.getD b0 []).filter (· != x)) }
    refine ⟨h1, h2, h3, ?_⟩
    intro b
    have h4b := h4 b
    show (insFilter x l _).ins.getD b [] = _
    rw [h4b]
    simp only [getD_setIfInBounds, List.mem_cons]
    by_cases hb0 : b0 = b
    · subst hb0
      by_cases hlt : b0 < g.ins.size
      · simp [hlt, List.filter_filter]
      · simp [hlt, arr_getD_nil_of_ge _ _ hlt]
    · have hb0' : ¬ b = b0 := fun e => hb0 e.symm
      simp [hb0, hb0']

theorem outFilter_spec (x : Nat) (l : List Nat) : ∀ g : G,
    (outFilter x l g).kind = g.kind ∧ (outFilter x l g).ins = g.ins ∧ (outFilter x l g).err = g.err ∧
    ∀ a, (outFilter x l g).outs.getD a [] =
      if a ∈ l then (g.outs.getD a []).filter (· != x) else g.outs.getD a [] := by
  induction l with
  | nil => intro g; exact ⟨rfl, rfl, rfl, fun b => by simp [outFilter]⟩
  | cons b0 l ih =>
    intro g
    obtain ⟨h1, h2, h3, h4⟩ := ih { g with outs := g.outs.setIfInBounds b0 ((g.outs.getD b0 []).filter (· != x)) }
    refine ⟨h1, h2, h3, ?_⟩
    intro b
    have h4b := h4 b
    show (outFilter x l _).outs.getD b [] = _
    rw [h4b]
    simp only [getD_setIfInBounds, List.mem_cons]
    by_cases hb0 : b0 = b
    · subst hb0
      by_cases hlt : b0 < g.outs.size
      · simp [hlt, List.filter_filter]
      · simp [hlt, arr_getD_nil_of_ge _ _ hlt]
    · have hb0' : ¬ b = b0 := fun e => hb0 e.symm
      simp [hb0, hb0']

theorem removeNode_eq (g : G) (x : Nat) :
    g.removeNode x =
      { outFilter x (g.ins.getD x []) (insFilter x (g.outs.getD x []) g) with
        kind := (outFilter x (g.ins.getD x []) (insFilter x (g.outs.getD x []) g)).kind.setIfInBounds x none,
        outs := (outFilter x (g.ins.getD x []) (insFilter x (g.outs.getD x []) g)).outs.setIfInBounds x [],
        ins := (outFilter x (g.ins.getD x []) (insFilter x (g.outs.getD x []) g)).ins.setIfInBounds x [] } := rfl

theorem makeTrue_eq (g : G) (x : Nat) :
    g.makeTrue x =
      { insFilter x (g.outs.getD x []) g with
        kind := (insFilter x (g.outs.getD x []) g).kind.setIfInBounds x (some .tru),
        outs := (insFilter x (g.outs.getD x []) g).outs.setIfInBounds x [] } := rfl

theorem removeNode_kindOf (g : G) (x y : Nat) :
    (g.removeNode x).kindOf y = if y = x then none else g.kindOf y := by
  rw [removeNode_eq]
  show (Array.setIfInBounds _ x none).getD y none = _
  rw [getD_setIfInBounds, (outFilter_spec x _ _).1, (insFilter_spec x _ _).1]
  by_cases h : y = x
  · subst h
    by_cases hlt : y < g.kind.size
    · simp [hlt]
    · simp [hlt, Ddnnf.getD_of_ge g.kind none y (by omega)]
  · have h' : ¬ x = y := fun e => h e.symm
    simp [h, h', G.kindOf]

theorem removeNode_err (g : G) (x : Nat) : (g.removeNode x).err = g.err := by
  rw [removeNode_eq]
  show (outFilter x _ _).err = _
  rw [(outFilter_spec x _ _).2.2.1, (insFilter_spec x _ _).2.2.1]

theorem removeNode_outs (g : G) (x y : Nat) :
    (g.removeNode x).outs.getD y [] =
      if y = x then [] else if y ∈ g.ins.getD x [] then (g.outs.getD y []).filter (· != x)
      else g.outs.getD y [] := by
  rw [removeNode_eq]
  show (Array.setIfInBounds _ x []).getD y [] = _
  rw [getD_setIfInBounds, (outFilter_spec x _ _).2.2.2 y, (insFilter_spec x _ _).2.1]
  by_cases h : y = x
  · subst h
    by_cases hlt : y < (outFilter y (g.ins.getD y []) (insFilter y (g.outs.getD y []) g)).outs.size
    · rw [if_pos ⟨rfl, hlt⟩, if_pos rfl]
    · rw [if_neg (fun hh => hlt hh.2), if_pos rfl]
      have := arr_getD_nil_of_ge _ _ hlt
      rw [(outFilter_spec y _ _).2.2.2 y, (insFilter_spec y _ _).2.1] at this
      exact this
  · have h' : ¬ x = y := fun e => h e.symm
    simp [h, h']

theorem removeNode_ins (g : G) (x y : Nat) :
    (g.removeNode x).ins.getD y [] =
      if y = x then [] else if y ∈ g.outs.getD x [] then (g.ins.getD y []).filter (· != x)
      else g.ins.getD y [] := by
  rw [removeNode_eq]
  show (Array.setIfInBounds _ x []).getD y [] = _
  rw [getD_setIfInBounds, (outFilter_spec x _ _).2.1, (insFilter_spec x _ _).2.2.2 y]
  by_cases h : y = x
  · subst h
    by_cases hlt : y < (insFilter y (g.outs.getD y []) g).ins.size
    · rw [if_pos ⟨rfl, hlt⟩, if_pos rfl]
    · rw [if_neg (fun hh => hlt hh.2), if_pos rfl]
      have := arr_getD_nil_of_ge _ _ hlt
      rw [(insFilter_spec y _ _).2.2.2 y] at this
      exact this
  · have h' : ¬ x = y := fun e => h e.symm
    simp [h, h']

theorem makeTrue_kindOf (g : G) (x y : Nat) (hx : x < g.kind.size) :
    (g.makeTrue x).kindOf y = if y = x then some .tru else g.kindOf y := by
  rw [makeTrue_eq]
  show (Array.setIfInBounds _ x (some GK.tru)).getD y none = _
  rw [getD_setIfInBounds, (insFilter_spec x _ _).1]
  by_cases h : y = x
  · subst h; simp [hx]
  · have h' : ¬ x = y := fun e => h e.symm
    simp [h, h', G.kindOf]

theorem makeTrue_err (g : G) (x : Nat) : (g.makeTrue x).err = g.err := by
  rw [makeTrue_eq]
  show (insFilter x _ _).err = _
  rw [(insFilter_spec x _ _).2.2.1]

theorem makeTrue_outs (g : G) (x y : Nat) :
    (g.makeTrue x).outs.getD y [] = if y = x then [] else g.outs.getD y [] := by
  rw [makeTrue_eq]
  show (Array.setIfInBounds _ x []).getD y [] = _
  rw [getD_setIfInBounds, (insFilter_spec x _ _).2.1]
  by_cases h : y = x
  · subst h
    by_cases hlt : y < g.outs.size
    · simp [hlt]
    · simp [hlt, arr_getD_nil_of_ge _ _ hlt]
  · have h' : ¬ x = y := fun e => h e.symm
    simp [h, h']

theorem makeTrue_ins (g : G) (x y : Nat) :
    (g.makeTrue x).ins.getD y [] =
      if y ∈ g.outs.getD x [] then (g.ins.getD y []).filter (· != x) else g.ins.getD y [] := by
  rw [makeTrue_eq]
  exact (insFilter_spec x _ _).2.2.2 y

theorem ins_removeEdge (g : G) (a b y : Nat) :
    (g.removeEdge a b).ins.getD y [] =
      if b = y ∧ y < g.ins.size then (g.ins.getD b []).erase a else g.ins.getD y [] := by
  show (g.ins.setIfInBounds b ((g.ins.getD b []).erase a)).getD y [] = _
  rw [getD_setIfInBounds]

theorem ins_addEdge (g : G) (a b y : Nat) :
    (g.addEdge a b).ins.getD y [] =
      if b = y ∧ y < g.ins.size then a :: g.ins.getD b [] else g.ins.getD y [] := by
  show (g.ins.setIfInBounds b (a :: g.ins.getD b [])).getD y [] = _
  rw [getD_setIfInBounds]

theorem ins_addNode (g : G) (k : GK) (y : Nat) : (g.addNode k).1.ins.getD y [] = g.ins.getD y [] := by
  show (g.ins.push []).getD y [] = _
  rw [getD_push]
  split
  · rename_i h; subst h
    simp [Array.getD_eq_getD_getElem?]
  · rfl

/-! ### predecessor lists -/

/-- every recorded predecessor edge is a successor edge (with multiplicities) -/
def InsOK (g : G) : Prop := ∀ a b, (g.ins.getD b []).count a ≤ (g.outs.getD a []).count b

theorem InsOK.mem {g : G} (h : InsOK g) {a b : Nat} (hm : a ∈ g.ins.getD b []) : b ∈ g.outs.getD a [] := by
  apply List.count_pos_iff.1
  have := h a b
  have := List.count_pos_iff.2 hm
  omega

theorem count_filter_ne (l : List Nat) (x a : Nat) (h : a ≠ x) : (l.filter (· != x)).count a = l.count a :=
  List.count_filter (by simpa using h)

theorem count_filter_self (l : List Nat) (x : Nat) : (l.filter (· != x)).count x = 0 := by
  apply List.count_eq_zero.2
  intro hm
  have := (List.mem_filter.1 hm).2
  simp at this

theorem insOK_removeEdge {g : G} (h : InsOK g) (a b : Nat) : InsOK (g.removeEdge a b) := by
  intro a' b'
  rw [ins_removeEdge, outs_removeEdge]
  by_cases hb : b = b'
  · subst hb
    by_cases ha : a = a'
    · subst ha
      by_cases h1 : b < g.ins.size
      · by_cases h2 : a < g.outs.size
        · rw [if_pos ⟨rfl, h1⟩, if_pos ⟨rfl, h2⟩, List.count_erase_self, List.count_erase_self]
          have := h a b; omega
        · have : (g.ins.getD b []).count a = 0 := by
            have := h a b
            rw [arr_getD_nil_of_ge g.outs a h2] at this
            simpa using this
          rw [if_pos ⟨rfl, h1⟩, List.count_erase_self, this]; exact Nat.zero_le _
      · rw [if_neg (fun hh => h1 hh.2), arr_getD_nil_of_ge g.ins b h1]; simp
    · have e1 : (if b = b ∧ b < g.ins.size then (g.ins.getD b []).erase a else g.ins.getD b []).count a'
          = (g.ins.getD b []).count a' := by
        split
        · exact List.count_erase_of_ne (fun e => ha e.symm)
        · rfl
      rw [e1, if_neg (fun hh => ha hh.1)]
      exact h a' b
  · rw [if_neg (fun hh => hb hh.1)]
    have e2 : (if a = a' ∧ a' < g.outs.size then (g.outs.getD a []).erase b else g.outs.getD a' []).count b'
        = (g.outs.getD a' []).count b' := by
      split
      · rename_i hh
        rw [List.count_erase_of_ne (fun e => hb e.symm), hh.1]
      · rfl
    rw [e2]
    exact h a' b'

theorem insOK_removeNode {g : G} (h : InsOK g) (x : Nat) : InsOK (g.removeNode x) := by
  intro a b
  rw [removeNode_ins, removeNode_outs]
  by_cases hb : b = x
  · rw [if_pos hb]; simp
  · rw [if_neg hb]
    by_cases ha : a = x
    · subst ha
      rw [if_pos rfl]
      split
      · rw [count_filter_self]; exact Nat.le_refl _
      · rename_i hn
        have := h a b
        have h0 : (g.outs.getD a []).count b = 0 := List.count_eq_zero.2 hn
        omega
    · rw [if_neg ha]
      have e1 : (if b ∈ g.outs.getD x [] then (g.ins.getD b []).filter (· != x) else g.ins.getD b []).count a
          = (g.ins.getD b []).count a := by
        split
        · exact count_filter_ne _ _ _ ha
        · rfl
      have e2 : (if a ∈ g.ins.getD x [] then (g.outs.getD a []).filter (· != x) else g.outs.getD a []).count b
          = (g.outs.getD a []).count b := by
        split
        · exact count_filter_ne _ _ _ hb
        · rfl
      rw [e1, e2]; exact h a b

theorem insOK_makeTrue {g : G} (h : InsOK g) (x : Nat) : InsOK (g.makeTrue x) := by
  intro a b
  rw [makeTrue_ins, makeTrue_outs]
  by_cases ha : a = x
  · subst ha
    rw [if_pos rfl]
    split
    · rw [count_filter_self]; exact Nat.le_refl _
    · rename_i hn
      have := h a b
      have h0 : (g.outs.getD a []).count b = 0 := List.count_eq_zero.2 hn
      omega
  · rw [if_neg ha]
    have e1 : (if b ∈ g.outs.getD x [] then (g.ins.getD b []).filter (· != x) else g.ins.getD b []).count a
        = (g.ins.getD b []).count a := by
      split
      · exact count_filter_ne _ _ _ ha
      · rfl
    rw [e1]; exact h a b

theorem insOK_addNode {g : G} (h : InsOK g) (k : GK) : InsOK (g.addNode k).1 := by
  intro a b
  rw [ins_addNode, outs_addNode]; exact h a b

/-- adding an edge whose source is inside the successor array (or whose target is outside the
predecessor array) -/
theorem insOK_addEdge {g : G} (h : InsOK g) (a b : Nat) (hab : b < g.ins.size → a < g.outs.size) :
    InsOK (g.addEdge a b) := by
  intro a' b'
  rw [ins_addEdge, outs_addEdge]
  by_cases hb : b = b' ∧ b' < g.ins.size
  · rw [if_pos hb]
    obtain ⟨hb1, hb2⟩ := hb
    subst hb1
    by_cases ha : a = a'
    · subst ha
      rw [if_pos ⟨rfl, hab hb2⟩, List.count_cons_self, List.count_cons_self]
      have := h a b; omega
    · rw [if_neg (fun hh => ha hh.1), List.count_cons_of_ne (fun e => ha e)]
      exact h a' b
  · rw [if_neg hb]
    refine Nat.le_trans (h a' b') ?_
    split
    · rename_i hh
      rw [hh.1]; exact List.count_le_count_cons
    · exact Nat.le_refl _

/-! ### the fuel measure of `deleteChain` -/

/-- total length of the predecessor lists -/
def pot (g : G) : Nat := ((List.range g.kind.size).map fun i => (g.ins.getD i []).length).sum

theorem sum_range_le (f f' : Nat → Nat) (n : Nat) (hle : ∀ i, f' i ≤ f i) :
    ((List.range n).map f').sum ≤ ((List.range n).map f).sum := by
  induction n with
  | zero => simp
  | succ m ihm =>
    simp only [List.range_succ, List.map_append, List.sum_append, List.map_cons, List.map_nil,
      List.sum_cons, List.sum_nil, Nat.add_zero]
    have := hle m; omega

theorem sum_range_drop (f f' : Nat → Nat) (n x : Nat) (hx : x < n) (h0 : f' x = 0)
    (hle : ∀ i, f' i ≤ f i) : ((List.range n).map f').sum + f x ≤ ((List.range n).map f).sum := by
  induction n with
  | zero => omega
  | succ n ih =>
    simp only [List.range_succ, List.map_append, List.sum_append, List.map_cons, List.map_nil,
      List.sum_cons, List.sum_nil, Nat.add_zero]
    by_cases e : x = n
    · subst e
      have := sum_range_le f f' x hle
      omega
    · have := ih (by omega)
      have := hle n
      omega

theorem kindOf_lt {g : G} {x : Nat} {k : GK} (h : g.kindOf x = some k) : x < g.kind.size := by
  apply Classical.byContradiction
  intro hn
  rw [kindOf_of_ge g x (by omega)] at h
  cases h

theorem removeNode_kind_size (g : G) (x : Nat) : (g.removeNode x).kind.size = g.kind.size :=
  (removeNode_wfn' g x)
where
  removeNode_wfn' (g : G) (x : Nat) : (g.removeNode x).kind.size = g.kind.size := by
    rw [removeNode_eq]
    show (Array.setIfInBounds _ x none).size = _
    rw [Array.size_setIfInBounds, (outFilter_spec x _ _).1, (insFilter_spec x _ _).1]

/-- removing a node pays for all its predecessor entries -/
theorem pot_removeNode (g : G) (x : Nat) (hx : x < g.kind.size) :
    pot (g.removeNode x) + (g.ins.getD x []).length ≤ pot g := by
  unfold pot
  rw [removeNode_kind_size]
  refine sum_range_drop (fun i => (g.ins.getD i []).length) _ g.kind.size x hx ?_ ?_
  · show ((g.removeNode x).ins.getD x []).length = 0
    rw [removeNode_ins, if_pos rfl]; rfl
  · intro i
    show ((g.removeNode x).ins.getD i []).length ≤ (g.ins.getD i []).length
    rw [removeNode_ins]
    split
    · exact Nat.zero_le _
    · split
      · exact List.length_filter_le _ _
      · exact Nat.le_refl _

theorem pot_le_deleteFuel (g : G) : pot g + 1 ≤ deleteFuel g := by
  unfold pot deleteFuel
  have h := sum_getD_le g.ins.toList g.kind.size
  have e : ((List.range g.kind.size).map fun i => (g.ins.getD i []).length)
      = ((List.range g.kind.size).map fun x => (g.ins.toList.getD x []).length) := by
    apply List.map_congr_left
    intro i _
    simp [Array.getD_eq_getD_getElem?, List.getD_eq_getElem?_getD]
  rw [e]
  omega

end Ddnnf.D4
