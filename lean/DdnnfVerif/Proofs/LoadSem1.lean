/-
  Denotation of the graphs of the d4 loader (part 1): the semantics of graph nodes.

  * `evalG`: fuel-bounded value of a node; `Acyclic g r`: the rank `r` decreases along every edge;
    with it the value does not depend on the fuel (`evalG_fuel`), so `sem σ g r x` is well defined
    and satisfies the unfolding equation `sem_eq` (and the per-kind forms).
  * `Model σ g v`: the valuation `v` satisfies the unfolding equation at every node.  On an acyclic
    graph `sem` is the only model (`Model.eq_sem`).  All the phase lemmas are stated with `Model`:
    they need no acyclicity.
-/
import DdnnfVerif.Proofs.LoadWF

namespace Ddnnf.D4

/-- `r` witnesses acyclicity: successors have smaller rank -/
def Acyclic (g : G) (r : Nat → Nat) : Prop := ∀ x, ∀ c ∈ g.outs.getD x [], r c < r x

/-- value of node `x` under assignment `σ`; fuel-bounded recursion, removed nodes (`none`) are false -/
def evalG (σ : Assignment) (g : G) : Nat → Nat → Bool
  | 0, _ => false
  | fuel + 1, x => match g.kindOf x with
      | some .and => (g.outs.getD x []).all (evalG σ g fuel)
      | some .or => (g.outs.getD x []).any (evalG σ g fuel)
      | some (.lit l) => litTrue σ l
      | some .tru => true
      | _ => false

/-- one unfolding of the semantics: the value of `x` from the values `v` of its successors -/
def stepV (σ : Assignment) (g : G) (v : Nat → Bool) (x : Nat) : Bool :=
  match g.kindOf x with
  | some .and => (g.outs.getD x []).all v
  | some .or => (g.outs.getD x []).any v
  | some (.lit l) => litTrue σ l
  | some .tru => true
  | _ => false

theorem evalG_succ (σ : Assignment) (g : G) (fuel x : Nat) :
    evalG σ g (fuel + 1) x = stepV σ g (evalG σ g fuel) x := by
  rw [evalG]; rfl

theorem all_congr_mem {l : List Nat} {v v' : Nat → Bool} (h : ∀ c ∈ l, v c = v' c) : l.all v = l.all v' := by
  induction l with
  | nil => rfl
  | cons a l ih =>
    rw [List.all_cons, List.all_cons, h a (List.mem_cons_self ..),
      ih (fun c hc => h c (List.mem_cons_of_mem _ hc))]

theorem any_congr_mem {l : List Nat} {v v' : Nat → Bool} (h : ∀ c ∈ l, v c = v' c) : l.any v = l.any v' := by
  induction l with
  | nil => rfl
  | cons a l ih =>
    rw [List.any_cons, List.any_cons, h a (List.mem_cons_self ..),
      ih (fun c hc => h c (List.mem_cons_of_mem _ hc))]

/-- `stepV` looks at `v` only at the successors of `x` -/
theorem stepV_congr (σ : Assignment) (g : G) (v v' : Nat → Bool) (x : Nat)
    (h : ∀ c ∈ g.outs.getD x [], v c = v' c) : stepV σ g v x = stepV σ g v' x := by
  unfold stepV
  split
  · exact all_congr_mem h
  · exact any_congr_mem h
  · rfl
  · rfl
  · rfl

/-- `stepV` depends on the graph only through the kind and the successor list of `x` -/
theorem stepV_congr_g (σ : Assignment) (g g' : G) (v v' : Nat → Bool) (x : Nat)
    (hk : g'.kindOf x = g.kindOf x) (ho : g'.outs.getD x [] = g.outs.getD x [])
    (h : ∀ c ∈ g.outs.getD x [], v' c = v c) : stepV σ g' v' x = stepV σ g v x := by
  unfold stepV
  rw [hk, ho]
  split
  · exact all_congr_mem h
  · exact any_congr_mem h
  · rfl
  · rfl
  · rfl

/-- fuel independence: any two amounts of fuel above the rank give the same value -/
theorem evalG_fuel (σ : Assignment) (g : G) (r : Nat → Nat) (hacyc : Acyclic g r) :
    ∀ (k x f1 f2 : Nat), r x < k → r x < f1 → r x < f2 → evalG σ g f1 x = evalG σ g f2 x := by
  intro k
  induction k with
  | zero => intro x f1 f2 h; omega
  | succ k ih =>
    intro x f1 f2 _ h1 h2
    obtain ⟨f1, rfl⟩ : ∃ f, f1 = f + 1 := ⟨f1 - 1, by omega⟩
    obtain ⟨f2, rfl⟩ : ∃ f, f2 = f + 1 := ⟨f2 - 1, by omega⟩
    rw [evalG_succ, evalG_succ]
    apply stepV_congr
    intro c hc
    have := hacyc x c hc
    exact ih c f1 f2 (by omega) (by omega) (by omega)

/-- the denotation of node `x` of an acyclic graph -/
def sem (σ : Assignment) (g : G) (r : Nat → Nat) (x : Nat) : Bool := evalG σ g (r x + 1) x

theorem evalG_eq_sem (σ : Assignment) (g : G) (r : Nat → Nat) (hacyc : Acyclic g r) (x fuel : Nat)
    (h : r x < fuel) : evalG σ g fuel x = sem σ g r x :=
  evalG_fuel σ g r hacyc (r x + 1) x fuel (r x + 1) (by omega) h (by omega)

/-- the unfolding equation of the denotation -/
theorem sem_eq (σ : Assignment) (g : G) (r : Nat → Nat) (hacyc : Acyclic g r) (x : Nat) :
    sem σ g r x = stepV σ g (sem σ g r) x := by
  unfold sem
  rw [evalG_succ]
  apply stepV_congr
  intro c hc
  have := hacyc x c hc
  exact evalG_fuel σ g r hacyc (r x + 1) c (r x) (r c + 1) (by omega) this (by omega)

theorem sem_and (σ : Assignment) (g : G) (r : Nat → Nat) (hacyc : Acyclic g r) (x : Nat)
    (h : g.kindOf x = some .and) : sem σ g r x = (g.outs.getD x []).all (sem σ g r) := by
  rw [sem_eq σ g r hacyc]; simp only [stepV, h]

theorem sem_or (σ : Assignment) (g : G) (r : Nat → Nat) (hacyc : Acyclic g r) (x : Nat)
    (h : g.kindOf x = some .or) : sem σ g r x = (g.outs.getD x []).any (sem σ g r) := by
  rw [sem_eq σ g r hacyc]; simp only [stepV, h]

theorem sem_lit (σ : Assignment) (g : G) (r : Nat → Nat) (x : Nat) (l : Int)
    (h : g.kindOf x = some (.lit l)) : sem σ g r x = litTrue σ l := by
  unfold sem; rw [evalG_succ]; simp only [stepV, h]

theorem sem_tru (σ : Assignment) (g : G) (r : Nat → Nat) (x : Nat)
    (h : g.kindOf x = some .tru) : sem σ g r x = true := by
  unfold sem; rw [evalG_succ]; simp only [stepV, h]

theorem sem_fls (σ : Assignment) (g : G) (r : Nat → Nat) (x : Nat)
    (h : g.kindOf x = some .fls) : sem σ g r x = false := by
  unfold sem; rw [evalG_succ]; simp only [stepV, h]

/-- removed nodes are false -/
theorem sem_none (σ : Assignment) (g : G) (r : Nat → Nat) (x : Nat)
    (h : g.kindOf x = none) : sem σ g r x = false := by
  unfold sem; rw [evalG_succ]; simp only [stepV, h]

/-! ### models -/

/-- `v` satisfies the unfolding equation at every node -/
def Model (σ : Assignment) (g : G) (v : Nat → Bool) : Prop := ∀ x, v x = stepV σ g v x

theorem sem_model (σ : Assignment) (g : G) (r : Nat → Nat) (hacyc : Acyclic g r) :
    Model σ g (sem σ g r) := sem_eq σ g r hacyc

/-- on an acyclic graph the denotation is the only model -/
theorem Model.eq_sem {σ : Assignment} {g : G} {v : Nat → Bool} (hm : Model σ g v) (r : Nat → Nat)
    (hacyc : Acyclic g r) : ∀ x, v x = sem σ g r x := by
  have key : ∀ k x, r x < k → v x = sem σ g r x := by
    intro k
    induction k with
    | zero => intro x h; omega
    | succ k ih =>
      intro x _
      rw [hm x, sem_eq σ g r hacyc x]
      apply stepV_congr
      intro c hc
      have := hacyc x c hc
      exact ih c (by omega)
  intro x
  exact key (r x + 1) x (by omega)

/-- two ranks for the same graph give the same denotation -/
theorem sem_rank_irrel (σ : Assignment) (g : G) (r r' : Nat → Nat) (h : Acyclic g r) (h' : Acyclic g r')
    (x : Nat) : sem σ g r x = sem σ g r' x :=
  (sem_model σ g r h).eq_sem r' h' x

theorem Model.and {σ : Assignment} {g : G} {v : Nat → Bool} (hm : Model σ g v) {x : Nat}
    (h : g.kindOf x = some .and) : v x = (g.outs.getD x []).all v := by
  rw [hm x]; simp only [stepV, h]

theorem Model.or {σ : Assignment} {g : G} {v : Nat → Bool} (hm : Model σ g v) {x : Nat}
    (h : g.kindOf x = some .or) : v x = (g.outs.getD x []).any v := by
  rw [hm x]; simp only [stepV, h]

theorem Model.lit {σ : Assignment} {g : G} {v : Nat → Bool} (hm : Model σ g v) {x : Nat} {l : Int}
    (h : g.kindOf x = some (.lit l)) : v x = litTrue σ l := by
  rw [hm x]; simp only [stepV, h]

theorem Model.tru {σ : Assignment} {g : G} {v : Nat → Bool} (hm : Model σ g v) {x : Nat}
    (h : g.kindOf x = some .tru) : v x = true := by
  rw [hm x]; simp only [stepV, h]

theorem Model.fls {σ : Assignment} {g : G} {v : Nat → Bool} (hm : Model σ g v) {x : Nat}
    (h : g.kindOf x = some .fls) : v x = false := by
  rw [hm x]; simp only [stepV, h]

theorem Model.none {σ : Assignment} {g : G} {v : Nat → Bool} (hm : Model σ g v) {x : Nat}
    (h : g.kindOf x = none) : v x = false := by
  rw [hm x]; simp only [stepV, h]

/-! ### frame lemmas for the graph operations -/

theorem kindOf_addNode (g : G) (k : GK) (x : Nat) :
    (g.addNode k).1.kindOf x = if x = g.kind.size then some k else g.kindOf x := by
  show (g.kind.push (some k)).getD x none = _
  rw [getD_push]; rfl

theorem outs_addNode (g : G) (k : GK) (x : Nat) :
    (g.addNode k).1.outs.getD x [] = g.outs.getD x [] := by
  show (g.outs.push []).getD x [] = _
  rw [getD_push]
  split
  · rename_i h; subst h
    simp [Array.getD_eq_getD_getElem?]
  · rfl

theorem kindOf_addEdge (g : G) (a b x : Nat) : (g.addEdge a b).kindOf x = g.kindOf x := rfl

theorem outs_addEdge (g : G) (a b x : Nat) :
    (g.addEdge a b).outs.getD x [] =
      if a = x ∧ x < g.outs.size then b :: g.outs.getD a [] else g.outs.getD x [] := by
  show (g.outs.setIfInBounds a (b :: g.outs.getD a [])).getD x [] = _
  rw [getD_setIfInBounds]

theorem kindOf_removeEdge (g : G) (a b x : Nat) : (g.removeEdge a b).kindOf x = g.kindOf x := rfl

theorem outs_removeEdge (g : G) (a b x : Nat) :
    (g.removeEdge a b).outs.getD x [] =
      if a = x ∧ x < g.outs.size then (g.outs.getD a []).erase b else g.outs.getD x [] := by
  show (g.outs.setIfInBounds a ((g.outs.getD a []).erase b)).getD x [] = _
  rw [getD_setIfInBounds]

theorem err_addNode (g : G) (k : GK) : (g.addNode k).1.err = g.err := rfl
theorem err_addEdge (g : G) (a b : Nat) : (g.addEdge a b).err = g.err := rfl
theorem err_removeEdge (g : G) (a b : Nat) : (g.removeEdge a b).err = g.err := rfl

theorem outs_of_ge (g : G) (x : Nat) (h : g.outs.size ≤ x) : g.outs.getD x [] = [] := by
  simp [Array.getD_eq_getD_getElem?, Array.getElem?_eq_none h]

theorem kindOf_of_ge (g : G) (x : Nat) (h : g.kind.size ≤ x) : g.kindOf x = none := by
  simp [G.kindOf, Array.getD_eq_getD_getElem?, Array.getElem?_eq_none h]

/-- valuation update -/
def upd (v : Nat → Bool) (n : Nat) (b : Bool) : Nat → Bool := fun x => if x = n then b else v x

theorem upd_self (v : Nat → Bool) (n : Nat) (b : Bool) : upd v n b n = b := by simp [upd]
theorem upd_ne (v : Nat → Bool) (n : Nat) (b : Bool) (x : Nat) (h : x ≠ n) : upd v n b x = v x := by
  simp [upd, h]

end Ddnnf.D4
