/-
  The union-find structure of `Model/UnionFind.lean`, part 2: `equiv` and `union` (by rank) act on
  the partition "same root" the way the specification of a union-find structure says.
-/
import DdnnfVerif.Proofs.UnionFind

namespace Ddnnf.UF

/-! ### `equiv` -/

/-- **`equiv`** answers "same root", keeps the invariant, the roots and `rank` -/
theorem equiv_spec (s : State) (hs : WF s) (x y : Int) :
    WF (equiv s x y).1 ∧ (∀ z r, Root (parent (equiv s x y).1) z r ↔ Root (parent s) z r) ∧
      (equiv s x y).1.rank = s.rank ∧ ((equiv s x y).2 = true ↔ SameRoot (parent s) x y) := by
  have hs1 := find_wf s hs x
  have e : equiv s x y = ((find (find s x).1 y).1, (find s x).2 == (find (find s x).1 y).2) := rfl
  rw [e]
  refine ⟨find_wf _ hs1 y, ?_, ?_, ?_⟩
  · intro z r
    rw [find_root_iff _ hs1 y, find_root_iff s hs x]
  · rw [find_rank _ hs1 y, find_rank s hs x]
  · have hx := find_root s hs x
    have hy := (find_root_iff s hs x _ _).mp (find_root _ hs1 y)
    rw [sameRoot_iff hx hy]
    simp

/-! ### `union` -/

/-- the second and third statement of `union`: "empty" rank information for a root -/
def touchRank (s : State) (r : Int) : State :=
  if hasKey r s.rank then s else { s with rank := ains r 0 s.rank }

theorem parent_touchRank (s : State) (r : Int) : parent (touchRank s r) = parent s := by
  unfold touchRank
  split <;> rfl

theorem keys_touchRank (s : State) (r : Int) :
    (touchRank s r).rank.map (·.1) =
      if r ∈ s.rank.map (·.1) then s.rank.map (·.1) else s.rank.map (·.1) ++ [r] := by
  unfold touchRank
  by_cases h : hasKey r s.rank = true
  · rw [if_pos h, if_pos ((hasKey_iff r _).mp h)]
  · rw [if_neg h, if_neg (fun h' => h ((hasKey_iff r _).mpr h'))]
    simp only [keys_ains, if_neg (fun h' => h ((hasKey_iff r _).mpr h'))]

theorem mem_keys_touchRank (s : State) (r k : Int) :
    k ∈ (touchRank s r).rank.map (·.1) ↔ (k ∈ s.rank.map (·.1) ∨ k = r) := by
  rw [keys_touchRank]
  by_cases h : r ∈ s.rank.map (·.1)
  · rw [if_pos h]
    constructor
    · exact Or.inl
    · rintro (h' | rfl)
      · exact h'
      · exact h
  · rw [if_neg h]
    simp

theorem nodup_keys_touchRank (s : State) (r : Int) (h : (s.rank.map (·.1)).Nodup) :
    ((touchRank s r).rank.map (·.1)).Nodup := by
  rw [keys_touchRank]
  by_cases hr : r ∈ s.rank.map (·.1)
  · rw [if_pos hr]; exact h
  · rw [if_neg hr]
    rw [List.nodup_append]
    refine ⟨h, by simp, ?_⟩
    intro a ha b hb hab
    simp only [List.mem_singleton] at hb
    subst hb
    subst hab
    exact hr ha

/-- the state after the two `find`s and the rank initialisation of `union(x, y)` -/
def unionPre (s : State) (x y : Int) : State :=
  touchRank (touchRank (find (find s x).1 y).1 (find s x).2) (find (find s x).1 y).2

theorem union_eq (s : State) (x y : Int) :
    union s x y =
      let xr := (find s x).2
      let yr := (find (find s x).1 y).2
      let s2 := unionPre s x y
      if xr == yr then s2
      else if (s2.rank.lookup xr).getD 0 > (s2.rank.lookup yr).getD 0 then
        { s2 with parents := ains yr xr s2.parents }
      else if (s2.rank.lookup xr).getD 0 == (s2.rank.lookup yr).getD 0 then
        { s2 with parents := ains xr yr s2.parents,
                  rank := ains yr ((s2.rank.lookup yr).getD 0 + 1) s2.rank }
      else { s2 with parents := ains xr yr s2.parents } := by
  simp only [union, unionPre, touchRank]
  split <;> split <;> split <;> (try split) <;> (try split) <;> rfl

theorem parent_congr {s t : State} (h : s.parents = t.parents) : parent s = parent t := by
  funext z
  simp only [parent, h]

theorem parent_link (s : State) (a b : Int) {t : State} (h : t.parents = ains a b s.parents) :
    parent t = link (parent s) a b := by
  rw [parent_congr (t := setParent s a b) h, parent_setParent]
  rfl

theorem parent_unionPre (s : State) (x y : Int) :
    parent (unionPre s x y) = parent (find (find s x).1 y).1 := by
  unfold unionPre
  rw [parent_touchRank, parent_touchRank]

theorem mem_keys_unionPre (s : State) (hs : WF s) (x y k : Int) :
    k ∈ (unionPre s x y).rank.map (·.1) ↔
      (k ∈ s.rank.map (·.1) ∨ k = (find s x).2 ∨ k = (find (find s x).1 y).2) := by
  unfold unionPre
  rw [mem_keys_touchRank, mem_keys_touchRank, find_rank _ (find_wf s hs x) y, find_rank s hs x]
  exact or_assoc

/-- the shape of the result of `union`: the keys of `rank` are those after the initialisation;
either the roots coincide and nothing else happens, or one root is linked below the other -/
theorem union_cases (s : State) (hs : WF s) (x y : Int) :
    (union s x y).rank.map (·.1) = (unionPre s x y).rank.map (·.1) ∧
      (((find s x).2 = (find (find s x).1 y).2 ∧ parent (union s x y) = parent (unionPre s x y)) ∨
       ((find s x).2 ≠ (find (find s x).1 y).2 ∧
          (parent (union s x y)
              = link (parent (unionPre s x y)) (find (find s x).1 y).2 (find s x).2 ∨
           parent (union s x y)
              = link (parent (unionPre s x y)) (find s x).2 (find (find s x).1 y).2))) := by
  have hy : (find (find s x).1 y).2 ∈ (unionPre s x y).rank.map (·.1) :=
    (mem_keys_unionPre s hs x y _).mpr (Or.inr (Or.inr rfl))
  rw [union_eq]
  simp only
  by_cases h1 : (find s x).2 = (find (find s x).1 y).2
  · rw [if_pos (by simpa using h1)]
    exact ⟨rfl, Or.inl ⟨h1, rfl⟩⟩
  · rw [if_neg (by simpa using h1)]
    split
    · exact ⟨rfl, Or.inr ⟨h1, Or.inl (parent_link _ _ _ rfl)⟩⟩
    · split
      · refine ⟨?_, Or.inr ⟨h1, Or.inr (parent_link _ _ _ rfl)⟩⟩
        simp only [keys_ains, if_pos hy]
      · exact ⟨rfl, Or.inr ⟨h1, Or.inr (parent_link _ _ _ rfl)⟩⟩

/-- **`union`** keeps the invariant, merges exactly the trees of `x` and `y`, and enters the two
roots (and nothing else) into `rank` -/
theorem union_spec (s : State) (hs : WF s) (x y : Int) :
    WF (union s x y) ∧
      (∀ a b, SameRoot (parent (union s x y)) a b ↔
        (SameRoot (parent s) a b ∨ (SameRoot (parent s) a x ∧ SameRoot (parent s) y b) ∨
          (SameRoot (parent s) a y ∧ SameRoot (parent s) x b))) ∧
      (∀ k, k ∈ (union s x y).rank.map (·.1) ↔
        (k ∈ s.rank.map (·.1) ∨ Root (parent s) x k ∨ Root (parent s) y k)) ∧
      ((s.rank.map (·.1)).Nodup → ((union s x y).rank.map (·.1)).Nodup) := by
  have hs1 := find_wf s hs x
  have hs2 := find_wf _ hs1 y
  have hroot : ∀ z r, Root (parent (unionPre s x y)) z r ↔ Root (parent s) z r := by
    intro z r
    rw [parent_unionPre, find_root_iff _ hs1 y, find_root_iff s hs x]
  have hsame : ∀ a b, SameRoot (parent (unionPre s x y)) a b ↔ SameRoot (parent s) a b := by
    intro a b
    unfold SameRoot
    simp only [hroot]
  have hwf : WF (unionPre s x y) := by
    unfold WF
    rw [parent_unionPre]
    exact hs2
  have hx : Root (parent s) x (find s x).2 := find_root s hs x
  have hy : Root (parent s) y (find (find s x).1 y).2 :=
    (find_root_iff s hs x _ _).mp (find_root _ hs1 y)
  have hx' := (hroot _ _).mpr hx
  have hy' := (hroot _ _).mpr hy
  obtain ⟨hkeys, hcases⟩ := union_cases s hs x y
  refine ⟨?_, ?_, ?_, ?_⟩
  · rcases hcases with ⟨_, hp⟩ | ⟨hne, hp | hp⟩
    · unfold WF; rw [hp]; exact hwf
    · unfold WF; rw [hp]; exact link_pwf hwf hy'.fix hx'.fix (fun h => hne h.symm)
    · unfold WF; rw [hp]; exact link_pwf hwf hx'.fix hy'.fix hne
  · intro a b
    rcases hcases with ⟨he, hp⟩ | ⟨hne, hp | hp⟩
    · rw [hp, hsame]
      have hxy : SameRoot (parent s) x y := ⟨_, hx, he ▸ hy⟩
      constructor
      · exact Or.inl
      · rintro (h | ⟨h1, h2⟩ | ⟨h1, h2⟩)
        · exact h
        · exact (h1.trans hxy).trans h2
        · exact (h1.trans hxy.symm).trans h2
    · rw [hp, link_sameRoot hwf hy' hx' (fun h => hne h.symm)]
      simp only [hsame]
      constructor
      · rintro (h | h | h)
        · exact Or.inl h
        · exact Or.inr (Or.inr h)
        · exact Or.inr (Or.inl h)
      · rintro (h | h | h)
        · exact Or.inl h
        · exact Or.inr (Or.inr h)
        · exact Or.inr (Or.inl h)
    · rw [hp, link_sameRoot hwf hx' hy' hne]
      simp only [hsame]
  · intro k
    rw [hkeys, mem_keys_unionPre s hs]
    constructor
    · rintro (h | rfl | rfl)
      · exact Or.inl h
      · exact Or.inr (Or.inl hx)
      · exact Or.inr (Or.inr hy)
    · rintro (h | h | h)
      · exact Or.inl h
      · exact Or.inr (Or.inl (h.det hx))
      · exact Or.inr (Or.inr (h.det hy))
  · intro hnd
    rw [hkeys]
    unfold unionPre
    apply nodup_keys_touchRank
    apply nodup_keys_touchRank
    rw [find_rank _ hs1 y, find_rank s hs x]
    exact hnd

/-! ### the empty structure -/

theorem parent_empty (x : Int) : parent empty x = x := rfl

theorem wf_empty : WF empty := fun x => ⟨x, Root.self rfl⟩

theorem root_empty (x r : Int) : Root (parent empty) x r ↔ r = x := by
  constructor
  · intro h; exact h.det (Root.self rfl)
  · rintro rfl; exact Root.self rfl

end Ddnnf.UF
