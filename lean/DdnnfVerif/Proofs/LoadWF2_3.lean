/-
  Well-formedness of the array the d4 loader produces (part 3): structural description of the adding
  operations (`getLit`, `addTriangle`), independent of any valuation.

  `BInv s`: the structural invariant `QInv` (`PInv` of `LoadSem7` without the predecessor lists), every registered triangle has the shape
  `or(-f, f)` (`TriShape`), and every literal leaf carries a variable in `1..s.total`.

  `addTriangle_struct`: hanging the triangle of `f` (`1 ≤ f ≤ total`) under an and-node `A` keeps `BInv`,
  keeps kinds and successor lists of all old nodes except that `A` gets the triangle as new first
  successor; the new nodes are the triangle (an or-node, registered) and literal leaves.
-/
import DdnnfVerif.Proofs.LoadWF2_2

namespace Ddnnf.D4

/-- `PInv` of `LoadSem7` without the predecessor lists (the elimination keeps it unconditionally) -/
structure QInv (s : LState) : Prop where
  linv : LInv s
  litK : ∀ e ∈ s.litNx, s.g.kindOf e.2 = some (.lit e.1)

theorem getLit_q (s : LState) (l : Int) (h : QInv s) : QInv (s.getLit l).1 := by
  refine ⟨(getLit_spec s l h.linv).1, ?_⟩
  cases hf : s.litNx.find? (·.1 == l) with
  | some e => rw [getLit_found s l e hf]; exact h.litK
  | none =>
    rw [getLit_new s l hf]
    intro e he
    show (s.g.addNode (.lit l)).1.kindOf e.2 = some (.lit e.1)
    rw [kindOf_addNode]
    rcases List.mem_cons.1 he with e' | he
    · rw [e']; simp
    · rw [if_neg (Nat.ne_of_lt (h.linv.lit e he))]; exact h.litK e he

structure BInv (s : LState) : Prop where
  p : QInv s
  tri : ∀ e ∈ s.tri, TriShape s.g e.1 e.2
  litR : ∀ x l, s.g.kindOf x = some (.lit l) → 1 ≤ l.natAbs ∧ l.natAbs ≤ s.total
  litSink : ∀ x l, s.g.kindOf x = some (.lit l) → s.g.outs.getD x [] = []

theorem getLit_total (s : LState) (l : Int) : (s.getLit l).1.total = s.total := by
  cases hf : s.litNx.find? (·.1 == l) with
  | some e => rw [getLit_found s l e hf]
  | none => rw [getLit_new s l hf]

theorem getLit_occurs (s : LState) (l : Int) : (s.getLit l).1.occurs = s.occurs := by
  cases hf : s.litNx.find? (·.1 == l) with
  | some e => rw [getLit_found s l e hf]
  | none => rw [getLit_new s l hf]

/-- `getLit` returns a leaf of the literal; new nodes are leaves of that literal -/
theorem getLit_struct (s : LState) (l : Int) (h : QInv s) :
    QInv (s.getLit l).1 ∧ s.g.kind.size ≤ (s.getLit l).1.g.kind.size ∧
    (s.getLit l).2 < (s.getLit l).1.g.kind.size ∧
    (s.getLit l).1.g.kindOf (s.getLit l).2 = some (.lit l) ∧
    (∀ x, x < s.g.kind.size → (s.getLit l).1.g.kindOf x = s.g.kindOf x) ∧
    (∀ x, s.g.kind.size ≤ x → ∀ k, (s.getLit l).1.g.kindOf x = some k → k = .lit l) ∧
    (∀ x, (s.getLit l).1.g.outs.getD x [] = s.g.outs.getD x []) := by
  refine ⟨getLit_q s l h, getLit_size_le s l, (getLit_spec s l h.linv).2.2, ?_, getLit_kindOf_old s l, ?_,
    getLit_outs s l⟩
  · cases hf : s.litNx.find? (·.1 == l) with
    | some e =>
      rw [getLit_found s l e hf]
      have hm := List.mem_of_find?_eq_some hf
      have he : e.1 = l := by simpa using List.find?_some hf
      rw [← he]; exact h.litK e hm
    | none =>
      rw [getLit_new s l hf]
      show (s.g.addNode (.lit l)).1.kindOf s.g.kind.size = _
      rw [kindOf_addNode, if_pos rfl]
  · intro x hx k hk
    cases hf : s.litNx.find? (·.1 == l) with
    | some e =>
      rw [getLit_found s l e hf] at hk
      rw [kindOf_of_ge s.g x hx] at hk; cases hk
    | none =>
      rw [getLit_new s l hf] at hk
      have hk' : (s.g.addNode (.lit l)).1.kindOf x = some k := hk
      rw [kindOf_addNode] at hk'
      split at hk'
      · cases hk'; rfl
      · rw [kindOf_of_ge s.g x hx] at hk'; cases hk'

theorem getLit_err' (s : LState) (l : Int) : (s.getLit l).1.g.err = s.g.err := by
  cases hf : s.litNx.find? (·.1 == l) with
  | some e => rw [getLit_found s l e hf]
  | none => rw [getLit_new s l hf]; rfl

/-- what `addTriangle f A` does to the graph -/
structure TriStep (s s' : LState) (f A : Nat) : Prop where
  binv : BInv s'
  size : s.g.kind.size ≤ s'.g.kind.size
  kinds : ∀ x, x < s.g.kind.size → s'.g.kindOf x = s.g.kindOf x
  outs : ∀ x, x < s.g.kind.size → x ≠ A → s'.g.outs.getD x [] = s.g.outs.getD x []
  attach : ∃ o, s'.g.outs.getD A [] = o :: s.g.outs.getD A [] ∧ TriShape s'.g f o ∧ (f, o) ∈ s'.tri
  newOr : ∀ x, s.g.kind.size ≤ x → s'.g.kindOf x = some .or → ∃ e ∈ s'.tri, e.2 = x
  newKind : ∀ x, s.g.kind.size ≤ x → ∀ k, s'.g.kindOf x = some k → k = .or ∨ ∃ l, k = .lit l
  newOuts : ∀ x, s.g.kind.size ≤ x → ∀ c ∈ s'.g.outs.getD x [], ∃ l, s'.g.kindOf c = some (.lit l)
  triMono : ∀ e ∈ s.tri, e ∈ s'.tri
  total : s'.total = s.total
  occurs : s'.occurs = s.occurs
  err : s'.g.err = s.g.err

theorem addTriangle_struct (s : LState) (f A : Nat) (h : BInv s) (hf : 1 ≤ f ∧ f ≤ s.total)
    (hA : A < s.g.kind.size) (hAk : s.g.kindOf A = some .and) : TriStep s (s.addTriangle f A) f A := by
  have hlinvF := (addTriangle_spec s f A h.p.linv hA).1
  have hosz : s.g.outs.size = s.g.kind.size := h.p.linv.wf.osz
  cases hfind : s.tri.find? (·.1 == f) with
  | some e =>
    rw [addTriangle_found s f A e hfind] at hlinvF ⊢
    have hem : e ∈ s.tri := List.mem_of_find?_eq_some hfind
    have hef : e.1 = f := by simpa using List.find?_some hfind
    have hoA : (s.g.addEdge A e.2).outs.getD A [] = e.2 :: s.g.outs.getD A [] := by
      rw [outs_addEdge, if_pos ⟨rfl, by rw [hosz]; exact hA⟩]
    have hother : ∀ x, x ≠ A → (s.g.addEdge A e.2).outs.getD x [] = s.g.outs.getD x [] := by
      intro x hx; rw [outs_addEdge, if_neg (fun hh => hx hh.1.symm)]
    have htri : ∀ e' ∈ s.tri, TriShape (s.g.addEdge A e.2) e'.1 e'.2 := by
      intro e' he'
      have ht := h.tri e' he'
      refine ht.congr (fun _ _ hk => hk) (hother _ ?_)
      intro e1
      rw [e1] at ht
      rw [ht.2.1] at hAk; cases hAk
    have hsink : ∀ x l, (s.g.addEdge A e.2).kindOf x = some (.lit l) → (s.g.addEdge A e.2).outs.getD x [] = [] := by
      intro x l hkx
      have hkx' : s.g.kindOf x = some (.lit l) := hkx
      rw [hother x (by intro e1; rw [e1, hAk] at hkx'; cases hkx')]
      exact h.litSink x l hkx'
    refine ⟨⟨⟨hlinvF, h.p.litK⟩, htri, h.litR, hsink⟩, Nat.le_refl _, fun _ _ => rfl, fun x _ hx => hother x hx,
      ⟨e.2, hoA, ?_, ?_⟩, ?_, ?_, ?_, fun _ he' => he', rfl, rfl, rfl⟩
    · rw [← hef]; exact htri e hem
    · rw [← hef]; exact hem
    · intro x hx hk
      have hk' : s.g.kindOf x = some .or := hk
      rw [kindOf_of_ge s.g x hx] at hk'; cases hk'
    · intro x hx k hk
      have hk' : s.g.kindOf x = some k := hk
      rw [kindOf_of_ge s.g x hx] at hk'; cases hk'
    · intro x hx c hc
      rw [hother x (by omega), outs_of_ge s.g x (by rw [hosz]; exact hx)] at hc
      cases hc
  | none =>
    rw [addTriangle_new s f A hfind] at hlinvF ⊢
    have hsz := addNode_size s.g .or
    -- the state after the `or` node was added
    have p1 : QInv { s with g := (s.g.addNode .or).1, tri := (f, (s.g.addNode .or).2) :: s.tri } := by
      refine ⟨⟨addNode_wf _ _ h.p.linv.wf, ?_, ?_, ?_⟩, ?_⟩
      · intro i hi; show i < (s.g.addNode .or).1.kind.size; rw [hsz]; exact Nat.lt_succ_of_lt (h.p.linv.idx i hi)
      · intro e he; show e.2 < (s.g.addNode .or).1.kind.size; rw [hsz]; exact Nat.lt_succ_of_lt (h.p.linv.lit e he)
      · intro e he
        show e.2 < (s.g.addNode .or).1.kind.size
        rw [hsz]
        rcases List.mem_cons.1 he with e' | he
        · rw [e']; exact Nat.lt_succ_self _
        · exact Nat.lt_succ_of_lt (h.p.linv.tri e he)
      · intro e he
        show (s.g.addNode .or).1.kindOf e.2 = _
        rw [kindOf_addNode, if_neg (Nat.ne_of_lt (h.p.linv.lit e he))]; exact h.p.litK e he
    unfold triNew at hlinvF ⊢
    dsimp only at hlinvF ⊢
    generalize hs1 : ({ s with g := (s.g.addNode .or).1, tri := (f, (s.g.addNode .or).2) :: s.tri } : LState)
      = s1 at p1 hlinvF ⊢
    have s1sz : s1.g.kind.size = s.g.kind.size + 1 := by rw [← hs1]; exact hsz
    have s1k : ∀ x, s1.g.kindOf x = if x = s.g.kind.size then some .or else s.g.kindOf x := by
      intro x; rw [← hs1]; exact kindOf_addNode s.g .or x
    have s1o : ∀ x, s1.g.outs.getD x [] = s.g.outs.getD x [] := by
      intro x; rw [← hs1]; exact outs_addNode s.g .or x
    have s1tri : s1.tri = (f, s.g.kind.size) :: s.tri := by rw [← hs1]; rfl
    have s1err : s1.g.err = s.g.err := by rw [← hs1]; rfl
    have s1tot : s1.total = s.total := by rw [← hs1]
    have s1occ : s1.occurs = s.occurs := by rw [← hs1]
    obtain ⟨p2, z2, lt2, k2, old2, new2, o2⟩ := getLit_struct s1 (f : Int) p1
    have tri2 := getLit_tri s1 (f : Int)
    have tot2 := getLit_total s1 (f : Int)
    have occ2 := getLit_occurs s1 (f : Int)
    have err2 := getLit_err' s1 (f : Int)
    obtain ⟨p3, z3, lt3, k3, old3, new3, o3⟩ := getLit_struct (s1.getLit (f : Int)).1 (-(f : Int)) p2
    have tri3 := getLit_tri (s1.getLit (f : Int)).1 (-(f : Int))
    have tot3 := getLit_total (s1.getLit (f : Int)).1 (-(f : Int))
    have occ3 := getLit_occurs (s1.getLit (f : Int)).1 (-(f : Int))
    have err3 := getLit_err' (s1.getLit (f : Int)).1 (-(f : Int))
    generalize s1.getLit (f : Int) = q2 at p2 z2 lt2 k2 old2 new2 o2 tri2 tot2 occ2 err2 p3 z3 lt3 k3 old3 new3 o3 tri3 tot3 occ3 err3 hlinvF ⊢
    obtain ⟨s2, pos⟩ := q2
    dsimp only at p2 z2 lt2 k2 old2 new2 o2 tri2 tot2 occ2 err2 p3 z3 lt3 k3 old3 new3 o3 tri3 tot3 occ3 err3 hlinvF ⊢
    generalize s2.getLit (-(f : Int)) = q3 at p3 z3 lt3 k3 old3 new3 o3 tri3 tot3 occ3 err3 hlinvF ⊢
    obtain ⟨s3, neg⟩ := q3
    dsimp only at p3 z3 lt3 k3 old3 new3 o3 tri3 tot3 occ3 err3 hlinvF ⊢
    rw [addNode_snd] at hlinvF ⊢
    -- facts about the three states
    have hn2 : s.g.kind.size < s2.g.kind.size := by omega
    have hn3 : s.g.kind.size < s3.g.kind.size := by omega
    have ko : s3.g.kindOf s.g.kind.size = some .or := by
      rw [old3 _ hn2, old2 _ (by omega), s1k, if_pos rfl]
    have kpos : s3.g.kindOf pos = some (.lit (f : Int)) := by rw [old3 _ lt2]; exact k2
    have kold : ∀ x, x < s.g.kind.size → s3.g.kindOf x = s.g.kindOf x := by
      intro x hx
      rw [old3 _ (by omega), old2 _ (by omega), s1k, if_neg (Nat.ne_of_lt hx)]
    have o3' : ∀ x, s3.g.outs.getD x [] = s.g.outs.getD x [] := by
      intro x; rw [o3, o2, s1o]
    have hosz3 : s3.g.outs.size = s3.g.kind.size := p3.linv.wf.osz
    have hoo : s.g.outs.getD s.g.kind.size [] = [] :=
      outs_of_ge s.g _ (by rw [hosz]; exact Nat.le_refl _)
    have han : A ≠ s.g.kind.size := Nat.ne_of_lt hA
    -- the final graph
    have hkF : ∀ x, (((s3.g.addEdge A s.g.kind.size).addEdge s.g.kind.size pos).addEdge s.g.kind.size
        neg).kindOf x = s3.g.kindOf x := fun _ => rfl
    have houtO : (((s3.g.addEdge A s.g.kind.size).addEdge s.g.kind.size pos).addEdge s.g.kind.size
        neg).outs.getD s.g.kind.size [] = [neg, pos] := by
      rw [outs_addEdge, if_pos ⟨rfl, by rw [outsSize_addEdge, outsSize_addEdge, hosz3]; exact hn3⟩,
        outs_addEdge, if_pos ⟨rfl, by rw [outsSize_addEdge, hosz3]; exact hn3⟩,
        outs_addEdge, if_neg (fun hh => han hh.1), o3', hoo]
    have houtA : (((s3.g.addEdge A s.g.kind.size).addEdge s.g.kind.size pos).addEdge s.g.kind.size
        neg).outs.getD A [] = s.g.kind.size :: s.g.outs.getD A [] := by
      rw [outs_addEdge, if_neg (fun hh => han hh.1.symm), outs_addEdge, if_neg (fun hh => han hh.1.symm),
        outs_addEdge, if_pos ⟨rfl, by rw [hosz3]; omega⟩, o3']
    have houtX : ∀ x, x ≠ s.g.kind.size → x ≠ A →
        (((s3.g.addEdge A s.g.kind.size).addEdge s.g.kind.size pos).addEdge s.g.kind.size
          neg).outs.getD x [] = s.g.outs.getD x [] := by
      intro x hx1 hx2
      rw [outs_addEdge, if_neg (fun hh => hx1 hh.1.symm), outs_addEdge, if_neg (fun hh => hx1 hh.1.symm),
        outs_addEdge, if_neg (fun hh => hx2 hh.1.symm), o3']
    have hshape : TriShape (((s3.g.addEdge A s.g.kind.size).addEdge s.g.kind.size pos).addEdge s.g.kind.size
        neg) f s.g.kind.size := ⟨hf.1, ko, pos, neg, houtO, kpos, k3⟩
    have hkmono : ∀ x k, s.g.kindOf x = some k →
        (((s3.g.addEdge A s.g.kind.size).addEdge s.g.kind.size pos).addEdge s.g.kind.size neg).kindOf x
          = some k := by
      intro x k hk
      rw [hkF, kold x (kindOf_lt hk)]; exact hk
    have hnewK : ∀ x, s.g.kind.size ≤ x → ∀ k, s3.g.kindOf x = some k →
        k = .or ∨ ∃ l, k = .lit l := by
      intro x hx k hk
      by_cases hxn : x = s.g.kind.size
      · rw [hxn, ko] at hk; cases hk; exact Or.inl rfl
      · by_cases hx2 : x < s2.g.kind.size
        · rw [old3 _ hx2] at hk
          exact Or.inr ⟨_, new2 x (by omega) k hk⟩
        · exact Or.inr ⟨_, new3 x (by omega) k hk⟩
    refine ⟨⟨⟨hlinvF, p3.litK⟩, ?_, ?_, ?_⟩, by show s.g.kind.size ≤ s3.g.kind.size; omega, kold,
      fun x hx hxa => houtX x (Nat.ne_of_lt hx) hxa, ⟨s.g.kind.size, houtA, hshape, ?_⟩, ?_, hnewK, ?_, ?_, ?_, ?_, ?_⟩
    · -- registered triangles
      intro e he
      have he' : e ∈ s3.tri := he
      rw [tri3, tri2, s1tri] at he'
      rcases List.mem_cons.1 he' with e' | he'
      · rw [e']; exact hshape
      · have ht := h.tri e he'
        have hlt := h.p.linv.tri e he'
        refine ht.congr hkmono (houtX _ (Nat.ne_of_lt hlt) ?_)
        intro e1
        rw [e1] at ht
        rw [ht.2.1] at hAk; cases hAk
    · -- literal leaves are in range
      intro x l hk
      have hk' : s3.g.kindOf x = some (.lit l) := hk
      show 1 ≤ l.natAbs ∧ l.natAbs ≤ s3.total
      rw [tot3, tot2, s1tot]
      by_cases hx : x < s.g.kind.size
      · rw [kold x hx] at hk'; exact h.litR x l hk'
      · by_cases hxn : x = s.g.kind.size
        · rw [hxn, ko] at hk'; cases hk'
        · by_cases hx2 : x < s2.g.kind.size
          · rw [old3 _ hx2] at hk'
            have := new2 x (by omega) _ hk'
            cases this
            rw [Int.natAbs_natCast]; exact hf
          · have := new3 x (by omega) _ hk'
            cases this
            rw [Int.natAbs_neg, Int.natAbs_natCast]; exact hf
    · -- literal leaves are sinks
      intro x l hk
      have hk' : s3.g.kindOf x = some (.lit l) := hk
      have hxn : x ≠ s.g.kind.size := by intro e1; rw [e1, ko] at hk'; cases hk'
      by_cases hx : x < s.g.kind.size
      · rw [kold x hx] at hk'
        have hxa : x ≠ A := by intro e1; rw [e1, hAk] at hk'; cases hk'
        rw [houtX x hxn hxa]; exact h.litSink x l hk'
      · rw [houtX x hxn (by omega)]
        exact outs_of_ge s.g x (by rw [hosz]; omega)
    · show (f, s.g.kind.size) ∈ s3.tri
      rw [tri3, tri2, s1tri]; exact List.mem_cons_self ..
    · intro x hx hk
      have hk' : s3.g.kindOf x = some .or := hk
      refine ⟨(f, s.g.kind.size), ?_, ?_⟩
      · show (f, s.g.kind.size) ∈ s3.tri
        rw [tri3, tri2, s1tri]; exact List.mem_cons_self ..
      · show s.g.kind.size = x
        by_cases hxn : x = s.g.kind.size
        · exact hxn.symm
        · exfalso
          by_cases hx2 : x < s2.g.kind.size
          · rw [old3 _ hx2] at hk'
            have := new2 x (by omega) _ hk'; cases this
          · have := new3 x (by omega) _ hk'; cases this
    · intro x hx c hc
      by_cases hxn : x = s.g.kind.size
      · rw [hxn, houtO] at hc
        rcases List.mem_cons.1 hc with e | hc
        · exact ⟨_, e ▸ k3⟩
        · rcases List.mem_cons.1 hc with e | hc
          · exact ⟨_, e ▸ kpos⟩
          · cases hc
      · rw [houtX x hxn (by omega), outs_of_ge s.g x (by rw [hosz]; exact hx)] at hc
        cases hc
    · intro e he
      show e ∈ s3.tri
      rw [tri3, tri2, s1tri]; exact List.mem_cons_of_mem _ he
    · show s3.total = s.total
      rw [tot3, tot2, s1tot]
    · show s3.occurs = s.occurs
      rw [occ3, occ2, s1occ]
    · show s3.g.err = s.g.err
      rw [err3, err2, s1err]

end Ddnnf.D4
