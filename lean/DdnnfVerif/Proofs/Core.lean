/-
  Core / dead features (`calculate_core`, `core_dead_with_assumptions`): the syntactic core
  (leaf exists, complementary leaf does not; needs `Live`) and the repaired core (complementary
  leaf has partial derivative 0) are exactly the set of literals contained in every model, and
  core/dead under assumptions is characterised through the specification count.
-/
import DdnnfVerif.Proofs.ExecQuery

namespace Ddnnf

/-- every node has a model and every non-root node has a parent (what ddnnife's DFS flattening of
a d4 circuit produces) -/
def Live (nodes : List NType) : Prop :=
  (∀ i, i < nodes.length → count nodes i ≠ 0) ∧
  (∀ j, j + 1 < nodes.length → ∃ i, ∃ h : i < nodes.length, j < i ∧ j ∈ children nodes[i])

/-! ### a literal of a listed model of any node occurs in a listed model of the root -/

theorem prodConfigs_ne_nil (ls : List (List Config)) (h : ∀ L ∈ ls, L ≠ []) :
    ∃ c, c ∈ prodConfigs ls := by
  induction ls with
  | nil => exact ⟨[], by simp [prodConfigs]⟩
  | cons L ls ih =>
    obtain ⟨tl, htl⟩ := ih (fun L' hL' => h L' (List.mem_cons_of_mem _ hL'))
    obtain ⟨hd, hhd⟩ := List.exists_mem_of_ne_nil L (h L (List.mem_cons_self ..))
    exact ⟨tl ++ hd, (mem_prodConfigs_cons _ _ _).mpr ⟨tl, htl, hd, hhd, rfl⟩⟩

theorem prodConfigs_extend (cs : List Nat) (g : Nat → List Config) (j : Nat) (c : Config)
    (hj : j ∈ cs) (hc : c ∈ g j) (hne : ∀ x ∈ cs, g x ≠ []) :
    ∃ c' ∈ prodConfigs (cs.map g), ∀ l ∈ c, l ∈ c' := by
  induction cs with
  | nil => cases hj
  | cons x cs ih =>
    have hne' : ∀ L ∈ cs.map g, L ≠ [] := by
      intro L hL
      rw [List.mem_map] at hL
      obtain ⟨y, hy, rfl⟩ := hL
      exact hne y (List.mem_cons_of_mem _ hy)
    rw [List.map_cons]
    by_cases hjx : j = x
    · subst hjx
      obtain ⟨tl, htl⟩ := prodConfigs_ne_nil _ hne'
      exact ⟨tl ++ c, (mem_prodConfigs_cons _ _ _).mpr ⟨tl, htl, c, hc, rfl⟩,
        fun l hl => List.mem_append_right _ hl⟩
    · have hj' : j ∈ cs := by
        rcases List.mem_cons.mp hj with h | h
        · exact absurd h hjx
        · exact h
      obtain ⟨tl, htl, hsub⟩ := ih hj' (fun y hy => hne y (List.mem_cons_of_mem _ hy))
      obtain ⟨hd, hhd⟩ := List.exists_mem_of_ne_nil (g x) (hne x (List.mem_cons_self ..))
      exact ⟨tl ++ hd, (mem_prodConfigs_cons _ _ _).mpr ⟨tl, htl, hd, hhd, rfl⟩,
        fun l hl => List.mem_append_left _ (hsub l hl)⟩

theorem models_ne_nil_of_live (nodes : List NType) (hl : Live nodes) (i : Nat)
    (hi : i < nodes.length) : models nodes i ≠ [] := by
  intro h
  apply hl.1 i hi
  rw [count_eq_length_models, h]
  rfl

/-- one step towards the root -/
theorem lit_parent (nodes : List NType) (htopo : Topo nodes) (hl : Live nodes) (l : Int)
    (i j : Nat) (hi : i < nodes.length) (hji : j < i) (hch : j ∈ children nodes[i])
    (h : ∃ c ∈ models nodes j, l ∈ c) : ∃ c ∈ models nodes i, l ∈ c := by
  obtain ⟨c, hc, hlc⟩ := h
  have hm : models nodes i
      = fModels nodes[i] (fun x => if x < i then models nodes x else []) :=
    val_eq [] fModels nodes i hi
  have hlt : ∀ x ∈ children nodes[i], x < i := htopo i hi
  rw [hm]
  cases hnd : nodes[i] with
  | and cs =>
    rw [hnd] at hch hlt
    show ∃ c ∈ prodConfigs (cs.map _), l ∈ c
    obtain ⟨c', hc', hsub⟩ := prodConfigs_extend cs
      (fun x => if x < i then models nodes x else []) j c hch (by simpa [hji] using hc)
      (by
        intro x hx
        have hxi : x < i := hlt x hx
        simp only [hxi, if_true]
        exact models_ne_nil_of_live nodes hl x (by omega))
    exact ⟨c', hc', hsub l hlc⟩
  | or cs =>
    rw [hnd] at hch
    show ∃ c ∈ (cs.map _).flatten, l ∈ c
    refine ⟨c, ?_, hlc⟩
    rw [List.mem_flatten]
    exact ⟨_, List.mem_map.mpr ⟨j, hch, rfl⟩, by simpa [hji] using hc⟩
  | lit l' => rw [hnd] at hch; cases hch
  | tru => rw [hnd] at hch; cases hch
  | fls => rw [hnd] at hch; cases hch

theorem lit_reaches_root (nodes : List NType) (htopo : Topo nodes) (hl : Live nodes) (l : Int) :
    ∀ (d j : Nat), j + d + 1 = nodes.length → (∃ c ∈ models nodes j, l ∈ c) →
      ∃ c ∈ models nodes (rootIx nodes), l ∈ c := by
  intro d
  induction d using Nat.strongRecOn with
  | _ d ih =>
    intro j hjd h
    by_cases hd : d = 0
    · have : j = rootIx nodes := by unfold rootIx; omega
      rw [← this]; exact h
    · obtain ⟨i, hi, hji, hch⟩ := hl.2 j (by omega)
      exact ih (nodes.length - 1 - i) (by omega) i (by omega)
        (lit_parent nodes htopo hl l i j hi hji hch h)

/-- with `Live`, the literal of every leaf occurs in some listed model of the root -/
theorem hasLit_root_model (nodes : List NType) (htopo : Topo nodes) (hl : Live nodes) (l : Int)
    (h : hasLit nodes l = true) : ∃ c ∈ models nodes (rootIx nodes), l ∈ c := by
  obtain ⟨j, hj, he⟩ := (hasLit_iff nodes l).mp h
  apply lit_reaches_root nodes htopo hl l (nodes.length - 1 - j) j (by omega)
  have hm : models nodes j
      = fModels nodes[j] (fun x => if x < j then models nodes x else []) :=
    val_eq [] fModels nodes j hj
  rw [hm, he]
  exact ⟨[l], List.mem_singleton.mpr rfl, List.mem_singleton.mpr rfl⟩

/-- the syntactic core is exactly the set of literals contained in every listed model of the root
(needs `Live`: a dangling or model-free leaf `-l` would remove `l` from the syntactic core) -/
theorem coreSynOf_exact (nodes : List NType) (n : Nat) (h : WF nodes n) (hl : Live nodes)
    (l : Int) :
    l ∈ coreSynOf nodes n
      ↔ (l ≠ 0 ∧ l.natAbs ≤ n ∧ ∀ c ∈ models nodes (rootIx nodes), l ∈ c) := by
  constructor
  · intro hc
    obtain ⟨hn, h1, _⟩ := (mem_coreSynOf nodes n l).mp hc
    exact ⟨hasLit_ne_zero nodes h.litnz l h1, hn, coreSyn_sound nodes n h l hc⟩
  · rintro ⟨h0, hn, hall⟩
    rw [mem_coreSynOf]
    refine ⟨hn, ?_, ?_⟩
    · have hroot : rootIx nodes < nodes.length := by
        have := List.length_pos_iff.mpr h.nonempty
        unfold rootIx; omega
      obtain ⟨c, hc⟩ := List.exists_mem_of_ne_nil _ (models_ne_nil_of_live nodes hl _ hroot)
      exact models_hasLit nodes _ c hc l (hall c hc)
    · cases hneg : hasLit nodes (-l) with
      | false => rfl
      | true =>
        obtain ⟨c, hc, hmem⟩ := hasLit_root_model nodes h.topo hl (-l) hneg
        exact ((root_models_complete nodes n h c hc).not_both (hall c hc) hmem).elim

/-- the repaired core (partial derivative of the complementary leaf is 0) is exactly the set of
literals contained in every listed model of the root; no `Live` needed -/
theorem coreOf_exact (nodes : List NType) (n : Nat) (h : WF nodes n) (hpd : PDLeaf nodes)
    (hpos : 0 < count nodes (rootIx nodes)) (l : Int) :
    l ∈ coreOf nodes n
      ↔ (l ≠ 0 ∧ l.natAbs ≤ n ∧ ∀ c ∈ models nodes (rootIx nodes), l ∈ c) := by
  constructor
  · intro hc
    obtain ⟨hn, h1, _⟩ := (mem_coreOf nodes n l).mp hc
    exact ⟨hasLit_ne_zero nodes h.litnz l h1, hn, coreOf_sound nodes n h hpd l hc⟩
  · rintro ⟨h0, hn, hall⟩
    rw [mem_coreOf]
    refine ⟨hn, ?_, ?_⟩
    · have hne : models nodes (rootIx nodes) ≠ [] := by
        intro he
        rw [count_eq_length_models, he] at hpos
        exact absurd hpos (by simp)
      obtain ⟨c, hc⟩ := List.exists_mem_of_ne_nil _ hne
      exact models_hasLit nodes _ c hc l (hall c hc)
    · cases hlx : leafIx nodes (-l) with
      | none => exact Or.inl rfl
      | some i =>
        refine Or.inr ⟨i, rfl, ?_⟩
        rw [hpd (-l) i hlx, List.length_eq_zero_iff, List.filter_eq_nil_iff]
        intro c hc hmem
        exact (root_models_complete nodes n h c hc).not_both (hall c hc) (by simpa using hmem)

/-! ### splitting the specification count on a feature -/

theorem specCount_split (nodes : List NType) (n : Nat) (A : List Int) (x : Int)
    (hx : x ≠ 0 ∧ x.natAbs ≤ n) :
    specCount nodes n A = specCount nodes n (A ++ [x]) + specCount nodes n (A ++ [-x]) := by
  unfold specCount
  rw [← List.countP_eq_length_filter, ← List.countP_eq_length_filter,
    ← List.countP_eq_length_filter, countP_eq_sum_ite, countP_eq_sum_ite, countP_eq_sum_ite,
    ← sum_map_add']
  congr 1
  apply List.map_congr_left
  intro b _
  simp only [List.all_append, List.all_cons, List.all_nil, Bool.and_true,
    litTrue_neg (assignOf b) x hx.1]
  cases eval (assignOf b) nodes (rootIx nodes) <;> cases A.all (litTrue (assignOf b)) <;>
    cases litTrue (assignOf b) x <;> rfl

/-! ### core / dead under assumptions -/

theorem mem_ite_singleton {α} (c : Prop) [Decidable c] (x y : α) :
    x ∈ (if c then [y] else []) ↔ c ∧ x = y := by
  by_cases hc : c <;> simp [hc]

/-- without assumptions `core_dead_with_assumptions` returns the core -/
theorem coreDeadA_nil (nodes : List NType) (n : Nat) : coreDeadA nodes n [] = coreOf nodes n := rfl

theorem coreDeadA_exact (nodes : List NType) (n : Nat) (h : WF nodes n) (hpd : PDLeaf nodes)
    (A : List Int) (hA : InRange A n) (hne : A ≠ []) (l : Int) :
    l ∈ coreDeadA nodes n A
      ↔ (l ≠ 0 ∧ l.natAbs ≤ n ∧ specCount nodes n (A ++ [l]) = specCount nodes n A) := by
  have hemp : A.isEmpty = false := by
    cases A with
    | nil => exact absurd rfl hne
    | cons a t => rfl
  have hAi : ∀ k : Nat, k < n → InRange (A ++ [(k : Int) + 1]) n := by
    intro k hk a ha
    rcases List.mem_append.mp ha with h1 | h1
    · exact hA a h1
    · rw [List.mem_singleton] at h1
      subst h1
      exact ⟨by omega, by omega⟩
  unfold coreDeadA
  rw [hemp]
  simp only [Bool.false_eq_true, if_false, List.mem_flatMap, List.mem_range, List.mem_append,
    mem_ite_singleton, beq_iff_eq]
  constructor
  · rintro ⟨k, hk, hcase⟩
    rw [execQuery_exact nodes n h hpd A hA, execQuery_exact nodes n h hpd _ (hAi k hk)] at hcase
    have hsplit := specCount_split nodes n A ((k : Int) + 1) ⟨by omega, by omega⟩
    rcases hcase with ⟨heq, rfl⟩ | ⟨hz, rfl⟩
    · exact ⟨by omega, by omega, heq.symm⟩
    · refine ⟨by omega, by omega, ?_⟩
      omega
  · rintro ⟨h0, hn, heq⟩
    by_cases hpos : l > 0
    · refine ⟨l.natAbs - 1, by omega, Or.inl ?_⟩
      have hl : ((l.natAbs - 1 : Nat) : Int) + 1 = l := by omega
      rw [execQuery_exact nodes n h hpd A hA, execQuery_exact nodes n h hpd _ (hAi _ (by omega)), hl]
      exact ⟨heq.symm, rfl⟩
    · refine ⟨l.natAbs - 1, by omega, Or.inr ?_⟩
      have hl : ((l.natAbs - 1 : Nat) : Int) + 1 = -l := by omega
      rw [execQuery_exact nodes n h hpd _ (hAi _ (by omega)), hl]
      have hsplit := specCount_split nodes n A (-l) ⟨by omega, by omega⟩
      rw [Int.neg_neg] at hsplit
      refine ⟨by omega, by omega⟩

end Ddnnf
