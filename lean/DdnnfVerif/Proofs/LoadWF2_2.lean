/-
  Well-formedness of the array the d4 loader produces (part 2): how `Mentions` (the graph-level variable
  sets) reacts to the graph operations of the loader.

  * `Mentions.mono`          kinds kept, successor lists grow: everything mentioned stays mentioned;
  * `mentions_old`           pure additions (old nodes keep kind and successors): old nodes mention the same;
  * `mentions_tri`           a triangle `or(-f, f)` mentions exactly `f`;
  * `mentions_attach`        a node `o` that mentions exactly `f` becomes the first successor of `A`, and
                             all predecessors of `A` mention `f` already: only `A` gains `f`;
  * `mentions_insertAnd`     `and(child)` is inserted between `nx` and `child`: nothing changes for the
                             old nodes, the new node mentions what `child` mentions;
  * `mentions_sub_of_erel`   the True/False elimination (`ERel`) only makes variable sets smaller.
-/
import DdnnfVerif.Proofs.LoadWF2_1

namespace Ddnnf.D4

theorem mentions_lit {g : G} {x : Nat} {l : Int} (hk : g.kindOf x = some (.lit l)) (f : Nat) :
    Mentions g x f ↔ f = l.natAbs := by
  constructor
  · intro h
    rcases h.inv with ⟨l', hk', e⟩ | ⟨hk', _⟩
    · rw [hk] at hk'; cases hk'; exact e
    · rw [hk] at hk'; rcases hk' with h | h <;> cases h
  · rintro rfl; exact .lit hk

/-- only literal leaves, and-nodes and or-nodes mention anything -/
theorem Mentions.kind {g : G} {x f : Nat} (h : Mentions g x f) :
    (∃ l, g.kindOf x = some (.lit l)) ∨ g.kindOf x = some .and ∨ g.kindOf x = some .or := by
  rcases h.inv with ⟨l, hk, _⟩ | ⟨hk, _⟩
  · exact Or.inl ⟨l, hk⟩
  · exact Or.inr hk

theorem Mentions.lt {g : G} {x f : Nat} (h : Mentions g x f) : x < g.kind.size := by
  rcases h.kind with ⟨l, hk⟩ | hk | hk <;> exact kindOf_lt hk

/-- every mentioned variable is the variable of some literal leaf -/
theorem Mentions.leaf {g : G} {x f : Nat} (h : Mentions g x f) :
    ∃ y l, g.kindOf y = some (.lit l) ∧ l.natAbs = f := by
  induction h with
  | lit hk => exact ⟨_, _, hk, rfl⟩
  | inner _ _ _ ih => exact ih

/-- kinds kept, successor lists grow: what was mentioned is still mentioned -/
theorem Mentions.mono {g g' : G} (hk : ∀ x k, g.kindOf x = some k → g'.kindOf x = some k)
    (ho : ∀ x c, c ∈ g.outs.getD x [] → c ∈ g'.outs.getD x []) {x f : Nat} (h : Mentions g x f) :
    Mentions g' x f := by
  induction h with
  | lit hl => exact .lit (hk _ _ hl)
  | inner hkx hc _ ih =>
    exact .inner (hkx.imp (hk _ _) (hk _ _)) (ho _ _ hc) ih

/-- `Mentions` only depends on kinds and successor lists -/
theorem mentions_congr {g g' : G} (hk : ∀ x, g'.kindOf x = g.kindOf x)
    (ho : ∀ x, g'.outs.getD x [] = g.outs.getD x []) (x f : Nat) : Mentions g' x f ↔ Mentions g x f :=
  ⟨Mentions.mono (fun x k h => by rw [← hk]; exact h) (fun x c h => by rw [← ho]; exact h),
   Mentions.mono (fun x k h => by rw [hk]; exact h) (fun x c h => by rw [ho]; exact h)⟩

/-- pure additions: the nodes below `n` keep their kinds and successor lists (which stay below `n`) -/
theorem mentions_old {g g' : G} {n : Nat} (he : ∀ x, x < n → ∀ c ∈ g.outs.getD x [], c < n)
    (hk : ∀ x, x < n → g'.kindOf x = g.kindOf x)
    (ho : ∀ x, x < n → g'.outs.getD x [] = g.outs.getD x []) :
    ∀ x, x < n → ∀ f, Mentions g' x f ↔ Mentions g x f := by
  intro x hx f
  constructor
  · intro h
    induction h with
    | lit hl => rw [hk _ hx] at hl; exact .lit hl
    | inner hkx hc _ ih =>
      rw [hk _ hx] at hkx
      rw [ho _ hx] at hc
      exact .inner hkx hc (ih (he _ hx _ hc))
  · intro h
    induction h with
    | lit hl => rw [← hk _ hx] at hl; exact .lit hl
    | inner hkx hc _ ih =>
      have hc' := hc
      rw [← hk _ hx] at hkx
      rw [← ho _ hx] at hc
      exact .inner hkx hc (ih (he _ hx _ hc'))

/-- a node whose successors are described explicitly -/
theorem mentions_inner_iff {g : G} {x : Nat} (hk : g.kindOf x = some .and ∨ g.kindOf x = some .or) (f : Nat) :
    Mentions g x f ↔ ∃ c ∈ g.outs.getD x [], Mentions g c f := by
  constructor
  · intro h
    rcases h.inv with ⟨l, hl, _⟩ | ⟨_, h⟩
    · rcases hk with hk | hk <;> (rw [hk] at hl; cases hl)
    · exact h
  · rintro ⟨c, hc, hm⟩; exact .inner hk hc hm

/-! ### triangles -/

/-- `o` is the triangle `or(-f, f)` of the feature `f ≥ 1` -/
def TriShape (g : G) (f o : Nat) : Prop :=
  1 ≤ f ∧ g.kindOf o = some .or ∧ ∃ pos neg, g.outs.getD o [] = [neg, pos] ∧
    g.kindOf pos = some (.lit (f : Int)) ∧ g.kindOf neg = some (.lit (-(f : Int)))

/-- all successors of `o` are literal leaves -/
def LitKids (g : G) (o : Nat) : Prop := ∀ c ∈ g.outs.getD o [], ∃ l, g.kindOf c = some (.lit l)

theorem TriShape.litKids {g : G} {f o : Nat} (h : TriShape g f o) : LitKids g o := by
  obtain ⟨_, _, pos, neg, ho, hp, hn⟩ := h
  intro c hc
  rw [ho] at hc
  rcases List.mem_cons.1 hc with e | hc
  · exact ⟨_, e ▸ hn⟩
  · rcases List.mem_cons.1 hc with e | hc
    · exact ⟨_, e ▸ hp⟩
    · cases hc

/-- every successor of a triangle mentions exactly its feature -/
theorem TriShape.kids {g : G} {f o : Nat} (h : TriShape g f o) :
    ∀ c ∈ g.outs.getD o [], ∀ f', Mentions g c f' ↔ f' = f := by
  obtain ⟨_, _, pos, neg, ho, hp, hn⟩ := h
  intro c hc f'
  rw [ho] at hc
  rcases List.mem_cons.1 hc with e | hc
  · subst e; rw [mentions_lit hn, Int.natAbs_neg, Int.natAbs_natCast]
  · rcases List.mem_cons.1 hc with e | hc
    · subst e; rw [mentions_lit hp, Int.natAbs_natCast]
    · cases hc

/-- a triangle mentions exactly its feature -/
theorem mentions_tri {g : G} {f o : Nat} (h : TriShape g f o) (f' : Nat) : Mentions g o f' ↔ f' = f := by
  have hk := h.kids
  obtain ⟨_, hko, pos, neg, ho, _, _⟩ := h
  rw [mentions_inner_iff (Or.inr hko)]
  constructor
  · rintro ⟨c, hc, hm⟩; exact (hk c hc f').1 hm
  · intro e
    exact ⟨neg, by rw [ho]; exact List.mem_cons_self .., (hk neg (by rw [ho]; exact List.mem_cons_self ..) f').2 e⟩

/-- the shape of a triangle only depends on the kinds and the successor list of `o` -/
theorem TriShape.congr {g g' : G} {f o : Nat} (h : TriShape g f o)
    (hk : ∀ x k, g.kindOf x = some k → g'.kindOf x = some k)
    (ho : g'.outs.getD o [] = g.outs.getD o []) : TriShape g' f o := by
  obtain ⟨h1, hko, pos, neg, hoo, hp, hn⟩ := h
  exact ⟨h1, hk _ _ hko, pos, neg, by rw [ho, hoo], hk _ _ hp, hk _ _ hn⟩

/-! ### a new first successor -/

/-- `o` (which mentions exactly `f` in the new graph) becomes the first successor of the and/or node
`A`; every predecessor of `A` mentions `f` already.  Then only `A` gains the variable `f`. -/
theorem mentions_attach {g g' : G} {n A o f : Nat}
    (he : ∀ x, x < n → ∀ c ∈ g.outs.getD x [], c < n)
    (hk : ∀ x, x < n → g'.kindOf x = g.kindOf x)
    (ho : ∀ x, x < n → x ≠ A → g'.outs.getD x [] = g.outs.getD x [])
    (hA : A < n) (hAk : g.kindOf A = some .and ∨ g.kindOf A = some .or)
    (hoA : g'.outs.getD A [] = o :: g.outs.getD A [])
    (hto : ∀ f', Mentions g' o f' ↔ f' = f)
    (habs : ∀ y, y < n → A ∈ g.outs.getD y [] → Mentions g y f) :
    ∀ x, x < n → ∀ f', Mentions g' x f' ↔ Mentions g x f' ∨ (x = A ∧ f' = f) := by
  intro x hx f'
  constructor
  · intro h
    induction h with
    | lit hl => rw [hk _ hx] at hl; exact Or.inl (.lit hl)
    | @inner x c v hkx hc hm ih =>
      rw [hk _ hx] at hkx
      by_cases hxa : x = A
      · subst hxa
        rw [hoA] at hc
        rcases List.mem_cons.1 hc with e | hc
        · subst e; exact Or.inr ⟨rfl, (hto _).1 hm⟩
        · rcases ih (he _ hx _ hc) with h1 | ⟨e1, e2⟩
          · exact Or.inl (.inner hkx hc h1)
          · subst e1; subst e2
            exact Or.inl (habs _ hx hc)
      · rw [ho _ hx hxa] at hc
        rcases ih (he _ hx _ hc) with h1 | ⟨e1, e2⟩
        · exact Or.inl (.inner hkx hc h1)
        · subst e1; subst e2
          exact Or.inl (habs _ hx hc)
  · rintro (h | ⟨rfl, rfl⟩)
    · induction h with
      | lit hl => rw [← hk _ hx] at hl; exact .lit hl
      | @inner x c v hkx hc _ ih =>
        have hc' := hc
        rw [← hk _ hx] at hkx
        have hcm : c ∈ g'.outs.getD x [] := by
          by_cases hxa : x = A
          · subst hxa; rw [hoA]; exact List.mem_cons_of_mem _ hc
          · rw [ho _ hx hxa]; exact hc
        exact .inner hkx hcm (ih (he _ hx _ hc'))
    · rw [← hk _ hx] at hAk
      exact .inner hAk (by rw [hoA]; exact List.mem_cons_self ..) ((hto _).2 rfl)

/-! ### a new node between `nx` and `child` -/

theorem mentions_insertAnd {g g' : G} {n nx child : Nat}
    (he : ∀ x, x < n → ∀ c ∈ g.outs.getD x [], c < n)
    (hk : ∀ x, x < n → g'.kindOf x = g.kindOf x)
    (ho : ∀ x, x < n → x ≠ nx → g'.outs.getD x [] = g.outs.getD x [])
    (hnx : nx < n) (hch : child ∈ g.outs.getD nx [])
    (honx : g'.outs.getD nx [] = n :: (g.outs.getD nx []).erase child)
    (hkn : g'.kindOf n = some .and) (hon : g'.outs.getD n [] = [child]) :
    (∀ x, x < n → ∀ f, Mentions g' x f ↔ Mentions g x f) ∧ (∀ f, Mentions g' n f ↔ Mentions g child f) := by
  have hchild : child < n := he _ hnx _ hch
  -- new ⊆ old
  have fwd : ∀ x f, Mentions g' x f → (x < n → Mentions g x f) ∧ (x = n → Mentions g child f) := by
    intro x f h
    induction h with
    | @lit x l hl =>
      refine ⟨fun hx => ?_, fun e => ?_⟩
      · rw [hk _ hx] at hl; exact .lit hl
      · rw [e, hkn] at hl; cases hl
    | @inner x c v hkx hc _ ih =>
      refine ⟨fun hx => ?_, fun e => ?_⟩
      · rw [hk _ hx] at hkx
        by_cases hxn : x = nx
        · subst hxn
          rw [honx] at hc
          rcases List.mem_cons.1 hc with e | hc
          · exact .inner hkx hch (ih.2 e)
          · have hc' := List.mem_of_mem_erase hc
            exact .inner hkx hc' (ih.1 (he _ hx _ hc'))
        · rw [ho _ hx hxn] at hc
          exact .inner hkx hc (ih.1 (he _ hx _ hc))
      · subst e
        rw [hon] at hc
        rcases List.mem_cons.1 hc with e | hc
        · subst e; exact ih.1 hchild
        · cases hc
  -- old ⊆ new
  have bwd : ∀ x f, Mentions g x f → x < n → Mentions g' x f := by
    intro x f h
    induction h with
    | lit hl => intro hx; rw [← hk _ hx] at hl; exact .lit hl
    | @inner x c v hkx hc _ ih =>
      intro hx
      have hcn := he _ hx _ hc
      rw [← hk _ hx] at hkx
      by_cases hxn : x = nx
      · subst hxn
        by_cases hcc : c = child
        · subst hcc
          refine .inner hkx (by rw [honx]; exact List.mem_cons_self ..) ?_
          exact .inner (Or.inl hkn) (by rw [hon]; exact List.mem_cons_self ..) (ih hcn)
        · exact .inner hkx (by rw [honx]; exact List.mem_cons_of_mem _ ((List.mem_erase_of_ne hcc).2 hc))
            (ih hcn)
      · exact .inner hkx (by rw [ho _ hx hxn]; exact hc) (ih hcn)
  refine ⟨fun x hx f => ⟨fun h => (fwd x f h).1 hx, fun h => bwd x f h hx⟩, fun f => ⟨fun h => (fwd n f h).2 rfl, ?_⟩⟩
  intro h
  exact .inner (Or.inl hkn) (by rw [hon]; exact List.mem_cons_self ..) (bwd child f h hchild)

/-! ### the elimination -/

/-- the True/False elimination only makes variable sets smaller -/
theorem mentions_sub_of_erel {g g' : G} (h : ERel g g') {x f : Nat} (hm : Mentions g' x f) : Mentions g x f := by
  induction hm with
  | @lit x l hl =>
    rcases h.kinds x with e | ⟨e, _⟩ | ⟨e, _⟩
    · rw [e] at hl; exact .lit hl
    · rw [e] at hl; cases hl
    · rw [e] at hl; cases hl
  | @inner x c v hkx hc _ ih =>
    have hkx' : g.kindOf x = some .and ∨ g.kindOf x = some .or := by
      rcases h.kinds x with e | ⟨e, _⟩ | ⟨e, _⟩
      · rw [e] at hkx; exact hkx
      · rw [e] at hkx; rcases hkx with h | h <;> cases h
      · rw [e] at hkx; rcases hkx with h | h <;> cases h
    exact .inner hkx' (h.outs x c hc) ih

end Ddnnf.D4
