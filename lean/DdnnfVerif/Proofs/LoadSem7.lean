/-
  Denotation of the graphs of the d4 loader (part 7): structural invariants of phases 1 and 2 that the
  semantic lemmas need at the start of the later phases, for every input file:

  * `PInv`: `LInv`, the literal table points at literal leaves, the predecessor lists are consistent
    with the successor lists (`IOK`); kept by `stepLine` (`lines_p`), no triangle is registered in phase 1;
  * `addFree_iok`: the predecessor lists are still consistent after phase 2 (the input of the elimination).
-/
import DdnnfVerif.Proofs.LoadSem6

namespace Ddnnf.D4

structure IOK (g : G) : Prop where
  ins : InsOK g
  isz : g.ins.size = g.kind.size
  osz : g.outs.size = g.kind.size

theorem iok_addNode {g : G} (h : IOK g) (k : GK) : IOK (g.addNode k).1 :=
  ⟨insOK_addNode h.ins k, by simp [G.addNode, h.isz], by simp [G.addNode, h.osz]⟩

theorem iok_addEdge {g : G} (h : IOK g) (a b : Nat) (hab : b < g.kind.size → a < g.kind.size) :
    IOK (g.addEdge a b) :=
  ⟨insOK_addEdge h.ins a b (by rw [h.isz, h.osz]; exact hab), by simp [G.addEdge, h.isz],
    by simp [G.addEdge, h.osz]⟩

theorem iok_init : IOK ({} : G) := by
  refine ⟨?_, rfl, rfl⟩
  intro a b
  simp [Array.getD_eq_getD_getElem?]

structure PInv (s : LState) : Prop where
  linv : LInv s
  litK : ∀ e ∈ s.litNx, s.g.kindOf e.2 = some (.lit e.1)
  iok : IOK s.g

theorem getLit_size_le (s : LState) (l : Int) : s.g.kind.size ≤ (s.getLit l).1.g.kind.size := by
  cases hf : s.litNx.find? (·.1 == l) with
  | some e => rw [getLit_found s l e hf]; exact Nat.le_refl _
  | none =>
    rw [getLit_new s l hf]
    show s.g.kind.size ≤ (s.g.addNode (.lit l)).1.kind.size
    rw [addNode_size]; exact Nat.le_succ _

theorem getLit_iok (s : LState) (l : Int) (h : IOK s.g) : IOK (s.getLit l).1.g := by
  cases hf : s.litNx.find? (·.1 == l) with
  | some e => rw [getLit_found s l e hf]; exact h
  | none => rw [getLit_new s l hf]; exact iok_addNode h _

theorem getLit_tri (s : LState) (l : Int) : (s.getLit l).1.tri = s.tri := by
  cases hf : s.litNx.find? (·.1 == l) with
  | some e => rw [getLit_found s l e hf]
  | none => rw [getLit_new s l hf]

theorem getLit_p (s : LState) (l : Int) (h : PInv s) : PInv (s.getLit l).1 := by
  refine ⟨(getLit_spec s l h.linv).1, ?_, getLit_iok s l h.iok⟩
  cases hf : s.litNx.find? (·.1 == l) with
  | some e => rw [getLit_found s l e hf]; exact h.litK
  | none =>
    rw [getLit_new s l hf]
    intro e he
    show (s.g.addNode (.lit l)).1.kindOf e.2 = some (.lit e.1)
    rw [kindOf_addNode]
    rcases List.mem_cons.1 he with e' | he
    · rw [e']; simp
    · rw [if_neg (Nat.ne_of_lt (h.linv.lit e he))]; exact h.litK e he

theorem getLits_p (s : LState) (ls : List Int) (h : PInv s) :
    PInv (s.getLits ls).1 ∧ (s.getLits ls).1.tri = s.tri := by
  unfold LState.getLits
  refine foldl_inv (fun (acc : LState × List Nat) => PInv acc.1 ∧ acc.1.tri = s.tri) _ _ ?_ (s, []) ⟨h, rfl⟩
  intro acc l _ hacc
  show PInv (acc.1.getLit l).1 ∧ (acc.1.getLit l).1.tri = s.tri
  exact ⟨getLit_p acc.1 l hacc.1, (getLit_tri acc.1 l).trans hacc.2⟩

theorem edgeStep_p (s : LState) (a b : Nat) (lits : List Int) (h : PInv s) :
    PInv (edgeStep s a b lits) ∧ (edgeStep s a b lits).tri = s.tri := by
  have hlinv := (edgeStep_spec s a b lits h.linv).1
  have hfrom : ∀ n, 0 < n → s.g.kind.size ≤ n → s.indices.getD (a - 1) 0 < n := by
    intro n hn hle
    rcases getD_mem_or_default s.indices (a - 1) 0 with e | hm
    · rw [e]; exact hn
    · exact Nat.lt_of_lt_of_le (h.linv.idx _ hm) hle
  unfold edgeStep at hlinv ⊢
  dsimp only at hlinv ⊢
  split
  · rename_i hemp
    simp only [hemp, if_true] at hlinv
    refine ⟨⟨hlinv, h.litK, ?_⟩, rfl⟩
    exact iok_addEdge h.iok _ _ (fun hb => hfrom _ (by omega) (Nat.le_refl _))
  · rename_i hemp
    simp only [hemp] at hlinv
    have hl := getLits_p s lits h
    have hl2 := getLits_spec s lits h.linv
    show PInv { (s.getLits lits).1 with g :=
        (((s.getLits lits).2.foldl (fun (g : G) (x : Nat) => g.addEdge ((s.getLits lits).1.g.addNode .and).2 x)
          ((((s.getLits lits).1.g.addNode .and).1).addEdge (s.indices.getD (a - 1) 0)
            ((s.getLits lits).1.g.addNode .and).2)).addEdge ((s.getLits lits).1.g.addNode .and).2
              (s.indices.getD (b - 1) 0)) } ∧ _
    have hlinv' : LInv { (s.getLits lits).1 with g :=
        (((s.getLits lits).2.foldl (fun (g : G) (x : Nat) => g.addEdge ((s.getLits lits).1.g.addNode .and).2 x)
          ((((s.getLits lits).1.g.addNode .and).1).addEdge (s.indices.getD (a - 1) 0)
            ((s.getLits lits).1.g.addNode .and).2)).addEdge ((s.getLits lits).1.g.addNode .and).2
              (s.indices.getD (b - 1) 0)) } := hlinv
    generalize s.getLits lits = p at hl hl2 hlinv' ⊢
    obtain ⟨s1, litNodes⟩ := p
    dsimp only at hl hl2 hlinv' ⊢
    rw [addNode_snd] at hlinv' ⊢
    have hsz := addNode_size s1.g .and
    -- the shape of the fold: kinds and size are those of the graph with the new node
    have hfold : ∀ (l : List Nat) (g : G), IOK g → g.kind.size = s1.g.kind.size + 1 →
        (∀ x, g.kindOf x = (s1.g.addNode .and).1.kindOf x) →
        IOK (l.foldl (fun (g : G) (x : Nat) => g.addEdge s1.g.kind.size x) g) ∧
        (l.foldl (fun (g : G) (x : Nat) => g.addEdge s1.g.kind.size x) g).kind.size = s1.g.kind.size + 1 ∧
        ∀ x, (l.foldl (fun (g : G) (x : Nat) => g.addEdge s1.g.kind.size x) g).kindOf x
          = (s1.g.addNode .and).1.kindOf x := by
      intro l
      induction l with
      | nil => intro g h1 h2 h3; exact ⟨h1, h2, h3⟩
      | cons y l ih =>
        intro g h1 h2 h3
        exact ih _ (iok_addEdge h1 _ _ (fun _ => by rw [h2]; exact Nat.lt_succ_self _)) h2 h3
    have i1 : IOK ((s1.g.addNode .and).1.addEdge (s.indices.getD (a - 1) 0) s1.g.kind.size) :=
      iok_addEdge (iok_addNode hl.1.iok .and) _ _
        (fun _ => by rw [hsz]; exact hfrom _ (Nat.succ_pos _) (Nat.le_succ_of_le hl2.2.1))
    obtain ⟨i2, sz2, k2⟩ := hfold litNodes _ i1 hsz (fun _ => rfl)
    refine ⟨⟨hlinv', ?_, iok_addEdge i2 _ _ (fun _ => by rw [sz2]; exact Nat.lt_succ_self _)⟩, hl.2⟩
    intro e he
    show (litNodes.foldl (fun (g : G) (x : Nat) => g.addEdge s1.g.kind.size x) _).kindOf e.2 = _
    rw [k2, kindOf_addNode, if_neg (Nat.ne_of_lt (hl.1.linv.lit e he))]
    exact hl.1.litK e he

theorem stepLine_p (s : LState) (line : Line) (h : PInv s) :
    PInv (stepLine s line) ∧ (stepLine s line).tri = s.tri := by
  have hlinv := (stepLine_spec s line h.linv).1
  cases line with
  | node k =>
    refine ⟨⟨hlinv, ?_, iok_addNode h.iok k⟩, rfl⟩
    intro e he
    show (s.g.addNode k).1.kindOf e.2 = _
    rw [kindOf_addNode, if_neg (Nat.ne_of_lt (h.linv.lit e he))]
    exact h.litK e he
  | edge a b lits =>
    rw [stepLine_edge]
    exact edgeStep_p _ a b lits ⟨⟨h.linv.wf, h.linv.idx, h.linv.lit, h.linv.tri⟩, h.litK, h.iok⟩

theorem pinv_init (total : Nat) : PInv { total := total } :=
  ⟨linv_init total, fun e he => (by cases he), iok_init⟩

/-- phase 1, every input: the structural invariant holds and no triangle is registered -/
theorem lines_p (lines : List Line) (total : Nat) :
    PInv (lines.foldl stepLine { total := total }) ∧ (lines.foldl stepLine { total := total }).tri = [] :=
  foldl_inv (fun (acc : LState) => PInv acc ∧ acc.tri = []) stepLine lines
    (fun acc line _ hacc => ⟨(stepLine_p acc line hacc.1).1, (stepLine_p acc line hacc.1).2.trans hacc.2⟩)
    { total := total } ⟨pinv_init total, rfl⟩

/-! ### phase 2 -/

theorem addTriangle_iok (s : LState) (f attach : Nat) (h : IOK s.g) (ha : attach < s.g.kind.size) :
    IOK (s.addTriangle f attach).g := by
  cases hfind : s.tri.find? (·.1 == f) with
  | some e =>
    rw [addTriangle_found s f attach e hfind]
    exact iok_addEdge h _ _ (fun _ => ha)
  | none =>
    rw [addTriangle_new s f attach hfind]
    unfold triNew
    dsimp only
    have hsz := addNode_size s.g .or
    generalize hs1 : ({ s with g := (s.g.addNode .or).1, tri := (f, (s.g.addNode .or).2) :: s.tri } : LState) = s1
    have s1sz : s1.g.kind.size = s.g.kind.size + 1 := by rw [← hs1]; exact hsz
    have i1 : IOK s1.g := by rw [← hs1]; exact iok_addNode h .or
    have i2 := getLit_iok s1 (f : Int) i1
    have z2 := getLit_size_le s1 (f : Int)
    have i3 := getLit_iok (s1.getLit (f : Int)).1 (-(f : Int)) i2
    have z3 := getLit_size_le (s1.getLit (f : Int)).1 (-(f : Int))
    generalize s1.getLit (f : Int) = p2 at i2 z2 i3 z3 ⊢
    obtain ⟨s2, pos⟩ := p2
    dsimp only at i2 z2 i3 z3 ⊢
    generalize s2.getLit (-(f : Int)) = p3 at i3 z3 ⊢
    obtain ⟨s3, neg⟩ := p3
    dsimp only at i3 z3 ⊢
    rw [addNode_snd]
    have ho : s.g.kind.size < s3.g.kind.size := by omega
    have j1 := iok_addEdge i3 attach s.g.kind.size (fun _ => by omega)
    have j2 := iok_addEdge j1 s.g.kind.size pos (fun _ => ho)
    exact iok_addEdge j2 s.g.kind.size neg (fun _ => ho)

theorem wrapTri_iok (n : Nat) (s : LState) (root f : Nat) (hacc : RootInv n (s, root)) (h : IOK s.g) :
    IOK (wrapTri s root f).1.g := by
  by_cases h0 : root = 0
  · subst h0
    rw [wrapTri_zero]
    apply addTriangle_iok
    · exact iok_addEdge (iok_addNode h .and) _ _ (fun _ => by rw [addNode_size]; exact Nat.lt_succ_self _)
    · show s.g.kind.size < ((s.g.addNode .and).1.addEdge s.g.kind.size 0).kind.size
      rw [addEdge_size, addNode_size]; exact Nat.lt_succ_self _
  · rw [wrapTri_ne s root f h0]
    apply addTriangle_iok _ _ _ h
    rcases hacc.2.2 with e | hlt
    · exact absurd e h0
    · exact hlt

/-- the predecessor lists are consistent at the start of the elimination -/
theorem addFree_iok (s : LState) (h : LInv s) (hi : IOK s.g) : IOK (addFree s).1.g := by
  unfold addFree
  refine (foldl_inv (fun acc => RootInv s.g.kind.size acc ∧ IOK acc.1.g) _ _ ?_ (s, 0)
    ⟨⟨h, Nat.le_refl _, Or.inl rfl⟩, hi⟩).2
  intro acc k _ hacc
  obtain ⟨s', root⟩ := acc
  dsimp only
  split
  · exact hacc
  · exact ⟨wrapTri_spec _ s' root (k + 1) hacc.1, wrapTri_iok _ s' root (k + 1) hacc.1 hacc.2⟩

end Ddnnf.D4
