/-
  Denotation of the graphs of the d4 loader (part 13): the graph that is flattened is acyclic whenever the
  graph built in phase 1 is (`loadGraph_acyclic`), with an explicitly constructed rank:

  phase 1: `r` is normalised (literal leaves of the table 0, all other nodes `r x + 2`);
  phases 2/3b: new literal leaves 0, new triangles 1, a new root `max 2 (ρ 0 + 1)`;
  phase 3: unchanged;  phase 4: rescaling by `psi` at every inserted `and`, which gets `psi (ρ child) + 2`.
-/
import DdnnfVerif.Proofs.LoadSem8
import DdnnfVerif.Proofs.LoadSem12

namespace Ddnnf.D4

/-- literal leaves of the table get rank 0, every other node is lifted by 2 -/
def normRank (s : LState) (r : Nat → Nat) : Nat → Nat :=
  fun x => if s.litNx.any (fun e => e.2 == x) then 0 else r x + 2

theorem normRank_rinv (s : LState) (r : Nat → Nat) (hp : PInv s) (htri : s.tri = [])
    (hacyc : Acyclic s.g r) (hsink : ∀ e ∈ s.litNx, s.g.outs.getD e.2 [] = []) :
    RInv s (normRank s r) := by
  have hleaf : ∀ x, s.litNx.any (fun e => e.2 == x) = true ↔ ∃ e ∈ s.litNx, e.2 = x := by
    intro x
    rw [List.any_eq_true]
    constructor
    · rintro ⟨e, he, hx⟩; exact ⟨e, he, by simpa using hx⟩
    · rintro ⟨e, he, hx⟩; exact ⟨e, he, by simpa using hx⟩
  refine ⟨hp.linv, hp.litK, ?_, ?_, ?_, ?_, ?_⟩
  · intro x c hc
    have hx : ¬ s.litNx.any (fun e => e.2 == x) = true := by
      intro hx
      obtain ⟨e, he, hex⟩ := (hleaf x).1 hx
      rw [← hex, hsink e he] at hc
      cases hc
    have := hacyc x c hc
    unfold normRank
    rw [if_neg hx]
    split <;> omega
  · intro e he
    unfold normRank
    rw [if_pos ((hleaf e.2).2 ⟨e, he, rfl⟩)]
  · intro e he; rw [htri] at he; cases he
  · intro x hx
    left
    apply (hleaf x).1
    unfold normRank at hx
    split at hx
    · assumption
    · omega
  · intro e he; rw [htri] at he; cases he

/-- acyclicity of the phase-1 graph carries over to the graph that is flattened -/
theorem loadGraph_acyclic (sorted : Bool) (h : List Nat → List Nat) (lines : List Line) (total : Nat)
    (hnode : ∃ k, Line.node k ∈ lines) (r : Nat → Nat) (hacyc : Acyclic (phase1 lines total).g r) :
    ∃ r4, Acyclic (loadGraph sorted h lines total).1 r4 := by
  obtain ⟨hp, htri⟩ := lines_p lines total
  have hpos : 0 < (phase1 lines total).g.kind.size :=
    lines_size_pos lines { total := total } (linv_init total) (Or.inr hnode)
  have r1 : RInv (phase1 lines total) (normRank (phase1 lines total) r) :=
    normRank_rinv _ r hp htri hacyc (lines_leaf_sink lines total r hacyc)
  obtain ⟨ρ2, r2, hr2, z2⟩ := addFree_rank hpos r1
  have r3 : RInv (afterElim (phase1 lines total)) ρ2 := elim_rank _ ρ2 _ r2
  have hsz3 : (afterElim (phase1 lines total)).g.kind.size = (addFree (phase1 lines total)).1.g.kind.size :=
    (eliminate_wfn _ _ _ ⟨r2.linv.wf, rfl⟩).2
  have hr3 : RootHi (afterElim (phase1 lines total)) ρ2 (addFree (phase1 lines total)).2 := by
    rcases hr2 with e | ⟨hlt, hr⟩
    · exact Or.inl e
    · exact Or.inr ⟨by rw [hsz3]; exact hlt, hr⟩
  obtain ⟨ρ3, r3', _, _⟩ : ∃ ρ', RInv (st3 (phase1 lines total)).1 ρ' ∧
      RootHi (st3 (phase1 lines total)).1 ρ' (st3 (phase1 lines total)).2 ∧
      (afterElim (phase1 lines total)).g.kind.size ≤ (st3 (phase1 lines total)).1.g.kind.size :=
    addVanished_rank _ (by rw [hsz3]; exact Nat.lt_of_lt_of_le hpos z2) hr3 r3
  obtain ⟨ρ4, r4⟩ : ∃ ρ', RInv (st4 sorted h (phase1 lines total)) ρ' :=
    smooth_rank sorted h _ _ ρ3 r3'
  exact ⟨ρ4, by rw [loadGraph_eq]; exact r4.acyc⟩

end Ddnnf.D4
