/-
  The d4 combinators on lines in normal form.
-/
import DdnnfVerif.Proofs.Lex1
namespace Ddnnf.Lex

/-- `rest` does not begin with a blank or a tab -/
def NoBlankHead (rest : List Char) : Prop := ∀ c r, rest = c :: r → (c == ' ' || c == '\t') = false

theorem noBlankHead_cons {c : Char} {r : List Char} (h : (c == ' ' || c == '\t') = false) :
    NoBlankHead (c :: r) := by
  intro c' r' e; cases e; exact h

theorem space1_blank {tail : List Char} (h : NoBlankHead tail) : space1 (' ' :: tail) = some tail := by
  have : tail.dropWhile (fun c => c == ' ' || c == '\t') = tail := by
    cases tail with
    | nil => rfl
    | cons c r => have := h c r rfl; simp only [List.dropWhile, this]
  unfold space1
  simp [List.takeWhile, List.dropWhile, this]

theorem not_blank_of_digit {c : Char} (h : c.isDigit = true) : (c == ' ' || c == '\t') = false := by
  cases hb : (c == ' ' || c == '\t') with
  | false => rfl
  | true =>
    simp only [Bool.or_eq_true, beq_iff_eq] at hb
    rcases hb with rfl | rfl <;> revert h <;> decide

theorem renderInt_head (i : Int) : ∃ c r, renderInt i = c :: r ∧ (c == ' ' || c == '\t') = false := by
  by_cases h : 0 ≤ i
  · obtain ⟨c, r, h1, h2, _⟩ := renderNat_head i.toNat
    exact ⟨c, r, by rw [renderInt_nonneg h, h1], not_blank_of_digit h2⟩
  · exact ⟨'-', _, renderInt_neg (by omega), by decide⟩

/-- sign and digits of a rendered integer -/
def grp (i : Int) : Bool × List Char := (decide (i < 0), renderNat i.natAbs)

theorem signedNumSpace_render (i : Int) {tail : List Char} (h : NoBlankHead tail) :
    signedNumSpace (renderInt i ++ ' ' :: tail) = some (grp i, tail) := by
  have hnd : NoDigitHead (' ' :: tail) := noDigitHead_cons (by decide)
  by_cases h0 : 0 ≤ i
  · have e : i.toNat = i.natAbs := by omega
    have hl : decide (i < 0) = false := by simp; omega
    unfold signedNumSpace
    rw [renderInt_nonneg h0, digit1_renderNat _ hnd]
    simp only [space1_blank h, Option.map_some, grp, e, hl]
  · have h0' : i < 0 := by omega
    have e : (-i).toNat = i.natAbs := by omega
    have hl : decide (i < 0) = true := by simp; omega
    have hn : digit1 ('-' :: (renderNat (-i).toNat ++ ' ' :: tail)) = none :=
      digit1_noDigitHead (noDigitHead_cons (by decide))
    unfold signedNumSpace
    rw [renderInt_neg h0', List.cons_append, hn]
    simp only [digit1_renderNat _ hnd, space1_blank h, Option.map_some, grp, e, hl]

/-- the normal form of the number part of an edge line -/
def edgeChars (xs : List Int) : List Char := (xs.flatMap fun i => renderInt i ++ [' ']) ++ ['0']

theorem edgeChars_nil : edgeChars [] = ['0'] := rfl
theorem edgeChars_cons (x : Int) (xs : List Int) :
    edgeChars (x :: xs) = renderInt x ++ ' ' :: edgeChars xs := by
  simp [edgeChars]

theorem noBlankHead_edgeChars (xs : List Int) : NoBlankHead (edgeChars xs) := by
  cases xs with
  | nil => exact noBlankHead_cons (by decide)
  | cons x xs =>
    obtain ⟨c, r, h1, h2⟩ := renderInt_head x
    rw [edgeChars_cons, h1]; exact noBlankHead_cons h2

theorem length_le_edgeChars (xs : List Int) : xs.length ≤ (edgeChars xs).length := by
  induction xs with
  | nil => simp
  | cons x xs ih => rw [edgeChars_cons]; simp; omega

theorem signedNumSpace_zero : signedNumSpace ['0'] = none := by decide

theorem signedNums_edgeChars (xs : List Int) (fuel : Nat) (h : xs.length ≤ fuel) :
    signedNums fuel (edgeChars xs) = (xs.map grp, ['0']) := by
  induction xs generalizing fuel with
  | nil =>
    cases fuel with
    | zero => rfl
    | succ fuel => simp [signedNums, edgeChars_nil, signedNumSpace_zero]
  | cons x xs ih =>
    cases fuel with
    | zero => simp at h
    | succ fuel =>
      rw [edgeChars_cons]
      unfold signedNums
      rw [signedNumSpace_render x (noBlankHead_edgeChars xs)]
      simp [ih fuel (by simpa using h)]

def I32 (i : Int) : Prop := -(2 ^ 31 : Int) ≤ i ∧ i < 2 ^ 31

theorem parseI32_grp {i : Int} (h : I32 i) : parseI32 (grp i).1 (grp i).2 = some i := by
  unfold I32 at h
  by_cases h0 : 0 ≤ i
  · have e : i.natAbs = i.toNat := by omega
    have hl : decide (i < 0) = false := by simp; omega
    simp only [grp, e, hl]; exact parseI32_nonneg h0 h.2
  · have e : i.natAbs = (-i).toNat := by omega
    have hl : decide (i < 0) = true := by simp; omega
    simp only [grp, e, hl]; exact parseI32_neg (by omega) h.1

theorem mapM_parseI32 (xs : List Int) (h : ∀ x ∈ xs, I32 x) :
    (xs.map grp).mapM (fun g => parseI32 g.1 g.2) = some xs := by
  induction xs with
  | nil => rfl
  | cons x xs ih =>
    have hx := parseI32_grp (h x (by simp))
    have := ih fun y hy => h y (by simp [hy])
    simp [List.mapM_cons, hx, this]

theorem lexEdge_edgeChars (a b : Int) (fs : List Int) (h : ∀ x ∈ a :: b :: fs, I32 x)
    (ha : 0 < a) (hb : 0 < b) :
    lexEdge (edgeChars (a :: b :: fs)) = .ok (.edge a.toNat b.toNat fs) := by
  have hm := mapM_parseI32 _ h
  unfold lexEdge
  rw [signedNums_edgeChars _ _ (length_le_edgeChars _)]
  rw [List.map_cons, List.map_cons] at hm ⊢
  have ha' : ¬ a ≤ 0 := by omega
  have hb' : ¬ b ≤ 0 := by omega
  simp [hm, ha', hb']

/-- a line starting with a letter is no edge line -/
theorem lexEdge_letter (c : Char) (cs : List Char) (hd : c.isDigit = false) (hm : c ≠ '-') :
    lexEdge (c :: cs) = .fail := by
  have h1 : signedNumSpace (c :: cs) = none := by
    unfold signedNumSpace
    rw [digit1_noDigitHead (noDigitHead_cons hd)]
    simp only
    split
    · next e => cases e; exact absurd rfl hm
    · rfl
  unfold lexEdge
  simp [signedNums, h1]

theorem lexNodeLine_render (kw c : Char) (g : D4.GK) (k : Nat) :
    lexNodeLine kw g (c :: ' ' :: (renderNat k ++ [' ', '0'])) = if c == kw then .ok (.node g) else .fail := by
  have : (digit1 (renderNat k ++ [' ', '0'])).isSome = true := by
    rw [digit1_renderNat k (noDigitHead_cons (by decide))]; rfl
  simp [lexNodeLine, this]

end Ddnnf.Lex
