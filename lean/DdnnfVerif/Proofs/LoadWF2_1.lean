/-
  Well-formedness of the array the d4 loader produces (part 1): the transport through `flattenGraph`.

  For an acyclic graph `g` (rank `r`, edges inside the node array) and a root inside the array the
  flattened array `flattenGraph g root` is well formed (`WF … n`) as soon as the graph has the following
  properties, all phrased with the graph-level notions `Mentions g x f` ("a literal leaf of variable `f`
  is reachable from `x` through and/or nodes", `LoadSmooth.lean`) and `sem σ g r x` (`LoadSem1.lean`),
  and only for the nodes the DFS emits (`x ∈ postOrder g root`):

    * `GDecOn`     the successors of an and-node mention pairwise disjoint variables (by position, so
                   a successor that mentions a variable does not occur twice);
    * `GSmoothOn`  all successors of an or-node mention the same variables;
    * `GDetOn`     at most one successor of an or-node is true under any assignment (with multiplicity);
    * literal leaves are not 0;
    * the root mentions exactly `1..n` and is satisfiable (its count is then not 0; `vars` ignores
      or-children whose count is 0, so a root of count 0 may mention less than the graph does).

  Main results: `flat_vars_sub` (`vars ⊆ Mentions`), `flat_vars_sup` (`Mentions ⊆ vars` for nodes whose
  count is not 0), `flat_vars_nodup`, `flattenGraph_decomposable`, `flattenGraph_smooth`,
  `flattenGraph_deterministic`, `flattenGraph_rootComplete`, and the assembly `flattenGraph_WF`.
-/
import DdnnfVerif.Proofs.LoadSem

namespace Ddnnf.D4

/-! ### the graph-level properties -/

/-- and-nodes emitted by the DFS: the successors mention pairwise disjoint variables -/
def GDecOn (g : G) (root : Nat) : Prop :=
  ∀ x ∈ postOrder g root, g.kindOf x = some .and →
    (g.outs.getD x []).Pairwise (fun c d => ∀ f, Mentions g c f → ¬ Mentions g d f)

/-- or-nodes emitted by the DFS: all successors mention the same variables -/
def GSmoothOn (g : G) (root : Nat) : Prop :=
  ∀ x ∈ postOrder g root, g.kindOf x = some .or →
    ∀ c ∈ g.outs.getD x [], ∀ d ∈ g.outs.getD x [], ∀ f, Mentions g c f → Mentions g d f

/-- or-nodes emitted by the DFS: at most one successor is true (a repeated successor counts twice) -/
def GDetOn (g : G) (r : Nat → Nat) (root : Nat) : Prop :=
  ∀ σ : Assignment, ∀ x ∈ postOrder g root, g.kindOf x = some .or →
    (g.outs.getD x []).countP (sem σ g r) ≤ 1

/-! ### small arithmetic / list helpers -/

theorem prodNat_map_ne_zero (cs : List Nat) (f : Nat → Nat) (h : prodNat (cs.map f) ≠ 0) :
    ∀ c ∈ cs, f c ≠ 0 := by
  induction cs with
  | nil => intro c hc; cases hc
  | cons a cs ih =>
    have h' : f a * prodNat (cs.map f) ≠ 0 := h
    intro c hc
    rcases List.mem_cons.1 hc with e | hc
    · subst e; intro h0; apply h'; rw [h0, Nat.zero_mul]
    · exact ih (fun h0 => h' (by rw [h0, Nat.mul_zero])) c hc

theorem sumNat_map_ne_zero (cs : List Nat) (f : Nat → Nat) (h : sumNat (cs.map f) ≠ 0) :
    ∃ c ∈ cs, f c ≠ 0 := by
  induction cs with
  | nil => exact absurd rfl h
  | cons a cs ih =>
    have h' : f a + sumNat (cs.map f) ≠ 0 := h
    by_cases ha : f a = 0
    · obtain ⟨c, hc, hne⟩ := ih (fun h0 => h' (by rw [ha, h0]))
      exact ⟨c, List.mem_cons_of_mem _ hc, hne⟩
    · exact ⟨a, List.mem_cons_self .., ha⟩

theorem prodNat_map_ne_zero_of (cs : List Nat) (f : Nat → Nat) (h : ∀ c ∈ cs, f c ≠ 0) :
    prodNat (cs.map f) ≠ 0 := by
  induction cs with
  | nil => exact Nat.one_ne_zero
  | cons a cs ih =>
    show f a * prodNat (cs.map f) ≠ 0
    exact Nat.mul_ne_zero (h a (List.mem_cons_self ..)) (ih fun c hc => h c (List.mem_cons_of_mem _ hc))

theorem sumNat_map_ne_zero_of (cs : List Nat) (f : Nat → Nat) (c : Nat) (hc : c ∈ cs) (h : f c ≠ 0) :
    sumNat (cs.map f) ≠ 0 := by
  induction cs with
  | nil => cases hc
  | cons a cs ih =>
    show f a + sumNat (cs.map f) ≠ 0
    rcases List.mem_cons.1 hc with e | hc
    · subst e; omega
    · have := ih hc; omega

/-- inversion of `Mentions` -/
theorem Mentions.inv {g : G} {x f : Nat} (h : Mentions g x f) :
    (∃ l, g.kindOf x = some (.lit l) ∧ f = l.natAbs) ∨
    ((g.kindOf x = some .and ∨ g.kindOf x = some .or) ∧ ∃ c ∈ g.outs.getD x [], Mentions g c f) := by
  cases h with
  | lit hk => exact Or.inl ⟨_, hk, rfl⟩
  | inner hk hc hm => exact Or.inr ⟨hk, _, hc, hm⟩

/-! ### the flattened array, node by node -/

/-- the hypotheses on the graph that is flattened -/
structure FCtx (g : G) (r : Nat → Nat) : Prop where
  edges : ∀ x, ∀ c ∈ g.outs.getD x [], c < g.kind.size
  acyc : Acyclic g r

/-- position of graph node `c` in the flattened array -/
abbrev ixOf (g : G) (root : Nat) (c : Nat) : Nat := (newIxOf g root).getD c 0

theorem bne_zero_iff (n : Nat) : (n != 0) = true ↔ n ≠ 0 := by simp

theorem flat_len {g : G} {root i : Nat} (hi : i < (postOrder g root).length) :
    i < (flattenGraph g root).length := by rw [flattenGraph_length]; exact hi

/-- the successors of the `i`-th emitted node sit at smaller positions, and `ixOf` finds them -/
theorem flat_child {g : G} {r : Nat → Nat} (hc : FCtx g r) (root i : Nat)
    (hi : i < (postOrder g root).length) :
    ∀ c ∈ g.outs.getD (postOrder g root)[i] [],
      ∃ hj : ixOf g root c < (postOrder g root).length,
        ixOf g root c < i ∧ (postOrder g root)[ixOf g root c] = c := by
  intro c hcm
  obtain ⟨j, hj, hji, e⟩ := postOrder_children_index g root r hc.edges hc.acyc i hi c hcm
  have hnew : ixOf g root c = j := by
    rw [← e]
    exact newIx_spec _ _ (postOrder_nodup g root) (postOrder_lt g root) j hj
  rw [hnew]
  exact ⟨hj, hji, e⟩

theorem flat_ix_self (g : G) (root i : Nat) (hi : i < (postOrder g root).length) :
    ixOf g root (postOrder g root)[i] = i :=
  newIx_spec _ _ (postOrder_nodup g root) (postOrder_lt g root) i hi

theorem flat_getElem (g : G) (root i : Nat) (hi : i < (postOrder g root).length) :
    (flattenGraph g root)[i]'(flat_len hi) = flatNode g (newIxOf g root) (postOrder g root)[i] :=
  flattenGraph_getElem g root i (flat_len hi)

theorem flatNode_and {g : G} {x : Nat} (newIx : Array Nat) (h : g.kindOf x = some .and) :
    flatNode g newIx x = .and ((g.outs.getD x []).map fun c => newIx.getD c 0) := by
  unfold flatNode; rw [h]

theorem flatNode_or {g : G} {x : Nat} (newIx : Array Nat) (h : g.kindOf x = some .or) :
    flatNode g newIx x = .or ((g.outs.getD x []).map fun c => newIx.getD c 0) := by
  unfold flatNode; rw [h]

theorem flatNode_lit {g : G} {x : Nat} {l : Int} (newIx : Array Nat) (h : g.kindOf x = some (.lit l)) :
    flatNode g newIx x = .lit l := by
  unfold flatNode; rw [h]

/-- the kind of the graph node behind an and-node of the array -/
theorem flatNode_eq_and {g : G} {x : Nat} {newIx : Array Nat} {cs : List Nat}
    (h : flatNode g newIx x = .and cs) :
    g.kindOf x = some .and ∧ cs = (g.outs.getD x []).map fun c => newIx.getD c 0 := by
  unfold flatNode at h
  split at h <;> cases h
  rename_i hk
  exact ⟨hk, rfl⟩

theorem flatNode_eq_or {g : G} {x : Nat} {newIx : Array Nat} {cs : List Nat}
    (h : flatNode g newIx x = .or cs) :
    g.kindOf x = some .or ∧ cs = (g.outs.getD x []).map fun c => newIx.getD c 0 := by
  unfold flatNode at h
  split at h <;> cases h
  rename_i hk
  exact ⟨hk, rfl⟩

theorem flatNode_eq_lit {g : G} {x : Nat} {newIx : Array Nat} {l : Int}
    (h : flatNode g newIx x = .lit l) : g.kindOf x = some (.lit l) := by
  unfold flatNode at h
  split at h <;> cases h
  rename_i hk
  exact hk

/-! ### unfolding of the passes on the flattened array -/

theorem fCount_congr' (nd : NType) (a b : Nat → Nat) (h : ∀ c ∈ children nd, a c = b c) :
    fCount nd a = fCount nd b := by
  cases nd with
  | and cs =>
    have h' : cs.map a = cs.map b := List.map_congr_left h
    show prodNat (cs.map a) = prodNat (cs.map b); rw [h']
  | or cs =>
    have h' : cs.map a = cs.map b := List.map_congr_left h
    show sumNat (cs.map a) = sumNat (cs.map b); rw [h']
  | lit l => rfl
  | tru => rfl
  | fls => rfl

theorem fVars_congr' (cnt : Nat → Nat) (nd : NType) (a b : Nat → List Nat)
    (h : ∀ c ∈ children nd, a c = b c) : fVars cnt nd a = fVars cnt nd b := by
  cases nd with
  | and cs =>
    have h' : cs.map a = cs.map b := List.map_congr_left h
    show (cs.map a).flatten = (cs.map b).flatten; rw [h']
  | or cs =>
    show (match cs.filter (fun c => cnt c != 0) with | [] => [] | c :: _ => a c) =
      (match cs.filter (fun c => cnt c != 0) with | [] => [] | c :: _ => b c)
    cases hf : cs.filter (fun c => cnt c != 0) with
    | nil => rfl
    | cons c rest =>
      have hm : c ∈ cs.filter (fun c => cnt c != 0) := by rw [hf]; exact List.mem_cons_self ..
      exact h c (List.mem_filter.1 hm).1
  | lit l => rfl
  | tru => rfl
  | fls => rfl

/-- recursion equation of a pass on an array whose children precede their parents -/
theorem val_eq_topo' {α} (d : α) (f : NType → (Nat → α) → α) (nodes : List NType) (htopo : Topo nodes)
    (hf : ∀ nd a b, (∀ c ∈ children nd, a c = b c) → f nd a = f nd b)
    (i : Nat) (hi : i < nodes.length) : val d f nodes i = f nodes[i] (val d f nodes) := by
  rw [val_eq d f nodes i hi]
  apply hf
  intro c hc
  simp [htopo i hi c hc]

theorem flat_topo {g : G} {r : Nat → Nat} (hc : FCtx g r) (root : Nat) : Topo (flattenGraph g root) :=
  flattenGraph_topo g root r hc.edges hc.acyc

theorem flat_count_eq {g : G} {r : Nat → Nat} (hc : FCtx g r) (root i : Nat)
    (hi : i < (postOrder g root).length) :
    count (flattenGraph g root) i =
      fCount (flatNode g (newIxOf g root) (postOrder g root)[i]) (count (flattenGraph g root)) := by
  unfold count
  rw [val_eq_topo' 0 fCount _ (flat_topo hc root) fCount_congr' i (flat_len hi), flat_getElem g root i hi]

theorem flat_vars_eq {g : G} {r : Nat → Nat} (hc : FCtx g r) (root i : Nat)
    (hi : i < (postOrder g root).length) :
    vars (flattenGraph g root) i =
      fVars (count (flattenGraph g root)) (flatNode g (newIxOf g root) (postOrder g root)[i])
        (vars (flattenGraph g root)) := by
  unfold vars
  rw [val_eq_topo' [] (fVars _) _ (flat_topo hc root) (fVars_congr' _) i (flat_len hi),
    flat_getElem g root i hi]

/-- the value of the image of a successor -/
theorem flat_eval_ix {g : G} {r : Nat → Nat} (hc : FCtx g r) (root i : Nat)
    (hi : i < (postOrder g root).length) (σ : Assignment) :
    ∀ c ∈ g.outs.getD (postOrder g root)[i] [],
      eval σ (flattenGraph g root) (ixOf g root c) = sem σ g r c := by
  intro c hcm
  obtain ⟨hj, _, e⟩ := flat_child hc root i hi c hcm
  rw [flattenGraph_eval σ g root r hc.edges hc.acyc _ hj, e]

/-! ### `vars` of the flattened array against `Mentions` -/

/-- every variable the array lists at position `i` is mentioned by the `i`-th emitted node -/
theorem flat_vars_sub {g : G} {r : Nat → Nat} (hc : FCtx g r) (root : Nat) :
    ∀ (i : Nat) (hi : i < (postOrder g root).length) (f : Nat),
      f ∈ vars (flattenGraph g root) i → Mentions g (postOrder g root)[i] f := by
  intro i
  induction i using Nat.strongRecOn with
  | _ i ih =>
    intro hi f hf
    rw [flat_vars_eq hc root i hi] at hf
    have hch := flat_child hc root i hi
    cases hk : g.kindOf (postOrder g root)[i] with
    | none => unfold flatNode at hf; rw [hk] at hf; cases hf
    | some k =>
      cases k with
      | and =>
        rw [flatNode_and _ hk] at hf
        have hf' : f ∈ (((g.outs.getD (postOrder g root)[i] []).map fun c => (newIxOf g root).getD c 0).map
            (vars (flattenGraph g root))).flatten := hf
        rw [List.mem_flatten] at hf'
        obtain ⟨l, hl, hfl⟩ := hf'
        rw [List.map_map, List.mem_map] at hl
        obtain ⟨c, hcm, rfl⟩ := hl
        obtain ⟨hj, hji, e⟩ := hch c hcm
        have := ih _ hji hj f hfl
        rw [e] at this
        exact .inner (Or.inl hk) hcm this
      | or =>
        rw [flatNode_or _ hk] at hf
        have hf' : f ∈ (match ((g.outs.getD (postOrder g root)[i] []).map
            fun c => (newIxOf g root).getD c 0).filter (fun c => count (flattenGraph g root) c != 0) with
          | [] => [] | c :: _ => vars (flattenGraph g root) c) := hf
        cases hfl : ((g.outs.getD (postOrder g root)[i] []).map
            fun c => (newIxOf g root).getD c 0).filter (fun c => count (flattenGraph g root) c != 0) with
        | nil => rw [hfl] at hf'; cases hf'
        | cons c' rest =>
          rw [hfl] at hf'
          have hm : c' ∈ ((g.outs.getD (postOrder g root)[i] []).map
            fun c => (newIxOf g root).getD c 0).filter (fun c => count (flattenGraph g root) c != 0) := by
            rw [hfl]; exact List.mem_cons_self ..
          obtain ⟨c, hcm, rfl⟩ := List.mem_map.1 (List.mem_filter.1 hm).1
          obtain ⟨hj, hji, e⟩ := hch c hcm
          have := ih _ hji hj f hf'
          rw [e] at this
          exact .inner (Or.inr hk) hcm this
      | lit l =>
        rw [flatNode_lit _ hk] at hf
        have : f = l.natAbs := by simpa [fVars] using hf
        rw [this]
        exact .lit hk
      | tru => unfold flatNode at hf; rw [hk] at hf; cases hf
      | fls => unfold flatNode at hf; rw [hk] at hf; cases hf

/-- a node whose count is not 0 lists every variable it mentions (smooth graphs) -/
theorem flat_vars_sup {g : G} {r : Nat → Nat} (hc : FCtx g r) (root : Nat) (hsm : GSmoothOn g root) :
    ∀ (i : Nat) (hi : i < (postOrder g root).length), count (flattenGraph g root) i ≠ 0 → ∀ f : Nat,
      Mentions g (postOrder g root)[i] f → f ∈ vars (flattenGraph g root) i := by
  intro i
  induction i using Nat.strongRecOn with
  | _ i ih =>
    intro hi hcnt f hm
    rw [flat_vars_eq hc root i hi]
    rw [flat_count_eq hc root i hi] at hcnt
    have hch := flat_child hc root i hi
    rcases hm.inv with ⟨l, hk, rfl⟩ | ⟨hk, c, hcm, hmc⟩
    · rw [flatNode_lit _ hk]; simp [fVars]
    · rcases hk with hk | hk
      · rw [flatNode_and _ hk] at hcnt ⊢
        have hcnt' : prodNat (((g.outs.getD (postOrder g root)[i] []).map
            fun c => (newIxOf g root).getD c 0).map (count (flattenGraph g root))) ≠ 0 := hcnt
        rw [List.map_map] at hcnt'
        have hcz := prodNat_map_ne_zero _ _ hcnt' c hcm
        obtain ⟨hj, hji, e⟩ := hch c hcm
        have hfc : f ∈ vars (flattenGraph g root) (ixOf g root c) := by
          apply ih _ hji hj hcz f
          rw [e]; exact hmc
        show f ∈ (((g.outs.getD (postOrder g root)[i] []).map fun c => (newIxOf g root).getD c 0).map
            (vars (flattenGraph g root))).flatten
        rw [List.mem_flatten]
        exact ⟨_, List.mem_map.2 ⟨_, List.mem_map.2 ⟨c, hcm, rfl⟩, rfl⟩, hfc⟩
      · rw [flatNode_or _ hk] at hcnt ⊢
        have hcnt' : sumNat (((g.outs.getD (postOrder g root)[i] []).map
            fun c => (newIxOf g root).getD c 0).map (count (flattenGraph g root))) ≠ 0 := hcnt
        obtain ⟨c', hc', hne⟩ := sumNat_map_ne_zero _ _ hcnt'
        show f ∈ (match ((g.outs.getD (postOrder g root)[i] []).map
            fun c => (newIxOf g root).getD c 0).filter (fun c => count (flattenGraph g root) c != 0) with
          | [] => [] | c :: _ => vars (flattenGraph g root) c)
        cases hfl : ((g.outs.getD (postOrder g root)[i] []).map
            fun c => (newIxOf g root).getD c 0).filter (fun c => count (flattenGraph g root) c != 0) with
        | nil =>
          have : c' ∈ ((g.outs.getD (postOrder g root)[i] []).map
            fun c => (newIxOf g root).getD c 0).filter (fun c => count (flattenGraph g root) c != 0) :=
            List.mem_filter.2 ⟨hc', by simpa using hne⟩
          rw [hfl] at this; cases this
        | cons c0' rest =>
          have hm0 : c0' ∈ ((g.outs.getD (postOrder g root)[i] []).map
            fun c => (newIxOf g root).getD c 0).filter (fun c => count (flattenGraph g root) c != 0) := by
            rw [hfl]; exact List.mem_cons_self ..
          obtain ⟨hm1, hm2⟩ := List.mem_filter.1 hm0
          obtain ⟨c0, hc0, rfl⟩ := List.mem_map.1 hm1
          obtain ⟨hj, hji, e⟩ := hch c0 hc0
          have hx : (postOrder g root)[i] ∈ postOrder g root := List.getElem_mem hi
          have hm0' : Mentions g c0 f := hsm _ hx hk c hcm c0 hc0 f hmc
          show f ∈ vars (flattenGraph g root) (ixOf g root c0)
          apply ih _ hji hj ((bne_zero_iff _).1 hm2) f
          rw [e]; exact hm0'

/-- the variable lists of the array are duplicate free (decomposable graphs) -/
theorem flat_vars_nodup {g : G} {r : Nat → Nat} (hc : FCtx g r) (root : Nat) (hdec : GDecOn g root) :
    ∀ (i : Nat) (_ : i < (postOrder g root).length), (vars (flattenGraph g root) i).Nodup := by
  intro i
  induction i using Nat.strongRecOn with
  | _ i ih =>
    intro hi
    rw [flat_vars_eq hc root i hi]
    have hch := flat_child hc root i hi
    have hx : (postOrder g root)[i] ∈ postOrder g root := List.getElem_mem hi
    cases hk : g.kindOf (postOrder g root)[i] with
    | none => unfold flatNode; rw [hk]; exact List.nodup_nil
    | some k =>
      cases k with
      | and =>
        rw [flatNode_and _ hk]
        show ((((g.outs.getD (postOrder g root)[i] []).map fun c => (newIxOf g root).getD c 0).map
            (vars (flattenGraph g root))).flatten).Nodup
        rw [List.map_map, List.Nodup, List.pairwise_flatten]
        constructor
        · intro l hl
          obtain ⟨c, hcm, rfl⟩ := List.mem_map.1 hl
          obtain ⟨hj, hji, _⟩ := hch c hcm
          exact ih _ hji hj
        · rw [List.pairwise_map]
          refine List.Pairwise.imp_of_mem ?_ (hdec _ hx hk)
          intro c d hcm hdm hdis a ha b hb hab
          obtain ⟨hj, _, e⟩ := hch c hcm
          obtain ⟨hj', _, e'⟩ := hch d hdm
          have h1 := flat_vars_sub hc root _ hj a ha
          have h2 := flat_vars_sub hc root _ hj' b hb
          rw [e] at h1; rw [e'] at h2
          rw [← hab] at h2
          exact hdis a h1 h2
      | or =>
        rw [flatNode_or _ hk]
        show (match ((g.outs.getD (postOrder g root)[i] []).map
            fun c => (newIxOf g root).getD c 0).filter (fun c => count (flattenGraph g root) c != 0) with
          | [] => [] | c :: _ => vars (flattenGraph g root) c).Nodup
        cases hfl : ((g.outs.getD (postOrder g root)[i] []).map
            fun c => (newIxOf g root).getD c 0).filter (fun c => count (flattenGraph g root) c != 0) with
        | nil => exact List.nodup_nil
        | cons c' rest =>
          have hm : c' ∈ ((g.outs.getD (postOrder g root)[i] []).map
            fun c => (newIxOf g root).getD c 0).filter (fun c => count (flattenGraph g root) c != 0) := by
            rw [hfl]; exact List.mem_cons_self ..
          obtain ⟨c, hcm, rfl⟩ := List.mem_map.1 (List.mem_filter.1 hm).1
          obtain ⟨hj, hji, _⟩ := hch c hcm
          exact ih _ hji hj
      | lit l => rw [flatNode_lit _ hk]; simp [fVars]
      | tru => unfold flatNode; rw [hk]; exact List.nodup_nil
      | fls => unfold flatNode; rw [hk]; exact List.nodup_nil

/-! ### the fields of `WF` -/

/-- every position of the array is the image of an emitted node -/
theorem flat_pos {g : G} {root i : Nat} (hi : i < (flattenGraph g root).length) :
    i < (postOrder g root).length := by rwa [flattenGraph_length] at hi

theorem flattenGraph_litNonzero (g : G) (root : Nat) (hnz : LitNZ g) : LitNonzero (flattenGraph g root) := by
  intro i hi l hl
  rw [flat_getElem g root i (flat_pos hi)] at hl
  exact hnz _ l (flatNode_eq_lit hl)

theorem flattenGraph_decomposable {g : G} {r : Nat → Nat} (hc : FCtx g r) (root : Nat)
    (hdec : GDecOn g root) : Decomposable (flattenGraph g root) := by
  intro i hi cs hcs
  have hi' := flat_pos hi
  have hn := flat_vars_nodup hc root hdec i hi'
  rw [flat_vars_eq hc root i hi', ← flat_getElem g root i hi', hcs] at hn
  exact hn

theorem flattenGraph_smooth {g : G} {r : Nat → Nat} (hc : FCtx g r) (root : Nat)
    (hdec : GDecOn g root) (hsm : GSmoothOn g root) : Smooth (flattenGraph g root) := by
  intro i hi cs hcs c' hc' hcnt
  have hi' := flat_pos hi
  have hch := flat_child hc root i hi'
  have hx : (postOrder g root)[i] ∈ postOrder g root := List.getElem_mem hi'
  rw [flat_getElem g root i hi'] at hcs
  obtain ⟨hk, rfl⟩ := flatNode_eq_or hcs
  obtain ⟨c, hcm, rfl⟩ := List.mem_map.1 hc'
  obtain ⟨hj, hji, e⟩ := hch c hcm
  have hnd := flat_vars_nodup hc root hdec
  -- the count of the or-node is not 0
  have hcnti : count (flattenGraph g root) i ≠ 0 := by
    rw [flat_count_eq hc root i hi', flatNode_or _ hk]
    exact sumNat_map_ne_zero_of _ _ _ hc' hcnt
  rw [List.perm_ext_iff_of_nodup (hnd _ hj) (hnd i hi')]
  intro a
  constructor
  · intro ha
    have h1 := flat_vars_sub hc root _ hj a ha
    rw [e] at h1
    exact flat_vars_sup hc root hsm i hi' hcnti a (.inner (Or.inr hk) hcm h1)
  · intro ha
    have h1 := flat_vars_sub hc root i hi' a ha
    rcases h1.inv with ⟨l, hl, _⟩ | ⟨_, d, hdm, hmd⟩
    · rw [hk] at hl; cases hl
    · have h2 : Mentions g c a := hsm _ hx hk d hdm c hcm a hmd
      apply flat_vars_sup hc root hsm _ hj hcnt a
      rw [e]; exact h2

theorem flattenGraph_deterministic {g : G} {r : Nat → Nat} (hc : FCtx g r) (root : Nat)
    (hdet : GDetOn g r root) : Deterministic (flattenGraph g root) := by
  intro i hi cs hcs σ
  have hi' := flat_pos hi
  have hx : (postOrder g root)[i] ∈ postOrder g root := List.getElem_mem hi'
  rw [flat_getElem g root i hi'] at hcs
  obtain ⟨hk, rfl⟩ := flatNode_eq_or hcs
  rw [List.countP_map]
  have he : (g.outs.getD (postOrder g root)[i] []).countP
      ((fun c => eval σ (flattenGraph g root) c) ∘ fun c => (newIxOf g root).getD c 0) =
      (g.outs.getD (postOrder g root)[i] []).countP (sem σ g r) := by
    apply List.countP_congr
    intro c hcm
    have := flat_eval_ix hc root i hi' σ c hcm
    unfold ixOf at this
    simp only [Function.comp_apply, this]
  rw [he]
  exact hdet σ _ hx hk

/-- a node that is true under some assignment has a count different from 0 -/
theorem flat_count_ne_zero {g : G} {r : Nat → Nat} (hc : FCtx g r) (root : Nat) (σ : Assignment) :
    ∀ (i : Nat) (hi : i < (postOrder g root).length), sem σ g r (postOrder g root)[i] = true →
      count (flattenGraph g root) i ≠ 0 := by
  intro i
  induction i using Nat.strongRecOn with
  | _ i ih =>
    intro hi hs
    have hch := flat_child hc root i hi
    rw [flat_count_eq hc root i hi]
    cases hk : g.kindOf (postOrder g root)[i] with
    | none => rw [sem_none σ g r _ hk] at hs; cases hs
    | some k =>
      cases k with
      | and =>
        rw [flatNode_and _ hk]
        rw [sem_and σ g r hc.acyc _ hk, List.all_eq_true] at hs
        show prodNat (((g.outs.getD (postOrder g root)[i] []).map
            fun c => (newIxOf g root).getD c 0).map (count (flattenGraph g root))) ≠ 0
        rw [List.map_map]
        apply prodNat_map_ne_zero_of
        intro c hcm
        obtain ⟨hj, hji, e⟩ := hch c hcm
        exact ih (ixOf g root c) hji hj (by rw [e]; exact hs c hcm)
      | or =>
        rw [flatNode_or _ hk]
        rw [sem_or σ g r hc.acyc _ hk, List.any_eq_true] at hs
        obtain ⟨c, hcm, hv⟩ := hs
        obtain ⟨hj, hji, e⟩ := hch c hcm
        show sumNat (((g.outs.getD (postOrder g root)[i] []).map
            fun c => (newIxOf g root).getD c 0).map (count (flattenGraph g root))) ≠ 0
        rw [List.map_map]
        exact sumNat_map_ne_zero_of _ _ c hcm (ih (ixOf g root c) hji hj (by rw [e]; exact hv))
      | lit l => rw [flatNode_lit _ hk]; exact Nat.one_ne_zero
      | tru => unfold flatNode; rw [hk]; exact Nat.one_ne_zero
      | fls => rw [sem_fls σ g r _ hk] at hs; cases hs

theorem nodup_range_succ' (n : Nat) : ((List.range n).map (· + 1)).Nodup := by
  rw [List.Nodup, List.pairwise_map]
  exact List.Pairwise.imp (fun h => by omega) (List.nodup_range (n := n))

theorem flattenGraph_rootComplete {g : G} {r : Nat → Nat} (hc : FCtx g r) (root : Nat)
    (hroot : root < g.kind.size) (hdec : GDecOn g root) (hsm : GSmoothOn g root) (n : Nat)
    (hvars : ∀ f, Mentions g root f ↔ 1 ≤ f ∧ f ≤ n) (hsat : ∃ σ, sem σ g r root = true) :
    RootComplete (flattenGraph g root) n := by
  obtain ⟨hlt, e⟩ := postOrder_last_getElem g root hroot
  obtain ⟨σ, hσ⟩ := hsat
  unfold RootComplete rootIx
  rw [flattenGraph_length]
  have hcnt := flat_count_ne_zero hc root σ _ hlt (by rw [e]; exact hσ)
  rw [List.perm_ext_iff_of_nodup (flat_vars_nodup hc root hdec _ hlt) (nodup_range_succ' n)]
  intro a
  rw [List.mem_map]
  constructor
  · intro ha
    have := flat_vars_sub hc root _ hlt a ha
    rw [e] at this
    obtain ⟨h1, h2⟩ := (hvars a).1 this
    exact ⟨a - 1, List.mem_range.2 (by omega), by omega⟩
  · rintro ⟨k, hk, rfl⟩
    have hk' := List.mem_range.1 hk
    apply flat_vars_sup hc root hsm _ hlt hcnt
    rw [e]
    exact (hvars (k + 1)).2 ⟨by omega, by omega⟩

/-- **Transport through the flattening.**  The array `flattenGraph g root` of an acyclic graph is well
formed for `n` features if (on the nodes the DFS emits) and-nodes are decomposable, or-nodes are smooth
and deterministic, literal leaves are not 0, and the root is satisfiable and mentions exactly `1..n`. -/
theorem flattenGraph_WF {g : G} {r : Nat → Nat} (hc : FCtx g r) (root : Nat) (hroot : root < g.kind.size)
    (n : Nat) (hnz : LitNZ g) (hdec : GDecOn g root) (hsm : GSmoothOn g root) (hdet : GDetOn g r root)
    (hvars : ∀ f, Mentions g root f ↔ 1 ≤ f ∧ f ≤ n) (hsat : ∃ σ, sem σ g r root = true) :
    WF (flattenGraph g root) n :=
  ⟨flattenGraph_ne_nil g root hroot, flat_topo hc root, flattenGraph_litNonzero g root hnz,
    flattenGraph_decomposable hc root hdec, flattenGraph_smooth hc root hdec hsm,
    flattenGraph_deterministic hc root hdet, flattenGraph_rootComplete hc root hroot hdec hsm n hvars hsat⟩

end Ddnnf.D4
