/-
  Helper for `Proofs/TIter.lean`: the list `(combos k (range' a m)).map reverse` is a chain of successors
  (`nextAux`), from the least tuple to the greatest one.
-/
import DdnnfVerif.Proofs.TIterAux1
import DdnnfVerif.Proofs.TW.Comb
namespace Ddnnf.TI
open TW

theorem nextAux_maxed (n : Nat) : ∀ (k p : Nat) (r : List Nat), k + p ≤ n →
    nextAux n p (dec k (n - k - p) ++ r) = nextAux n (p + k) r := by
  intro k
  induction k with
  | zero => intro p r _; simp [dec]
  | succ k ih =>
    intro p r h
    rw [dec_succ', List.cons_append, nextAux, if_neg (by omega)]
    have e : n - (k + 1) - p = n - k - (p + 1) := by omega
    rw [e, ih (p + 1) r (by omega)]
    congr 1; omega

theorem next_junction (n k x : Nat) (r : List Nat) (hk : k ≤ n) (h : x + 1 + k < n) :
    nextAux n 0 (dec k (n - k) ++ x :: r) = some (dec k (x + 2) ++ (x + 1) :: r) := by
  have := nextAux_maxed n k 0 (x :: r) (by omega)
  rw [Nat.sub_zero, Nat.zero_add] at this
  rw [this, nextAux, if_pos h]

theorem nextAux_last (n k : Nat) (hk : k ≤ n) : nextAux n 0 (dec k (n - k)) = none := by
  have := nextAux_maxed n k 0 [] (by omega)
  rw [Nat.sub_zero, Nat.zero_add, List.append_nil] at this
  rw [this, nextAux]

theorem combos_big {α} : ∀ (xs : List α) (k : Nat), xs.length < k → combos k xs = [] := by
  intro xs
  induction xs with
  | nil => intro k h; cases k with
    | zero => simp at h
    | succ k => rfl
  | cons x xs ih =>
    intro k h
    cases k with
    | zero => simp at h
    | succ k =>
      simp only [List.length_cons] at h
      simp [combos, ih k (by omega), ih (k + 1) (by omega)]

theorem combos_length_le {α} : ∀ (xs : List α) (k : Nat), (combos k xs).length ≤ 2 ^ xs.length := by
  intro xs
  induction xs with
  | nil => intro k; cases k <;> simp [combos]
  | cons x xs ih =>
    intro k
    cases k with
    | zero => simp only [combos, List.length_singleton]; exact Nat.one_le_two_pow
    | succ k =>
      simp only [combos, List.length_append, List.length_map, List.length_cons, Nat.pow_succ]
      have := ih k; have := ih (k + 1); omega

theorem combos_map {α β} (f : α → β) : ∀ (xs : List α) (k : Nat),
    combos k (xs.map f) = (combos k xs).map (List.map f) := by
  intro xs
  induction xs with
  | nil => intro k; cases k <;> simp [combos]
  | cons x xs ih =>
    intro k
    cases k with
    | zero => simp [combos]
    | succ k => simp [combos, ih, List.map_map, Function.comp_def]

theorem combos_seg (n : Nat) : ∀ (m k a : Nat), a + m = n → k ≤ m → ∀ (suf : List Nat),
    ∃ tl, (combos k (List.range' a m)).map List.reverse = dec k a :: tl ∧
      Seg (nextAux n 0) (dec k a ++ suf) (tl.map (· ++ suf)) (dec k (n - k) ++ suf) := by
  intro m
  induction m with
  | zero =>
    intro k a _ hk suf
    have : k = 0 := by omega
    subst this
    exact ⟨[], by simp [combos, dec], by simp [Seg, dec]⟩
  | succ m ih =>
    intro k a han hk suf
    cases k with
    | zero => exact ⟨[], by simp [combos, dec], by simp [Seg, dec]⟩
    | succ k =>
      obtain ⟨tl1, e1, s1⟩ := ih k (a + 1) (by omega) (by omega) (a :: suf)
      have hE : ∀ C : List (List Nat), (C.map (a :: ·)).map List.reverse
          = (C.map List.reverse).map (· ++ [a]) := by
        intro C; simp [List.map_map, Function.comp_def]
      have hM : (tl1.map (· ++ [a])).map (· ++ suf) = tl1.map (· ++ a :: suf) := by
        simp [List.map_map, Function.comp_def]
      rw [List.range'_succ, combos, List.map_append, hE, e1]
      by_cases hkm : k + 1 ≤ m
      · obtain ⟨tl2, e2, s2⟩ := ih (k + 1) (a + 1) (by omega) hkm suf
        rw [e2]
        refine ⟨tl1.map (· ++ [a]) ++ dec (k + 1) (a + 1) :: tl2, by simp [dec_succ k a], ?_⟩
        rw [List.map_append, hM, dec_succ k a, List.append_assoc, List.singleton_append]
        refine Seg.append s1 ?_
        refine ⟨?_, s2⟩
        rw [next_junction n k a suf (by omega) (by omega), dec_succ k (a + 1)]
        simp
      · rw [combos_big _ _ (by simp; omega), List.map_nil, List.append_nil]
        refine ⟨tl1.map (· ++ [a]), by simp [dec_succ k a], ?_⟩
        rw [hM, dec_succ k a, List.append_assoc, List.singleton_append]
        have e : n - (k + 1) = a := by omega
        rw [dec_succ k, e, List.append_assoc, List.singleton_append]
        have e' : n - k = a + 1 := by omega
        rw [e'] at s1
        exact s1

end Ddnnf.TI
