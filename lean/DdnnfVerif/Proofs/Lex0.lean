/-
  Decimal rendering and the character form of token lines: helper lemmas for Proofs/Lex.lean.
-/
import DdnnfVerif.Model.Lex
namespace Ddnnf.Lex

/-! ### decimal rendering -/

theorem renderNat_eq (k : Nat) : renderNat k = Nat.toDigits 10 k := by
  simp [renderNat]

theorem natOf_eq (ds : List Char) : natOf ds = Nat.ofDigitChars 10 ds 0 := rfl

theorem renderNat_ne_nil (k : Nat) : renderNat k ≠ [] := by
  rw [renderNat_eq]; exact Nat.toDigits_ne_nil

theorem renderNat_digits (k : Nat) : ∀ c ∈ renderNat k, c.isDigit = true := by
  intro c hc
  rw [renderNat_eq] at hc
  exact Nat.isDigit_of_mem_toDigits (by decide) (by decide) hc

theorem natOf_renderNat (k : Nat) : natOf (renderNat k) = k := by
  rw [renderNat_eq, natOf_eq]; exact Nat.ofDigitChars_ten_toDigits

theorem renderNat_zero : renderNat 0 = ['0'] := by
  rw [renderNat_eq]; exact Nat.toDigits_zero 10

theorem digitChar_eq_zero {k : Nat} (hk : k < 10) (h : Nat.digitChar k = '0') : k = 0 := by
  have : k = 0 ∨ k = 1 ∨ k = 2 ∨ k = 3 ∨ k = 4 ∨ k = 5 ∨ k = 6 ∨ k = 7 ∨ k = 8 ∨ k = 9 := by omega
  rcases this with rfl | rfl | rfl | rfl | rfl | rfl | rfl | rfl | rfl | rfl <;> first | rfl | (revert h; decide)

/-- the first digit of a positive number is not `0` -/
theorem renderNat_head (k : Nat) : ∃ c r, renderNat k = c :: r ∧ c.isDigit = true ∧ (c = '0' → k = 0) := by
  induction k using Nat.strongRecOn with
  | _ k ih =>
    by_cases hk : k < 10
    · refine ⟨Nat.digitChar k, [], ?_, ?_, digitChar_eq_zero hk⟩
      · rw [renderNat_eq, Nat.toDigits_of_lt_base hk]
      · have := renderNat_digits k (Nat.digitChar k)
        rw [renderNat_eq, Nat.toDigits_of_lt_base hk] at this
        exact this (by simp)
    · obtain ⟨c, r, h1, h2, h3⟩ := ih (k / 10) (by omega)
      refine ⟨c, r ++ [Nat.digitChar (k % 10)], ?_, h2, ?_⟩
      · rw [renderNat_eq, Nat.toDigits_of_base_le (by decide) (by omega), ← renderNat_eq, h1]; rfl
      · intro hc; have := h3 hc; omega

theorem renderInt_nonneg {i : Int} (h : 0 ≤ i) : renderInt i = renderNat i.toNat := by
  simp [renderInt, renderNat, Int.repr_eq_if, h]

theorem renderInt_neg {i : Int} (h : i < 0) : renderInt i = '-' :: renderNat (-i).toNat := by
  have : ¬ 0 ≤ i := by omega
  simp [renderInt, renderNat, Int.repr_eq_if, this]

theorem renderInt_natCast (k : Nat) : renderInt (k : Int) = renderNat k := by
  rw [renderInt_nonneg (by omega)]; simp

/-! ### token lines as characters -/

theorem renderTokLine_cons (t : Tk) (ts : List Tk) :
    renderTokLine (t :: ts) = t.render.toList ++ ts.flatMap fun u => ' ' :: u.render.toList := by
  unfold renderTokLine renderLine
  induction ts generalizing t with
  | nil => simp
  | cons u us ih =>
    rw [List.map_cons, List.map_cons, String.intercalate_cons_cons, ← List.map_cons, String.toList_append,
      String.toList_append, ih]
    simp

theorem render_natTk (k : Nat) : (natTk k).render.toList = renderNat k := by
  show renderInt (k : Int) = _
  exact renderInt_natCast k

theorem render_num (i : Int) : (Tk.num i).render.toList = renderInt i := rfl

theorem flatMap_natTk (cs : List Nat) :
    ((cs.map natTk).flatMap fun u => ' ' :: u.render.toList) = cs.flatMap fun c => ' ' :: renderNat c := by
  induction cs with
  | nil => rfl
  | cons c cs ih => simp [render_natTk, ih]

end Ddnnf.Lex
