/-
  List facts for the atomic-set computation (`Model/Atomic.lean`): insertion sort is a sorted
  permutation, `groupByCount` of a list sorted by count collects equal counts into one group,
  `pairs` enumerates every unordered pair, `lexLt` is a strict total order, and `dedupFirstAbs`
  keeps the first list of every run with the same |first element|.
-/
import DdnnfVerif.Model.Atomic

namespace Ddnnf

/-! ### insertion sort -/

theorem insertBy_perm {α} (lt : α → α → Bool) (x : α) (l : List α) :
    (insertBy lt x l).Perm (x :: l) := by
  induction l with
  | nil => exact List.Perm.refl _
  | cons y ys ih =>
    simp only [insertBy]
    by_cases h : lt x y = true
    · rw [if_pos h]
    · rw [if_neg h]; exact (ih.cons y).trans (List.Perm.swap x y ys)

theorem sortBy'_cons {α} (lt : α → α → Bool) (x : α) (xs : List α) :
    sortBy' lt (x :: xs) = insertBy lt x (sortBy' lt xs) := rfl

theorem sortBy'_perm {α} (lt : α → α → Bool) (l : List α) : (sortBy' lt l).Perm l := by
  induction l with
  | nil => exact List.Perm.refl _
  | cons x xs ih =>
    rw [sortBy'_cons]
    exact (insertBy_perm lt x _).trans (ih.cons x)

theorem mem_sortBy' {α} (lt : α → α → Bool) (l : List α) (x : α) : x ∈ sortBy' lt l ↔ x ∈ l :=
  (sortBy'_perm lt l).mem_iff

theorem length_sortBy' {α} (lt : α → α → Bool) (l : List α) : (sortBy' lt l).length = l.length :=
  (sortBy'_perm lt l).length_eq

theorem insertBy_pairwise {α} (lt : α → α → Bool) (le : α → α → Prop)
    (htr : ∀ a b c, le a b → le b c → le a c)
    (h1 : ∀ a b, lt a b = true → le a b) (h2 : ∀ a b, lt a b = false → le b a)
    (x : α) (l : List α) (hl : l.Pairwise le) : (insertBy lt x l).Pairwise le := by
  induction l with
  | nil => simp [insertBy]
  | cons y ys ih =>
    rw [List.pairwise_cons] at hl
    simp only [insertBy]
    by_cases h : lt x y = true
    · rw [if_pos h, List.pairwise_cons]
      refine ⟨?_, List.pairwise_cons.mpr hl⟩
      intro z hz
      rcases List.mem_cons.mp hz with rfl | hz
      · exact h1 _ _ h
      · exact htr _ _ _ (h1 _ _ h) (hl.1 z hz)
    · rw [if_neg h, List.pairwise_cons]
      refine ⟨?_, ih hl.2⟩
      intro z hz
      have hz' := (insertBy_perm lt x ys).mem_iff.mp hz
      rcases List.mem_cons.mp hz' with rfl | hz'
      · exact h2 _ _ (by simpa using h)
      · exact hl.1 z hz'

/-- insertion sort sorts, for any transitive `le` that `lt` decides -/
theorem sortBy'_pairwise {α} (lt : α → α → Bool) (le : α → α → Prop)
    (htr : ∀ a b c, le a b → le b c → le a c)
    (h1 : ∀ a b, lt a b = true → le a b) (h2 : ∀ a b, lt a b = false → le b a)
    (l : List α) : (sortBy' lt l).Pairwise le := by
  induction l with
  | nil => exact List.Pairwise.nil
  | cons x xs ih =>
    rw [sortBy'_cons]
    exact insertBy_pairwise lt le htr h1 h2 x _ ih

/-- two lists that are strictly sorted and have the same members are equal -/
theorem eq_of_pairwise_strict {α} (r : α → α → Prop) (hirr : ∀ a, ¬ r a a)
    (htr : ∀ a b c, r a b → r b c → r a c) :
    ∀ (l1 l2 : List α), l1.Pairwise r → l2.Pairwise r → (∀ x, x ∈ l1 ↔ x ∈ l2) → l1 = l2
  | [], [], _, _, _ => rfl
  | [], b :: l2, _, _, h => by have := (h b).mpr (List.mem_cons_self ..); cases this
  | a :: l1, [], _, _, h => by have := (h a).mp (List.mem_cons_self ..); cases this
  | a :: l1, b :: l2, h1, h2, h => by
    rw [List.pairwise_cons] at h1 h2
    have hab : a = b := by
      rcases List.mem_cons.mp ((h a).mp (List.mem_cons_self ..)) with e | ha
      · exact e
      · rcases List.mem_cons.mp ((h b).mpr (List.mem_cons_self ..)) with e | hb
        · exact e.symm
        · exact absurd (htr _ _ _ (h1.1 b hb) (h2.1 a ha)) (hirr a)
    subst hab
    congr 1
    apply eq_of_pairwise_strict r hirr htr l1 l2 h1.2 h2.2
    intro x
    constructor
    · intro hx
      rcases List.mem_cons.mp ((h x).mp (List.mem_cons_of_mem _ hx)) with e | hx'
      · subst e; exact absurd (h1.1 x hx) (hirr x)
      · exact hx'
    · intro hx
      rcases List.mem_cons.mp ((h x).mpr (List.mem_cons_of_mem _ hx)) with e | hx'
      · subst e; exact absurd (h2.1 x hx) (hirr x)
      · exact hx'

/-- a list sorted for `le` without duplicates is strictly sorted -/
theorem pairwise_strict_of_nodup {α} (le r : α → α → Prop) (l : List α)
    (h : ∀ a ∈ l, ∀ b ∈ l, le a b → a ≠ b → r a b) (hs : l.Pairwise le) (hnd : l.Nodup) :
    l.Pairwise r :=
  (hs.and hnd).imp_of_mem (fun ha hb hab => h _ ha _ hb hab.1 hab.2)

theorem headD_mem {α} (l : List α) (d : α) (h : l ≠ []) : l.headD d ∈ l := by
  cases l with
  | nil => exact absurd rfl h
  | cons x xs => exact List.mem_cons_self ..

/-! ### `pairs` -/

theorem mem_of_mem_pairs (g : List Int) {p : Int × Int} (h : p ∈ pairs g) : p.1 ∈ g ∧ p.2 ∈ g := by
  induction g with
  | nil => cases h
  | cons x xs ih =>
    simp only [pairs, List.mem_append, List.mem_map] at h
    rcases h with ⟨y, hy, rfl⟩ | h
    · exact ⟨List.mem_cons_self .., List.mem_cons_of_mem _ hy⟩
    · exact ⟨List.mem_cons_of_mem _ (ih h).1, List.mem_cons_of_mem _ (ih h).2⟩

/-- every unordered pair of distinct members is enumerated -/
theorem mem_pairs_of_mem (g : List Int) {x y : Int} (hx : x ∈ g) (hy : y ∈ g) (hne : x ≠ y) :
    (x, y) ∈ pairs g ∨ (y, x) ∈ pairs g := by
  induction g with
  | nil => cases hx
  | cons z zs ih =>
    simp only [pairs, List.mem_append, List.mem_map]
    rcases List.mem_cons.mp hx with rfl | hx' <;> rcases List.mem_cons.mp hy with rfl | hy'
    · exact absurd rfl hne
    · exact Or.inl (Or.inl ⟨y, hy', rfl⟩)
    · exact Or.inr (Or.inl ⟨x, hx', rfl⟩)
    · rcases ih hx' hy' with h | h
      · exact Or.inl (Or.inr h)
      · exact Or.inr (Or.inr h)

/-! ### `groupByCount` -/

/-- the list of `(count, literal)` pairs a list of groups stands for -/
def ungroup (G : List (Nat × List Int)) : List (Nat × Int) :=
  G.flatMap (fun kg => kg.2.map (fun v => (kg.1, v)))

theorem groupByCount_cons (k : Nat) (v : Int) (rest : List (Nat × Int)) :
    groupByCount ((k, v) :: rest) =
      match groupByCount rest with
      | (k', vs) :: gs => if k == k' then (k, v :: vs) :: gs else (k, [v]) :: (k', vs) :: gs
      | [] => [(k, [v])] := rfl

/-- grouping only inserts brackets -/
theorem ungroup_groupByCount (l : List (Nat × Int)) : ungroup (groupByCount l) = l := by
  induction l with
  | nil => rfl
  | cons a rest ih =>
    obtain ⟨k, v⟩ := a
    rw [groupByCount_cons]
    cases hG : groupByCount rest with
    | nil =>
      rw [hG] at ih
      simp only [ungroup, List.flatMap_nil] at ih
      subst ih
      rfl
    | cons kg gs =>
      obtain ⟨k', vs⟩ := kg
      rw [hG] at ih
      simp only
      by_cases hk : k = k'
      · subst hk
        rw [if_pos (by simp)]
        rw [← ih]
        simp [ungroup]
      · rw [if_neg (by simpa using hk), ← ih]
        simp [ungroup]

theorem groupByCount_ne_nil (l : List (Nat × Int)) : ∀ kg ∈ groupByCount l, kg.2 ≠ [] := by
  induction l with
  | nil => intro kg h; cases h
  | cons a rest ih =>
    obtain ⟨k, v⟩ := a
    rw [groupByCount_cons]
    cases hG : groupByCount rest with
    | nil =>
      intro kg h
      simp only [List.mem_singleton] at h
      subst h
      simp
    | cons kg gs =>
      obtain ⟨k', vs⟩ := kg
      rw [hG] at ih
      simp only
      by_cases hk : k = k'
      · subst hk
        rw [if_pos (by simp)]
        intro kg h
        rcases List.mem_cons.mp h with rfl | h
        · simp
        · exact ih kg (List.mem_cons_of_mem _ h)
      · rw [if_neg (by simpa using hk)]
        intro kg h
        rcases List.mem_cons.mp h with rfl | h
        · simp
        · exact ih kg h

/-- the members of a group are literals of the list, with the count of the group -/
theorem groupByCount_mem (l : List (Nat × Int)) {k : Nat} {g : List Int} {v : Int}
    (h : (k, g) ∈ groupByCount l) (hv : v ∈ g) : (k, v) ∈ l := by
  rw [← ungroup_groupByCount l]
  simp only [ungroup, List.mem_flatMap, List.mem_map]
  exact ⟨(k, g), h, v, hv, rfl⟩

theorem groupByCount_key_mem (l : List (Nat × Int)) {kg : Nat × List Int}
    (h : kg ∈ groupByCount l) : ∃ v, (kg.1, v) ∈ l := by
  obtain ⟨k, g⟩ := kg
  obtain ⟨v, hv⟩ := List.exists_mem_of_ne_nil g (groupByCount_ne_nil l _ h)
  exact ⟨v, groupByCount_mem l h hv⟩

/-- the counts of the groups of a list sorted by count are strictly increasing -/
theorem groupByCount_keys (l : List (Nat × Int)) (hs : l.Pairwise (fun a b => a.1 ≤ b.1)) :
    (groupByCount l).Pairwise (fun a b => a.1 < b.1) := by
  induction l with
  | nil => exact List.Pairwise.nil
  | cons a rest ih =>
    obtain ⟨k, v⟩ := a
    rw [List.pairwise_cons] at hs
    have ih' := ih hs.2
    have hkey := fun kg (h : kg ∈ groupByCount rest) => groupByCount_key_mem rest h
    rw [groupByCount_cons]
    cases hG : groupByCount rest with
    | nil => simp
    | cons kg gs =>
      obtain ⟨k', vs⟩ := kg
      rw [hG] at ih' hkey
      rw [List.pairwise_cons] at ih'
      simp only
      by_cases hk : k = k'
      · subst hk
        rw [if_pos (by simp), List.pairwise_cons]
        exact ⟨fun z hz => ih'.1 z hz, ih'.2⟩
      · rw [if_neg (by simpa using hk), List.pairwise_cons]
        obtain ⟨w, hw⟩ := hkey (k', vs) (List.mem_cons_self ..)
        have hle : k ≤ k' := hs.1 _ hw
        have hlt : k < k' := by omega
        refine ⟨?_, List.pairwise_cons.mpr ih'⟩
        intro z hz
        rcases List.mem_cons.mp hz with rfl | hz
        · exact hlt
        · exact Nat.lt_trans hlt (ih'.1 z hz)

theorem pairwise_lt_key_uniq {β} (G : List (Nat × β)) (h : G.Pairwise (fun a b => a.1 < b.1))
    {a b : Nat × β} (ha : a ∈ G) (hb : b ∈ G) (hk : a.1 = b.1) : a = b := by
  induction G with
  | nil => cases ha
  | cons z zs ih =>
    rw [List.pairwise_cons] at h
    rcases List.mem_cons.mp ha with rfl | ha' <;> rcases List.mem_cons.mp hb with rfl | hb'
    · rfl
    · have := h.1 b hb'; omega
    · have := h.1 a ha'; omega
    · exact ih h.2 ha' hb'

/-- two literals with the same count are members of the same group -/
theorem groupByCount_same (l : List (Nat × Int)) (hs : l.Pairwise (fun a b => a.1 ≤ b.1))
    {k : Nat} {v v' : Int} (h1 : (k, v) ∈ l) (h2 : (k, v') ∈ l) :
    ∃ g, (k, g) ∈ groupByCount l ∧ v ∈ g ∧ v' ∈ g := by
  have hk := groupByCount_keys l hs
  rw [← ungroup_groupByCount l] at h1 h2
  simp only [ungroup, List.mem_flatMap, List.mem_map] at h1 h2
  obtain ⟨⟨k1, g1⟩, hg1, w1, hw1, e1⟩ := h1
  obtain ⟨⟨k2, g2⟩, hg2, w2, hw2, e2⟩ := h2
  simp only [Prod.mk.injEq] at e1 e2
  obtain ⟨rfl, rfl⟩ := e1
  obtain ⟨rfl, rfl⟩ := e2
  have := pairwise_lt_key_uniq _ hk hg1 hg2 rfl
  simp only [Prod.mk.injEq, true_and] at this
  subst this
  exact ⟨g1, hg1, hw1, hw2⟩

/-! ### `lexLt` is a strict total order -/

theorem lexLt_irrefl (a : List Int) : lexLt a a = false := by
  induction a with
  | nil => rfl
  | cons x xs ih => simp [lexLt, ih]

theorem lexLt_total : ∀ (a b : List Int), lexLt a b = false → lexLt b a = false → a = b
  | [], [], _, _ => rfl
  | [], _ :: _, h, _ => by simp [lexLt] at h
  | _ :: _, [], _, h => by simp [lexLt] at h
  | x :: xs, y :: ys, h1, h2 => by
    simp only [lexLt] at h1 h2
    by_cases hxy : x < y
    · simp [hxy] at h1
    · by_cases hyx : y < x
      · simp [hyx] at h2
      · simp only [hxy, hyx, if_false] at h1 h2
        have : x = y := by omega
        subst this
        rw [lexLt_total xs ys h1 h2]

theorem lexLt_asymm : ∀ (a b : List Int), lexLt a b = true → lexLt b a = false
  | [], [], h => by simp [lexLt] at h
  | [], _ :: _, _ => rfl
  | _ :: _, [], h => by simp [lexLt] at h
  | x :: xs, y :: ys, h => by
    simp only [lexLt] at h ⊢
    by_cases hxy : x < y
    · have : ¬ y < x := by omega
      simp [this, hxy]
    · by_cases hyx : y < x
      · simp [hxy, hyx] at h
      · simp only [hxy, hyx, if_false] at h ⊢
        exact lexLt_asymm xs ys h

/-- transitivity of `≤` (= not `>`) for `lexLt` -/
theorem lexLe_trans : ∀ (a b c : List Int), lexLt b a = false → lexLt c b = false →
    lexLt c a = false
  | [], _, [], _, _ => rfl
  | [], _, _ :: _, _, _ => rfl
  | _ :: _, [], _, h, _ => by simp [lexLt] at h
  | _ :: _, _ :: _, [], _, h => by simp [lexLt] at h
  | x :: xs, y :: ys, z :: zs, h1, h2 => by
    simp only [lexLt] at h1 h2 ⊢
    by_cases hyx : y < x
    · simp [hyx] at h1
    · by_cases hzy : z < y
      · simp [hzy] at h2
      · simp only [hyx, hzy, if_false] at h1 h2
        by_cases hxy : x < y
        · have h3 : ¬ z < x := by omega
          have h4 : x < z := by omega
          simp [h3, h4]
        · have : x = y := by omega
          subst this
          by_cases hyz : x < z
          · simp [hyz, hzy]
          · have : x = z := by omega
            subst this
            simp only [hxy, if_false] at h1 h2 ⊢
            exact lexLe_trans xs ys zs h1 h2

/-! ### `dedupFirstAbs` -/

/-- the order the sets are sorted by in cross mode: `(|first|, first)` -/
def headLt (a b : List Int) : Bool :=
  (a.headD 0).natAbs < (b.headD 0).natAbs ||
    ((a.headD 0).natAbs == (b.headD 0).natAbs && a.headD 0 < b.headD 0)

theorem headLt_iff (a b : List Int) : headLt a b = true ↔
    ((a.headD 0).natAbs < (b.headD 0).natAbs ∨
      ((a.headD 0).natAbs = (b.headD 0).natAbs ∧ a.headD 0 < b.headD 0)) := by
  simp [headLt]

theorem dedupFirstAbs_cons_cons (a b : List Int) (rest : List (List Int)) :
    dedupFirstAbs (a :: b :: rest) =
      if (a.headD 0).natAbs == (b.headD 0).natAbs then dedupFirstAbs (a :: rest)
      else a :: dedupFirstAbs (b :: rest) := by
  rw [dedupFirstAbs]

/-- on a list strictly sorted by `(|first|, first)`, `dedupFirstAbs` keeps exactly the lists that
are not preceded (in that order) by a list with the same `|first|` -/
theorem mem_dedupFirstAbs : ∀ (m : Nat) (l : List (List Int)), l.length = m →
    l.Pairwise (fun a b => headLt a b = true) → ∀ x,
    (x ∈ dedupFirstAbs l ↔
      x ∈ l ∧ ∀ y ∈ l, (y.headD 0).natAbs = (x.headD 0).natAbs → ¬ y.headD 0 < x.headD 0) := by
  intro m
  induction m using Nat.strongRecOn with
  | _ m ih =>
    intro l hlen hs x
    match l, hlen, hs with
    | [], _, _ => simp [dedupFirstAbs]
    | [a], _, _ =>
      simp only [dedupFirstAbs, List.mem_singleton]
      constructor
      · rintro rfl
        exact ⟨rfl, fun y hy _ => by subst hy; omega⟩
      · exact fun h => h.1
    | a :: b :: rest, hlen, hs =>
      rw [dedupFirstAbs_cons_cons]
      have hs' := hs
      rw [List.pairwise_cons] at hs'
      have hab := (headLt_iff a b).mp (hs'.1 b (List.mem_cons_self ..))
      have hs2 := hs'.2
      rw [List.pairwise_cons] at hs2
      by_cases he : (a.headD 0).natAbs = (b.headD 0).natAbs
      · rw [if_pos (by simpa using he)]
        have hsar : (a :: rest).Pairwise (fun a b => headLt a b = true) :=
          List.pairwise_cons.mpr ⟨fun z hz => hs'.1 z (List.mem_cons_of_mem _ hz), hs2.2⟩
        rw [ih (a :: rest).length (by simp at hlen ⊢; omega) (a :: rest) rfl hsar x]
        have hablt : a.headD 0 < b.headD 0 := by omega
        constructor
        · rintro ⟨hx, hy⟩
          refine ⟨?_, ?_⟩
          · rcases List.mem_cons.mp hx with rfl | hx
            · exact List.mem_cons_self ..
            · exact List.mem_cons_of_mem _ (List.mem_cons_of_mem _ hx)
          · intro y hy' hyx
            rcases List.mem_cons.mp hy' with rfl | hy'
            · exact hy _ (List.mem_cons_self ..) hyx
            · rcases List.mem_cons.mp hy' with rfl | hy'
              · intro hlt
                exact hy a (List.mem_cons_self ..) (by omega) (by omega)
              · exact hy y (List.mem_cons_of_mem _ hy') hyx
        · rintro ⟨hx, hy⟩
          refine ⟨?_, ?_⟩
          · rcases List.mem_cons.mp hx with rfl | hx
            · exact List.mem_cons_self ..
            · rcases List.mem_cons.mp hx with rfl | hx
              · exact absurd hablt (hy a (List.mem_cons_self ..) he)
              · exact List.mem_cons_of_mem _ hx
          · intro y hy' hyx
            rcases List.mem_cons.mp hy' with rfl | hy'
            · exact hy _ (List.mem_cons_self ..) hyx
            · exact hy y (List.mem_cons_of_mem _ (List.mem_cons_of_mem _ hy')) hyx
      · rw [if_neg (by simpa using he)]
        have hablt : (a.headD 0).natAbs < (b.headD 0).natAbs := by omega
        rw [List.mem_cons,
          ih (b :: rest).length (by simp at hlen ⊢; omega) (b :: rest) rfl hs'.2 x]
        constructor
        · rintro (rfl | ⟨hx, hy⟩)
          · refine ⟨List.mem_cons_self .., ?_⟩
            intro y hy' hyx
            rcases List.mem_cons.mp hy' with rfl | hy'
            · omega
            · have := (headLt_iff x y).mp (hs'.1 y hy')
              omega
          · refine ⟨List.mem_cons_of_mem _ hx, ?_⟩
            intro y hy' hyx
            rcases List.mem_cons.mp hy' with rfl | hy'
            · have : (b.headD 0).natAbs ≤ (x.headD 0).natAbs := by
                rcases List.mem_cons.mp hx with rfl | hx
                · omega
                · have := (headLt_iff b x).mp (hs2.1 x hx)
                  omega
              omega
            · exact hy y hy' hyx
        · rintro ⟨hx, hy⟩
          rcases List.mem_cons.mp hx with rfl | hx
          · exact Or.inl rfl
          · exact Or.inr ⟨hx, fun y hy' hyx => hy y (List.mem_cons_of_mem _ hy') hyx⟩

end Ddnnf
