/-
  Top-k configurations, part 2: the frontier search `mergeAnd` over index tuples
  (`merge_top_k_results_and`).  For descending child lists the result is a top-k selection of the
  list of all unions (`prodOC`), for any number of children.

  Invariant of the loop (`Inv`): `seen` is the disjoint union of the tuples already output (`done`)
  and the tuples in the heap, and every successor of an output tuple has been seen.  Hence every
  tuple that has not been seen is componentwise above a heap tuple (`frontier`), so - the lists
  being descending - the maximum of the heap is a maximum of everything not yet output.
-/
import DdnnfVerif.Proofs.TopKBase

namespace Ddnnf

/-! ### `tupleOC` -/

theorem unify_assoc (a b c : OC) : (a.unify b).unify c = a.unify (b.unify c) := by
  simp [OC.unify, Int.add_assoc, List.append_assoc]

theorem empty_unify (a : OC) : OC.empty.unify a = a := by
  cases a; simp [OC.unify, OC.empty]

theorem unify_empty (a : OC) : a.unify OC.empty = a := by
  cases a; simp [OC.unify, OC.empty]

theorem foldl_unify (xs : List OC) (a : OC) :
    xs.foldl OC.unify a = a.unify (xs.foldl OC.unify OC.empty) := by
  induction xs generalizing a with
  | nil => simp [unify_empty]
  | cons x xs ih =>
    simp only [List.foldl_cons]
    rw [ih (a.unify x), ih (OC.empty.unify x), empty_unify, unify_assoc]

theorem tupleOC_nil_left (idx : List Nat) : tupleOC [] idx = OC.empty := by
  simp [tupleOC]

theorem tupleOC_cons (l : List OC) (ls : List (List OC)) (i : Nat) (idx : List Nat) :
    tupleOC (l :: ls) (i :: idx) = (l.getD i OC.empty).unify (tupleOC ls idx) := by
  simp only [tupleOC, List.zip_cons_cons, List.map_cons, List.foldl_cons]
  rw [foldl_unify, empty_unify]

/-! ### index tuples -/

/-- `t` is an index tuple: one valid position per list -/
def Valid (lists : List (List OC)) (t : List Nat) : Prop :=
  t.length = lists.length ∧ ∀ j, j < lists.length → t.getD j 0 < (lists.getD j []).length

/-- componentwise order -/
def Le (h t : List Nat) : Prop := ∀ j, h.getD j 0 ≤ t.getD j 0

theorem Le.refl (t : List Nat) : Le t t := fun _ => Nat.le_refl _

theorem Le.trans {a b c : List Nat} (h1 : Le a b) (h2 : Le b c) : Le a c :=
  fun j => Nat.le_trans (h1 j) (h2 j)

theorem valid_nil (t : List Nat) : Valid [] t ↔ t = [] := by
  constructor
  · intro h; exact List.eq_nil_of_length_eq_zero h.1
  · rintro rfl; exact ⟨rfl, by intro j hj; cases hj⟩

theorem valid_cons (l : List OC) (ls : List (List OC)) (i : Nat) (t : List Nat) :
    Valid (l :: ls) (i :: t) ↔ i < l.length ∧ Valid ls t := by
  constructor
  · rintro ⟨h1, h2⟩
    refine ⟨by simpa using h2 0 (by simp), by simpa using h1, ?_⟩
    intro j hj
    have := h2 (j + 1) (by simpa using hj)
    simpa using this
  · rintro ⟨h0, h1, h2⟩
    refine ⟨by simp [h1], ?_⟩
    intro j hj
    cases j with
    | zero => simpa using h0
    | succ j => simpa using h2 j (by simpa using hj)

theorem valid_cons_inv {l : List OC} {ls : List (List OC)} {t : List Nat} (h : Valid (l :: ls) t) :
    ∃ i t', t = i :: t' := by
  cases t with
  | nil => have := h.1; simp at this
  | cons i t' => exact ⟨i, t', rfl⟩

theorem le_cons {i j : Nat} {h t : List Nat} : Le (i :: h) (j :: t) ↔ i ≤ j ∧ Le h t := by
  constructor
  · intro hle
    refine ⟨by simpa using hle 0, ?_⟩
    intro m
    simpa using hle (m + 1)
  · rintro ⟨h0, h1⟩ m
    cases m with
    | zero => simpa using h0
    | succ m => simpa using h1 m

/-- all index tuples, in the order of `prodOC` -/
def allIdx : List (List OC) → List (List Nat)
  | [] => [[]]
  | l :: rest => (allIdx rest).flatMap (fun tl => (List.range l.length).map (fun i => i :: tl))

theorem mem_allIdx (lists : List (List OC)) (t : List Nat) : t ∈ allIdx lists ↔ Valid lists t := by
  induction lists generalizing t with
  | nil => simp [allIdx, valid_nil]
  | cons l rest ih =>
    simp only [allIdx, List.mem_flatMap, List.mem_map, List.mem_range]
    constructor
    · rintro ⟨tl, htl, i, hi, rfl⟩
      exact (valid_cons ..).mpr ⟨hi, (ih tl).mp htl⟩
    · intro hv
      obtain ⟨i, t', rfl⟩ := valid_cons_inv hv
      obtain ⟨hi, hv'⟩ := (valid_cons ..).mp hv
      exact ⟨t', (ih t').mpr hv', i, hi, rfl⟩

theorem nodup_allIdx (lists : List (List OC)) : (allIdx lists).Nodup := by
  induction lists with
  | nil => simp [allIdx]
  | cons l rest ih =>
    simp only [allIdx, List.Nodup, List.pairwise_flatMap]
    constructor
    · intro tl _
      rw [List.pairwise_map]
      refine List.Pairwise.imp ?_ (List.nodup_range (n := l.length))
      intro a b hab he
      simp only [List.cons.injEq, and_true] at he
      exact hab he
    · refine List.Pairwise.imp ?_ ih
      intro a b hab x hx y hy he
      rw [List.mem_map] at hx hy
      obtain ⟨i, _, rfl⟩ := hx
      obtain ⟨i', _, rfl⟩ := hy
      simp only [List.cons.injEq] at he
      exact hab he.2

theorem map_range_getD {α} (l : List α) (d : α) :
    (List.range l.length).map (fun i => l.getD i d) = l := by
  apply List.ext_getElem (by simp)
  intro i h1 h2
  simp [List.getD_eq_getElem?_getD, h2]

theorem map_tupleOC_allIdx (lists : List (List OC)) :
    (allIdx lists).map (tupleOC lists) = prodOC lists := by
  induction lists with
  | nil => simp [allIdx, prodOC, tupleOC_nil_left]
  | cons l rest ih =>
    simp only [allIdx, prodOC, pairOC, List.map_flatMap, List.map_map]
    rw [← ih, List.flatMap_map]
    congr 1
    funext tl
    conv => rhs; rw [← map_range_getD l OC.empty]
    rw [List.map_map]
    apply List.map_congr_left
    intro i _
    simp [Function.comp, tupleOC_cons]

theorem length_pairOC (a b : List OC) : (pairOC a b).length = a.length * b.length := by
  induction b with
  | nil => simp [pairOC]
  | cons z b ih =>
    rw [pairOC_cons_right, List.length_append, List.length_map, ih, List.length_cons, Nat.mul_succ]
    omega

theorem length_prodOC (lists : List (List OC)) :
    (prodOC lists).length = prodNat (lists.map List.length) := by
  induction lists with
  | nil => rfl
  | cons l rest ih =>
    simp only [prodOC, length_pairOC, ih, List.map_cons, prodNat_cons]

theorem prodOC_eq_nil {lists : List (List OC)} (h : [] ∈ lists) : prodOC lists = [] := by
  induction lists with
  | nil => cases h
  | cons l rest ih =>
    apply List.eq_nil_of_length_eq_zero
    rw [prodOC, length_pairOC]
    rcases List.mem_cons.mp h with h | h
    · rw [← h]; simp
    · rw [ih h]; simp

theorem desc_getD {l : List OC} (h : Desc l) {i j : Nat} (hij : i ≤ j) (hj : j < l.length) (d : OC) :
    (l.getD j d).value ≤ (l.getD i d).value := by
  by_cases he : i = j
  · subst he; exact Int.le_refl _
  · have hi : i < l.length := by omega
    have := (List.pairwise_iff_getElem.mp h) i j hi hj (by omega)
    simpa [List.getD_eq_getElem?_getD, hi, hj] using this

/-- the lists being descending, a componentwise larger tuple has a smaller (or equal) value -/
theorem tupleOC_mono (lists : List (List OC)) (hd : ∀ l ∈ lists, Desc l) (h t : List Nat)
    (hh : Valid lists h) (ht : Valid lists t) (hle : Le h t) :
    (tupleOC lists t).value ≤ (tupleOC lists h).value := by
  induction lists generalizing h t with
  | nil => simp [tupleOC_nil_left]
  | cons l rest ih =>
    obtain ⟨i, h', rfl⟩ := valid_cons_inv hh
    obtain ⟨j, t', rfl⟩ := valid_cons_inv ht
    obtain ⟨hi, hh'⟩ := (valid_cons ..).mp hh
    obtain ⟨hj, ht'⟩ := (valid_cons ..).mp ht
    obtain ⟨hij, hle'⟩ := le_cons.mp hle
    rw [tupleOC_cons, tupleOC_cons, unify_value, unify_value]
    have h1 := ih (fun x hx => hd x (List.mem_cons_of_mem _ hx)) h' t' hh' ht' hle'
    have h2 := desc_getD (hd l List.mem_cons_self) hij hj OC.empty
    omega

/-! ### successors and predecessors of a tuple -/

theorem getD_set (b : List Nat) (j m v : Nat) :
    (b.set j v).getD m 0 = if j = m ∧ j < b.length then v else b.getD m 0 := by
  simp only [List.getD_eq_getElem?_getD, List.getElem?_set]
  by_cases h1 : j = m
  · subst h1
    by_cases h2 : j < b.length
    · simp [h2]
    · simp [h2]
  · simp [h1]

theorem getD_lists_pos {lists : List (List OC)} {j n : Nat} (h : n < (lists.getD j []).length) :
    j < lists.length := by
  apply Decidable.byContradiction
  intro hj
  rw [List.getD_eq_getElem?_getD, List.getElem?_eq_none (Nat.le_of_not_lt hj)] at h
  simp at h

theorem mem_succTuples {lists : List (List OC)} {b s : List Nat} :
    s ∈ succTuples lists b ↔ ∃ j, j < lists.length ∧
      b.getD j 0 + 1 < (lists.getD j []).length ∧ s = b.set j (b.getD j 0 + 1) := by
  simp only [succTuples, List.mem_filterMap, List.mem_range]
  constructor
  · rintro ⟨j, hj, h⟩
    by_cases hc : b.getD j 0 + 1 < (lists.getD j []).length
    · rw [if_pos hc] at h; exact ⟨j, hj, hc, (Option.some.inj h).symm⟩
    · rw [if_neg hc] at h; cases h
  · rintro ⟨j, hj, hc, rfl⟩; exact ⟨j, hj, by rw [if_pos hc]⟩

theorem succ_valid {lists : List (List OC)} {b s : List Nat} (hb : Valid lists b)
    (hs : s ∈ succTuples lists b) : Valid lists s := by
  obtain ⟨j, hj, hc, rfl⟩ := mem_succTuples.mp hs
  refine ⟨by rw [List.length_set]; exact hb.1, ?_⟩
  intro m hm
  rw [getD_set]
  by_cases h : j = m ∧ j < b.length
  · rw [if_pos h]; rw [← h.1]; exact hc
  · rw [if_neg h]; exact hb.2 m hm

theorem succ_nodup {lists : List (List OC)} {b : List Nat} (hb : Valid lists b) :
    (succTuples lists b).Nodup := by
  unfold succTuples
  refine List.Pairwise.filterMap _ ?_ (List.nodup_range (n := lists.length))
  intro a a' hne s hs s' hs' he
  by_cases hc : b.getD a 0 + 1 < (lists.getD a []).length
  · rw [if_pos hc] at hs
    by_cases hc' : b.getD a' 0 + 1 < (lists.getD a' []).length
    · rw [if_pos hc'] at hs'
      have e1 := Option.some.inj hs
      have e2 := Option.some.inj hs'
      have ha : a < b.length := by rw [hb.1]; exact getD_lists_pos hc
      have h1 : s.getD a 0 = b.getD a 0 + 1 := by
        rw [← e1, getD_set, if_pos ⟨rfl, ha⟩]
      have h2 : s'.getD a 0 = b.getD a 0 := by
        rw [← e2, getD_set, if_neg (by intro h; exact hne h.1.symm)]
      rw [he] at h1
      omega
    · rw [if_neg hc'] at hs'; cases hs'
  · rw [if_neg hc] at hs; cases hs

theorem set_set_self (t : List Nat) (j v : Nat) : (t.set j v).set j (t.getD j 0) = t := by
  apply List.ext_getElem?
  intro m
  simp only [List.getElem?_set, List.length_set, List.getD_eq_getElem?_getD]
  by_cases h1 : j = m
  · subst h1
    by_cases h2 : j < t.length
    · simp [h2]
    · simp [h2]
  · simp [h1]

theorem sum_set_lt (t : List Nat) (j v : Nat) (hj : j < t.length) (hv : v < t.getD j 0) :
    (t.set j v).sum < t.sum := by
  induction t generalizing j with
  | nil => simp at hj
  | cons x t ih =>
    cases j with
    | zero =>
      simp only [List.getD_cons_zero] at hv
      simp only [List.set_cons_zero, List.sum_cons]
      omega
    | succ j =>
      simp only [List.getD_cons_succ] at hv
      simp only [List.set_cons_succ, List.sum_cons]
      have := ih j (by simpa using hj) hv
      omega

/-- the predecessor of `t` in direction `j` -/
theorem pred_step (lists : List (List OC)) (t : List Nat) (j : Nat) (hv : Valid lists t)
    (hj : j < lists.length) (hpos : 0 < t.getD j 0) :
    Valid lists (t.set j (t.getD j 0 - 1)) ∧ t ∈ succTuples lists (t.set j (t.getD j 0 - 1)) ∧
      (t.set j (t.getD j 0 - 1)).sum < t.sum ∧ Le (t.set j (t.getD j 0 - 1)) t := by
  have hjt : j < t.length := by rw [hv.1]; exact hj
  have hget : (t.set j (t.getD j 0 - 1)).getD j 0 = t.getD j 0 - 1 := by
    rw [getD_set, if_pos ⟨rfl, hjt⟩]
  refine ⟨⟨by rw [List.length_set]; exact hv.1, ?_⟩, ?_, sum_set_lt t j _ hjt (by omega), ?_⟩
  · intro m hm
    rw [getD_set]
    by_cases h : j = m ∧ j < t.length
    · rw [if_pos h]
      have := hv.2 j hj
      rw [← h.1]; omega
    · rw [if_neg h]; exact hv.2 m hm
  · rw [mem_succTuples]
    refine ⟨j, hj, ?_, ?_⟩
    · rw [hget]
      have := hv.2 j hj
      omega
    · rw [hget]
      have : t.getD j 0 - 1 + 1 = t.getD j 0 := by omega
      rw [this, set_set_self]
  · intro m
    rw [getD_set]
    by_cases h : j = m ∧ j < t.length
    · rw [if_pos h, ← h.1]; omega
    · rw [if_neg h]; exact Nat.le_refl _

theorem zero_tuple (lists : List (List OC)) (t : List Nat) (hv : Valid lists t)
    (hz : ∀ j, j < lists.length → t.getD j 0 = 0) : t = List.replicate lists.length 0 := by
  apply List.ext_getElem (by simp [hv.1])
  intro i h1 h2
  have := hz i (by rw [← hv.1]; exact h1)
  rw [List.getD_eq_getElem?_getD] at this
  simp only [List.getElem_replicate]
  simpa [h1] using this

theorem valid_start (lists : List (List OC)) (h : ∀ l ∈ lists, l ≠ []) :
    Valid lists (List.replicate lists.length 0) := by
  refine ⟨by simp, ?_⟩
  intro j hj
  have e1 : (List.replicate lists.length 0).getD j 0 = 0 := by
    simp [List.getD_eq_getElem?_getD, hj]
  have e2 : lists.getD j [] = lists[j] := by
    simp [List.getD_eq_getElem?_getD, hj]
  rw [e1, e2]
  exact List.length_pos_iff.mpr (h _ (List.getElem_mem hj))

/-! ### `popMax` -/

theorem popMax_eq_none (heap : List (OC × List Nat)) : popMax heap = none ↔ heap = [] := by
  cases heap with
  | nil => simp [popMax]
  | cons x xs =>
    simp only [popMax]
    cases popMax xs with
    | none => simp
    | some p =>
      obtain ⟨m, rest⟩ := p
      simp only
      by_cases h : x.1.value ≥ m.1.value
      · rw [if_pos h]; simp
      · rw [if_neg h]; simp

theorem popMax_spec (heap : List (OC × List Nat)) (m : OC × List Nat)
    (rest : List (OC × List Nat)) (h : popMax heap = some (m, rest)) :
    heap.Perm (m :: rest) ∧ ∀ e ∈ heap, e.1.value ≤ m.1.value := by
  induction heap generalizing m rest with
  | nil => simp [popMax] at h
  | cons x xs ih =>
    simp only [popMax] at h
    cases hp : popMax xs with
    | none =>
      rw [hp] at h
      simp only [Option.some.injEq, Prod.mk.injEq] at h
      obtain ⟨rfl, rfl⟩ := h
      have : xs = [] := (popMax_eq_none xs).mp hp
      subst this
      refine ⟨List.Perm.refl _, ?_⟩
      intro e he
      rw [List.mem_singleton] at he
      subst he
      exact Int.le_refl _
    | some p =>
      obtain ⟨m', rest'⟩ := p
      rw [hp] at h
      simp only at h
      obtain ⟨hperm, hmax⟩ := ih m' rest' hp
      by_cases hx : x.1.value ≥ m'.1.value
      · rw [if_pos hx] at h
        simp only [Option.some.injEq, Prod.mk.injEq] at h
        obtain ⟨rfl, rfl⟩ := h
        refine ⟨List.Perm.refl _, ?_⟩
        intro e he
        rcases List.mem_cons.mp he with rfl | he
        · exact Int.le_refl _
        · have := hmax e he
          omega
      · rw [if_neg hx] at h
        simp only [Option.some.injEq, Prod.mk.injEq] at h
        obtain ⟨rfl, rfl⟩ := h
        refine ⟨(List.Perm.cons x hperm).trans (List.Perm.swap _ _ _), ?_⟩
        intro e he
        rcases List.mem_cons.mp he with rfl | he
        · omega
        · exact hmax e he

/-! ### the invariant of the frontier search -/

structure Inv (lists : List (List OC)) (heap : List (OC × List Nat)) (seen done : List (List Nat)) :
    Prop where
  nodup : (done ++ heap.map (·.2)).Nodup
  seen_iff : ∀ t, t ∈ seen ↔ t ∈ done ∨ t ∈ heap.map (·.2)
  valid : ∀ t ∈ seen, Valid lists t
  start : List.replicate lists.length 0 ∈ seen
  closed : ∀ s ∈ done, ∀ s' ∈ succTuples lists s, s' ∈ seen
  heap_val : ∀ e ∈ heap, e.1 = tupleOC lists e.2

/-- every tuple that has not been inserted yet lies above a tuple of the heap -/
theorem frontier (lists : List (List OC)) (heap : List (OC × List Nat)) (seen done : List (List Nat))
    (inv : Inv lists heap seen done) :
    ∀ n t, t.sum = n → Valid lists t → t ∈ seen ∨ ∃ h ∈ heap.map (·.2), Le h t := by
  intro n
  induction n using Nat.strongRecOn with
  | _ n ih =>
    intro t hn hv
    by_cases hz : ∃ j, j < lists.length ∧ t.getD j 0 ≠ 0
    · obtain ⟨j, hj, hne⟩ := hz
      obtain ⟨hv', hsucc, hsum, hle⟩ := pred_step lists t j hv hj (by omega)
      rcases ih _ (by omega) (t.set j (t.getD j 0 - 1)) rfl hv' with h | ⟨h, hh, hhle⟩
      · rcases (inv.seen_iff _).mp h with hd | hh
        · left; exact inv.closed _ hd _ hsucc
        · right; exact ⟨_, hh, hle⟩
      · right; exact ⟨h, hh, Le.trans hhle hle⟩
    · left
      have : t = List.replicate lists.length 0 := by
        apply zero_tuple lists t hv
        intro j hj
        apply Decidable.byContradiction
        intro hne
        exact hz ⟨j, hj, hne⟩
      rw [this]; exact inv.start

/-- a tuple that has not been output is dominated by an entry of the heap -/
theorem frontier_heap (lists : List (List OC)) (hd : ∀ l ∈ lists, Desc l)
    (heap : List (OC × List Nat)) (seen done : List (List Nat)) (inv : Inv lists heap seen done)
    (u : List Nat) (hu : Valid lists u) (hnd : u ∉ done) :
    ∃ e ∈ heap, (tupleOC lists u).value ≤ e.1.value := by
  have hex : ∃ h ∈ heap.map (·.2), Le h u := by
    rcases frontier lists heap seen done inv _ u rfl hu with h | h
    · rcases (inv.seen_iff _).mp h with h | h
      · exact absurd h hnd
      · exact ⟨u, h, Le.refl u⟩
    · exact h
  obtain ⟨h, hh, hle⟩ := hex
  rw [List.mem_map] at hh
  obtain ⟨e, he, rfl⟩ := hh
  refine ⟨e, he, ?_⟩
  rw [inv.heap_val e he]
  have hev : Valid lists e.2 :=
    inv.valid _ ((inv.seen_iff _).mpr (Or.inr (List.mem_map.mpr ⟨e, he, rfl⟩)))
  exact tupleOC_mono lists hd e.2 u hev hu hle

/-- the multiset of candidates that have not been output -/
def remaining (lists : List (List OC)) (done : List (List Nat)) : List OC :=
  ((allIdx lists).filter (fun t => !done.contains t)).map (tupleOC lists)

theorem remaining_step (lists : List (List OC)) (done : List (List Nat)) (b : List Nat)
    (hb : Valid lists b) (hnd : b ∉ done) :
    (remaining lists done).Perm (tupleOC lists b :: remaining lists (b :: done)) := by
  unfold remaining
  rw [← List.map_cons]
  apply List.Perm.map
  have hn1 : ((allIdx lists).filter (fun t => !done.contains t)).Nodup :=
    List.Pairwise.filter _ (nodup_allIdx lists)
  have hn2 : ((allIdx lists).filter (fun t => !(b :: done).contains t)).Nodup :=
    List.Pairwise.filter _ (nodup_allIdx lists)
  have hn3 : (b :: (allIdx lists).filter (fun t => !(b :: done).contains t)).Nodup := by
    rw [List.nodup_cons]
    refine ⟨?_, hn2⟩
    intro h
    rw [List.mem_filter] at h
    simp at h
  rw [List.perm_ext_iff_of_nodup hn1 hn3]
  intro t
  have hc : ∀ (d : List (List Nat)) (t : List Nat), (!d.contains t) = true ↔ t ∉ d := by
    intro d t; simp
  simp only [List.mem_filter, mem_allIdx, hc, List.mem_cons, not_or]
  constructor
  · rintro ⟨h1, h2⟩
    by_cases htb : t = b
    · exact Or.inl htb
    · exact Or.inr ⟨h1, htb, h2⟩
  · rintro (rfl | ⟨h1, _, h2⟩)
    · exact ⟨hb, hnd⟩
    · exact ⟨h1, h2⟩

theorem remaining_mem {lists : List (List OC)} {done : List (List Nat)} {y : OC}
    (hy : y ∈ remaining lists done) : ∃ u, Valid lists u ∧ u ∉ done ∧ y = tupleOC lists u := by
  unfold remaining at hy
  rw [List.mem_map] at hy
  obtain ⟨u, hu, rfl⟩ := hy
  rw [List.mem_filter] at hu
  exact ⟨u, (mem_allIdx lists u).mp hu.1, by simpa using hu.2, rfl⟩

/-- one iteration preserves the invariant -/
theorem inv_step (lists : List (List OC)) (heap heap' : List (OC × List Nat))
    (seen done : List (List Nat)) (best : OC) (b : List Nat) (inv : Inv lists heap seen done)
    (hperm : heap.Perm ((best, b) :: heap')) :
    Inv lists
      (heap' ++ ((succTuples lists b).filter (fun t => !seen.contains t)).map
        (fun t => (tupleOC lists t, t)))
      (seen ++ (succTuples lists b).filter (fun t => !seen.contains t)) (b :: done) := by
  have hidx : (heap.map (·.2)).Perm (b :: heap'.map (·.2)) := hperm.map _
  have hbheap : b ∈ heap.map (·.2) := hidx.symm.subset List.mem_cons_self
  have hbseen : b ∈ seen := (inv.seen_iff b).mpr (Or.inr hbheap)
  have hbv : Valid lists b := inv.valid b hbseen
  have hnewmap : (((succTuples lists b).filter (fun t => !seen.contains t)).map
      (fun t => (tupleOC lists t, t))).map (·.2)
      = (succTuples lists b).filter (fun t => !seen.contains t) := by
    rw [List.map_map]
    exact List.map_id' _
  have hmemnew : ∀ t, t ∈ (succTuples lists b).filter (fun t => !seen.contains t) ↔
      t ∈ succTuples lists b ∧ t ∉ seen := by
    intro t
    simp [List.mem_filter]
  constructor
  · -- nodup
    rw [List.map_append, hnewmap, ← List.append_assoc, List.nodup_append]
    refine ⟨?_, List.Pairwise.filter _ (succ_nodup hbv), ?_⟩
    · have : (done ++ heap.map (·.2)).Perm ((b :: done) ++ heap'.map (·.2)) :=
        (List.Perm.append_left done hidx).trans List.perm_middle
      exact this.nodup inv.nodup
    · intro a ha c hc hac
      subst hac
      have hseen : a ∈ seen := by
        rcases List.mem_append.mp ha with ha | ha
        · rcases List.mem_cons.mp ha with rfl | ha
          · exact hbseen
          · exact (inv.seen_iff a).mpr (Or.inl ha)
        · exact (inv.seen_iff a).mpr (Or.inr (hidx.symm.subset (List.mem_cons_of_mem _ ha)))
      exact ((hmemnew a).mp hc).2 hseen
  · -- seen_iff
    intro t
    rw [List.map_append, hnewmap, List.mem_append, List.mem_append, List.mem_cons, inv.seen_iff t,
      hidx.mem_iff, List.mem_cons]
    constructor
    · rintro ((h | h | h) | h)
      · exact Or.inl (Or.inr h)
      · exact Or.inl (Or.inl h)
      · exact Or.inr (Or.inl h)
      · exact Or.inr (Or.inr h)
    · rintro ((h | h) | (h | h))
      · exact Or.inl (Or.inr (Or.inl h))
      · exact Or.inl (Or.inl h)
      · exact Or.inl (Or.inr (Or.inr h))
      · exact Or.inr h
  · -- valid
    intro t ht
    rcases List.mem_append.mp ht with ht | ht
    · exact inv.valid t ht
    · exact succ_valid hbv ((hmemnew t).mp ht).1
  · exact List.mem_append_left _ inv.start
  · -- closed
    intro s hs s' hs'
    rcases List.mem_cons.mp hs with rfl | hs
    · by_cases hin : s' ∈ seen
      · exact List.mem_append_left _ hin
      · exact List.mem_append_right _ ((hmemnew s').mpr ⟨hs', hin⟩)
    · exact List.mem_append_left _ (inv.closed s hs s' hs')
  · -- heap_val
    intro e he
    rcases List.mem_append.mp he with he | he
    · exact inv.heap_val e (hperm.symm.subset (List.mem_cons_of_mem _ he))
    · rw [List.mem_map] at he
      obtain ⟨t, _, rfl⟩ := he
      rfl

/-- the loop outputs a top-`fuel` selection of the candidates that have not been output yet -/
theorem mergeAndLoop_correct (lists : List (List OC)) (hd : ∀ l ∈ lists, Desc l) (fuel : Nat)
    (heap : List (OC × List Nat)) (seen done : List (List Nat)) (inv : Inv lists heap seen done) :
    IsTopKS fuel (remaining lists done) (mergeAndLoop lists fuel heap seen) := by
  induction fuel generalizing heap seen done with
  | zero => exact isTopKS_zero _
  | succ fuel ih =>
    simp only [mergeAndLoop]
    cases hp : popMax heap with
    | none =>
      have hheap : heap = [] := (popMax_eq_none heap).mp hp
      have hnil : remaining lists done = [] := by
        apply List.eq_nil_iff_forall_not_mem.mpr
        intro y hy
        obtain ⟨u, hu, hnd, _⟩ := remaining_mem hy
        obtain ⟨e, he, _⟩ := frontier_heap lists hd heap seen done inv u hu hnd
        rw [hheap] at he
        cases he
      rw [hnil]
      exact isTopKS_nil _
    | some p =>
      obtain ⟨⟨best, b⟩, heap'⟩ := p
      simp only
      obtain ⟨hperm, hmax⟩ := popMax_spec heap (best, b) heap' hp
      have hbmem : (best, b) ∈ heap := hperm.symm.subset List.mem_cons_self
      have hbheap : b ∈ heap.map (·.2) := List.mem_map.mpr ⟨(best, b), hbmem, rfl⟩
      have hbv : Valid lists b := inv.valid b ((inv.seen_iff b).mpr (Or.inr hbheap))
      have hbnd : b ∉ done := by
        intro h
        exact (List.nodup_append.mp inv.nodup).2.2 b h b hbheap rfl
      have hbest : best = tupleOC lists b := inv.heap_val _ hbmem
      have inv' := inv_step lists heap heap' seen done best b inv hperm
      have hrec := ih _ _ _ inv'
      have hstep := remaining_step lists done b hbv hbnd
      rw [← hbest] at hstep
      refine isTopKS_cons hstep ?_ hrec
      intro y hy
      obtain ⟨u, hu, hnd, rfl⟩ := remaining_mem hy
      obtain ⟨e, he, hle⟩ := frontier_heap lists hd heap seen done inv u hu
        (fun h => hnd (List.mem_cons_of_mem _ h))
      have := hmax e he
      simp only at this
      omega

/-- the frontier search yields a top-k selection of the list of all unions -/
theorem mergeAnd_correct (lists : List (List OC)) (k : Nat) (hd : ∀ l ∈ lists, Desc l) :
    IsTopKS k (prodOC lists) (mergeAnd lists k) := by
  unfold mergeAnd
  by_cases hany : lists.any (·.isEmpty) = true
  · rw [if_pos hany]
    have : prodOC lists = [] := by
      apply prodOC_eq_nil
      rw [List.any_eq_true] at hany
      obtain ⟨l, hl, he⟩ := hany
      rw [List.isEmpty_iff] at he
      rw [← he]; exact hl
    rw [this]
    exact isTopKS_nil _
  · rw [if_neg hany]
    have hne : ∀ l ∈ lists, l ≠ [] := by
      intro l hl he
      apply hany
      rw [List.any_eq_true]
      exact ⟨l, hl, by rw [he]; rfl⟩
    have hsv := valid_start lists hne
    have inv : Inv lists [(tupleOC lists (List.replicate lists.length 0), List.replicate lists.length 0)]
        [List.replicate lists.length 0] [] := by
      constructor
      · simp
      · intro t; simp
      · intro t ht
        rw [List.mem_singleton] at ht
        rw [ht]; exact hsv
      · exact List.mem_singleton.mpr rfl
      · intro s hs; cases hs
      · intro e he
        rw [List.mem_singleton] at he
        rw [he]
    have h := mergeAndLoop_correct lists hd (min k (prodNat (lists.map List.length))) _ _ _ inv
    have hrem : remaining lists [] = prodOC lists := by
      unfold remaining
      rw [← map_tupleOC_allIdx]
      congr 1
      rw [List.filter_eq_self]
      intro t _
      simp
    rw [hrem] at h
    apply h.of_min
    rw [length_prodOC]
    omega

end Ddnnf
