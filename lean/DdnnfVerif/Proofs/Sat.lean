/-
  SAT under assumptions (`sat_propagate`): the propagated marks describe exactly the nodes without
  a model compatible with the assumptions, hence the SAT answer agrees with "count > 0".
-/
import DdnnfVerif.Proofs.ExecQuery

namespace Ddnnf

theorem prodNat_eq_zero (cs : List Nat) (f : Nat → Nat) :
    prodNat (cs.map f) = 0 ↔ ∃ c ∈ cs, f c = 0 := by
  induction cs with
  | nil => simp
  | cons c cs ih => simp [Nat.mul_eq_zero, ih]

theorem sumNat_eq_zero (cs : List Nat) (f : Nat → Nat) :
    sumNat (cs.map f) = 0 ↔ ∀ c ∈ cs, f c = 0 := by
  induction cs with
  | nil => simp
  | cons c cs ih => simp [Nat.add_eq_zero_iff, ih]

theorem satMarks_getD (nodes : List NType) (negs : List Int) (i : Nat) :
    (satMarks nodes negs).getD i (false, 0) = val (false, 0) (fSatMark negs) nodes i := rfl

/-- the second component of the SAT pass is the cached count -/
theorem satMark_snd (nodes : List NType) (negs : List Int) (i : Nat) :
    ((satMarks nodes negs).getD i (false, 0)).2 = count nodes i := by
  rw [satMarks_getD]
  unfold count
  apply table_rel (fun (p : Bool × Nat) (c : Nat) => p.2 = c) (false, 0) 0 (fSatMark negs) fCount
    rfl
  intro nd ga gb h
  cases nd with
  | and cs =>
    show prodNat (cs.map fun c => (ga c).2) = prodNat (cs.map gb)
    congr 1; exact List.map_congr_left (fun c _ => h c)
  | or cs =>
    show sumNat (cs.map fun c => (ga c).2) = sumNat (cs.map gb)
    congr 1; exact List.map_congr_left (fun c _ => h c)
  | lit l => rfl
  | tru => rfl
  | fls => rfl

/-- "marked or cached count 0" -/
def SatRel (p : Bool × Nat) (a : Nat) : Prop := (p.1 = true ∨ p.2 = 0) ↔ a = 0

theorem fSatMark_rel (negs : List Int) (nd : NType) (gs : Nat → Bool × Nat) (ga : Nat → Nat)
    (h : ∀ j, SatRel (gs j) (ga j)) : SatRel (fSatMark negs nd gs) (fCountA negs nd ga) := by
  cases nd with
  | lit l =>
    show (negs.contains l = true ∨ 1 = 0) ↔ (if negs.contains l then 0 else 1) = 0
    by_cases hl : negs.contains l = true
    · rw [if_pos hl]; exact ⟨fun _ => rfl, fun _ => Or.inl hl⟩
    · rw [if_neg hl]
      exact ⟨fun h' => h'.elim (fun h1 => absurd h1 hl) (fun h1 => absurd h1 (by omega)),
        fun h' => absurd h' (by omega)⟩
  | tru => simp [SatRel, fSatMark, fCountA, fCount]
  | fls => simp [SatRel, fSatMark, fCountA, fCount]
  | and cs =>
    show (cs.any (fun c => (gs c).1) = true ∨ prodNat (cs.map fun c => (gs c).2) = 0)
      ↔ prodNat (cs.map ga) = 0
    rw [prodNat_eq_zero, prodNat_eq_zero, List.any_eq_true]
    constructor
    · rintro (⟨c, hc, hm⟩ | ⟨c, hc, hz⟩)
      · exact ⟨c, hc, (h c).mp (Or.inl hm)⟩
      · exact ⟨c, hc, (h c).mp (Or.inr hz)⟩
    · rintro ⟨c, hc, hz⟩
      rcases (h c).mpr hz with hm | hz'
      · exact Or.inl ⟨c, hc, hm⟩
      · exact Or.inr ⟨c, hc, hz'⟩
  | or cs =>
    show ((cs.any (fun c => (gs c).1) && cs.all (fun c => (gs c).1 || (gs c).2 == 0)) = true
        ∨ sumNat (cs.map fun c => (gs c).2) = 0) ↔ sumNat (cs.map ga) = 0
    rw [sumNat_eq_zero, sumNat_eq_zero, Bool.and_eq_true, List.any_eq_true, List.all_eq_true]
    constructor
    · rintro (⟨_, hall⟩ | hz) c hc
      · have := hall c hc
        rw [Bool.or_eq_true, beq_iff_eq] at this
        exact (h c).mp this
      · exact (h c).mp (Or.inr (hz c hc))
    · intro hz
      by_cases hany : ∃ c ∈ cs, (gs c).1 = true
      · left
        refine ⟨hany, ?_⟩
        intro c hc
        rw [Bool.or_eq_true, beq_iff_eq]
        exact (h c).mpr (hz c hc)
      · right
        intro c hc
        rcases (h c).mpr (hz c hc) with hm | hz'
        · exact (hany ⟨c, hc, hm⟩).elim
        · exact hz'

/-- unconditional: a node is marked (or has count 0) iff it has no model compatible with the
assumptions -/
theorem satMark_iff (nodes : List NType) (negs : List Int) (i : Nat) :
    (((satMarks nodes negs).getD i (false, 0)).1 = true ∨ count nodes i = 0)
      ↔ countA nodes negs i = 0 := by
  rw [← satMark_snd nodes negs i, satMarks_getD]
  unfold countA
  exact table_rel SatRel (false, 0) 0 (fSatMark negs) (fCountA negs) (by simp [SatRel])
    (fSatMark_rel negs) nodes i

/-- `sat` is exact for every sound core list -/
theorem satQueryCore_exact (nodes : List NType) (n : Nat) (h : WF nodes n) (core : List Int)
    (hcs : CoreSound core nodes) (hsat : 0 < count nodes (rootIx nodes)) (A : List Int)
    (hA : InRange A n) :
    satQueryCore core nodes A = decide (0 < specCount nodes n A) := by
  unfold satQueryCore
  by_cases hany : A.any (fun f => core.contains (-f)) = true
  · rw [if_pos hany]
    rw [List.any_eq_true] at hany
    obtain ⟨f, hf, hcore⟩ := hany
    have := specCount_eq_zero_of_neg nodes n h A hA f hf (hcs (-f) (by simpa using hcore))
    simp [this]
  · rw [if_neg hany]
    have hiff := satMark_iff nodes (A.map (fun f => -f)) (rootIx nodes)
    rw [countA_exact nodes n h A hA] at hiff
    have hne : count nodes (rootIx nodes) ≠ 0 := by omega
    cases hm : ((satMarks nodes (A.map (fun f => -f))).getD (rootIx nodes) (false, 0)).1 with
    | true =>
      have : specCount nodes n A = 0 := hiff.mp (Or.inl hm)
      simp [this]
    | false =>
      have : specCount nodes n A ≠ 0 := by
        intro hz
        rcases hiff.mpr hz with h1 | h1
        · rw [hm] at h1; cases h1
        · exact hne h1
      have hpos : 0 < specCount nodes n A := Nat.pos_of_ne_zero this
      simp [hpos]

theorem satQuery_exact (nodes : List NType) (n : Nat) (h : WF nodes n) (hpd : PDLeaf nodes)
    (hsat : 0 < count nodes (rootIx nodes)) (A : List Int) (hA : InRange A n) :
    satQuery nodes n A = decide (0 < specCount nodes n A) :=
  satQueryCore_exact nodes n h _ (coreOf_sound nodes n h hpd) hsat A hA

/-- `sat` agrees with "count > 0" for every sound core list -/
theorem satCore_iff_count_pos (nodes : List NType) (n : Nat) (h : WF nodes n) (core : List Int)
    (hcs : CoreSound core nodes) (hsat : 0 < count nodes (rootIx nodes)) (A : List Int)
    (hA : InRange A n) :
    satQueryCore core nodes A = decide (0 < execQueryCore core nodes A) := by
  rw [execQueryCore_exact nodes n h core hcs A hA]
  exact satQueryCore_exact nodes n h core hcs hsat A hA

theorem sat_iff_count_pos (nodes : List NType) (n : Nat) (h : WF nodes n) (hpd : PDLeaf nodes)
    (hsat : 0 < count nodes (rootIx nodes)) (A : List Int) (hA : InRange A n) :
    satQuery nodes n A = decide (0 < execQuery nodes n A) :=
  satCore_iff_count_pos nodes n h _ (coreOf_sound nodes n h hpd) hsat A hA

end Ddnnf
