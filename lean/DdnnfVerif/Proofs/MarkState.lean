/-
  The stateful marking machine (`Model/MarkState.lean`) answers like the pure model
  (`Model/Query.lean`) and leaves a clean state behind, whatever the `temp` fields contain.
-/
import DdnnfVerif.Model.MarkState
import DdnnfVerif.Proofs.CountA
import DdnnfVerif.Proofs.PDLeaf

namespace Ddnnf.MS

/-! ### the array layer -/

theorem getD_modify {α} (a : Array α) (i j : Nat) (f : α → α) (d : α) :
    (a.modify i f).getD j d = if j = i ∧ i < a.size then f (a.getD j d) else a.getD j d := by
  simp only [Array.getD_eq_getD_getElem?, Array.getElem?_modify]
  by_cases hji : j = i
  · subst hji
    by_cases hj : j < a.size
    · simp [hj]
    · simp [hj]
  · have : ¬ i = j := fun h => hji h.symm
    simp [hji, this]

theorem default_marker : (default : NodeSt).marker = false := rfl

theorem markerOf_of_ge (s : St) (j : Nat) (h : s.ns.size ≤ j) : markerOf s j = false := by
  unfold markerOf
  rw [getD_of_ge _ _ _ h]
  rfl

@[simp] theorem size_setMarker (s : St) (i : Nat) (b : Bool) :
    (setMarker s i b).ns.size = s.ns.size := by
  simp [setMarker]

@[simp] theorem size_setTemp (s : St) (i : Nat) (t : Nat) :
    (setTemp s i t).ns.size = s.ns.size := by
  simp [setTemp]

@[simp] theorem md_setMarker (s : St) (i : Nat) (b : Bool) : (setMarker s i b).md = s.md := rfl
@[simp] theorem md_setTemp (s : St) (i : Nat) (t : Nat) : (setTemp s i t).md = s.md := rfl

theorem markerOf_setMarker (s : St) (i j : Nat) (b : Bool) :
    markerOf (setMarker s i b) j = if j = i ∧ i < s.ns.size then b else markerOf s j := by
  unfold markerOf setMarker
  simp only [getD_modify]
  split <;> rfl

theorem markerOf_setMarker_self (s : St) (i : Nat) (b : Bool) (h : i < s.ns.size) :
    markerOf (setMarker s i b) i = b := by
  rw [markerOf_setMarker]; simp [h]

theorem markerOf_setMarker_ne (s : St) (i j : Nat) (b : Bool) (h : j ≠ i) :
    markerOf (setMarker s i b) j = markerOf s j := by
  rw [markerOf_setMarker]; simp [h]

theorem markerOf_setMarker_false (s : St) (i j : Nat) :
    markerOf (setMarker s i false) j = if j = i then false else markerOf s j := by
  rw [markerOf_setMarker]
  by_cases hji : j = i
  · subst hji
    by_cases hj : j < s.ns.size
    · simp [hj]
    · simp [hj, markerOf_of_ge s j (Nat.le_of_not_lt hj)]
  · simp [hji]

@[simp] theorem tempOf_setMarker (s : St) (i j : Nat) (b : Bool) :
    tempOf (setMarker s i b) j = tempOf s j := by
  unfold tempOf setMarker
  simp only [getD_modify]
  split <;> rfl

@[simp] theorem countOf_setMarker (s : St) (i j : Nat) (b : Bool) :
    countOf (setMarker s i b) j = countOf s j := by
  unfold countOf setMarker
  simp only [getD_modify]
  split <;> rfl

@[simp] theorem markerOf_setTemp (s : St) (i j : Nat) (t : Nat) :
    markerOf (setTemp s i t) j = markerOf s j := by
  unfold markerOf setTemp
  simp only [getD_modify]
  split <;> rfl

@[simp] theorem countOf_setTemp (s : St) (i j : Nat) (t : Nat) :
    countOf (setTemp s i t) j = countOf s j := by
  unfold countOf setTemp
  simp only [getD_modify]
  split <;> rfl

theorem tempOf_setTemp (s : St) (i j : Nat) (t : Nat) :
    tempOf (setTemp s i t) j = if j = i ∧ i < s.ns.size then t else tempOf s j := by
  unfold tempOf setTemp
  simp only [getD_modify]
  split <;> rfl

theorem tempOf_setTemp_self (s : St) (i : Nat) (t : Nat) (h : i < s.ns.size) :
    tempOf (setTemp s i t) i = t := by
  rw [tempOf_setTemp]; simp [h]

theorem tempOf_setTemp_ne (s : St) (i j : Nat) (t : Nat) (h : j ≠ i) :
    tempOf (setTemp s i t) j = tempOf s j := by
  rw [tempOf_setTemp]; simp [h]


/-! ### parents -/

theorem getD_eq (nodes : List NType) (q : Nat) (h : q < nodes.length) :
    nodes.getD q .tru = nodes[q] := by
  simp [List.getD_eq_getElem?_getD, h]

theorem mem_parentsOf (nodes : List NType) (j q : Nat) :
    q ∈ parentsOf nodes j ↔ ∃ h : q < nodes.length, j ∈ children nodes[q] := by
  unfold parentsOf
  rw [List.mem_filter, List.mem_range, List.contains_iff_mem]
  constructor
  · rintro ⟨h, hc⟩
    rw [getD_eq nodes q h] at hc
    exact ⟨h, hc⟩
  · rintro ⟨h, hc⟩
    rw [getD_eq nodes q h]
    exact ⟨h, hc⟩

def UpClosed (nodes : List NType) (Q : Nat → Prop) : Prop :=
  ∀ j q, Q j → q ∈ parentsOf nodes j → Q q

/-! ### what the marking phase may change (no assumption on the array) -/

/-- `s'` extends `s`: only markers are set and `md` grows; everything new lies in `Q` (and is
recorded in `md`) or is a start node of `X` (whose `temp` may have been changed) -/
structure Ext (Q : Nat → Prop) (X : List Nat) (s s' : St) : Prop where
  size : s'.ns.size = s.ns.size
  count : ∀ j, countOf s' j = countOf s j
  temp : ∀ j, j ∉ X → tempOf s' j = tempOf s j
  mono : ∀ j, markerOf s j = true → markerOf s' j = true
  mdmono : ∀ j, j ∈ s.md → j ∈ s'.md
  newQ : ∀ j, markerOf s' j = true → markerOf s j = true ∨ j ∈ X ∨ (Q j ∧ j ∈ s'.md)
  mdQ : ∀ j, j ∈ s'.md → j ∈ s.md ∨ Q j

theorem Ext.refl (Q : Nat → Prop) (X : List Nat) (s : St) : Ext Q X s s :=
  ⟨rfl, fun _ => rfl, fun _ _ => rfl, fun _ h => h, fun _ h => h, fun _ h => Or.inl h,
    fun _ h => Or.inl h⟩

theorem Ext.trans {Q : Nat → Prop} {X : List Nat} {s s' s'' : St} (h1 : Ext Q X s s')
    (h2 : Ext Q X s' s'') : Ext Q X s s'' where
  size := h2.size.trans h1.size
  count j := (h2.count j).trans (h1.count j)
  temp j hj := (h2.temp j hj).trans (h1.temp j hj)
  mono j h := h2.mono j (h1.mono j h)
  mdmono j h := h2.mdmono j (h1.mdmono j h)
  newQ j h := by
    rcases h2.newQ j h with h | h | ⟨hq, hm⟩
    · rcases h1.newQ j h with h | h | ⟨hq, hm⟩
      · exact Or.inl h
      · exact Or.inr (Or.inl h)
      · exact Or.inr (Or.inr ⟨hq, h2.mdmono j hm⟩)
    · exact Or.inr (Or.inl h)
    · exact Or.inr (Or.inr ⟨hq, hm⟩)
  mdQ j h := by
    rcases h2.mdQ j h with h | h
    · exact h1.mdQ j h
    · exact Or.inr h

theorem fold_ext (Q : Nat → Prop) (X : List Nat) (F : St → Nat → St)
    (hF : ∀ s q, Q q → Ext Q X s (F s q)) :
    ∀ (ps : List Nat) (s : St), (∀ q ∈ ps, Q q) →
      Ext Q X s (ps.foldl (fun s p => if markerOf s p then s else F s p) s) := by
  intro ps
  induction ps with
  | nil => intro s _; exact Ext.refl Q X s
  | cons q rest ih =>
    intro s hq
    rw [List.foldl_cons]
    refine Ext.trans ?_ (ih _ (fun x hx => hq x (List.mem_cons_of_mem _ hx)))
    by_cases hm : markerOf s q = true
    · rw [if_pos hm]; exact Ext.refl Q X s
    · rw [if_neg hm]; exact hF s q (hq q (List.mem_cons_self ..))

theorem markNodes_succ (nodes : List NType) (f : Nat) (s : St) (p : Nat) :
    markNodes nodes (f + 1) s p
      = (parentsOf nodes p).foldl
          (fun s q => if markerOf s q then s else markNodes nodes f s q)
          { setMarker s p true with md := (setMarker s p true).md ++ [p] } := rfl

theorem push_ext (Q : Nat → Prop) (X : List Nat) (s : St) (p : Nat) (hp : Q p) :
    Ext Q X s { setMarker s p true with md := (setMarker s p true).md ++ [p] } where
  size := by simp
  count j := by
    show countOf (setMarker s p true) j = countOf s j
    simp
  temp j _ := by
    show tempOf (setMarker s p true) j = tempOf s j
    simp
  mono j h := by
    show markerOf (setMarker s p true) j = true
    rw [markerOf_setMarker]; split <;> simp [h]
  mdmono j h := by
    show j ∈ s.md ++ [p]
    exact List.mem_append_left _ h
  newQ j h := by
    have h' : markerOf (setMarker s p true) j = true := h
    rw [markerOf_setMarker] at h'
    by_cases hc : j = p ∧ p < s.ns.size
    · refine Or.inr (Or.inr ⟨hc.1 ▸ hp, ?_⟩)
      show j ∈ s.md ++ [p]
      simp [hc.1]
    · rw [if_neg hc] at h'; exact Or.inl h'
  mdQ j h := by
    have h' : j ∈ s.md ++ [p] := h
    rcases List.mem_append.mp h' with h' | h'
    · exact Or.inl h'
    · rw [List.mem_singleton] at h'; exact Or.inr (h' ▸ hp)

theorem markNodes_ext (nodes : List NType) (Q : Nat → Prop) (X : List Nat)
    (hQ : UpClosed nodes Q) :
    ∀ (f : Nat) (s : St) (p : Nat), Q p → Ext Q X s (markNodes nodes f s p) := by
  intro f
  induction f with
  | zero => intro s p _; exact Ext.refl Q X s
  | succ f ih =>
    intro s p hp
    rw [markNodes_succ]
    exact (push_ext Q X s p hp).trans
      (fold_ext Q X (markNodes nodes f) (fun s q hq => ih s q hq) _ _
        (fun q hq => hQ p q hp hq))

theorem setMarker_ext (Q : Nat → Prop) (X : List Nat) (s : St) (i : Nat) (hi : i ∈ X) :
    Ext Q X s (setMarker s i true) where
  size := by simp
  count j := by simp
  temp j _ := by simp
  mono j h := by rw [markerOf_setMarker]; split <;> simp [h]
  mdmono j h := h
  newQ j h := by
    rw [markerOf_setMarker] at h
    by_cases hc : j = i ∧ i < s.ns.size
    · exact Or.inr (Or.inl (hc.1 ▸ hi))
    · rw [if_neg hc] at h; exact Or.inl h
  mdQ j h := Or.inl h

theorem setTemp_ext (Q : Nat → Prop) (X : List Nat) (s : St) (i t : Nat) (hi : i ∈ X) :
    Ext Q X s (setTemp s i t) where
  size := by simp
  count j := by simp
  temp j hj := tempOf_setTemp_ne s i j t (fun h => hj (h ▸ hi))
  mono j h := by simpa using h
  mdmono j h := h
  newQ j h := Or.inl (by simpa using h)
  mdQ j h := Or.inl h

theorem markNodesStart_eq (nodes : List NType) (s : St) (i : Nat) :
    markNodesStart nodes s i
      = (parentsOf nodes i).foldl
          (fun s q => if markerOf s q then s else markNodes nodes nodes.length s q)
          (setMarker s i true) := rfl

theorem markNodesStart_ext' (nodes : List NType) (Q : Nat → Prop) (X : List Nat)
    (hQ : UpClosed nodes Q) (s : St) (i : Nat) (hpar : ∀ q ∈ parentsOf nodes i, Q q) :
    Ext Q X (setMarker s i true) (markNodesStart nodes s i) := by
  rw [markNodesStart_eq]
  exact fold_ext Q X (markNodes nodes nodes.length)
    (fun s q hq => markNodes_ext nodes Q X hQ _ s q hq) _ _ hpar

theorem markFold_ext (nodes : List NType) (Q : Nat → Prop) (X : List Nat)
    (hQ : UpClosed nodes Q) :
    ∀ (idx : List Nat) (s : St), (∀ i ∈ idx, i ∈ X ∧ ∀ q ∈ parentsOf nodes i, Q q) →
      Ext Q X s (idx.foldl (fun s i => markNodesStart nodes (setTemp s i 0) i) s) := by
  intro idx
  induction idx with
  | nil => intro s _; exact Ext.refl Q X s
  | cons i rest ih =>
    intro s h
    rw [List.foldl_cons]
    obtain ⟨hiX, hip⟩ := h i (List.mem_cons_self ..)
    refine Ext.trans ?_ (ih _ (fun x hx => h x (List.mem_cons_of_mem _ hx)))
    exact ((setTemp_ext Q X s i 0 hiX).trans (setMarker_ext Q X _ i hiX)).trans
      (markNodesStart_ext' nodes Q X hQ _ i hip)


/-! ### completeness of the marking recursion (needs `Topo`: parents have larger indices, the
fuel `nodes.length` suffices) -/

/-- every node that is marked in `s'` but not in `s` has all its parents marked in `s'` -/
def NewClosed (nodes : List NType) (s s' : St) : Prop :=
  ∀ j, markerOf s' j = true → markerOf s j = false → ∀ q ∈ parentsOf nodes j, markerOf s' q = true

theorem NewClosed.refl (nodes : List NType) (s : St) : NewClosed nodes s s := by
  intro j h1 h2; rw [h1] at h2; cases h2

theorem NewClosed.trans {nodes : List NType} {s s' s'' : St} (h1 : NewClosed nodes s s')
    (h2 : NewClosed nodes s' s'') (hmono : ∀ j, markerOf s' j = true → markerOf s'' j = true) :
    NewClosed nodes s s'' := by
  intro j hj hnj q hq
  by_cases hm : markerOf s' j = true
  · exact hmono q (h1 j hm hnj q hq)
  · exact h2 j hj (by simpa using hm) q hq

theorem parent_gt (nodes : List NType) (htopo : Topo nodes) (j q : Nat)
    (h : q ∈ parentsOf nodes j) : j < q ∧ q < nodes.length := by
  obtain ⟨hq, hc⟩ := (mem_parentsOf nodes j q).mp h
  exact ⟨htopo q hq j hc, hq⟩

theorem fold_closed (nodes : List NType) (F : St → Nat → St) (P : Nat → Prop)
    (hext : ∀ s q, Ext (fun _ => True) [] s (F s q))
    (hF : ∀ s q, s.ns.size = nodes.length → P q →
      markerOf (F s q) q = true ∧ NewClosed nodes s (F s q)) :
    ∀ (ps : List Nat) (s : St), s.ns.size = nodes.length → (∀ q ∈ ps, P q) →
      (∀ q ∈ ps, markerOf (ps.foldl (fun s p => if markerOf s p then s else F s p) s) q = true) ∧
      NewClosed nodes s (ps.foldl (fun s p => if markerOf s p then s else F s p) s) := by
  intro ps
  induction ps with
  | nil => intro s _ _; exact ⟨fun q hq => (by cases hq), NewClosed.refl nodes s⟩
  | cons q rest ih =>
    intro s hs hP
    rw [List.foldl_cons]
    have hrestP : ∀ x ∈ rest, P x := fun x hx => hP x (List.mem_cons_of_mem _ hx)
    have hextRest := fun t => fold_ext (fun _ => True) [] F (fun s q _ => hext s q) rest t
      (fun _ _ => trivial)
    by_cases hm : markerOf s q = true
    · rw [if_pos hm]
      obtain ⟨h1, h2⟩ := ih s hs hrestP
      refine ⟨?_, h2⟩
      intro x hx
      rcases List.mem_cons.mp hx with hx | hx
      · subst hx; exact (hextRest s).mono _ hm
      · exact h1 x hx
    · rw [if_neg hm]
      obtain ⟨hq1, hq2⟩ := hF s q hs (hP q (List.mem_cons_self ..))
      have hs' : (F s q).ns.size = nodes.length := (hext s q).size.trans hs
      obtain ⟨h1, h2⟩ := ih (F s q) hs' hrestP
      refine ⟨?_, hq2.trans h2 (hextRest (F s q)).mono⟩
      intro x hx
      rcases List.mem_cons.mp hx with hx | hx
      · subst hx; exact (hextRest (F s x)).mono _ hq1
      · exact h1 x hx

theorem upClosed_true (nodes : List NType) : UpClosed nodes (fun _ => True) :=
  fun _ _ _ _ => trivial

theorem markNodes_closed (nodes : List NType) (htopo : Topo nodes) :
    ∀ (f : Nat) (s : St) (p : Nat), s.ns.size = nodes.length → p < nodes.length →
      nodes.length ≤ f + p →
      markerOf (markNodes nodes f s p) p = true ∧ NewClosed nodes s (markNodes nodes f s p) := by
  intro f
  induction f with
  | zero => intro s p _ hp hf; omega
  | succ f ih =>
    intro s p hs hp hf
    rw [markNodes_succ]
    have hs1 : ({ setMarker s p true with md := (setMarker s p true).md ++ [p] } : St).ns.size
        = nodes.length := by simpa using hs
    have hfold := fold_closed nodes (markNodes nodes f) (fun q => p < q ∧ q < nodes.length)
      (fun s q => markNodes_ext nodes _ [] (upClosed_true nodes) f s q trivial)
      (fun t q ht hq => ih t q ht hq.2 (by omega))
      (parentsOf nodes p) _ hs1 (fun q hq => parent_gt nodes htopo p q hq)
    have hext := fold_ext (fun _ => True) [] (markNodes nodes f)
      (fun s q _ => markNodes_ext nodes _ [] (upClosed_true nodes) f s q trivial)
      (parentsOf nodes p) { setMarker s p true with md := (setMarker s p true).md ++ [p] }
      (fun _ _ => trivial)
    have hp1 : markerOf ({ setMarker s p true with md := (setMarker s p true).md ++ [p] } : St) p
        = true := markerOf_setMarker_self s p true (by omega)
    refine ⟨hext.mono p hp1, ?_⟩
    intro j hj hnj q hq
    by_cases hjp : j = p
    · subst hjp; exact hfold.1 q hq
    · refine hfold.2 j hj ?_ q hq
      show markerOf (setMarker s p true) j = false
      rw [markerOf_setMarker_ne s p j true hjp]; exact hnj

theorem markNodesStart_closed (nodes : List NType) (htopo : Topo nodes) (s : St) (i : Nat)
    (hs : s.ns.size = nodes.length) (hi : i < nodes.length) :
    markerOf (markNodesStart nodes s i) i = true ∧ NewClosed nodes s (markNodesStart nodes s i) := by
  have hs1 : (setMarker s i true).ns.size = nodes.length := by simpa using hs
  have hfold := fold_closed nodes (markNodes nodes nodes.length)
    (fun q => i < q ∧ q < nodes.length)
    (fun s q => markNodes_ext nodes _ [] (upClosed_true nodes) _ s q trivial)
    (fun t q ht hq => markNodes_closed nodes htopo _ t q ht hq.2 (by omega))
    (parentsOf nodes i) _ hs1 (fun q hq => parent_gt nodes htopo i q hq)
  have hext := markNodesStart_ext' nodes (fun _ => True) [] (upClosed_true nodes) s i
    (fun _ _ => trivial)
  rw [markNodesStart_eq] at hext ⊢
  refine ⟨hext.mono i (markerOf_setMarker_self s i true (by omega)), ?_⟩
  intro j hj hnj q hq
  by_cases hji : j = i
  · subst hji; exact hfold.1 q hq
  · refine hfold.2 j hj ?_ q hq
    rw [markerOf_setMarker_ne s i j true hji]; exact hnj

/-- every marked node has all its parents marked -/
def Closed (nodes : List NType) (s : St) : Prop :=
  ∀ j, markerOf s j = true → ∀ q ∈ parentsOf nodes j, markerOf s q = true

theorem markFold_closed (nodes : List NType) (htopo : Topo nodes) :
    ∀ (idx : List Nat) (s : St), s.ns.size = nodes.length → Closed nodes s →
      (∀ i ∈ idx, i < nodes.length) →
      Closed nodes (idx.foldl (fun s i => markNodesStart nodes (setTemp s i 0) i) s) ∧
      ∀ i ∈ idx,
        tempOf (idx.foldl (fun s i => markNodesStart nodes (setTemp s i 0) i) s) i = 0 ∧
        markerOf (idx.foldl (fun s i => markNodesStart nodes (setTemp s i 0) i) s) i = true := by
  intro idx
  induction idx with
  | nil => intro s _ hc _; exact ⟨hc, fun i hi => (by cases hi)⟩
  | cons i rest ih =>
    intro s hs hc hidx
    rw [List.foldl_cons]
    have hi := hidx i (List.mem_cons_self ..)
    have hs0 : (setTemp s i 0).ns.size = nodes.length := by simpa using hs
    obtain ⟨hm, hnc⟩ := markNodesStart_closed nodes htopo (setTemp s i 0) i hs0 hi
    have hext1 := markNodesStart_ext' nodes (fun _ => True) [] (upClosed_true nodes)
      (setTemp s i 0) i (fun _ _ => trivial)
    have hext0 := setMarker_ext (fun _ => True) [i] (setTemp s i 0) i (List.mem_singleton.mpr rfl)
    have hs1 : (markNodesStart nodes (setTemp s i 0) i).ns.size = nodes.length := by
      rw [hext1.size]; simpa using hs
    have hc1 : Closed nodes (markNodesStart nodes (setTemp s i 0) i) := by
      intro j hj q hq
      by_cases hsj : markerOf s j = true
      · have := hc j hsj q hq
        exact hext1.mono q (hext0.mono q (by simpa using this))
      · exact hnc j hj (by simpa using hsj) q hq
    obtain ⟨h1, h2⟩ := ih _ hs1 hc1 (fun x hx => hidx x (List.mem_cons_of_mem _ hx))
    refine ⟨h1, ?_⟩
    intro x hx
    by_cases hxr : x ∈ rest
    · exact h2 x hxr
    · have hxi : x = i := by
        rcases List.mem_cons.mp hx with h | h
        · exact h
        · exact absurd h hxr
      subst hxi
      have hrest := markFold_ext nodes (fun _ => True) rest (upClosed_true nodes) rest
        (markNodesStart nodes (setTemp s x 0) x) (fun i hi => ⟨hi, fun _ _ => trivial⟩)
      refine ⟨?_, hrest.mono x hm⟩
      rw [hrest.temp x hxr, hext1.temp x (by simp), tempOf_setMarker,
        tempOf_setTemp_self s x 0 (by omega)]


/-! ### insertion sort -/

theorem mem_insertNat (x j : Nat) (ys : List Nat) : j ∈ insertNat x ys ↔ j = x ∨ j ∈ ys := by
  induction ys with
  | nil => simp [insertNat]
  | cons y ys ih =>
    unfold insertNat
    by_cases h : x ≤ y
    · rw [if_pos h]; simp
    · rw [if_neg h, List.mem_cons, ih, List.mem_cons]
      constructor
      · rintro (h | h | h)
        · exact Or.inr (Or.inl h)
        · exact Or.inl h
        · exact Or.inr (Or.inr h)
      · rintro (h | h | h)
        · exact Or.inr (Or.inl h)
        · exact Or.inl h
        · exact Or.inr (Or.inr h)

theorem mem_sortNat (j : Nat) (xs : List Nat) : j ∈ sortNat xs ↔ j ∈ xs := by
  induction xs with
  | nil => simp [sortNat]
  | cons x xs ih =>
    show j ∈ insertNat x (sortNat xs) ↔ _
    rw [mem_insertNat, ih, List.mem_cons]

theorem pairwise_insertNat (x : Nat) (ys : List Nat) (h : ys.Pairwise (· ≤ ·)) :
    (insertNat x ys).Pairwise (· ≤ ·) := by
  induction ys with
  | nil => simp [insertNat]
  | cons y ys ih =>
    rw [List.pairwise_cons] at h
    unfold insertNat
    by_cases hxy : x ≤ y
    · rw [if_pos hxy, List.pairwise_cons]
      refine ⟨?_, List.pairwise_cons.mpr h⟩
      intro a ha
      rcases List.mem_cons.mp ha with ha | ha
      · omega
      · have := h.1 a ha; omega
    · rw [if_neg hxy, List.pairwise_cons]
      refine ⟨?_, ih h.2⟩
      intro a ha
      rcases (mem_insertNat x a ys).mp ha with ha | ha
      · omega
      · exact h.1 a ha

theorem pairwise_sortNat (xs : List Nat) : (sortNat xs).Pairwise (· ≤ ·) := by
  induction xs with
  | nil => simp [sortNat]
  | cons x xs ih => exact pairwise_insertNat x _ ih

/-! ### the pure marker pass at a node of a topologically ordered array -/

/-- the entry of node `i` in the pure marker pass of `Model/Query.lean` -/
def mk (nodes : List NType) (negs : List Int) (i : Nat) : MK :=
  val ⟨0, false, 0⟩ (fMarker negs) nodes i

theorem foldl_congr_mem {α} (l : List Nat) (f g : α → Nat → α) (a : α)
    (h : ∀ acc, ∀ c ∈ l, f acc c = g acc c) : l.foldl f a = l.foldl g a := by
  induction l generalizing a with
  | nil => rfl
  | cons c l ih =>
    rw [List.foldl_cons, List.foldl_cons, h a c (List.mem_cons_self ..)]
    exact ih _ (fun acc x hx => h acc x (List.mem_cons_of_mem _ hx))

theorem fMarker_congr (negs : List Int) (nd : NType) (g g' : Nat → MK)
    (h : ∀ c ∈ children nd, g c = g' c) : fMarker negs nd g = fMarker negs nd g' := by
  cases nd with
  | lit l => rfl
  | tru => rfl
  | fls => rfl
  | and cs =>
    have h' : ∀ c ∈ cs, g c = g' c := h
    have e1 : (cs.map fun c => (g c).count) = cs.map fun c => (g' c).count :=
      List.map_congr_left (fun c hc => by rw [h' c hc])
    have e2 : (cs.filter fun c => (g c).marked) = cs.filter fun c => (g' c).marked :=
      List.filter_congr (fun c hc => by rw [h' c hc])
    have e3 : (cs.map fun c => (g c).sel) = cs.map fun c => (g' c).sel :=
      List.map_congr_left (fun c hc => by rw [h' c hc])
    have e4 : ∀ a, (cs.filter fun c => (g' c).marked).foldl (divStep g) a
        = (cs.filter fun c => (g' c).marked).foldl (divStep g') a := by
      intro a
      apply foldl_congr_mem
      intro acc c hc
      have hc' : c ∈ cs := (List.mem_filter.mp hc).1
      unfold divStep
      rw [h' c hc']
    simp only [fMarker, e1, e2, e3, e4]
  | or cs =>
    have h' : ∀ c ∈ cs, g c = g' c := h
    have e1 : (cs.map fun c => (g c).count) = cs.map fun c => (g' c).count :=
      List.map_congr_left (fun c hc => by rw [h' c hc])
    have e2 : (cs.filter fun c => (g c).marked) = cs.filter fun c => (g' c).marked :=
      List.filter_congr (fun c hc => by rw [h' c hc])
    have e3 : (cs.map fun c => (g c).sel) = cs.map fun c => (g' c).sel :=
      List.map_congr_left (fun c hc => by rw [h' c hc])
    simp only [fMarker, e1, e2, e3]

theorem mk_eq (nodes : List NType) (htopo : Topo nodes) (negs : List Int) (i : Nat)
    (hi : i < nodes.length) : mk nodes negs i = fMarker negs nodes[i] (mk nodes negs) := by
  unfold mk
  rw [val_eq _ _ nodes i hi]
  apply fMarker_congr
  intro c hc
  simp [htopo i hi c hc]

theorem mk_of_ge (nodes : List NType) (negs : List Int) (i : Nat) (hi : nodes.length ≤ i) :
    mk nodes negs i = ⟨0, false, 0⟩ := val_of_ge _ _ nodes i hi

theorem mk_lt_of_marked (nodes : List NType) (negs : List Int) (i : Nat)
    (h : (mk nodes negs i).marked = true) : i < nodes.length := by
  by_cases hi : i < nodes.length
  · exact hi
  · rw [mk_of_ge nodes negs i (by omega)] at h; cases h

theorem fMarker_and (negs : List Int) (cs : List Nat) (g : Nat → MK) :
    (fMarker negs (.and cs) g).count = prodNat (cs.map fun c => (g c).count) ∧
    (fMarker negs (.and cs) g).marked = cs.any (fun c => (g c).marked) := by
  have hany : cs.any (fun c => (g c).marked) = !(cs.filter fun c => (g c).marked).isEmpty := by
    induction cs with
    | nil => rfl
    | cons c cs ih =>
      by_cases hc : (g c).marked = true
      · simp [hc]
      · simp [hc, ih]
  rw [hany]
  simp only [fMarker]
  by_cases he : (cs.filter fun c => (g c).marked).isEmpty = true
  · simp [he]
  · rw [if_neg he]
    have he' : (cs.filter fun c => (g c).marked).isEmpty = false := by simpa using he
    rw [he']
    split <;> exact ⟨rfl, rfl⟩

theorem fMarker_or (negs : List Int) (cs : List Nat) (g : Nat → MK) :
    (fMarker negs (.or cs) g).count = sumNat (cs.map fun c => (g c).count) ∧
    (fMarker negs (.or cs) g).marked = cs.any (fun c => (g c).marked) := by
  have hany : cs.any (fun c => (g c).marked) = !(cs.filter fun c => (g c).marked).isEmpty := by
    induction cs with
    | nil => rfl
    | cons c cs ih =>
      by_cases hc : (g c).marked = true
      · simp [hc]
      · simp [hc, ih]
  rw [hany]
  simp only [fMarker]
  by_cases he : (cs.filter fun c => (g c).marked).isEmpty = true
  · simp [he]
  · rw [if_neg he]
    have he' : (cs.filter fun c => (g c).marked).isEmpty = false := by simpa using he
    rw [he']
    exact ⟨rfl, rfl⟩

theorem mk_count (nodes : List NType) (negs : List Int) (i : Nat) :
    (mk nodes negs i).count = count nodes i := by
  unfold mk count
  refine table_rel (fun (m : MK) (a : Nat) => m.count = a) ⟨0, false, 0⟩ 0 (fMarker negs) fCount rfl
    ?_ nodes i
  intro nd gm ga h
  cases nd with
  | lit l =>
    show (if negs.contains l then (⟨1, true, 0⟩ : MK) else ⟨1, false, 1⟩).count = 1
    split <;> rfl
  | tru => rfl
  | fls => rfl
  | and cs =>
    rw [(fMarker_and negs cs gm).1]
    show _ = prodNat (cs.map ga)
    congr 1
    exact List.map_congr_left (fun c _ => h c)
  | or cs =>
    rw [(fMarker_or negs cs gm).1]
    show _ = sumNat (cs.map ga)
    congr 1
    exact List.map_congr_left (fun c _ => h c)

/-- a marked node passes the mark on to its parents (which are and/or nodes) -/
theorem mk_parent (nodes : List NType) (htopo : Topo nodes) (negs : List Int) (j q : Nat)
    (hj : (mk nodes negs j).marked = true) (hq : q ∈ parentsOf nodes j) :
    ∃ h : q < nodes.length, (mk nodes negs q).marked = true ∧ ∀ l, nodes[q] ≠ .lit l := by
  obtain ⟨h, hc⟩ := (mem_parentsOf nodes j q).mp hq
  refine ⟨h, ?_⟩
  rw [mk_eq nodes htopo negs q h]
  cases hnd : nodes[q] with
  | lit l => rw [hnd] at hc; cases hc
  | tru => rw [hnd] at hc; cases hc
  | fls => rw [hnd] at hc; cases hc
  | and cs =>
    rw [hnd] at hc
    refine ⟨?_, fun l => by simp⟩
    rw [(fMarker_and negs cs _).2, List.any_eq_true]
    exact ⟨j, hc, hj⟩
  | or cs =>
    rw [hnd] at hc
    refine ⟨?_, fun l => by simp⟩
    rw [(fMarker_or negs cs _).2, List.any_eq_true]
    exact ⟨j, hc, hj⟩


/-! ### evaluation of the marked nodes in ascending order -/

/-- the markers of the state are the marks of the pure pass and the counts are the cached ones -/
structure Good (nodes : List NType) (negs : List Int) (s : St) : Prop where
  size : s.ns.size = nodes.length
  mark : ∀ c, markerOf s c = (mk nodes negs c).marked
  cnt : ∀ c, c < nodes.length → countOf s c = count nodes c

theorem calcMarked_correct (nodes : List NType) (htopo : Topo nodes) (negs : List Int) (s : St)
    (hg : Good nodes negs s) (i : Nat) (hi : i < nodes.length)
    (hm : (mk nodes negs i).marked = true) (hnl : ∀ l, nodes[i] ≠ .lit l)
    (htemp : ∀ c ∈ children nodes[i], (mk nodes negs c).marked = true →
      tempOf s c = (mk nodes negs c).temp) :
    calcMarked nodes s i = setTemp s i (mk nodes negs i).temp := by
  have hM := mk_eq nodes htopo negs i hi
  have hmkf : markerOf s = fun c => (mk nodes negs c).marked := funext hg.mark
  have hsel : ∀ c ∈ children nodes[i],
      (if markerOf s c then tempOf s c else countOf s c) = (mk nodes negs c).sel := by
    intro c hc
    have hci : c < i := htopo i hi c hc
    unfold MK.sel
    rw [hg.mark c]
    by_cases hmc : (mk nodes negs c).marked = true
    · rw [if_pos hmc, if_pos hmc]; exact htemp c hc hmc
    · rw [if_neg hmc, if_neg hmc, hg.cnt c (by omega), mk_count]
  unfold calcMarked
  rw [getD_eq nodes i hi]
  cases hnd : nodes[i] with
  | lit l => exact absurd hnd (hnl l)
  | tru => rw [hM, hnd] at hm; cases hm
  | fls => rw [hM, hnd] at hm; cases hm
  | and cs =>
    rw [hnd] at hM hsel htemp
    have hany := (fMarker_and negs cs (mk nodes negs)).2
    have hcnt := (fMarker_and negs cs (mk nodes negs)).1
    rw [← hM] at hany hcnt
    have he : (cs.filter fun c => (mk nodes negs c).marked).isEmpty = false := by
      rw [hm] at hany
      rw [List.isEmpty_eq_false_iff]
      intro hnil
      obtain ⟨c, hc, hcm⟩ := List.any_eq_true.mp hany.symm
      have : c ∈ cs.filter fun c => (mk nodes negs c).marked := List.mem_filter.mpr ⟨hc, hcm⟩
      rw [hnil] at this; cases this
    show setTemp s i _ = _
    congr 1
    rw [hmkf]
    have e1 : (cs.map fun c => if (mk nodes negs c).marked then tempOf s c else countOf s c)
        = cs.map fun c => (mk nodes negs c).sel := by
      apply List.map_congr_left
      intro c hc
      have := hsel c hc
      rw [hg.mark c] at this
      exact this
    have e2 : (cs.filter fun c => (mk nodes negs c).marked).foldl
          (fun acc c => (if countOf s c != 0 then acc / countOf s c else acc) * tempOf s c)
          (countOf s i)
        = (cs.filter fun c => (mk nodes negs c).marked).foldl (divStep (mk nodes negs))
          (prodNat (cs.map fun c => (mk nodes negs c).count)) := by
      rw [hg.cnt i hi, ← mk_count nodes negs i, hcnt]
      apply foldl_congr_mem
      intro acc c hc
      obtain ⟨hc1, hc2⟩ := List.mem_filter.mp hc
      have hci : c < i := htopo i hi c (by rw [hnd]; exact hc1)
      unfold divStep
      rw [hg.cnt c (by omega), ← mk_count nodes negs c, htemp c hc1 hc2]
    rw [e1, e2, hM]
    simp only [fMarker, he, Bool.false_eq_true, if_false]
    split <;> rfl
  | or cs =>
    rw [hnd] at hM hsel htemp
    have hany := (fMarker_or negs cs (mk nodes negs)).2
    rw [← hM] at hany
    have he : (cs.filter fun c => (mk nodes negs c).marked).isEmpty = false := by
      rw [hm] at hany
      rw [List.isEmpty_eq_false_iff]
      intro hnil
      obtain ⟨c, hc, hcm⟩ := List.any_eq_true.mp hany.symm
      have : c ∈ cs.filter fun c => (mk nodes negs c).marked := List.mem_filter.mpr ⟨hc, hcm⟩
      rw [hnil] at this; cases this
    show setTemp s i _ = _
    congr 1
    rw [hmkf]
    have e1 : (cs.map fun c => if (mk nodes negs c).marked then tempOf s c else countOf s c)
        = cs.map fun c => (mk nodes negs c).sel := by
      apply List.map_congr_left
      intro c hc
      have := hsel c hc
      rw [hg.mark c] at this
      exact this
    rw [e1, hM]
    simp only [fMarker, he, Bool.false_eq_true, if_false]

theorem Good.setTemp {nodes : List NType} {negs : List Int} {s : St} (h : Good nodes negs s)
    (i t : Nat) : Good nodes negs (setTemp s i t) :=
  ⟨by simpa using h.size, fun c => by simpa using h.mark c, fun c hc => by simpa using h.cnt c hc⟩

/-- the node selected by `Q`: a marked inner node of the pure pass -/
def QM (nodes : List NType) (negs : List Int) (j : Nat) : Prop :=
  ∃ h : j < nodes.length, (mk nodes negs j).marked = true ∧ ∀ l, nodes[j] ≠ .lit l

theorem eval_fold (nodes : List NType) (htopo : Topo nodes) (negs : List Int) :
    ∀ (L : List Nat) (s : St), L.Pairwise (· ≤ ·) → (∀ j ∈ L, QM nodes negs j) →
      Good nodes negs s →
      (∀ c, (mk nodes negs c).marked = true → c ∉ L → tempOf s c = (mk nodes negs c).temp) →
      Good nodes negs (L.foldl (calcMarked nodes) s) ∧
      (L.foldl (calcMarked nodes) s).md = s.md ∧
      ∀ c, (mk nodes negs c).marked = true →
        tempOf (L.foldl (calcMarked nodes) s) c = (mk nodes negs c).temp := by
  intro L
  induction L with
  | nil =>
    intro s _ _ hg ht
    exact ⟨hg, rfl, fun c hc => ht c hc (by simp)⟩
  | cons i L ih =>
    intro s hsort hQ hg ht
    rw [List.foldl_cons]
    rw [List.pairwise_cons] at hsort
    obtain ⟨hi, hmi, hnl⟩ := hQ i (List.mem_cons_self ..)
    have hstep : calcMarked nodes s i = setTemp s i (mk nodes negs i).temp := by
      apply calcMarked_correct nodes htopo negs s hg i hi hmi hnl
      intro c hc hcm
      have hci : c < i := htopo i hi c hc
      apply ht c hcm
      intro hmem
      rcases List.mem_cons.mp hmem with h | h
      · omega
      · have := hsort.1 c h; omega
    rw [hstep]
    obtain ⟨h1, h2, h3⟩ := ih (setTemp s i (mk nodes negs i).temp) hsort.2
      (fun j hj => hQ j (List.mem_cons_of_mem _ hj)) (hg.setTemp _ _) (by
        intro c hcm hcL
        by_cases hci : c = i
        · subst hci; exact tempOf_setTemp_self s c _ (by rw [hg.size]; exact hi)
        · rw [tempOf_setTemp_ne s i c _ hci]
          apply ht c hcm
          intro hmem
          rcases List.mem_cons.mp hmem with h | h
          · exact hci h
          · exact hcL h)
    exact ⟨h1, by rw [h2]; rfl, h3⟩


/-! ### `mark_assumptions` and the reset -/

theorem markAssumptions_eq (nodes : List NType) (s : St) (idx : List Nat) :
    markAssumptions nodes s idx
      = { idx.foldl (fun s i => markNodesStart nodes (setTemp s i 0) i) s with
          md := sortNat (idx.foldl (fun s i => markNodesStart nodes (setTemp s i 0) i) s).md } :=
  rfl

theorem sort_ext (Q : Nat → Prop) (X : List Nat) (s : St) :
    Ext Q X s { s with md := sortNat s.md } where
  size := rfl
  count _ := rfl
  temp _ _ := rfl
  mono _ h := h
  mdmono j h := (mem_sortNat j s.md).mpr h
  newQ _ h := Or.inl h
  mdQ j h := Or.inl ((mem_sortNat j s.md).mp h)

theorem markAssumptions_ext (nodes : List NType) (Q : Nat → Prop) (X : List Nat)
    (hQ : UpClosed nodes Q) (idx : List Nat) (s : St)
    (h : ∀ i ∈ idx, i ∈ X ∧ ∀ q ∈ parentsOf nodes i, Q q) :
    Ext Q X s (markAssumptions nodes s idx) := by
  rw [markAssumptions_eq]
  exact (markFold_ext nodes Q X hQ idx s h).trans (sort_ext Q X _)

theorem clear_fold (L : List Nat) :
    ∀ s : St,
      (L.foldl (fun s i => setMarker s i false) s).ns.size = s.ns.size ∧
      (L.foldl (fun s i => setMarker s i false) s).md = s.md ∧
      (∀ j, countOf (L.foldl (fun s i => setMarker s i false) s) j = countOf s j) ∧
      (∀ j, markerOf (L.foldl (fun s i => setMarker s i false) s) j
        = if j ∈ L then false else markerOf s j) := by
  induction L with
  | nil => intro s; simp
  | cons i L ih =>
    intro s
    rw [List.foldl_cons]
    obtain ⟨h1, h2, h3, h4⟩ := ih (setMarker s i false)
    refine ⟨by rw [h1]; simp, by rw [h2]; rfl, fun j => by rw [h3]; simp, ?_⟩
    intro j
    rw [h4, markerOf_setMarker_false]
    by_cases hji : j = i
    · subst hji; simp
    · by_cases hjL : j ∈ L <;> simp [hji, hjL]

theorem calcMarked_frame (nodes : List NType) (s : St) (i : Nat) :
    ∃ t, calcMarked nodes s i = setTemp s i t := by
  unfold calcMarked
  split <;> exact ⟨_, rfl⟩

theorem calc_fold_frame (nodes : List NType) (L : List Nat) :
    ∀ s : St,
      (L.foldl (calcMarked nodes) s).ns.size = s.ns.size ∧
      (L.foldl (calcMarked nodes) s).md = s.md ∧
      (∀ j, countOf (L.foldl (calcMarked nodes) s) j = countOf s j) ∧
      (∀ j, markerOf (L.foldl (calcMarked nodes) s) j = markerOf s j) := by
  induction L with
  | nil => intro s; simp
  | cons i L ih =>
    intro s
    rw [List.foldl_cons]
    obtain ⟨t, ht⟩ := calcMarked_frame nodes s i
    rw [ht]
    obtain ⟨h1, h2, h3, h4⟩ := ih (setTemp s i t)
    exact ⟨by rw [h1]; simp, by rw [h2]; rfl, fun j => by rw [h3]; simp, fun j => by rw [h4]; simp⟩

theorem operateOnMarker_eq (nodes : List NType) (s : St) (idx : List Nat) :
    operateOnMarker nodes s idx
      = ({ idx.foldl (fun s i => setMarker s i false)
            (((markAssumptions nodes s idx).md.foldl (calcMarked nodes)
                (markAssumptions nodes s idx)).md.foldl (fun s i => setMarker s i false)
              ((markAssumptions nodes s idx).md.foldl (calcMarked nodes)
                (markAssumptions nodes s idx))) with md := [] },
         tempOf ((markAssumptions nodes s idx).md.foldl (calcMarked nodes)
           (markAssumptions nodes s idx)) (rootIx nodes)) := rfl

/-- the reset: whatever `indexes` is, `operate_on_marker` leaves a clean state with the cached
counts behind (no assumption on the node array) -/
theorem operateOnMarker_clean (nodes : List NType) (s : St) (hclean : Clean s)
    (hcnt : CountsOK nodes s) (idx : List Nat) :
    Clean (operateOnMarker nodes s idx).1 ∧ CountsOK nodes (operateOnMarker nodes s idx).1 := by
  rw [operateOnMarker_eq]
  have hext := markAssumptions_ext nodes (fun _ => True) idx (upClosed_true nodes) idx s
    (fun i hi => ⟨hi, fun _ _ => trivial⟩)
  obtain ⟨c1, c2, c3, c4⟩ := calc_fold_frame nodes (markAssumptions nodes s idx).md
    (markAssumptions nodes s idx)
  obtain ⟨d1, d2, d3, d4⟩ := clear_fold
    ((markAssumptions nodes s idx).md.foldl (calcMarked nodes) (markAssumptions nodes s idx)).md
    ((markAssumptions nodes s idx).md.foldl (calcMarked nodes) (markAssumptions nodes s idx))
  obtain ⟨e1, e2, e3, e4⟩ := clear_fold idx
    (((markAssumptions nodes s idx).md.foldl (calcMarked nodes)
        (markAssumptions nodes s idx)).md.foldl (fun s i => setMarker s i false)
      ((markAssumptions nodes s idx).md.foldl (calcMarked nodes) (markAssumptions nodes s idx)))
  refine ⟨⟨rfl, ?_⟩, ?_, ?_⟩
  · intro j
    show markerOf (List.foldl (fun s i => setMarker s i false) _ idx) j = false
    rw [e4]
    by_cases hj : j ∈ idx
    · rw [if_pos hj]
    · rw [if_neg hj, d4, c2]
      by_cases hjm : j ∈ (markAssumptions nodes s idx).md
      · rw [if_pos hjm]
      · rw [if_neg hjm, c4]
        cases hmj : markerOf (markAssumptions nodes s idx) j with
        | false => rfl
        | true =>
          rcases hext.newQ j hmj with h | h | h
          · rw [hclean.2 j] at h; cases h
          · exact absurd h hj
          · exact absurd h.2 hjm
  · show (List.foldl (fun s i => setMarker s i false) _ idx).ns.size = nodes.length
    rw [e1, d1, c1, hext.size]; exact hcnt.1
  · intro j hj
    show countOf (List.foldl (fun s i => setMarker s i false) _ idx) j = count nodes j
    rw [e3, d3, c3, hext.count]; exact hcnt.2 j hj


/-! ### the answer of `operate_on_marker` -/

/-- every node but the root has a parent (so the root is an ancestor of every node) -/
def HasParents (nodes : List NType) : Prop :=
  ∀ j, j + 1 < nodes.length → ∃ i, ∃ h : i < nodes.length, j < i ∧ j ∈ children nodes[i]

theorem root_marked (nodes : List NType) (hpar : HasParents nodes) (s : St)
    (hc : Closed nodes s) :
    ∀ (d j : Nat), j + d + 1 = nodes.length → markerOf s j = true →
      markerOf s (rootIx nodes) = true := by
  intro d
  induction d using Nat.strongRecOn with
  | _ d ih =>
    intro j hjd hm
    by_cases hd : d = 0
    · have : j = rootIx nodes := by unfold rootIx; omega
      rw [← this]; exact hm
    · obtain ⟨i, hi, hji, hch⟩ := hpar j (by omega)
      exact ih (nodes.length - 1 - i) (by omega) i (by omega)
        (hc j hm i ((mem_parentsOf nodes j i).mpr ⟨hi, hch⟩))

theorem mk_lit (nodes : List NType) (htopo : Topo nodes) (negs : List Int) (i : Nat)
    (hi : i < nodes.length) (l : Int) (hnd : nodes[i] = .lit l) :
    mk nodes negs i = if negs.contains l then ⟨1, true, 0⟩ else ⟨1, false, 1⟩ := by
  rw [mk_eq nodes htopo negs i hi, hnd]
  rfl

theorem operateOnMarker_result (nodes : List NType) (htopo : Topo nodes)
    (hpar : HasParents nodes) (s : St) (hclean : Clean s) (hcnt : CountsOK nodes s)
    (idx : List Nat) (negs : List Int)
    (hidx : ∀ i ∈ idx, ∃ h : i < nodes.length, ∃ l, nodes[i] = .lit l)
    (hneg : ∀ j (h : j < nodes.length) (l : Int), nodes[j] = .lit l →
      (negs.contains l = true ↔ j ∈ idx))
    (hnonempty : idx ≠ []) :
    (operateOnMarker nodes s idx).2 = markerCount nodes negs := by
  rw [operateOnMarker_eq]
  show tempOf _ (rootIx nodes) = (mk nodes negs (rootIx nodes)).sel
  have hQ : UpClosed nodes (QM nodes negs) := by
    intro j q hj hq
    exact mk_parent nodes htopo negs j q hj.2.1 hq
  have hidxm : ∀ i ∈ idx, (mk nodes negs i).marked = true ∧ (mk nodes negs i).temp = 0 := by
    intro i hi
    obtain ⟨h, l, hl⟩ := hidx i hi
    rw [mk_lit nodes htopo negs i h l hl, if_pos ((hneg i h l hl).mpr hi)]
    exact ⟨rfl, rfl⟩
  have hext := markAssumptions_ext nodes (QM nodes negs) idx hQ idx s
    (fun i hi => ⟨hi, fun q hq => mk_parent nodes htopo negs i q (hidxm i hi).1 hq⟩)
  have hclosed0 : Closed nodes s := by
    intro j hj; rw [hclean.2 j] at hj; cases hj
  obtain ⟨hclosed, hstart⟩ := markFold_closed nodes htopo idx s hcnt.1 hclosed0
    (fun i hi => (hidx i hi).1)
  -- `markAssumptions` only sorts `md` afterwards
  have hclosed' : Closed nodes (markAssumptions nodes s idx) := hclosed
  have hstart' : ∀ i ∈ idx, tempOf (markAssumptions nodes s idx) i = 0 ∧
      markerOf (markAssumptions nodes s idx) i = true := hstart
  have hsound : ∀ c, markerOf (markAssumptions nodes s idx) c = true →
      (mk nodes negs c).marked = true := by
    intro c hc
    rcases hext.newQ c hc with h | h | h
    · rw [hclean.2 c] at h; cases h
    · exact (hidxm c h).1
    · exact h.1.2.1
  have hcomplete : ∀ c, (mk nodes negs c).marked = true →
      markerOf (markAssumptions nodes s idx) c = true := by
    intro c
    induction c using Nat.strongRecOn with
    | _ c ih =>
      intro hm
      have hc := mk_lt_of_marked nodes negs c hm
      have hM := mk_eq nodes htopo negs c hc
      cases hnd : nodes[c] with
      | lit l =>
        rw [mk_lit nodes htopo negs c hc l hnd] at hm
        by_cases hl : negs.contains l = true
        · exact (hstart' c ((hneg c hc l hnd).mp hl)).2
        · rw [if_neg hl] at hm; cases hm
      | tru => rw [hM, hnd] at hm; cases hm
      | fls => rw [hM, hnd] at hm; cases hm
      | and cs =>
        rw [hM, hnd, (fMarker_and negs cs _).2, List.any_eq_true] at hm
        obtain ⟨x, hx, hxm⟩ := hm
        have hxc : x < c := htopo c hc x (by rw [hnd]; exact hx)
        exact hclosed' x (ih x hxc hxm) c
          ((mem_parentsOf nodes x c).mpr ⟨hc, by rw [hnd]; exact hx⟩)
      | or cs =>
        rw [hM, hnd, (fMarker_or negs cs _).2, List.any_eq_true] at hm
        obtain ⟨x, hx, hxm⟩ := hm
        have hxc : x < c := htopo c hc x (by rw [hnd]; exact hx)
        exact hclosed' x (ih x hxc hxm) c
          ((mem_parentsOf nodes x c).mpr ⟨hc, by rw [hnd]; exact hx⟩)
  have hgood : Good nodes negs (markAssumptions nodes s idx) := by
    refine ⟨hext.size.trans hcnt.1, ?_, fun c hc => (hext.count c).trans (hcnt.2 c hc)⟩
    intro c
    cases hm : (mk nodes negs c).marked with
    | true => exact hcomplete c hm
    | false =>
      cases hs : markerOf (markAssumptions nodes s idx) c with
      | false => rfl
      | true => rw [hsound c hs] at hm; cases hm
  obtain ⟨_, _, hres⟩ := eval_fold nodes htopo negs (markAssumptions nodes s idx).md
    (markAssumptions nodes s idx) (pairwise_sortNat _)
    (by
      intro j hj
      rcases hext.mdQ j hj with h | h
      · rw [hclean.1] at h; cases h
      · exact h)
    hgood
    (by
      intro c hcm hcn
      rcases hext.newQ c (hcomplete c hcm) with h | h | h
      · rw [hclean.2 c] at h; cases h
      · rw [(hstart' c h).1, (hidxm c h).2]
      · exact absurd h.2 hcn)
  obtain ⟨i, hi⟩ := List.exists_mem_of_ne_nil idx hnonempty
  have hroot : (mk nodes negs (rootIx nodes)).marked = true := by
    apply hsound
    obtain ⟨hil, _⟩ := hidx i hi
    exact root_marked nodes hpar _ hclosed' (nodes.length - 1 - i) i (by omega) (hstart' i hi).2
  rw [hres _ hroot]
  unfold MK.sel
  rw [if_pos hroot]


/-! ### the default loop: a full recomputation that never reads an old `temp` -/

/-- the body of the loop of `defaultLoop` -/
def dstep (nodes : List NType) (negs : List Int) (s : St) (i : Nat) : St :=
  match nodes.getD i .tru with
  | .lit l => if negs.contains l then setTemp s i 0 else calcPlain nodes s i
  | _ => calcPlain nodes s i

theorem defaultLoop_eq (nodes : List NType) (s : St) (negs : List Int) :
    defaultLoop nodes s negs
      = ((List.range nodes.length).foldl (dstep nodes negs) s,
         tempOf ((List.range nodes.length).foldl (dstep nodes negs) s) (rootIx nodes)) := rfl

theorem dstep_eq (nodes : List NType) (htopo : Topo nodes) (negs : List Int) (s : St) (i : Nat)
    (hi : i < nodes.length) (hprev : ∀ c, c < i → tempOf s c = countA nodes negs c) :
    dstep nodes negs s i = setTemp s i (countA nodes negs i) := by
  have hv : countA nodes negs i
      = fCountA negs nodes[i] (fun j => if j < i then countA nodes negs j else 0) :=
    val_eq 0 (fCountA negs) nodes i hi
  have hmap : ∀ cs, nodes[i] = .and cs ∨ nodes[i] = .or cs →
      cs.map (tempOf s) = cs.map (fun j => if j < i then countA nodes negs j else 0) := by
    intro cs hcs
    apply List.map_congr_left
    intro c hc
    have hci : c < i := htopo i hi c (by rcases hcs with h | h <;> rw [h] <;> exact hc)
    rw [if_pos hci]; exact hprev c hci
  unfold dstep calcPlain
  rw [getD_eq nodes i hi, hv]
  cases hnd : nodes[i] with
  | lit l =>
    show (if negs.contains l = true then setTemp s i 0 else setTemp s i 1)
      = setTemp s i (if negs.contains l = true then 0 else 1)
    split <;> rfl
  | tru => rfl
  | fls => rfl
  | and cs =>
    show setTemp s i (prodNat (cs.map (tempOf s))) = setTemp s i (prodNat (cs.map _))
    rw [hmap cs (Or.inl hnd)]
  | or cs =>
    show setTemp s i (sumNat (cs.map (tempOf s))) = setTemp s i (sumNat (cs.map _))
    rw [hmap cs (Or.inr hnd)]

theorem dloop_spec (nodes : List NType) (htopo : Topo nodes) (negs : List Int) (s : St)
    (hs : s.ns.size = nodes.length) :
    ∀ k, k ≤ nodes.length →
      ((List.range k).foldl (dstep nodes negs) s).ns.size = nodes.length ∧
      ((List.range k).foldl (dstep nodes negs) s).md = s.md ∧
      (∀ j, markerOf ((List.range k).foldl (dstep nodes negs) s) j = markerOf s j) ∧
      (∀ j, countOf ((List.range k).foldl (dstep nodes negs) s) j = countOf s j) ∧
      (∀ j, j < k → tempOf ((List.range k).foldl (dstep nodes negs) s) j = countA nodes negs j) := by
  intro k
  induction k with
  | zero => intro _; exact ⟨hs, rfl, fun _ => rfl, fun _ => rfl, fun j hj => by omega⟩
  | succ k ih =>
    intro hk
    obtain ⟨h1, h2, h3, h4, h5⟩ := ih (by omega)
    rw [List.range_succ, List.foldl_append, List.foldl_cons, List.foldl_nil,
      dstep_eq nodes htopo negs _ k (by omega) h5]
    refine ⟨by simpa using h1, by rw [md_setTemp, h2], fun j => by rw [markerOf_setTemp, h3],
      fun j => by rw [countOf_setTemp, h4], ?_⟩
    intro j hj
    by_cases hjk : j = k
    · subst hjk; exact tempOf_setTemp_self _ _ _ (by omega)
    · rw [tempOf_setTemp_ne _ _ _ _ hjk]; exact h5 j (by omega)

theorem defaultLoop_spec (nodes : List NType) (htopo : Topo nodes) (hne : nodes ≠ [])
    (negs : List Int) (s : St) (hclean : Clean s) (hcnt : CountsOK nodes s) :
    (defaultLoop nodes s negs).2 = countA nodes negs (rootIx nodes) ∧
      Clean (defaultLoop nodes s negs).1 ∧ CountsOK nodes (defaultLoop nodes s negs).1 := by
  rw [defaultLoop_eq]
  obtain ⟨h1, h2, h3, h4, h5⟩ := dloop_spec nodes htopo negs s hcnt.1 nodes.length (Nat.le_refl _)
  have hpos : 0 < nodes.length := List.length_pos_iff.mpr hne
  refine ⟨h5 _ (by unfold rootIx; omega), ⟨h2.trans hclean.1, fun j => (h3 j).trans (hclean.2 j)⟩,
    h1, fun j hj => (h4 j).trans (hcnt.2 j hj)⟩

/-! ### the literal map -/

theorem leafIx_some (nodes : List NType) (l : Int) (i : Nat) (h : leafIx nodes l = some i) :
    ∃ hi : i < nodes.length, nodes[i] = .lit l := by
  unfold leafIx at h
  have hmem := List.mem_of_find?_eq_some h
  have hp := List.find?_some h
  have hi : i < nodes.length := List.mem_range.mp hmem
  rw [getD_eq nodes i hi] at hp
  exact ⟨hi, by simpa using hp⟩

theorem leafIx_none (nodes : List NType) (l : Int) (h : leafIx nodes l = none) :
    hasLit nodes l = false := by
  unfold leafIx at h
  rw [List.find?_eq_none] at h
  cases hh : hasLit nodes l with
  | false => rfl
  | true =>
    obtain ⟨j, hj, he⟩ := (hasLit_iff nodes l).mp hh
    have := h j (List.mem_range.mpr hj)
    rw [getD_eq nodes j hj, he] at this
    simp at this

theorem leafIx_of_lit (nodes : List NType) (hu : LitUnique nodes) (l : Int) (j : Nat)
    (hj : j < nodes.length) (he : nodes[j] = .lit l) : leafIx nodes l = some j := by
  cases h : leafIx nodes l with
  | none =>
    have := leafIx_none nodes l h
    rw [(hasLit_iff nodes l).mpr ⟨j, hj, he⟩] at this
    cases this
  | some i =>
    obtain ⟨hi, hie⟩ := leafIx_some nodes l i h
    rw [hu i j hi hj l hie he]

theorem opposing_cons (nodes : List NType) (f : Int) (B : List Int) :
    opposing nodes (f :: B)
      = match leafIx nodes (-f) with
        | some i => i :: opposing nodes B
        | none => opposing nodes B := by
  unfold opposing
  rw [List.filterMap_cons]
  split <;> simp_all

theorem opposing_isEmpty (nodes : List NType) (B : List Int) :
    (opposing nodes B).isEmpty = ((B.map (fun f => -f)).filter (hasLit nodes)).isEmpty := by
  induction B with
  | nil => rfl
  | cons f B ih =>
    rw [opposing_cons, List.map_cons, List.filter_cons]
    cases h : leafIx nodes (-f) with
    | none =>
      rw [leafIx_none nodes (-f) h]
      simpa using ih
    | some i =>
      obtain ⟨hi, hie⟩ := leafIx_some nodes (-f) i h
      rw [(hasLit_iff nodes (-f)).mpr ⟨i, hi, hie⟩]
      rfl

theorem opposing_lit (nodes : List NType) (B : List Int) :
    ∀ i ∈ opposing nodes B, ∃ h : i < nodes.length, ∃ l, nodes[i] = .lit l := by
  intro i hi
  unfold opposing at hi
  obtain ⟨f, _, hf⟩ := List.mem_filterMap.mp hi
  obtain ⟨h, he⟩ := leafIx_some nodes (-f) i hf
  exact ⟨h, -f, he⟩

theorem opposing_negs (nodes : List NType) (hu : LitUnique nodes) (B : List Int) (j : Nat)
    (h : j < nodes.length) (l : Int) (he : nodes[j] = .lit l) :
    (((B.map (fun f => -f)).filter (hasLit nodes)).contains l = true ↔ j ∈ opposing nodes B) := by
  rw [List.contains_iff_mem, List.mem_filter, List.mem_map]
  unfold opposing
  rw [List.mem_filterMap]
  constructor
  · rintro ⟨⟨f, hf, rfl⟩, _⟩
    exact ⟨f, hf, leafIx_of_lit nodes hu (-f) j h he⟩
  · rintro ⟨f, hf, hl⟩
    obtain ⟨_, he'⟩ := leafIx_some nodes (-f) j hl
    have hlf : l = -f := by
      rw [he] at he'
      injection he'
    subst hlf
    exact ⟨⟨f, hf, rfl⟩, (hasLit_iff nodes (-f)).mpr ⟨j, h, he⟩⟩

/-! ### `execute_query` on the state -/

theorem execQuerySt_single (nodes : List NType) (n : Nat) (s : St) (f : Int) :
    execQuerySt nodes n s [f]
      = if (coreOf nodes n).contains f then (s, count nodes (rootIx nodes))
        else if (coreOf nodes n).contains (-f) then (s, 0)
        else match leafIx nodes (-f) with
          | some i => operateOnMarker nodes s [i]
          | none => (s, count nodes (rootIx nodes)) := rfl

theorem execQuerySt_many (nodes : List NType) (n : Nat) (s : St) (f g : Int) (t : List Int) :
    execQuerySt nodes n s (f :: g :: t)
      = if (f :: g :: t).any (fun f => (coreOf nodes n).contains (-f)) then (s, 0)
        else if (f :: g :: t).length ≤ 20 then
          if (opposing nodes ((f :: g :: t).filter (fun f => !(coreOf nodes n).contains f))).isEmpty
          then (s, count nodes (rootIx nodes))
          else operateOnMarker nodes s
            (opposing nodes ((f :: g :: t).filter (fun f => !(coreOf nodes n).contains f)))
        else defaultLoop nodes s
          (((f :: g :: t).filter (fun f => !(coreOf nodes n).contains f)).map (fun f => -f)) := rfl

theorem execQuery_single (nodes : List NType) (n : Nat) (f : Int) :
    execQuery nodes n [f]
      = if (coreOf nodes n).contains f then count nodes (rootIx nodes)
        else if (coreOf nodes n).contains (-f) then 0
        else if hasLit nodes (-f) then markerCount nodes [-f] else count nodes (rootIx nodes) := rfl

theorem execQuery_many (nodes : List NType) (n : Nat) (f g : Int) (t : List Int) :
    execQuery nodes n (f :: g :: t)
      = if (f :: g :: t).any (fun f => (coreOf nodes n).contains (-f)) then 0
        else if (f :: g :: t).length ≤ 20 then
          if (((f :: g :: t).filter (fun f => !(coreOf nodes n).contains f)).map
              (fun f => -f)).filter (hasLit nodes) |>.isEmpty
          then count nodes (rootIx nodes)
          else markerCount nodes
            ((((f :: g :: t).filter (fun f => !(coreOf nodes n).contains f)).map
              (fun f => -f)).filter (hasLit nodes))
        else countA nodes
          (((f :: g :: t).filter (fun f => !(coreOf nodes n).contains f)).map (fun f => -f))
          (rootIx nodes) := rfl

/-- The stateful `execute_query` answers like the pure model and restores the invariant, whatever
the `temp` fields of the state contain.  `hpar` (every node but the root has a parent) is needed:
`operate_on_marker` returns the root's `temp` even when the marking never reached the root. -/
theorem execQuerySt_spec (nodes : List NType) (n : Nat) (htopo : Topo nodes) (hne : nodes ≠ [])
    (hu : LitUnique nodes) (hpar : HasParents nodes)
    (s : St) (hclean : Clean s) (hcnt : CountsOK nodes s) (A : List Int) :
    (execQuerySt nodes n s A).2 = execQuery nodes n A ∧
      Clean (execQuerySt nodes n s A).1 ∧ CountsOK nodes (execQuerySt nodes n s A).1 := by
  match A with
  | [] => exact ⟨rfl, hclean, hcnt⟩
  | [f] =>
    rw [execQuerySt_single, execQuery_single]
    by_cases h1 : (coreOf nodes n).contains f = true
    · rw [if_pos h1, if_pos h1]; exact ⟨rfl, hclean, hcnt⟩
    · rw [if_neg h1, if_neg h1]
      by_cases h2 : (coreOf nodes n).contains (-f) = true
      · rw [if_pos h2, if_pos h2]; exact ⟨rfl, hclean, hcnt⟩
      · rw [if_neg h2, if_neg h2]
        cases hl : leafIx nodes (-f) with
        | none =>
          rw [leafIx_none nodes (-f) hl]
          exact ⟨rfl, hclean, hcnt⟩
        | some i =>
          obtain ⟨hi, hie⟩ := leafIx_some nodes (-f) i hl
          rw [(hasLit_iff nodes (-f)).mpr ⟨i, hi, hie⟩, if_pos rfl]
          refine ⟨?_, operateOnMarker_clean nodes s hclean hcnt [i]⟩
          apply operateOnMarker_result nodes htopo hpar s hclean hcnt [i] [-f]
          · intro x hx
            rw [List.mem_singleton] at hx
            subst hx
            exact ⟨hi, -f, hie⟩
          · intro j hj l he
            rw [List.contains_iff_mem, List.mem_singleton, List.mem_singleton]
            constructor
            · intro hlf
              subst hlf
              exact hu j i hj hi _ he hie
            · intro hji
              subst hji
              rw [he] at hie
              injection hie
          · simp
  | f :: g :: t =>
    rw [execQuerySt_many, execQuery_many]
    by_cases h1 : (f :: g :: t).any (fun f => (coreOf nodes n).contains (-f)) = true
    · rw [if_pos h1, if_pos h1]; exact ⟨rfl, hclean, hcnt⟩
    · rw [if_neg h1, if_neg h1]
      by_cases h2 : (f :: g :: t).length ≤ 20
      · rw [if_pos h2, if_pos h2, ← opposing_isEmpty]
        by_cases h3 : (opposing nodes
            ((f :: g :: t).filter (fun f => !(coreOf nodes n).contains f))).isEmpty = true
        · rw [if_pos h3, if_pos h3]; exact ⟨rfl, hclean, hcnt⟩
        · rw [if_neg h3, if_neg h3]
          refine ⟨?_, operateOnMarker_clean nodes s hclean hcnt _⟩
          apply operateOnMarker_result nodes htopo hpar s hclean hcnt
          · exact opposing_lit nodes _
          · exact opposing_negs nodes hu _
          · intro hnil
            rw [hnil] at h3
            exact h3 rfl
      · rw [if_neg h2, if_neg h2]
        exact defaultLoop_spec nodes htopo hne _ s hclean hcnt


/-- `HasParents` cannot be dropped: a dangling leaf `-1` (no path to the root) whose feature lies
outside `1..n` is not shielded by the core dispatch; the marking never reaches the root and
`operate_on_marker` returns the root's stale `temp` (here 42), the pure model the root count. -/
example :
    (execQuerySt [.lit (-1), .tru] 0 (initSt [.lit (-1), .tru] (fun _ => 42)) [1]).2 = 42 ∧
      execQuery [.lit (-1), .tru] 0 [1] = 1 := by decide

/-! ### histories of requests -/

theorem initSt_getD (nodes : List NType) (tmp : Nat → Nat) (i : Nat) :
    (initSt nodes tmp).ns.getD i default
      = if i < nodes.length then ⟨count nodes i, tmp i, false⟩ else default := by
  unfold initSt
  by_cases hi : i < nodes.length
  · simp [Array.getD_eq_getD_getElem?, hi]
  · simp [Array.getD_eq_getD_getElem?, hi]

theorem initSt_clean (nodes : List NType) (tmp : Nat → Nat) : Clean (initSt nodes tmp) := by
  refine ⟨rfl, fun i => ?_⟩
  unfold markerOf
  rw [initSt_getD]
  split <;> rfl

theorem initSt_countsOK (nodes : List NType) (tmp : Nat → Nat) :
    CountsOK nodes (initSt nodes tmp) := by
  refine ⟨by simp [initSt], fun i hi => ?_⟩
  unfold countOf
  rw [initSt_getD, if_pos hi]

/-- run a list of counting requests on the persistent state -/
def runSt (nodes : List NType) (n : Nat) : St → List (List Int) → St × List Nat
  | s, [] => (s, [])
  | s, A :: rest =>
    let (s', r) := execQuerySt nodes n s A
    let (s'', rs) := runSt nodes n s' rest
    (s'', r :: rs)

theorem runSt_cons (nodes : List NType) (n : Nat) (s : St) (A : List Int)
    (rest : List (List Int)) :
    runSt nodes n s (A :: rest)
      = ((runSt nodes n (execQuerySt nodes n s A).1 rest).1,
         (execQuerySt nodes n s A).2 :: (runSt nodes n (execQuerySt nodes n s A).1 rest).2) := rfl

theorem runSt_spec (nodes : List NType) (n : Nat) (htopo : Topo nodes) (hne : nodes ≠ [])
    (hu : LitUnique nodes) (hpar : HasParents nodes) (reqs : List (List Int)) :
    ∀ s : St, Clean s → CountsOK nodes s →
      (runSt nodes n s reqs).2 = reqs.map (execQuery nodes n) ∧
      Clean (runSt nodes n s reqs).1 ∧ CountsOK nodes (runSt nodes n s reqs).1 := by
  induction reqs with
  | nil => intro s hc hk; exact ⟨rfl, hc, hk⟩
  | cons A rest ih =>
    intro s hc hk
    obtain ⟨h1, h2, h3⟩ := execQuerySt_spec nodes n htopo hne hu hpar s hc hk A
    obtain ⟨i1, i2, i3⟩ := ih _ h2 h3
    rw [runSt_cons]
    exact ⟨by rw [List.map_cons, ← h1, ← i1], i2, i3⟩

/-- the answers of a sequence of requests do not depend on what the state contained before
(`tmp`: arbitrary initial `temp` fields) nor on what earlier requests left behind: every answer is
the answer of the pure model -/
theorem history_independent (nodes : List NType) (n : Nat) (htopo : Topo nodes) (hne : nodes ≠ [])
    (hu : LitUnique nodes) (hpar : HasParents nodes) (tmp : Nat → Nat) (reqs : List (List Int)) :
    (runSt nodes n (initSt nodes tmp) reqs).2 = reqs.map (execQuery nodes n) :=
  (runSt_spec nodes n htopo hne hu hpar reqs _ (initSt_clean nodes tmp)
    (initSt_countsOK nodes tmp)).1

end Ddnnf.MS
