/-
  Saving in c2d format and lexing the saved file again (`Model/Persist.lean`):
  the lexer reads back every written node up to `normalizeNode` (an and/or node without children is
  written as the constant it denotes), `parseFile (writeFile nodes n)` gives `n` and the normalised
  nodes, and normalisation changes neither a pass that does not distinguish `and []` from `tru` and
  `or []` from `fls` (eval, count, models, vars) nor well-formedness.
-/
import DdnnfVerif.Model.Persist
import DdnnfVerif.Proofs.Table

namespace Ddnnf

/-! ### writer / lexer round trip -/

theorem tkNat?_natTk (k : Nat) : tkNat? (natTk k) = some k := by
  simp [tkNat?, natTk]

theorem allNats_map_natTk (cs : List Nat) : allNats (cs.map natTk) = some cs := by
  unfold allNats
  induction cs with
  | nil => rfl
  | cons c cs ih =>
    rw [List.map_cons, List.mapM_cons, ih, tkNat?_natTk]
    rfl

theorem lexNode_writeNode (nd : NType) : lexNode (writeNode nd) = some (normalizeNode nd) := by
  cases nd with
  | and cs =>
    cases cs with
    | nil => rfl
    | cons c cs =>
      have h : writeNode (.and (c :: cs))
          = .kw "A" :: .num ((cs.length + 1 : Nat) : Int) :: (c :: cs).map natTk := rfl
      rw [h, lexNode.eq_3, allNats_map_natTk]
      · rfl
      · intro t
        injection t with t
        omega
  | or cs =>
    cases cs with
    | nil => rfl
    | cons c cs =>
      have h : writeNode (.or (c :: cs))
          = .kw "O" :: .num ((0 : Nat) : Int) :: .num ((cs.length + 1 : Nat) : Int)
              :: (c :: cs).map natTk := rfl
      rw [h, lexNode.eq_4, allNats_map_natTk]
      · rfl
      · intro _ t
        injection t with t
        omega
  | lit l => rfl
  | tru => rfl
  | fls => rfl

theorem mapM_lexNode_writeNode (nodes : List NType) :
    (nodes.map writeNode).mapM lexNode = some (nodes.map normalizeNode) := by
  induction nodes with
  | nil => rfl
  | cons nd rest ih =>
    rw [List.map_cons, List.mapM_cons, ih, lexNode_writeNode]
    rfl

theorem parse_write (nodes : List NType) (n : Nat) :
    parseFile (writeFile nodes n) = some (n, nodes.map normalizeNode) := by
  unfold writeFile parseFile
  simp only [tkNat?_natTk, mapM_lexNode_writeNode]

/-! ### normalisation does not change a pass that reads `and []` as `tru` and `or []` as `fls` -/

theorem tableAux_map_normalize {α} (d : α) (f : NType → (Nat → α) → α)
    (hf : ∀ nd g, f (normalizeNode nd) g = f nd g) (nodes : List NType) (acc : Array α) :
    tableAux d f acc (nodes.map normalizeNode) = tableAux d f acc nodes := by
  induction nodes generalizing acc with
  | nil => rfl
  | cons nd rest ih => simp only [List.map_cons, tableAux, hf, ih]

/-- a pass that does not distinguish `and []` from `tru` and `or []` from `fls` is unaffected by
normalisation -/
theorem val_map_normalize {α} (d : α) (f : NType → (Nat → α) → α)
    (hf : ∀ nd g, f (normalizeNode nd) g = f nd g) (nodes : List NType) (i : Nat) :
    val d f (nodes.map normalizeNode) i = val d f nodes i := by
  unfold val table
  rw [tableAux_map_normalize d f hf]

theorem normalizeNode_cases (nd : NType) :
    (nd = .and [] ∧ normalizeNode nd = .tru) ∨ (nd = .or [] ∧ normalizeNode nd = .fls)
      ∨ normalizeNode nd = nd := by
  cases nd with
  | and cs => cases cs with
    | nil => exact Or.inl ⟨rfl, rfl⟩
    | cons c cs => exact Or.inr (Or.inr rfl)
  | or cs => cases cs with
    | nil => exact Or.inr (Or.inl ⟨rfl, rfl⟩)
    | cons c cs => exact Or.inr (Or.inr rfl)
  | lit l => exact Or.inr (Or.inr rfl)
  | tru => exact Or.inr (Or.inr rfl)
  | fls => exact Or.inr (Or.inr rfl)

theorem fEval_normalize (σ : Assignment) (nd : NType) (g : Nat → Bool) :
    fEval σ (normalizeNode nd) g = fEval σ nd g := by
  rcases normalizeNode_cases nd with ⟨rfl, h⟩ | ⟨rfl, h⟩ | h <;> rw [h] <;> rfl

theorem fCount_normalize (nd : NType) (g : Nat → Nat) :
    fCount (normalizeNode nd) g = fCount nd g := by
  rcases normalizeNode_cases nd with ⟨rfl, h⟩ | ⟨rfl, h⟩ | h <;> rw [h] <;> rfl

theorem fModels_normalize (nd : NType) (g : Nat → List Config) :
    fModels (normalizeNode nd) g = fModels nd g := by
  rcases normalizeNode_cases nd with ⟨rfl, h⟩ | ⟨rfl, h⟩ | h <;> rw [h] <;> rfl

theorem fVars_normalize (cnt : Nat → Nat) (nd : NType) (g : Nat → List Nat) :
    fVars cnt (normalizeNode nd) g = fVars cnt nd g := by
  rcases normalizeNode_cases nd with ⟨rfl, h⟩ | ⟨rfl, h⟩ | h <;> rw [h] <;> rfl

theorem eval_normalize (σ : Assignment) (nodes : List NType) (i : Nat) :
    eval σ (nodes.map normalizeNode) i = eval σ nodes i :=
  val_map_normalize false (fEval σ) (fEval_normalize σ) nodes i

theorem count_normalize (nodes : List NType) (i : Nat) :
    count (nodes.map normalizeNode) i = count nodes i :=
  val_map_normalize 0 fCount fCount_normalize nodes i

theorem models_normalize (nodes : List NType) (i : Nat) :
    models (nodes.map normalizeNode) i = models nodes i :=
  val_map_normalize [] fModels fModels_normalize nodes i

theorem vars_normalize (nodes : List NType) (i : Nat) :
    vars (nodes.map normalizeNode) i = vars nodes i := by
  unfold vars
  have hc : count (nodes.map normalizeNode) = count nodes := funext (count_normalize nodes)
  rw [hc]
  exact val_map_normalize [] (fVars (count nodes)) (fVars_normalize (count nodes)) nodes i

theorem rootIx_map_normalize (nodes : List NType) :
    rootIx (nodes.map normalizeNode) = rootIx nodes := by
  simp [rootIx]

/-! ### normalisation preserves well-formedness -/

theorem children_normalize (nd : NType) : children (normalizeNode nd) = children nd := by
  rcases normalizeNode_cases nd with ⟨rfl, h⟩ | ⟨rfl, h⟩ | h <;> rw [h] <;> rfl

theorem normalize_eq_and (nd : NType) (cs : List Nat) (h : normalizeNode nd = .and cs) :
    nd = .and cs := by
  rcases normalizeNode_cases nd with ⟨rfl, h'⟩ | ⟨rfl, h'⟩ | h' <;> rw [h'] at h
  · cases h
  · cases h
  · exact h

theorem normalize_eq_or (nd : NType) (cs : List Nat) (h : normalizeNode nd = .or cs) :
    nd = .or cs := by
  rcases normalizeNode_cases nd with ⟨rfl, h'⟩ | ⟨rfl, h'⟩ | h' <;> rw [h'] at h
  · cases h
  · cases h
  · exact h

theorem normalize_eq_lit (nd : NType) (l : Int) (h : normalizeNode nd = .lit l) :
    nd = .lit l := by
  rcases normalizeNode_cases nd with ⟨rfl, h'⟩ | ⟨rfl, h'⟩ | h' <;> rw [h'] at h
  · cases h
  · cases h
  · exact h

theorem WF_normalize (nodes : List NType) (n : Nat) (h : WF nodes n) :
    WF (nodes.map normalizeNode) n := by
  have hlen : (nodes.map normalizeNode).length = nodes.length := List.length_map _
  have hget : ∀ i (hi : i < (nodes.map normalizeNode).length),
      (nodes.map normalizeNode)[i] = normalizeNode (nodes[i]'(hlen ▸ hi)) := by
    intro i hi
    exact List.getElem_map _
  have hv : vars (nodes.map normalizeNode) = vars nodes := funext (vars_normalize nodes)
  have hc : count (nodes.map normalizeNode) = count nodes := funext (count_normalize nodes)
  refine ⟨?_, ?_, ?_, ?_, ?_, ?_, ?_⟩
  · intro he
    exact h.nonempty (List.map_eq_nil_iff.mp he)
  · intro i hi c hcm
    rw [hget i hi, children_normalize] at hcm
    exact h.topo i (hlen ▸ hi) c hcm
  · intro i hi l he
    rw [hget i hi] at he
    exact h.litnz i (hlen ▸ hi) l (normalize_eq_lit _ _ he)
  · intro i hi cs he
    rw [hget i hi] at he
    rw [hv]
    exact h.decomposable i (hlen ▸ hi) cs (normalize_eq_and _ _ he)
  · intro i hi cs he c hcm hcnt
    rw [hget i hi] at he
    rw [hv]
    rw [hc] at hcnt
    exact h.smooth i (hlen ▸ hi) cs (normalize_eq_or _ _ he) c hcm hcnt
  · intro i hi cs he σ
    rw [hget i hi] at he
    have he' : (fun c => eval σ (nodes.map normalizeNode) c) = fun c => eval σ nodes c :=
      funext (eval_normalize σ nodes)
    rw [he']
    exact h.deterministic i (hlen ▸ hi) cs (normalize_eq_or _ _ he) σ
  · unfold RootComplete
    rw [hv, rootIx_map_normalize]
    exact h.rootComplete

end Ddnnf
