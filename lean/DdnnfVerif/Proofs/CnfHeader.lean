/-
  CNF export, part 4: the functional specification of the node literals (`nodeLit_def`) and the
  derivation of `FeaturesOccur` (every feature occurs in some biconditional) from
  `RootComplete` — so for well-formed circuits the header theorem needs no extra hypothesis
  (`cnf_header_wf`).
-/
import DdnnfVerif.Proofs.CnfRoot

namespace Ddnnf

theorem transformOp_fst (n : Nat) (isAnd : Bool) (lits : List Int) (st : TState)
    (hc : TCore n st) :
    (∃ l, lits = [l] ∧ (transformOp isAnd lits st).1 = l)
    ∨ (∃ b ∈ (transformOp isAnd lits st).2.biconds, (b.isAnd, b.lits) = (isAnd, lits)
        ∧ (transformOp isAnd lits st).1 = (b.index : Int)) := by
  unfold transformOp
  split
  · rename_i l
    exact Or.inl ⟨l, rfl, rfl⟩
  · split
    · rename_i e he
      have hmem : e ∈ st.cache := List.mem_of_find?_eq_some he
      have hkey : (e.1 == (isAnd, lits)) = true := by
        have := List.find?_some he
        simpa using this
      rw [hc.cache_eq, List.mem_map] at hmem
      obtain ⟨b, hb, rfl⟩ := hmem
      refine Or.inr ⟨b, List.mem_reverse.mp hb, ?_, rfl⟩
      simpa [toEntry] using hkey
    · exact Or.inr ⟨⟨st.next, isAnd, lits⟩, List.mem_append_right _ (List.mem_singleton.mpr rfl),
        rfl, rfl⟩

theorem stepRes_fst (n : Nat) (st : TState) (nd : NType) (hc : TCore n st) :
    (∀ l, nd = .lit l → (stepRes st nd).1 = l)
    ∧ (∀ op, nodeOp st.nodeLits nd = some op →
        (∃ l, op.2 = [l] ∧ (stepRes st nd).1 = l)
        ∨ (∃ b ∈ (stepRes st nd).2.biconds, (b.isAnd, b.lits) = op
            ∧ (stepRes st nd).1 = (b.index : Int))) := by
  cases nd with
  | and cs =>
    refine ⟨fun l h => (by cases h), fun op hop => ?_⟩
    simp only [nodeOp, Option.some.injEq] at hop
    subst hop
    exact transformOp_fst n true _ st hc
  | or cs =>
    refine ⟨fun l h => (by cases h), fun op hop => ?_⟩
    simp only [nodeOp, Option.some.injEq] at hop
    subst hop
    exact transformOp_fst n false _ st hc
  | lit l =>
    refine ⟨fun l' h => (by cases h; rfl), fun op hop => ?_⟩
    simp [nodeOp] at hop
  | tru =>
    refine ⟨fun l h => (by cases h), fun op hop => ?_⟩
    simp only [nodeOp, Option.some.injEq] at hop
    subst hop
    exact transformOp_fst n true _ st hc
  | fls =>
    refine ⟨fun l h => (by cases h), fun op hop => ?_⟩
    simp only [nodeOp, Option.some.injEq] at hop
    subst hop
    exact transformOp_fst n false _ st hc

theorem stepRes_biconds_mono (st : TState) (nd : NType) (b : Bicond) (hb : b ∈ st.biconds) :
    b ∈ (stepRes st nd).2.biconds := by
  rcases stepRes_biconds st nd with h | ⟨_, _, h⟩
  · rw [h]; exact hb
  · rw [h]; exact List.mem_append_left _ hb

theorem tseitin_take_succ_biconds (nodes : List NType) (n k : Nat) (hk : k < nodes.length) :
    (tseitin (nodes.take (k + 1)) n).biconds
      = (stepRes (tseitin (nodes.take k) n) nodes[k]).2.biconds := by
  rw [tseitin_take_succ nodes n k hk, tseitinStep_eq]

/-- what the literal of node `i` is, in terms of the final node literals: a literal leaf is its
literal, an operation over exactly one literal is that literal, any other operation is the index
of a biconditional for exactly this operation -/
theorem nodeLit_def_take (nodes : List NType) (n : Nat) (htopo : Topo nodes)
    (hrange : LitRange nodes n) (k : Nat) (hk : k ≤ nodes.length) :
    ∀ i (hi : i < nodes.length), i < k →
      (∀ l, nodes[i] = .lit l → (tseitin nodes n).nodeLits.getD i 0 = l)
      ∧ (∀ op, nodeOp (tseitin nodes n).nodeLits nodes[i] = some op →
          (∃ l, op.2 = [l] ∧ (tseitin nodes n).nodeLits.getD i 0 = l)
          ∨ (∃ b ∈ (tseitin (nodes.take k) n).biconds, (b.isAnd, b.lits) = op
              ∧ (tseitin nodes n).nodeLits.getD i 0 = (b.index : Int))) := by
  induction k with
  | zero => intro i _ h; omega
  | succ k ih =>
    intro i hi hik
    by_cases hlt : i < k
    · obtain ⟨h1, h2⟩ := ih (by omega) i hi hlt
      refine ⟨h1, fun op hop => ?_⟩
      rcases h2 op hop with h | ⟨b, hb, hbo, hbi⟩
      · exact Or.inl h
      · refine Or.inr ⟨b, ?_, hbo, hbi⟩
        rw [tseitin_take_succ_biconds nodes n k (by omega)]
        exact stepRes_biconds_mono _ _ b hb
    · have hik' : i = k := by omega
      subst hik'
      have hinv := tseitin_inv_take nodes n htopo hrange i (by omega)
      have hL : (tseitin nodes n).nodeLits.getD i 0
          = (stepRes (tseitin (nodes.take i) n) nodes[i]).1 := by
        rw [nodeLits_final nodes n htopo hrange (i + 1) (by omega) i (by omega),
          tseitin_take_succ nodes n i hi, tseitinStep_nodeLits]
        have hget : ∀ (A : Array Int) (x : Int), A.size = i → (A.push x).getD i 0 = x := by
          intro A x hA; rw [← hA]; exact getD_push_eq A x 0
        exact hget _ _ hinv.size
      obtain ⟨h1, h2⟩ := stepRes_fst n (tseitin (nodes.take i) n) nodes[i] hinv.toTCore
      rw [hL, tseitin_take_succ_biconds nodes n i hi]
      refine ⟨h1, fun op hop => h2 op ?_⟩
      rw [nodeOp_final nodes n htopo hrange i (by omega) i hi (Nat.le_refl _)]
      exact hop

theorem nodeLit_def (nodes : List NType) (n : Nat) (htopo : Topo nodes)
    (hrange : LitRange nodes n) (i : Nat) (hi : i < nodes.length) :
    (∀ l, nodes[i] = .lit l → (tseitin nodes n).nodeLits.getD i 0 = l)
    ∧ (∀ op, nodeOp (tseitin nodes n).nodeLits nodes[i] = some op →
        (∃ l, op.2 = [l] ∧ (tseitin nodes n).nodeLits.getD i 0 = l)
        ∨ (∃ b ∈ (tseitin nodes n).biconds, (b.isAnd, b.lits) = op
            ∧ (tseitin nodes n).nodeLits.getD i 0 = (b.index : Int))) := by
  have := nodeLit_def_take nodes n htopo hrange nodes.length (Nat.le_refl _) i hi hi
  rwa [List.take_length] at this

/-- a variable that "occurs at" a child (as the child's literal or in a biconditional) occurs at
the parent -/
theorem occurs_parent (nodes : List NType) (n : Nat) (htopo : Topo nodes)
    (hrange : LitRange nodes n) (i : Nat) (hi : i < nodes.length) (c v : Nat)
    (hc : c ∈ children nodes[i])
    (h : ((tseitin nodes n).nodeLits.getD c 0).natAbs = v
      ∨ ∃ b ∈ (tseitin nodes n).biconds, ∃ l ∈ b.lits, l.natAbs = v) :
    ((tseitin nodes n).nodeLits.getD i 0).natAbs = v
      ∨ ∃ b ∈ (tseitin nodes n).biconds, ∃ l ∈ b.lits, l.natAbs = v := by
  rcases h with h | h
  · obtain ⟨_, h2⟩ := nodeLit_def nodes n htopo hrange i hi
    have key : ∀ (isAnd : Bool) (cs : List Nat), c ∈ cs →
        nodeOp (tseitin nodes n).nodeLits nodes[i]
          = some (isAnd, cs.map (fun c => (tseitin nodes n).nodeLits.getD c 0)) →
        ((tseitin nodes n).nodeLits.getD i 0).natAbs = v
          ∨ ∃ b ∈ (tseitin nodes n).biconds, ∃ l ∈ b.lits, l.natAbs = v := by
      intro isAnd cs hcs hop
      have hmem : (tseitin nodes n).nodeLits.getD c 0
          ∈ cs.map (fun c => (tseitin nodes n).nodeLits.getD c 0) :=
        List.mem_map.mpr ⟨c, hcs, rfl⟩
      rcases h2 _ hop with ⟨l, hl, hli⟩ | ⟨b, hb, hbo, _⟩
      · left
        simp only at hl
        rw [hl, List.mem_singleton] at hmem
        rw [hli, ← hmem, h]
      · right
        have hbl : b.lits = cs.map (fun c => (tseitin nodes n).nodeLits.getD c 0) := by
          have := congrArg Prod.snd hbo
          exact this
        exact ⟨b, hb, _, hbl ▸ hmem, h⟩
    cases hnd : nodes[i] with
    | and cs => rw [hnd] at hc; exact key true cs hc (by rw [hnd]; rfl)
    | or cs => rw [hnd] at hc; exact key false cs hc (by rw [hnd]; rfl)
    | lit l => rw [hnd] at hc; cases hc
    | tru => rw [hnd] at hc; cases hc
    | fls => rw [hnd] at hc; cases hc
  · exact Or.inr h

/-- every variable of node `i` is the variable of its literal or occurs in some biconditional -/
theorem vars_occur (nodes : List NType) (n : Nat) (htopo : Topo nodes)
    (hrange : LitRange nodes n) (i : Nat) (hi : i < nodes.length) :
    ∀ v ∈ vars nodes i, ((tseitin nodes n).nodeLits.getD i 0).natAbs = v
      ∨ ∃ b ∈ (tseitin nodes n).biconds, ∃ l ∈ b.lits, l.natAbs = v := by
  induction i using Nat.strongRecOn with
  | _ i ih =>
    have hv : vars nodes i
        = fVars (count nodes) nodes[i] (fun j => if j < i then vars nodes j else []) :=
      val_eq [] (fVars (count nodes)) nodes i hi
    have hlt : ∀ x ∈ children nodes[i], x < i := htopo i hi
    have step : ∀ c ∈ children nodes[i], ∀ v,
        v ∈ (fun j => if j < i then vars nodes j else []) c →
        ((tseitin nodes n).nodeLits.getD i 0).natAbs = v
          ∨ ∃ b ∈ (tseitin nodes n).biconds, ∃ l ∈ b.lits, l.natAbs = v := by
      intro c hc v hvc
      have hci := hlt c hc
      simp only [hci, if_true] at hvc
      exact occurs_parent nodes n htopo hrange i hi c v hc (ih c hci (by omega) v hvc)
    intro v hvi
    rw [hv] at hvi
    cases hnd : nodes[i] with
    | and cs =>
      rw [hnd] at hvi step
      change v ∈ (cs.map _).flatten at hvi
      rw [List.mem_flatten] at hvi
      obtain ⟨L, hL, hvL⟩ := hvi
      obtain ⟨c, hc, rfl⟩ := List.mem_map.mp hL
      exact step c hc v hvL
    | or cs =>
      rw [hnd] at hvi step
      simp only [fVars] at hvi
      split at hvi
      · cases hvi
      · rename_i c rest hf
        have hc : c ∈ cs := by
          have : c ∈ cs.filter (fun c => count nodes c != 0) := by rw [hf]; exact List.mem_cons_self ..
          exact (List.mem_filter.mp this).1
        exact step c hc v hvi
    | lit l =>
      rw [hnd] at hvi
      change v ∈ [l.natAbs] at hvi
      rw [List.mem_singleton] at hvi
      left
      rw [(nodeLit_def nodes n htopo hrange i hi).1 l hnd, hvi]
    | tru => rw [hnd] at hvi; cases hvi
    | fls => rw [hnd] at hvi; cases hvi

/-- for root-complete circuits whose root is represented by the last variable, every feature occurs
in some biconditional -/
theorem featuresOccur_of_rootComplete (nodes : List NType) (n : Nat) (htopo : Topo nodes)
    (hrange : LitRange nodes n) (hrc : RootComplete nodes n)
    (hnew : (tseitin nodes n).next ≠ n + 1)
    (hroot : (tseitin nodes n).nodeLits.getD (rootIx nodes) 0
      = (((tseitin nodes n).next - 1 : Nat) : Int)) : FeaturesOccur nodes n := by
  intro v h1 h2
  have hne := nodes_ne_nil_of_new nodes n hnew
  have hlen : 0 < nodes.length := List.length_pos_iff.mpr hne
  have hmem : v ∈ vars nodes (rootIx nodes) := by
    rw [hrc.mem_iff, List.mem_map]
    exact ⟨v - 1, List.mem_range.mpr (by omega), by omega⟩
  have hn := (tseitin_inv nodes n htopo hrange).next_eq
  rcases vars_occur nodes n htopo hrange (rootIx nodes) (by unfold rootIx; omega) v hmem with h | h
  · rw [hroot, Int.natAbs_natCast] at h
    omega
  · exact h

/-- **C19, header, for well-formed circuits** -/
theorem cnf_header_wf (nodes : List NType) (n : Nat) (hwf : WF nodes n)
    (hrange : LitRange nodes n) (hnew : (tseitin nodes n).next ≠ n + 1)
    (hroot : (tseitin nodes n).nodeLits.getD (rootIx nodes) 0
      = (((tseitin nodes n).next - 1 : Nat) : Int)) :
    (toCnf nodes n).1 = (tseitin nodes n).next - 1
    ∧ (∀ v, 1 ≤ v → v ≤ (tseitin nodes n).next - 1 →
        ∃ c ∈ (toCnf nodes n).2, ∃ l ∈ c, l.natAbs = v)
    ∧ (∀ c ∈ (toCnf nodes n).2, ∀ l ∈ c,
        1 ≤ l.natAbs ∧ l.natAbs ≤ (tseitin nodes n).next - 1) :=
  cnf_header nodes n hwf.topo hrange hnew
    (featuresOccur_of_rootComplete nodes n hwf.topo hrange hwf.rootComplete hnew hroot)

example : (toCnf smallEx 4).1 = 9 :=
  (cnf_header_wf smallEx 4 (wfB_sound _ _ (by decide)) smallEx_litRange smallEx_new smallEx_root).1

/-! ### the hypotheses are needed -/

/-- without `hnew`: a (well-formed) circuit whose root is a literal is exported as the empty CNF
over 0 variables; the all-false assignment satisfies the CNF but not the circuit -/
example : wfB [.lit 1] 1 = true ∧ toCnf [.lit 1] 1 = (0, [])
    ∧ satCnf (fun _ => false) (toCnf [.lit 1] 1).2 = true
    ∧ eval (fun _ => false) [.lit 1] (rootIx [.lit 1]) = false := by decide

/-- without `hroot` (here: the operation of the root is cached and a later, unreachable node
introduced the last variable): `x1 = true, x2 = false` extends to a model of the CNF but is not a
model of the circuit `x1 ∧ x2` -/
example :
    let nodes : List NType := [.lit 1, .lit 2, .and [0, 1], .or [0, 1], .and [0, 1]]
    let τ : Assignment := fun v => v == 1 || v == 4
    topoB nodes = true ∧ litRangeB nodes 2 = true ∧ (tseitin nodes 2).next ≠ 2 + 1
    ∧ rootIsLastVarB nodes 2 = false
    ∧ satCnf τ (toCnf nodes 2).2 = true ∧ eval τ nodes (rootIx nodes) = false := by decide

/-- `bicond_clauses_iff` needs non-zero literals -/
example :
    let τ : Assignment := fun _ => false
    let b : Bicond := ⟨1, true, [0]⟩
    satCnf τ b.clauses = false ∧ τ b.index = b.lits.all (litTrue τ) := by decide

end Ddnnf
