/-
  CNF export, part 3: when is the root represented by the variable introduced last?

  `root_is_last_var`: if the root is an operation node (and / or / true / false) whose list of child
  literals does not have length 1 and no earlier node has the same kind and the same list of child
  literals, then the root introduces a fresh variable, which is the last one: this gives `hnew` and
  `hroot` of `Proofs/CnfExport.lean`.  (The cache can only contain the operation of the root if an
  earlier node has the same operation: `cache_origin`.)

  Also the non-vacuity example on `smallEx`.
-/
import DdnnfVerif.Proofs.CnfExport

namespace Ddnnf

/-- the operation of a node, relative to the literals `L` that represent the nodes -/
def nodeOp (L : Array Int) : NType → Option (Bool × List Int)
  | .and cs => some (true, cs.map (fun c => L.getD c 0))
  | .or cs => some (false, cs.map (fun c => L.getD c 0))
  | .lit _ => none
  | .tru => some (true, [])
  | .fls => some (false, [])

theorem nodeOp_congr (L L' : Array Int) (nd : NType)
    (h : ∀ c ∈ children nd, L.getD c 0 = L'.getD c 0) : nodeOp L nd = nodeOp L' nd := by
  cases nd with
  | and cs =>
    have h' : ∀ c ∈ cs, L.getD c 0 = L'.getD c 0 := h
    simp only [nodeOp]; rw [List.map_congr_left h']
  | or cs =>
    have h' : ∀ c ∈ cs, L.getD c 0 = L'.getD c 0 := h
    simp only [nodeOp]; rw [List.map_congr_left h']
  | lit l => rfl
  | tru => rfl
  | fls => rfl

/-! ### `transformOp` without invariants -/

theorem transformOp_nodeLits (isAnd : Bool) (lits : List Int) (st : TState) :
    (transformOp isAnd lits st).2.nodeLits = st.nodeLits := by
  unfold transformOp
  split
  · rfl
  · split <;> rfl

theorem transformOp_biconds (isAnd : Bool) (lits : List Int) (st : TState) :
    (transformOp isAnd lits st).2.biconds = st.biconds
    ∨ (transformOp isAnd lits st).2.biconds = st.biconds ++ [⟨st.next, isAnd, lits⟩] := by
  unfold transformOp
  split
  · exact Or.inl rfl
  · split
    · exact Or.inl rfl
    · exact Or.inr rfl

theorem transformOp_new (isAnd : Bool) (lits : List Int) (st : TState) (hlen : lits.length ≠ 1)
    (hnone : st.cache.find? (fun e => e.1 == (isAnd, lits)) = none) :
    (transformOp isAnd lits st).1 = (st.next : Int)
    ∧ (transformOp isAnd lits st).2.next = st.next + 1 := by
  unfold transformOp
  split
  · exact absurd rfl hlen
  · rw [hnone]
    exact ⟨rfl, rfl⟩

theorem stepRes_nodeLits (st : TState) (nd : NType) : (stepRes st nd).2.nodeLits = st.nodeLits := by
  cases nd with
  | and cs => exact transformOp_nodeLits ..
  | or cs => exact transformOp_nodeLits ..
  | lit l => rfl
  | tru => exact transformOp_nodeLits ..
  | fls => exact transformOp_nodeLits ..

theorem tseitinStep_nodeLits (st : TState) (nd : NType) :
    (tseitinStep st nd).nodeLits = st.nodeLits.push (stepRes st nd).1 := by
  rw [tseitinStep_eq]
  show (stepRes st nd).2.nodeLits.push _ = _
  rw [stepRes_nodeLits]

theorem stepRes_biconds (st : TState) (nd : NType) :
    (stepRes st nd).2.biconds = st.biconds
    ∨ ∃ op, nodeOp st.nodeLits nd = some op
        ∧ (stepRes st nd).2.biconds = st.biconds ++ [⟨st.next, op.1, op.2⟩] := by
  cases nd with
  | and cs =>
    rcases transformOp_biconds true (cs.map (fun c => st.nodeLits.getD c 0)) st with h | h
    · exact Or.inl h
    · exact Or.inr ⟨_, rfl, h⟩
  | or cs =>
    rcases transformOp_biconds false (cs.map (fun c => st.nodeLits.getD c 0)) st with h | h
    · exact Or.inl h
    · exact Or.inr ⟨_, rfl, h⟩
  | lit l => exact Or.inl rfl
  | tru =>
    rcases transformOp_biconds true [] st with h | h
    · exact Or.inl h
    · exact Or.inr ⟨_, rfl, h⟩
  | fls =>
    rcases transformOp_biconds false [] st with h | h
    · exact Or.inl h
    · exact Or.inr ⟨_, rfl, h⟩

theorem stepRes_new (st : TState) (nd : NType) (op : Bool × List Int)
    (hop : nodeOp st.nodeLits nd = some op) (hlen : op.2.length ≠ 1)
    (hnone : st.cache.find? (fun e => e.1 == op) = none) :
    (stepRes st nd).1 = (st.next : Int) ∧ (stepRes st nd).2.next = st.next + 1 := by
  cases nd with
  | and cs =>
    simp only [nodeOp, Option.some.injEq] at hop
    subst hop
    exact transformOp_new true _ st hlen hnone
  | or cs =>
    simp only [nodeOp, Option.some.injEq] at hop
    subst hop
    exact transformOp_new false _ st hlen hnone
  | lit l => simp [nodeOp] at hop
  | tru =>
    simp only [nodeOp, Option.some.injEq] at hop
    subst hop
    exact transformOp_new true _ st hlen hnone
  | fls =>
    simp only [nodeOp, Option.some.injEq] at hop
    subst hop
    exact transformOp_new false _ st hlen hnone

/-! ### node literals never change once computed -/

theorem nodeLits_stable (nodes : List NType) (n : Nat) (htopo : Topo nodes)
    (hrange : LitRange nodes n) (k m : Nat) (hkm : k + m ≤ nodes.length) (i : Nat) (hi : i < k) :
    (tseitin (nodes.take (k + m)) n).nodeLits.getD i 0
      = (tseitin (nodes.take k) n).nodeLits.getD i 0 := by
  induction m with
  | zero => rfl
  | succ m ih =>
    have hsz := (tseitin_inv_take nodes n htopo hrange (k + m) (by omega)).size
    rw [← Nat.add_assoc, tseitin_take_succ nodes n (k + m) (by omega), tseitinStep_nodeLits,
      getD_push_lt _ _ _ _ (by omega)]
    exact ih (by omega)

theorem nodeLits_final (nodes : List NType) (n : Nat) (htopo : Topo nodes)
    (hrange : LitRange nodes n) (k : Nat) (hk : k ≤ nodes.length) (i : Nat) (hi : i < k) :
    (tseitin nodes n).nodeLits.getD i 0 = (tseitin (nodes.take k) n).nodeLits.getD i 0 := by
  have := nodeLits_stable nodes n htopo hrange k (nodes.length - k) (by omega) i hi
  rw [show k + (nodes.length - k) = nodes.length by omega, List.take_length] at this
  exact this

/-- the operation of node `j ≤ k` seen from the state after `k` nodes is its final operation -/
theorem nodeOp_final (nodes : List NType) (n : Nat) (htopo : Topo nodes)
    (hrange : LitRange nodes n) (k : Nat) (hk : k ≤ nodes.length) (j : Nat) (hj : j < nodes.length)
    (hjk : j ≤ k) :
    nodeOp (tseitin (nodes.take k) n).nodeLits nodes[j]
      = nodeOp (tseitin nodes n).nodeLits nodes[j] := by
  apply nodeOp_congr
  intro c hc
  have := htopo j hj c hc
  exact (nodeLits_final nodes n htopo hrange k hk c (by omega)).symm

/-- every biconditional (hence every cache entry) stems from an earlier node with that operation -/
theorem cache_origin (nodes : List NType) (n : Nat) (htopo : Topo nodes)
    (hrange : LitRange nodes n) (k : Nat) (hk : k ≤ nodes.length) :
    ∀ b ∈ (tseitin (nodes.take k) n).biconds, ∃ j, ∃ hj : j < nodes.length, j < k ∧
      nodeOp (tseitin nodes n).nodeLits nodes[j] = some (b.isAnd, b.lits) := by
  induction k with
  | zero => intro b hb; cases hb
  | succ k ih =>
    intro b hb
    rw [tseitin_take_succ nodes n k (by omega), tseitinStep_eq] at hb
    have hb' : b ∈ (stepRes (tseitin (nodes.take k) n) nodes[k]).2.biconds := hb
    rcases stepRes_biconds (tseitin (nodes.take k) n) nodes[k] with h | ⟨op, hop, h⟩
    · rw [h] at hb'
      obtain ⟨j, hj, hjk, hjo⟩ := ih (by omega) b hb'
      exact ⟨j, hj, by omega, hjo⟩
    · rw [h, List.mem_append, List.mem_singleton] at hb'
      rcases hb' with hb' | rfl
      · obtain ⟨j, hj, hjk, hjo⟩ := ih (by omega) b hb'
        exact ⟨j, hj, by omega, hjo⟩
      · refine ⟨k, by omega, by omega, ?_⟩
        rw [← nodeOp_final nodes n htopo hrange k (by omega) k (by omega) (Nat.le_refl _), hop]

/-- the last node introduces the last variable if its operation is new -/
theorem last_node_is_last_var (nodes : List NType) (n : Nat) (htopo : Topo nodes)
    (hrange : LitRange nodes n) (k : Nat) (hk1 : k + 1 = nodes.length) (op : Bool × List Int)
    (hop : nodeOp (tseitin nodes n).nodeLits (nodes[k]'(by omega)) = some op)
    (hlen : op.2.length ≠ 1)
    (hfresh : ∀ j (hj : j < nodes.length), j < k →
      nodeOp (tseitin nodes n).nodeLits nodes[j] ≠ some op) :
    (tseitin nodes n).next ≠ n + 1
    ∧ (tseitin nodes n).nodeLits.getD k 0 = (((tseitin nodes n).next - 1 : Nat) : Int) := by
  have hk : k < nodes.length := by omega
  have hinv := tseitin_inv_take nodes n htopo hrange k (by omega)
  -- the operation of the root is not cached
  have hnone : (tseitin (nodes.take k) n).cache.find? (fun e => e.1 == op) = none := by
    rw [List.find?_eq_none]
    intro e he hkey
    rw [hinv.cache_eq, List.mem_map] at he
    obtain ⟨b, hb, rfl⟩ := he
    have hb' := List.mem_reverse.mp hb
    obtain ⟨j, hj, hjk, hjo⟩ := cache_origin nodes n htopo hrange k (by omega) b hb'
    have : (b.isAnd, b.lits) = op := by simpa [toEntry] using hkey
    rw [this] at hjo
    exact hfresh j hj hjk hjo
  have hop' : nodeOp (tseitin (nodes.take k) n).nodeLits nodes[k] = some op := by
    rw [nodeOp_final nodes n htopo hrange k (by omega) k hk (Nat.le_refl _)]
    exact hop
  obtain ⟨e1, e2⟩ := stepRes_new _ _ op hop' hlen hnone
  have hfin : tseitin nodes n = tseitinStep (tseitin (nodes.take k) n) nodes[k] := by
    rw [← tseitin_take_succ nodes n k hk, hk1, List.take_length]
  have hnext : (tseitin nodes n).next = (tseitin (nodes.take k) n).next + 1 := by
    rw [hfin, tseitinStep_eq]; exact e2
  have hn := hinv.next_eq
  refine ⟨by omega, ?_⟩
  rw [hnext]
  rw [hfin, tseitinStep_nodeLits]
  have hsz := hinv.size
  have hget : ∀ (A : Array Int) (x : Int), A.size = k → (A.push x).getD k 0 = x := by
    intro A x hA; rw [← hA]; exact getD_push_eq A x 0
  rw [hget _ _ hsz, e1]
  congr 1

/-- **`hnew` and `hroot` from the structure of the circuit**: if the root is an operation node
whose list of child literals does not have length 1 and no earlier node has the same kind and the
same list of child literals, the root is represented by the variable introduced last. -/
theorem root_is_last_var (nodes : List NType) (n : Nat) (htopo : Topo nodes)
    (hrange : LitRange nodes n) (hne : nodes ≠ []) (op : Bool × List Int)
    (hop : nodeOp (tseitin nodes n).nodeLits
      (nodes[rootIx nodes]'(by unfold rootIx; have := List.length_pos_iff.mpr hne; omega)) = some op)
    (hlen : op.2.length ≠ 1)
    (hfresh : ∀ j (hj : j < nodes.length), j < rootIx nodes →
      nodeOp (tseitin nodes n).nodeLits nodes[j] ≠ some op) :
    (tseitin nodes n).next ≠ n + 1
    ∧ (tseitin nodes n).nodeLits.getD (rootIx nodes) 0
        = (((tseitin nodes n).next - 1 : Nat) : Int) := by
  have hpos : 0 < nodes.length := List.length_pos_iff.mpr hne
  exact last_node_is_last_var nodes n htopo hrange (rootIx nodes) (by unfold rootIx; omega) op hop
    hlen hfresh

/-! ### non-vacuity: the circuit of `small_ex_c2d.nnf` -/

theorem smallEx_toCnf : toCnf smallEx 4 =
    (9, [[5, -2, 3], [-5, 2], [-5, -3], [6, 2, -3], [-6, -2], [-6, 3], [-7, 5, 6], [7, -5],
      [7, -6], [-8, 4, -4], [8, -4], [8, 4], [9, -1, -7, -8], [-9, 1], [-9, 7], [-9, 8], [9]]) := by
  decide

theorem smallEx_topo : Topo smallEx := topoB_sound _ (by decide)
theorem smallEx_litRange : LitRange smallEx 4 := litRange_of_litRangeB _ _ (by decide)
theorem smallEx_new : (tseitin smallEx 4).next ≠ 4 + 1 := by decide
theorem smallEx_root : (tseitin smallEx 4).nodeLits.getD (rootIx smallEx) 0
    = (((tseitin smallEx 4).next - 1 : Nat) : Int) := rootIsLastVarB_spec _ _ (by decide)

/-- the hypotheses of `root_is_last_var` hold for `smallEx` -/
example : (tseitin smallEx 4).next ≠ 4 + 1
    ∧ (tseitin smallEx 4).nodeLits.getD (rootIx smallEx) 0
        = (((tseitin smallEx 4).next - 1 : Nat) : Int) :=
  root_is_last_var smallEx 4 smallEx_topo smallEx_litRange (by decide) (true, [1, 7, 8])
    (by decide) (by decide) (by decide)

example (τ : Assignment) (h : satCnf τ (toCnf smallEx 4).2 = true) :
    eval τ smallEx (rootIx smallEx) = true :=
  cnf_models_project smallEx 4 smallEx_topo smallEx_litRange smallEx_new smallEx_root τ h

example (σ : Assignment) (hσ : eval σ smallEx (rootIx smallEx) = true) :
    satCnf (extend σ (tseitin smallEx 4).biconds) (toCnf smallEx 4).2 = true :=
  (cnf_model_unique_extension smallEx 4 smallEx_topo smallEx_litRange smallEx_new smallEx_root
    σ hσ).1

/-- the CNF of `smallEx` has 9 variables and `count = 4` models over them -/
example : ((allBits 9).filter (fun b => satCnf (assignOf b) (toCnf smallEx 4).2)).length
    = count smallEx (rootIx smallEx) :=
  cnf_model_count_wf smallEx 4 (wfB_sound _ _ (by decide)) smallEx_litRange smallEx_new smallEx_root

example : count smallEx (rootIx smallEx) = 4 := by decide

example : (toCnf smallEx 4).1 = 9 :=
  (cnf_header smallEx 4 smallEx_topo smallEx_litRange smallEx_new
    (featuresOccurB_spec _ _ (by decide))).1

end Ddnnf
