/-
  Proofs about the strategy machine of an incremental edit (Model/EditCnf.lean): invariant over all
  histories, the recompilation computes the abstract edit, the inverse of the latest edit restores the
  previous state, the undo cache never reaches further back than one edit.
-/
import DdnnfVerif.Proofs.EditCnf
namespace Ddnnf.EC

def NZ (cs : List Clause) : Prop := ∀ c ∈ cs, ∀ l ∈ c, l ≠ 0

/-- no literal 0 in a snapshot -/
def SnapNZ (p : Snap) : Prop := NZ p.clauses ∧ NZ p.den

/-- the full invariant: consistent and free of the literal 0 -/
structure Inv (s : State) : Prop where
  good : Good s
  curNZ : SnapNZ s.cur
  cachedNZ : ∀ p ∈ s.cache, SnapNZ p.2

def OpsNZ (ops : List (Clause × App)) : Prop := ∀ p ∈ ops, ∀ l ∈ p.1, l ≠ 0

/-- the inverse of an edit: adds and removes exchanged -/
def Edit.inv (e : Edit) : Edit := { lits := e.lits, adds := e.rmvs, rmvs := e.adds }

/-- the states a history passes through (first = start state) -/
def runAll (s : State) : List (List (Clause × App) × Choice) → List State
  | [] => [s]
  | (ops, ch) :: rest => s :: runAll (step s ops ch).1 rest

/-! ### the four outcomes of `applyEdit` -/

theorem findRemove_some {α : Type} (p : α → Bool) :
    ∀ (l : List α) (x : α) (rest : List α), findRemove p l = some (x, rest) → x ∈ l ∧ p x = true
  | [], _, _, h => by cases h
  | y :: ys, x, rest, h => by
    unfold findRemove at h
    split at h
    · rename_i hp
      cases h; exact ⟨List.mem_cons_self, hp⟩
    · cases hf : findRemove p ys with
      | none => rw [hf] at h; cases h
      | some q =>
        obtain ⟨y', r'⟩ := q
        rw [hf] at h
        simp only [Option.map_some, Option.some.injEq, Prod.mk.injEq] at h
        obtain ⟨rfl, _⟩ := h
        have := findRemove_some p ys _ _ hf
        exact ⟨List.mem_cons_of_mem _ this.1, this.2⟩

theorem findRemove_head {α : Type} (p : α → Bool) (x : α) (xs : List α) (h : p x = true) :
    findRemove p (x :: xs) = some (x, xs) := by
  simp [findRemove, h]

/-- the state after `Undo` -/
def undoState (s : State) (c : Edit) (snap : Snap) : State :=
  { s with cur := snap, cache := [({ c with adds := c.rmvs, rmvs := c.adds }, s.cur)] }

/-- the state after the unit clause shortcut -/
def unitState (s : State) (e : Edit) (l : Int) : State :=
  { s with
    cur := { clauses := (adjust s.cur.clauses s.cur.nvars [[l]] []).1,
             nvars := (adjust s.cur.clauses s.cur.nvars [[l]] []).2,
             den := s.cur.den ++ [[l]] },
    cache := [(e, s.cur)] }

/-- the clause list the graph is recompiled from -/
def recompiled (s : State) (e : Edit) : List Clause × Nat :=
  adjust (adjust s.cur.clauses s.cur.nvars e.adds e.rmvs).1
    (adjust s.cur.clauses s.cur.nvars e.adds e.rmvs).2 e.adds e.rmvs

/-- the state after `recompile_everything` -/
def recompileState (s : State) (e : Edit) : State :=
  { s with
    cur := { clauses := simplify (recompiled s e).1, nvars := (recompiled s e).2,
             den := (recompiled s e).1 },
    cache := [(e, s.cur)] }

theorem applyEdit_cases (s : State) (e : Edit) (ch : Choice) :
    ((e.adds.isEmpty && e.rmvs.isEmpty) = true ∧ applyEdit s e ch = (s, .tautology)) ∨
    ((e.adds.isEmpty && e.rmvs.isEmpty) = false ∧
      ((∃ c snap rest, findRemove (fun (c : Edit × Snap) => isInverseOf e c.1) s.cache =
            some ((c, snap), rest) ∧ applyEdit s e ch = (undoState s c snap, .undo)) ∨
       (∃ l, e.adds = [[l]] ∧ e.rmvs = [] ∧ applyEdit s e ch = (unitState s e l, .unitClause)) ∨
       (ch = .splice ∧ applyEdit s e ch = ({ s with tainted := true }, .subDag)) ∨
       (ch = .recompile ∧ applyEdit s e ch = (recompileState s e, .recompile)))) := by
  unfold applyEdit
  split
  · rename_i h0; exact Or.inl ⟨h0, rfl⟩
  · rename_i h0
    refine Or.inr ⟨by simpa using h0, ?_⟩
    split
    · rename_i c snap rest hf
      exact Or.inl ⟨c, snap, rest, hf, rfl⟩
    · split
      · rename_i l ha hr
        exact Or.inr (Or.inl ⟨l, ha, hr, rfl⟩)
      · cases ch with
        | splice => exact Or.inr (Or.inr (Or.inl ⟨rfl, rfl⟩))
        | recompile => exact Or.inr (Or.inr (Or.inr ⟨rfl, rfl⟩))

theorem applyEdit_undo_head (s : State) (e : Edit) (ch : Choice) (c : Edit) (snap : Snap)
    (rest : List (Edit × Snap)) (hne : (e.adds.isEmpty && e.rmvs.isEmpty) = false)
    (hc : s.cache = (c, snap) :: rest) (hp : isInverseOf e c = true) :
    applyEdit s e ch = (undoState s c snap, .undo) := by
  have hf : findRemove (fun (c : Edit × Snap) => isInverseOf e c.1) s.cache =
      some ((c, snap), rest) := by
    rw [hc]; exact findRemove_head _ _ _ hp
  unfold applyEdit
  rw [if_neg (by simp [hne])]
  simp only [hf]
  rfl

/-! ### the theorems -/

theorem init_inv (cs : List Clause) (n : Nat) (hnz : NZ cs) (hsat : Sat cs) : Inv (init cs n) where
  good :=
    { untainted := rfl
      cur := fun σ => satCnf_simplify cs hnz hsat σ
      cached := fun p hp => by cases hp }
  curNZ := ⟨simplify_nz cs hnz, hnz⟩
  cachedNZ := fun p hp => by cases hp

/-- **recompilation yields the edited formula**: the graph is compiled from a clause list with exactly
the models of `stored clauses − removed clauses + added clauses` -/
theorem recompile_den (s s' : State) (e : Edit) (hnz : NZ (s.cur.clauses ++ e.adds))
    (h : applyEdit s e .recompile = (s', .recompile)) (σ : Assignment) :
    satCnf σ s'.cur.den = satCnf σ (specEdit s.cur.clauses e) := by
  rcases applyEdit_cases s e .recompile with ⟨_, h1⟩ | ⟨_, ⟨_, _, _, _, h1⟩ | ⟨_, _, _, h1⟩ | ⟨h0, _⟩ | ⟨_, h1⟩⟩
  · rw [h1] at h; cases h
  · rw [h1] at h; cases h
  · rw [h1] at h; cases h
  · cases h0
  · rw [h1] at h
    obtain rfl := (Prod.mk.inj h).1
    exact satCnf_adjust_twice σ s.cur.clauses s.cur.nvars e hnz

theorem specEdit_no_rmvs (cs : List Clause) (e : Edit) (hr : e.rmvs = []) :
    specEdit cs e = cs ++ e.adds := by
  simp [specEdit, hr]

/-- … in particular an edit that only adds clauses yields the conjunction of the previous formula with
the added clauses -/
theorem recompile_adds (s s' : State) (e : Edit) (hs : Agree s.cur) (hnz : NZ (s.cur.clauses ++ e.adds))
    (hr : e.rmvs = []) (h : applyEdit s e .recompile = (s', .recompile)) (σ : Assignment) :
    satCnf σ s'.cur.den = (satCnf σ s.cur.den && satCnf σ e.adds) := by
  rw [recompile_den s s' e hnz h σ, specEdit_no_rmvs _ _ hr, satCnf_append, hs σ]

/-- the unit clause shortcut conjoins the literal (graph side: Model/Edit.lean) and is taken only for an
edit that adds exactly one unit clause and removes nothing -/
theorem unit_den (s s' : State) (e : Edit) (ch : Choice) (h : applyEdit s e ch = (s', .unitClause)) :
    ∃ l, e.adds = [[l]] ∧ e.rmvs = [] ∧ s'.cur.den = s.cur.den ++ [[l]] ∧ s'.cache = [(e, s.cur)] := by
  rcases applyEdit_cases s e ch with ⟨_, h1⟩ | ⟨_, ⟨_, _, _, _, h1⟩ | ⟨l, ha, hr, h1⟩ | ⟨_, h1⟩ | ⟨_, h1⟩⟩
  · rw [h1] at h; cases h
  · rw [h1] at h; cases h
  · rw [h1] at h
    obtain rfl := (Prod.mk.inj h).1
    exact ⟨l, ha, hr, rfl, rfl⟩
  · rw [h1] at h; cases h
  · rw [h1] at h; cases h

/-- an edit without effective clauses changes nothing -/
theorem tautology_keeps (s s' : State) (e : Edit) (ch : Choice) (h : applyEdit s e ch = (s', .tautology)) :
    s' = s := by
  rcases applyEdit_cases s e ch with ⟨_, h1⟩ | ⟨_, ⟨_, _, _, _, h1⟩ | ⟨l, ha, hr, h1⟩ | ⟨_, h1⟩ | ⟨_, h1⟩⟩
  · rw [h1] at h; exact ((Prod.mk.inj h).1).symm
  · rw [h1] at h; cases h
  · rw [h1] at h; cases h
  · rw [h1] at h; cases h
  · rw [h1] at h; cases h

/-- `Undo` only ever restores a cached snapshot whose edit is the inverse of the request -/
theorem undo_restores_cached (s s' : State) (e : Edit) (ch : Choice) (h : applyEdit s e ch = (s', .undo)) :
    ∃ p ∈ s.cache, isInverseOf e p.1 = true ∧ s'.cur = p.2 := by
  rcases applyEdit_cases s e ch with ⟨_, h1⟩ | ⟨_, ⟨c, snap, rest, hf, h1⟩ | ⟨l, ha, hr, h1⟩ | ⟨_, h1⟩ | ⟨_, h1⟩⟩
  · rw [h1] at h; cases h
  · rw [h1] at h
    obtain rfl := (Prod.mk.inj h).1
    have := findRemove_some _ _ _ _ hf
    exact ⟨(c, snap), this.1, this.2, rfl⟩
  · rw [h1] at h; cases h
  · rw [h1] at h; cases h
  · rw [h1] at h; cases h

theorem clauseListsMatch_refl (a : List Clause) : clauseListsMatch a a = true := by
  simp only [clauseListsMatch, Bool.and_eq_true, List.all_eq_true, List.any_eq_true]
  exact ⟨fun x hx => ⟨x, hx, sameSet_refl x⟩, fun x hx => ⟨x, hx, sameSet_refl x⟩⟩

theorem isInverseOf_inv (e : Edit) : isInverseOf e.inv e = true := by
  simp [isInverseOf, Edit.inv, sameSet_refl, clauseListsMatch_refl]

theorem isInverseOf_swap (e : Edit) :
    isInverseOf e { e with adds := e.rmvs, rmvs := e.adds } = true := by
  simp [isInverseOf, sameSet_refl, clauseListsMatch_refl]

/-- **the inverse of the latest (recompiled) edit restores the previous state**, whatever the graph
would suggest (`ch'`), and applying the edit once more brings the edited state back -/
theorem inverse_restores (s s1 : State) (e : Edit) (ch' : Choice)
    (h : applyEdit s e .recompile = (s1, .recompile)) :
    (applyEdit s1 e.inv ch').2 = .undo ∧ (applyEdit s1 e.inv ch').1.cur = s.cur ∧
    (applyEdit (applyEdit s1 e.inv ch').1 e ch').2 = .undo ∧
    (applyEdit (applyEdit s1 e.inv ch').1 e ch').1.cur = s1.cur := by
  rcases applyEdit_cases s e .recompile with ⟨_, h1⟩ | ⟨hne, ⟨_, _, _, _, h1⟩ | ⟨_, _, _, h1⟩ | ⟨h0, _⟩ | ⟨_, h1⟩⟩
  · rw [h1] at h; cases h
  · rw [h1] at h; cases h
  · rw [h1] at h; cases h
  · cases h0
  · rw [h1] at h
    obtain rfl := (Prod.mk.inj h).1
    have hne' : (e.inv.adds.isEmpty && e.inv.rmvs.isEmpty) = false := by
      rw [Bool.and_comm]; exact hne
    have e1 := applyEdit_undo_head (recompileState s e) e.inv ch' e s.cur [] hne' rfl
      (isInverseOf_inv e)
    rw [e1]
    have e2 := applyEdit_undo_head (undoState (recompileState s e) e s.cur) e ch'
      { e with adds := e.rmvs, rmvs := e.adds } (recompileState s e).cur [] hne rfl
      (isInverseOf_swap e)
    rw [e2]
    exact ⟨rfl, rfl, rfl, rfl⟩

/-- the same for a unit clause edit: its inverse is answered from the cache with the state before it
(stored clauses, graph and feature count, should the unit clause have introduced a feature) -/
theorem inverse_restores_unit (s s1 : State) (e : Edit) (ch ch' : Choice)
    (h : applyEdit s e ch = (s1, .unitClause)) :
    (applyEdit s1 e.inv ch').2 = .undo ∧ (applyEdit s1 e.inv ch').1.cur = s.cur ∧
    (applyEdit (applyEdit s1 e.inv ch').1 e ch').2 = .undo ∧
    (applyEdit (applyEdit s1 e.inv ch').1 e ch').1.cur = s1.cur := by
  rcases applyEdit_cases s e ch with ⟨_, h1⟩ | ⟨hne, ⟨_, _, _, _, h1⟩ | ⟨l, _, _, h1⟩ | ⟨_, h1⟩ | ⟨_, h1⟩⟩
  · rw [h1] at h; cases h
  · rw [h1] at h; cases h
  · rw [h1] at h
    obtain rfl := (Prod.mk.inj h).1
    have hne' : (e.inv.adds.isEmpty && e.inv.rmvs.isEmpty) = false := by
      rw [Bool.and_comm]; exact hne
    have e1 := applyEdit_undo_head (unitState s e l) e.inv ch' e s.cur [] hne' rfl
      (isInverseOf_inv e)
    rw [e1]
    have e2 := applyEdit_undo_head (undoState (unitState s e l) e s.cur) e ch'
      { e with adds := e.rmvs, rmvs := e.adds } (unitState s e l).cur [] hne rfl
      (isInverseOf_swap e)
    rw [e2]
    exact ⟨rfl, rfl, rfl, rfl⟩
  · rw [h1] at h; cases h
  · rw [h1] at h; cases h

theorem NZ_append {a b : List Clause} (ha : NZ a) (hb : NZ b) : NZ (a ++ b) := by
  intro c hc
  rcases List.mem_append.1 hc with hc | hc
  · exact ha c hc
  · exact hb c hc

/-- one step keeps the invariant (a recompilation needs the edited formula to be satisfiable, which the
property assumes) -/
theorem step_inv (s : State) (ops : List (Clause × App)) (ch : Choice) (hs : Inv s) (hops : OpsNZ ops)
    (hnosplice : (step s ops ch).1.tainted = false) (hsat : Sat (step s ops ch).1.cur.den) :
    Inv (step s ops ch).1 := by
  have hA : NZ (prepare ops).adds := fun c hc =>
    (prepare_nz ops hops).1 c (List.mem_append_left _ hc)
  unfold step at *
  generalize prepare ops = e at *
  rcases applyEdit_cases s e ch with ⟨_, h1⟩ | ⟨_, ⟨c, snap, rest, hf, h1⟩ | ⟨l, ha, hr, h1⟩ | ⟨_, h1⟩ | ⟨_, h1⟩⟩
  · rw [h1]; exact hs
  · rw [h1]
    have hm := (findRemove_some _ _ _ _ hf).1
    exact
      { good :=
          { untainted := hs.good.untainted
            cur := hs.good.cached _ hm
            cached := fun p hp => by
              obtain rfl := List.mem_singleton.1 hp
              exact hs.good.cur }
        curNZ := hs.cachedNZ _ hm
        cachedNZ := fun p hp => by
          obtain rfl := List.mem_singleton.1 hp
          exact hs.curNZ }
  · rw [h1]
    have hnz : NZ (s.cur.clauses ++ [[l]]) := NZ_append hs.curNZ.1 (ha ▸ hA)
    have hnzd : NZ (s.cur.den ++ [[l]]) := NZ_append hs.curNZ.2 (ha ▸ hA)
    exact
      { good :=
          { untainted := hs.good.untainted
            cur := fun σ => by
              have := satCnf_adjust σ s.cur.clauses s.cur.nvars { adds := [[l]], rmvs := [] } hnz
              show satCnf σ (adjust s.cur.clauses s.cur.nvars [[l]] []).1 =
                satCnf σ (s.cur.den ++ [[l]])
              rw [this, specEdit_no_rmvs _ _ rfl, satCnf_append, satCnf_append, hs.good.cur σ]
            cached := fun p hp => by
              obtain rfl := List.mem_singleton.1 hp
              exact hs.good.cur }
        curNZ := ⟨adjust_nz _ s.cur.nvars _ _ hnz, hnzd⟩
        cachedNZ := fun p hp => by
          obtain rfl := List.mem_singleton.1 hp
          exact hs.curNZ }
  · rw [h1] at hnosplice; cases hnosplice
  · rw [h1] at hsat ⊢
    have hnz0 : NZ (s.cur.clauses ++ e.adds) := NZ_append hs.curNZ.1 hA
    have hnz1 : NZ (adjust s.cur.clauses s.cur.nvars e.adds e.rmvs).1 := adjust_nz _ _ _ _ hnz0
    have hnz2 : NZ (recompiled s e).1 := adjust_nz _ _ _ _ (NZ_append hnz1 hA)
    exact
      { good :=
          { untainted := hs.good.untainted
            cur := fun σ => satCnf_simplify _ hnz2 hsat σ
            cached := fun p hp => by
              obtain rfl := List.mem_singleton.1 hp
              exact hs.good.cur }
        curNZ := ⟨simplify_nz _ hnz2, hnz2⟩
        cachedNZ := fun p hp => by
          obtain rfl := List.mem_singleton.1 hp
          exact hs.curNZ }

/-- the undo cache never holds more than the latest edit -/
theorem cache_le_one (s : State) (e : Edit) (ch : Choice) (h : s.cache.length ≤ 1) :
    (applyEdit s e ch).1.cache.length ≤ 1 := by
  rcases applyEdit_cases s e ch with ⟨_, h1⟩ | ⟨_, ⟨c, snap, rest, hf, h1⟩ | ⟨l, ha, hr, h1⟩ | ⟨_, h1⟩ | ⟨_, h1⟩⟩
  · rw [h1]; exact h
  · rw [h1]; exact Nat.le_refl 1
  · rw [h1]; exact Nat.le_refl 1
  · rw [h1]; exact h
  · rw [h1]; exact Nat.le_refl 1

theorem mem_runAll_self (s : State) (reqs : List (List (Clause × App) × Choice)) :
    s ∈ runAll s reqs := by
  cases reqs with
  | nil => exact List.mem_singleton.2 rfl
  | cons r rest => obtain ⟨ops, ch⟩ := r; exact List.mem_cons_self

theorem runAll_inv (reqs : List (List (Clause × App) × Choice)) :
    ∀ (s : State), Inv s → s.cache.length ≤ 1 → (∀ r ∈ reqs, OpsNZ r.1) →
      (∀ t ∈ runAll s reqs, t.tainted = false ∧ Sat t.cur.den) →
      ∀ t ∈ runAll s reqs, Inv t ∧ t.cache.length ≤ 1 := by
  induction reqs with
  | nil =>
    intro s hs hc _ _ t ht
    obtain rfl := List.mem_singleton.1 ht
    exact ⟨hs, hc⟩
  | cons r rest ih =>
    obtain ⟨ops, ch⟩ := r
    intro s hs hc hops hall t ht
    rcases List.mem_cons.1 ht with rfl | ht
    · exact ⟨hs, hc⟩
    · have hnext := hall (step s ops ch).1 (List.mem_cons_of_mem _ (mem_runAll_self _ rest))
      exact ih (step s ops ch).1
        (step_inv s ops ch hs (hops _ List.mem_cons_self) hnext.1 hnext.2)
        (cache_le_one s (prepare ops) ch hc)
        (fun r hr => hops r (List.mem_cons_of_mem _ hr))
        (fun t ht => hall t (List.mem_cons_of_mem _ ht)) t ht

/-- **every history**: from a satisfiable CNF, through any sequence of edits during which no sub-DAG
replacement ran and the formula stayed satisfiable, the stored clause list and the graph agree in every
state, and the cache holds at most one snapshot -/
theorem history_inv (cs : List Clause) (n : Nat) (hnz : NZ cs) (hsat : Sat cs)
    (reqs : List (List (Clause × App) × Choice)) (hops : ∀ r ∈ reqs, OpsNZ r.1)
    (hall : ∀ t ∈ runAll (init cs n) reqs, t.tainted = false ∧ Sat t.cur.den) :
    ∀ t ∈ runAll (init cs n) reqs, Inv t ∧ t.cache.length ≤ 1 :=
  runAll_inv reqs (init cs n) (init_inv cs n hnz hsat) (Nat.zero_le 1) hops hall

end Ddnnf.EC
