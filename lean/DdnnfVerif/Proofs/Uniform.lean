/-
  Why the sampling scheme of `sample_node` (ddnnife/src/ddnnf/anomalies/config_creation.rs, KUS) is
  uniform: the ROUTING WEIGHTS.

  `weightedModels nodes negs i` is the list of the listed models of node `i` that are compatible with
  the assumptions (`modelsA`), each with the probability with which one sample that enters node `i`
  ends up being that model IF

    * at every or-node the sample is routed to child `c` with probability `temp c / temp node`
      (the weights handed to `Binomial` / `WeightedAliasIndex`),
    * at every and-node the parts drawn from the children are combined independently
      (probability of a combination = product of the probabilities of the parts),
    * a literal leaf that is not excluded by the assumptions (and a True node) yields its only model
      with probability 1.

  `branch_weight_uniform`: every such probability is exactly `1 / temp node` (stated as
  `w * temp node = 1` in `Rat`), so all compatible models of a node are equally likely and the
  probabilities add up to 1 (`weightedModels_sum`).

  THIS IS A THEOREM ABOUT THE ROUTING WEIGHTS ONLY.  NOT covered:
    * that `rand_distr`'s `Binomial` / `WeightedAliasIndex` realise these probabilities,
    * that `SliceRandom::shuffle` is uniform (it is what makes the pairing of the children's samples
      at an and-node independent),
    * the rounding of the weights to `f64` (`temp c / temp node` is computed in floating point).
  These are tested statistically by the harness.

  The pass computes the pair (`temp`, weighted models) so that the weights at an or-node are taken
  from the same bottom-up pass (`weightedPass_fst`: the first component is `countA`).  The sampler
  hides True nodes (`temp = 0`); below or-nodes they are excluded by `NoTruUnderOr`, below and-nodes
  they contribute the empty configuration with weight 1, which is how they are treated here.
-/
import DdnnfVerif.Proofs.CountA
import DdnnfVerif.Proofs.Sample

namespace Ddnnf

/-- weighted ordered product: configurations as in `prodConfigs`, weights multiplied -/
def prodW : List (List (Config × Rat)) → List (Config × Rat)
  | [] => [([], 1)]
  | l :: rest => (prodW rest).flatMap (fun tl => l.map (fun hd => (tl.1 ++ hd.1, tl.2 * hd.2)))

/-- one step of the pass: `temp` of the node and its models with their routing probabilities -/
def fWeighted (negs : List Int) :
    NType → (Nat → Nat × List (Config × Rat)) → Nat × List (Config × Rat)
  | .lit l, _ => if negs.contains l then (0, []) else (1, [([l], 1)])
  | .tru, _ => (1, [([], 1)])
  | .fls, _ => (0, [])
  | .and cs, g => (prodNat (cs.map fun c => (g c).1), prodW (cs.map fun c => (g c).2))
  | .or cs, g =>
      let total := sumNat (cs.map fun c => (g c).1)
      (total, (cs.map fun c =>
        (g c).2.map fun mw => (mw.1, mw.2 * (((g c).1 : Rat) / (total : Rat)))).flatten)

def weightedPass (nodes : List NType) (negs : List Int) (i : Nat) : Nat × List (Config × Rat) :=
  val (0, []) (fWeighted negs) nodes i

/-- the compatible models of node `i` with their routing probabilities -/
def weightedModels (nodes : List NType) (negs : List Int) (i : Nat) : List (Config × Rat) :=
  (weightedPass nodes negs i).2

/-! ### the components of the pass -/

/-- the `temp` component is the count under the assumptions -/
theorem weightedPass_fst (nodes : List NType) (negs : List Int) (i : Nat) :
    (weightedPass nodes negs i).1 = countA nodes negs i := by
  unfold weightedPass countA
  apply table_rel (fun (a : Nat × List (Config × Rat)) (b : Nat) => a.1 = b) (0, []) 0
    (fWeighted negs) (fCountA negs) rfl
  intro nd ga gb h
  cases nd with
  | and cs =>
    show prodNat (cs.map fun c => (ga c).1) = prodNat (cs.map gb)
    rw [List.map_congr_left (fun c _ => h c)]
  | or cs =>
    show sumNat (cs.map fun c => (ga c).1) = sumNat (cs.map gb)
    rw [List.map_congr_left (fun c _ => h c)]
  | lit l =>
    show (if negs.contains l = true then ((0, []) : Nat × List (Config × Rat)) else (1, [([l], 1)])).1
      = if negs.contains l = true then 0 else 1
    split <;> rfl
  | tru => rfl
  | fls => rfl

theorem prodW_fst (ls : List (List (Config × Rat))) :
    (prodW ls).map (·.1) = prodConfigs (ls.map (fun l => l.map (·.1))) := by
  induction ls with
  | nil => rfl
  | cons l rest ih =>
    simp only [prodW, prodConfigs, List.map_cons]
    rw [← ih]
    generalize prodW rest = P
    induction P with
    | nil => rfl
    | cons p ps ihp =>
      simp only [List.flatMap_cons, List.map_append, List.map_cons, ihp, List.map_map]
      rfl

/-- the models listed with weights are exactly the compatible models, in the same order -/
theorem weightedModels_fst (nodes : List NType) (negs : List Int) (i : Nat) :
    (weightedModels nodes negs i).map (·.1) = modelsA nodes negs i := by
  unfold weightedModels weightedPass modelsA
  apply table_rel
    (fun (a : Nat × List (Config × Rat)) (b : List Config) => a.2.map (·.1) = b) (0, []) []
    (fWeighted negs) (fModelsA negs) rfl
  intro nd ga gb h
  cases nd with
  | and cs =>
    show (prodW (cs.map fun c => (ga c).2)).map (·.1) = prodConfigs (cs.map gb)
    rw [prodW_fst, List.map_map]
    congr 1
    exact List.map_congr_left (fun c _ => h c)
  | or cs =>
    show ((cs.map fun c => (ga c).2.map fun mw =>
        (mw.1, mw.2 * (((ga c).1 : Rat) / ((sumNat (cs.map fun c => (ga c).1) : Nat) : Rat))))).flatten.map
        (·.1) = (cs.map gb).flatten
    rw [List.map_flatten, List.map_map]
    congr 1
    apply List.map_congr_left
    intro c _
    rw [← h c]
    simp [List.map_map, Function.comp_def]
  | lit l =>
    show (if negs.contains l = true then ((0, []) : Nat × List (Config × Rat))
        else (1, [([l], 1)])).2.map (·.1) = if negs.contains l = true then [] else [[l]]
    split <;> rfl
  | tru => rfl
  | fls => rfl

/-! ### uniformity -/

theorem natCast_ne_zero (n : Nat) (h : n ≠ 0) : (n : Rat) ≠ 0 := by
  intro h0
  apply h
  have : (n : Rat) = ((0 : Nat) : Rat) := by rw [h0]; rfl
  exact Rat.natCast_inj.mp this

theorem natCast_ne_zero_of_mul (n : Nat) (w : Rat) (h : w * (n : Rat) = 1) : n ≠ 0 := by
  intro h0
  subst h0
  have : ((0 : Nat) : Rat) = 0 := rfl
  rw [this] at h
  grind

theorem le_sumNat_map (cs : List Nat) (f : Nat → Nat) (c : Nat) (hc : c ∈ cs) :
    f c ≤ sumNat (cs.map f) := by
  induction cs with
  | nil => cases hc
  | cons x xs ih =>
    simp only [List.map_cons, sumNat_cons]
    rcases List.mem_cons.mp hc with rfl | h
    · omega
    · have := ih h; omega

theorem mem_prodW_cons (l : List (Config × Rat)) (rest : List (List (Config × Rat)))
    (x : Config × Rat) :
    x ∈ prodW (l :: rest) ↔ ∃ tl ∈ prodW rest, ∃ hd ∈ l, x = (tl.1 ++ hd.1, tl.2 * hd.2) := by
  simp only [prodW, List.mem_flatMap, List.mem_map]
  constructor
  · rintro ⟨tl, htl, hd, hhd, rfl⟩; exact ⟨tl, htl, hd, hhd, rfl⟩
  · rintro ⟨tl, htl, hd, hhd, rfl⟩; exact ⟨tl, htl, hd, hhd, rfl⟩

theorem prodW_weight (cs : List Nat) (g : Nat → Nat × List (Config × Rat))
    (hg : ∀ c ∈ cs, ∀ mw ∈ (g c).2, mw.2 * ((g c).1 : Rat) = 1) :
    ∀ mw ∈ prodW (cs.map fun c => (g c).2),
      mw.2 * ((prodNat (cs.map fun c => (g c).1) : Nat) : Rat) = 1 := by
  induction cs with
  | nil =>
    intro mw hmw
    simp only [List.map_nil, prodW, List.mem_singleton] at hmw
    subst hmw
    show (1 : Rat) * ((1 : Nat) : Rat) = 1
    have : ((1 : Nat) : Rat) = 1 := rfl
    rw [this]; grind
  | cons c cs ih =>
    intro mw hmw
    rw [List.map_cons, mem_prodW_cons] at hmw
    obtain ⟨tl, htl, hd, hhd, rfl⟩ := hmw
    have h1 := ih (fun c' hc' => hg c' (List.mem_cons_of_mem _ hc')) tl htl
    have h2 := hg c (List.mem_cons_self ..) hd hhd
    simp only [List.map_cons, prodNat_cons, Rat.natCast_mul]
    grind

/-- the invariant of the pass: weight × temp = 1 for every listed model -/
theorem weightedPass_inv (nodes : List NType) (negs : List Int) (i : Nat) :
    ∀ mw ∈ (weightedPass nodes negs i).2, mw.2 * ((weightedPass nodes negs i).1 : Rat) = 1 := by
  unfold weightedPass
  apply table_inv (fun (v : Nat × List (Config × Rat)) => ∀ mw ∈ v.2, mw.2 * (v.1 : Rat) = 1)
    (0, []) (fWeighted negs)
  · intro mw hmw; cases hmw
  · intro nd g hg
    cases nd with
    | and cs => exact prodW_weight cs g (fun c _ => hg c)
    | or cs =>
      intro mw hmw
      change mw ∈ ((cs.map fun c => (g c).2.map fun mw =>
        (mw.1, mw.2 * (((g c).1 : Rat) / ((sumNat (cs.map fun c => (g c).1) : Nat) : Rat))))).flatten
        at hmw
      show mw.2 * ((sumNat (cs.map fun c => (g c).1) : Nat) : Rat) = 1
      rw [List.mem_flatten] at hmw
      obtain ⟨l, hl, hmwl⟩ := hmw
      rw [List.mem_map] at hl
      obtain ⟨c, hc, rfl⟩ := hl
      rw [List.mem_map] at hmwl
      obtain ⟨mw', hmw', rfl⟩ := hmwl
      have h1 := hg c mw' hmw'
      have hc0 : (g c).1 ≠ 0 := natCast_ne_zero_of_mul _ _ h1
      have hle := le_sumNat_map cs (fun c => (g c).1) c hc
      have ht : ((sumNat (cs.map fun c => (g c).1) : Nat) : Rat) ≠ 0 :=
        natCast_ne_zero _ (by omega)
      generalize ((sumNat (cs.map fun c => (g c).1) : Nat) : Rat) = t at ht ⊢
      show mw'.2 * (((g c).1 : Rat) / t) * t = 1
      grind
    | lit l =>
      intro mw hmw
      change mw ∈ (if negs.contains l = true then ((0, []) : Nat × List (Config × Rat))
        else (1, [([l], 1)])).2 at hmw
      show mw.2 * ((if negs.contains l = true then ((0, []) : Nat × List (Config × Rat))
        else (1, [([l], 1)])).1 : Rat) = 1
      split at hmw
      · cases hmw
      · next hn =>
        rw [if_neg hn]
        simp only [List.mem_singleton] at hmw
        subst hmw
        show (1 : Rat) * ((1 : Nat) : Rat) = 1
        have : ((1 : Nat) : Rat) = 1 := rfl
        rw [this]; grind
    | tru =>
      intro mw hmw
      change mw ∈ [(([] : Config), (1 : Rat))] at hmw
      simp only [List.mem_singleton] at hmw
      subst hmw
      show (1 : Rat) * ((1 : Nat) : Rat) = 1
      have : ((1 : Nat) : Rat) = 1 := rfl
      rw [this]; grind
    | fls => intro mw hmw; cases hmw

/-- if at every or-node a sample is routed to child `c` with probability `temp c / temp node` (what
the Binomial / WeightedAliasIndex split with these weights does) and the parts are combined
independently at and-nodes, every compatible model of a node has probability exactly
`1 / temp node`.  (No hypothesis on the count is needed: if it is 0 there are no models.) -/
theorem branch_weight_uniform (nodes : List NType) (negs : List Int) (i : Nat) :
    ∀ mw ∈ weightedModels nodes negs i, mw.2 * (countA nodes negs i : Rat) = 1 := by
  intro mw hmw
  rw [← weightedPass_fst]
  exact weightedPass_inv nodes negs i mw hmw

/-- the same as an explicit value -/
theorem branch_weight_eq (nodes : List NType) (negs : List Int) (i : Nat) :
    ∀ mw ∈ weightedModels nodes negs i, mw.2 = 1 / (countA nodes negs i : Rat) := by
  intro mw hmw
  have h := branch_weight_uniform nodes negs i mw hmw
  have h0 : (countA nodes negs i : Rat) ≠ 0 := natCast_ne_zero _ (natCast_ne_zero_of_mul _ _ h)
  grind

/-- as many weighted models as the count -/
theorem weightedModels_length (nodes : List NType) (negs : List Int) (i : Nat) :
    (weightedModels nodes negs i).length = countA nodes negs i := by
  rw [countA_eq_length_modelsA, ← weightedModels_fst, List.length_map]

theorem sum_const_mul (xs : List (Config × Rat)) (w : Rat) (h : ∀ mw ∈ xs, mw.2 = w) :
    (xs.map (·.2)).sum = (xs.length : Rat) * w := by
  induction xs with
  | nil =>
    show (0 : Rat) = ((0 : Nat) : Rat) * w
    have : ((0 : Nat) : Rat) = 0 := rfl
    rw [this]; grind
  | cons x xs ih =>
    have hx := h x (List.mem_cons_self ..)
    have ih' := ih (fun mw hmw => h mw (List.mem_cons_of_mem _ hmw))
    simp only [List.map_cons, List.sum_cons, List.length_cons, ih', hx]
    have : ((xs.length + 1 : Nat) : Rat) = (xs.length : Rat) + 1 := by
      rw [Rat.natCast_add]; rfl
    rw [this]; grind

/-- the routing probabilities of the models of a node with at least one compatible model add up
to 1: the weights describe a probability distribution, and it is the uniform one -/
theorem weightedModels_sum (nodes : List NType) (negs : List Int) (i : Nat)
    (hpos : 0 < countA nodes negs i) :
    ((weightedModels nodes negs i).map (·.2)).sum = 1 := by
  rw [sum_const_mul _ _ (branch_weight_eq nodes negs i), weightedModels_length]
  have h0 : (countA nodes negs i : Rat) ≠ 0 := natCast_ne_zero _ (by omega)
  grind

/-! ### the recursion equations of `weightedModels` in a topologically ordered array
(the definition read back in terms of `countA`, i.e. `temp`) -/

theorem fWeighted_congr (negs : List Int) (nd : NType) (g g' : Nat → Nat × List (Config × Rat))
    (h : ∀ c ∈ children nd, g c = g' c) : fWeighted negs nd g = fWeighted negs nd g' := by
  cases nd with
  | and cs =>
    have h' : ∀ c ∈ cs, g c = g' c := h
    show (prodNat (cs.map fun c => (g c).1), prodW (cs.map fun c => (g c).2))
      = (prodNat (cs.map fun c => (g' c).1), prodW (cs.map fun c => (g' c).2))
    rw [List.map_congr_left (fun c hc => congrArg Prod.fst (h' c hc)),
      List.map_congr_left (fun c hc => congrArg Prod.snd (h' c hc))]
  | or cs =>
    have h' : ∀ c ∈ cs, g c = g' c := h
    have e1 : (cs.map fun c => (g c).1) = (cs.map fun c => (g' c).1) :=
      List.map_congr_left (fun c hc => congrArg Prod.fst (h' c hc))
    show (sumNat (cs.map fun c => (g c).1), List.flatten (cs.map fun c => (g c).2.map fun mw =>
        (mw.1, mw.2 * (((g c).1 : Rat) / ((sumNat (cs.map fun c => (g c).1) : Nat) : Rat)))))
      = (sumNat (cs.map fun c => (g' c).1), List.flatten (cs.map fun c => (g' c).2.map fun mw =>
        (mw.1, mw.2 * (((g' c).1 : Rat) / ((sumNat (cs.map fun c => (g' c).1) : Nat) : Rat)))))
    rw [e1]
    congr 2
    apply List.map_congr_left
    intro c hc
    rw [h' c hc]
  | lit l => rfl
  | tru => rfl
  | fls => rfl

theorem weightedPass_node (nodes : List NType) (negs : List Int) (htopo : Topo nodes) (i : Nat)
    (hi : i < nodes.length) :
    weightedPass nodes negs i = fWeighted negs nodes[i] (weightedPass nodes negs) :=
  val_eq_topo (0, []) (fWeighted negs) nodes htopo (fWeighted_congr negs) i hi

/-- or-node: the children's lists one after the other, the weights of child `c` multiplied by
`temp c / temp node` -/
theorem weightedModels_or (nodes : List NType) (negs : List Int) (htopo : Topo nodes) (i : Nat)
    (hi : i < nodes.length) (cs : List Nat) (hnd : nodes[i] = .or cs) :
    weightedModels nodes negs i = (cs.map fun c => (weightedModels nodes negs c).map fun mw =>
      (mw.1, mw.2 * ((countA nodes negs c : Rat) / (countA nodes negs i : Rat)))).flatten := by
  have hc : countA nodes negs i = sumNat (cs.map fun c => (weightedPass nodes negs c).1) := by
    rw [countA_node nodes negs htopo i hi, hnd]
    show sumNat (cs.map (countA nodes negs)) = _
    rw [List.map_congr_left (fun c _ => (weightedPass_fst nodes negs c).symm)]
  unfold weightedModels
  rw [weightedPass_node nodes negs htopo i hi, hnd, hc]
  show (cs.map fun c => (weightedPass nodes negs c).2.map fun mw =>
        (mw.1, mw.2 * (((weightedPass nodes negs c).1 : Rat) /
          ((sumNat (cs.map fun c => (weightedPass nodes negs c).1) : Nat) : Rat)))).flatten = _
  congr 1
  apply List.map_congr_left
  intro c _
  rw [weightedPass_fst]

/-- and-node: the weighted product of the children's lists -/
theorem weightedModels_and (nodes : List NType) (negs : List Int) (htopo : Topo nodes) (i : Nat)
    (hi : i < nodes.length) (cs : List Nat) (hnd : nodes[i] = .and cs) :
    weightedModels nodes negs i = prodW (cs.map (weightedModels nodes negs)) := by
  unfold weightedModels
  rw [weightedPass_node nodes negs htopo i hi, hnd]
  rfl

/-- literal leaf -/
theorem weightedModels_lit (nodes : List NType) (negs : List Int) (htopo : Topo nodes) (i : Nat)
    (hi : i < nodes.length) (l : Int) (hnd : nodes[i] = .lit l) :
    weightedModels nodes negs i = if negs.contains l then [] else [([l], 1)] := by
  unfold weightedModels
  rw [weightedPass_node nodes negs htopo i hi, hnd]
  show (if negs.contains l = true then ((0, []) : Nat × List (Config × Rat)) else (1, [([l], 1)])).2 = _
  split <;> rfl

end Ddnnf
