/-
  Well-formedness of the array the d4 loader produces (part 8): one step of `balance` (phase 4).

  `balanceStep_dinv`: the child `child` of the or-node `nx` misses the (strictly ascending, non-empty) list
  `miss` of variables that `nx` mentions.  After `and(child, triangles of miss)` replaced one occurrence of
  `child`: `DInv` is kept, no old node mentions anything else than before, and the new and-node mentions
  exactly the variables of `child` and `miss`.  `BalStep` is the frame that is kept by a sequence of steps.
-/
import DdnnfVerif.Proofs.LoadWF2_7b

namespace Ddnnf.D4

/-- the frame of a sequence of balance steps at the or-node `nx` -/
structure BalStep (s s' : LState) (nx : Nat) : Prop where
  size : s.g.kind.size ≤ s'.g.kind.size
  kinds : ∀ x, x < s.g.kind.size → s'.g.kindOf x = s.g.kindOf x
  outs : ∀ x, x < s.g.kind.size → x ≠ nx → s'.g.outs.getD x [] = s.g.outs.getD x []
  ment : ∀ x, x < s.g.kind.size → ∀ f, Mentions s'.g x f ↔ Mentions s.g x f
  newOr : ∀ x, s.g.kind.size ≤ x → s'.g.kindOf x = some .or → ∃ e ∈ s'.tri, e.2 = x
  newOuts : ∀ x, s.g.kind.size ≤ x → ∀ c ∈ s'.g.outs.getD x [],
    s.g.kind.size ≤ c ∨ c ∈ s.g.outs.getD nx [] ∨ (∃ l, s'.g.kindOf c = some (.lit l)) ∨ ∃ e ∈ s'.tri, e.2 = c
  nxOuts : ∀ c ∈ s'.g.outs.getD nx [], s.g.kind.size ≤ c ∨ c ∈ s.g.outs.getD nx []
  triMono : ∀ e ∈ s.tri, e ∈ s'.tri
  total : s'.total = s.total
  /-- a model of the new graph, cut off, is a model of the old graph, and it counts as many true
  successors of `nx` as before -/
  sem : ∀ (σ : Assignment) (v' : Nat → Bool), Model σ s'.g v' →
    Model σ s.g (cut s.g.kind.size v') ∧
      (s'.g.outs.getD nx []).countP v' = (s.g.outs.getD nx []).countP v'

theorem model_cut_self {σ : Assignment} {g : G} {v : Nat → Bool} (hw : WFG g) (hm : Model σ g v) :
    Model σ g (cut g.kind.size v) := by
  intro x
  by_cases hx : x < g.kind.size
  · rw [cut_lt _ hx, hm x]
    exact stepV_congr σ g _ _ x (fun c hc => (cut_lt _ (hw.edges x c hc)).symm)
  · rw [cut_ge _ (by omega)]
    simp only [stepV, kindOf_of_ge g x (by omega)]

theorem BalStep.refl (s : LState) (nx : Nat) (hw : WFG s.g) : BalStep s s nx := by
  refine ⟨Nat.le_refl _, fun _ _ => rfl, fun _ _ _ => rfl, fun _ _ _ => Iff.rfl, ?_, ?_, fun c hc => Or.inr hc,
    fun _ h => h, rfl, fun σ v' hm => ⟨model_cut_self hw hm, rfl⟩⟩
  · intro x hx hk; rw [kindOf_of_ge s.g x hx] at hk; cases hk
  · intro x hx c hc; rw [outs_of_ge s.g x (by rw [hw.osz]; exact hx)] at hc; cases hc

theorem BalStep.trans {s s' s'' : LState} {nx : Nat} (hw : WFG s.g) (hw' : WFG s'.g)
    (hnx : nx < s.g.kind.size) (h1 : BalStep s s' nx)
    (h2 : BalStep s' s'' nx) : BalStep s s'' nx := by
  refine ⟨Nat.le_trans h1.size h2.size, ?_, ?_, ?_, ?_, ?_, ?_, fun e he => h2.triMono e (h1.triMono e he),
    h2.total.trans h1.total, ?_⟩
  rotate_right
  · intro σ v'' hm''
    obtain ⟨m', c'⟩ := h2.sem σ v'' hm''
    obtain ⟨m, c⟩ := h1.sem σ _ m'
    rw [cut_cut h1.size] at m
    refine ⟨m, ?_⟩
    have e1 : (s'.g.outs.getD nx []).countP (cut s'.g.kind.size v'') = (s'.g.outs.getD nx []).countP v'' :=
      List.countP_congr (fun x hx => by rw [cut_lt _ (hw'.edges nx x hx)])
    have e2 : (s.g.outs.getD nx []).countP (cut s'.g.kind.size v'') = (s.g.outs.getD nx []).countP v'' :=
      List.countP_congr (fun x hx => by rw [cut_lt _ (Nat.lt_of_lt_of_le (hw.edges nx x hx) h1.size)])
    rw [c', ← e1, c, e2]
  · intro x hx; rw [h2.kinds x (Nat.lt_of_lt_of_le hx h1.size), h1.kinds x hx]
  · intro x hx hxn; rw [h2.outs x (Nat.lt_of_lt_of_le hx h1.size) hxn, h1.outs x hx hxn]
  · intro x hx f; rw [h2.ment x (Nat.lt_of_lt_of_le hx h1.size), h1.ment x hx]
  · intro x hx hk
    by_cases hx' : s'.g.kind.size ≤ x
    · exact h2.newOr x hx' hk
    · have hlt : x < s'.g.kind.size := by omega
      rw [h2.kinds x hlt] at hk
      obtain ⟨e, he, ex⟩ := h1.newOr x hx hk
      exact ⟨e, h2.triMono e he, ex⟩
  · intro x hx c hc
    by_cases hx' : s'.g.kind.size ≤ x
    · rcases h2.newOuts x hx' c hc with h | h | h
      · exact Or.inl (Nat.le_trans h1.size h)
      · exact (h1.nxOuts c h).imp id Or.inl
      · exact Or.inr (Or.inr h)
    · have hlt : x < s'.g.kind.size := by omega
      rw [h2.outs x hlt (by omega)] at hc
      rcases h1.newOuts x hx c hc with h | h | ⟨l, hl⟩ | ⟨e, he, ex⟩
      · exact Or.inl h
      · exact Or.inr (Or.inl h)
      · exact Or.inr (Or.inr (Or.inl ⟨l, by rw [h2.kinds c (kindOf_lt hl)]; exact hl⟩))
      · exact Or.inr (Or.inr (Or.inr ⟨e, h2.triMono e he, ex⟩))
  · intro c hc
    rcases h2.nxOuts c hc with h | h
    · exact Or.inl (Nat.le_trans h1.size h)
    · exact h1.nxOuts c h

theorem sorted_nodup {l : List Nat} (h : l.Pairwise (· < ·)) : l.Nodup :=
  List.Pairwise.imp (fun h => Nat.ne_of_lt h) h

theorem balanceStep_dinv (s : LState) (nx child : Nat) (miss : List Nat) (hd : DInv s)
    (hnx : nx < s.g.kind.size) (hk : s.g.kindOf nx = some .or) (hch : child ∈ s.g.outs.getD nx [])
    (hne : miss ≠ []) (hm1 : ∀ f ∈ miss, Mentions s.g nx f ∧ ¬ Mentions s.g child f) :
    DInv (balanceStep true id nx s (child, miss)) ∧ BalStep s (balanceStep true id nx s (child, miss)) nx ∧
    (balanceStep true id nx s (child, miss)).g.outs.getD nx [] =
      s.g.kind.size :: (s.g.outs.getD nx []).erase child ∧
    s.g.kind.size < (balanceStep true id nx s (child, miss)).g.kind.size ∧
    (∀ f, Mentions (balanceStep true id nx s (child, miss)).g s.g.kind.size f ↔
      Mentions s.g child f ∨ f ∈ miss) := by
  have hwf := hd.b.p.linv.wf
  have hchild : child < s.g.kind.size := hwf.edges nx child hch
  have hedges : ∀ x, x < s.g.kind.size → ∀ c ∈ s.g.outs.getD x [], c < s.g.kind.size :=
    fun x _ c hc => hwf.edges x c hc
  -- the state after the new and-node was inserted
  have hsz := addNode_size s.g .and
  have w1 : WFn (s.g.kind.size + 1) (s.g.addNode .and).1 := ⟨addNode_wf _ _ hwf, hsz⟩
  have w2 : WFn (s.g.kind.size + 1) ((s.g.addNode .and).1.removeEdge nx child) :=
    ⟨removeEdge_wf _ _ _ w1.1, w1.2⟩
  have w3 := addEdge_wfn _ _ nx s.g.kind.size w2 (Nat.lt_succ_self _)
  have w4 := addEdge_wfn _ _ s.g.kind.size child w3 (by omega)
  have hwi : WFG (insertAnd s.g nx child) := w4.1
  have hszi : (insertAnd s.g nx child).kind.size = s.g.kind.size + 1 := insertAnd_size s.g nx child
  have hlinv : LInv { s with g := insertAnd s.g nx child } :=
    hd.b.p.linv.setG _ hwi (by rw [hszi]; exact Nat.le_succ _)
  have hki : ∀ x, x < s.g.kind.size → (insertAnd s.g nx child).kindOf x = s.g.kindOf x := by
    intro x hx; rw [insertAnd_kindOf, if_neg (Nat.ne_of_lt hx)]
  have hkmono : ∀ x k, s.g.kindOf x = some k → (insertAnd s.g nx child).kindOf x = some k := by
    intro x k h; rw [hki x (kindOf_lt h)]; exact h
  have hkn : (insertAnd s.g nx child).kindOf s.g.kind.size = some .and := by
    rw [insertAnd_kindOf, if_pos rfl]
  have hoi := fun x => insertAnd_outs s.g nx child x hwf hnx
  have hoold : ∀ x, x < s.g.kind.size → x ≠ nx →
      (insertAnd s.g nx child).outs.getD x [] = s.g.outs.getD x [] := by
    intro x hx hxn; rw [hoi, if_neg (Nat.ne_of_lt hx), if_neg hxn]
  have honx : (insertAnd s.g nx child).outs.getD nx [] = s.g.kind.size :: (s.g.outs.getD nx []).erase child := by
    rw [hoi, if_neg (Nat.ne_of_lt hnx), if_pos rfl]
  have hon : (insertAnd s.g nx child).outs.getD s.g.kind.size [] = [child] := by rw [hoi, if_pos rfl]
  obtain ⟨mold, mnew⟩ := mentions_insertAnd (g := s.g) (g' := insertAnd s.g nx child) hedges hki hoold hnx hch
    honx hkn hon
  -- `nx` is not a registered triangle
  obtain ⟨f0, hf0⟩ := List.exists_mem_of_ne_nil miss hne
  have hnotri : ∀ e ∈ s.tri, e.2 ≠ nx := by
    intro e he e1
    have ht := hd.b.tri e he
    rw [e1] at ht
    obtain ⟨h1, h2⟩ := hm1 f0 hf0
    have e2 := (mentions_tri ht f0).1 h1
    exact h2 ((ht.kids child hch f0).2 e2)
  have di : DInv { s with g := insertAnd s.g nx child } := by
    refine ⟨⟨⟨hlinv, fun e he => hkmono _ _ (hd.b.p.litK e he)⟩, ?_, ?_, ?_⟩, ?_⟩
    · intro e he
      exact (hd.b.tri e he).congr hkmono (hoold _ (hd.b.p.linv.tri e he) (hnotri e he))
    · intro x l hkx
      have hkx' : (insertAnd s.g nx child).kindOf x = some (.lit l) := hkx
      rw [insertAnd_kindOf] at hkx'
      split at hkx'
      · cases hkx'
      · exact hd.b.litR x l hkx'
    · intro x l hkx
      have hkx' : (insertAnd s.g nx child).kindOf x = some (.lit l) := hkx
      show (insertAnd s.g nx child).outs.getD x [] = []
      rw [insertAnd_kindOf] at hkx'
      split at hkx'
      · cases hkx'
      · have hx : x < s.g.kind.size := kindOf_lt hkx'
        have hxnx : x ≠ nx := by intro e; rw [e, hk] at hkx'; cases hkx'
        rw [hoold x hx hxnx]; exact hd.b.litSink x l hkx'
    · intro x hkx
      have hkx' : (insertAnd s.g nx child).kindOf x = some .and := hkx
      show ((insertAnd s.g nx child).outs.getD x []).Pairwise _
      by_cases hxn : x = s.g.kind.size
      · rw [hxn, hon]; exact List.pairwise_singleton _ _
      · rw [insertAnd_kindOf, if_neg hxn] at hkx'
        have hx : x < s.g.kind.size := kindOf_lt hkx'
        have hxnx : x ≠ nx := by intro e; rw [e, hk] at hkx'; cases hkx'
        rw [hoold x hx hxnx]
        refine List.Pairwise.imp_of_mem ?_ (hd.dec x hkx')
        intro c d hcm hdm hdis f h1 h2
        exact hdis f ((mold c (hedges x hx c hcm) f).1 h1) ((mold d (hedges x hx d hdm) f).1 h2)
  -- the triangles
  have hordm : ∀ f, f ∈ sortNat miss ↔ f ∈ miss := mem_sortNat miss
  have hA : s.g.kind.size < ({ s with g := insertAnd s.g nx child } : LState).g.kind.size := by
    show s.g.kind.size < (insertAnd s.g nx child).kind.size
    rw [hszi]; exact Nat.lt_succ_self _
  have hrange : ∀ f ∈ sortNat miss, 1 ≤ f ∧ f ≤ s.total := by
    intro f hf
    obtain ⟨y, l, hyl, e⟩ := (hm1 f ((hordm f).1 hf)).1.leaf
    rw [← e]; exact hd.b.litR y l hyl
  have hparents : ∀ y, s.g.kind.size ∈ (insertAnd s.g nx child).outs.getD y [] → y = nx := by
    intro y hy
    rw [hoi] at hy
    split at hy
    · rcases List.mem_cons.1 hy with e | hy
      · omega
      · cases hy
    · split at hy
      · rename_i h; exact h
      · by_cases hys : y < s.g.kind.size
        · have := hedges y hys _ hy; omega
        · rw [outs_of_ge s.g y (by rw [hwf.osz]; omega)] at hy; cases hy
  obtain ⟨d2, a2, m2⟩ := addTriangles_dinv s.g.kind.size (sortNat miss) { s with g := insertAnd s.g nx child } di
    hrange hA hkn (sorted_nodup (sortNat_sorted miss))
    (fun f hf hm => (hm1 f ((hordm f).1 hf)).2 ((mnew f).1 hm))
    (fun y hy => by
      have e := hparents y hy
      rw [e]
      refine ⟨?_, fun f hf => (mold _ hnx f).2 (hm1 f ((hordm f).1 hf)).1⟩
      show (insertAnd s.g nx child).kindOf nx ≠ some .and
      rw [hki nx hnx, hk]; intro h; cases h)
  have hres : balanceStep true id nx s (child, miss) =
      (sortNat miss).foldl (fun (t : LState) f => t.addTriangle f s.g.kind.size)
        ({ s with g := insertAnd s.g nx child } : LState) := by
    rw [balanceStep_eq]; rfl
  rw [hres]
  have hsize2 : (insertAnd s.g nx child).kind.size ≤
      ((sortNat miss).foldl (fun (t : LState) f => t.addTriangle f s.g.kind.size)
        ({ s with g := insertAnd s.g nx child } : LState)).g.kind.size := a2.size
  refine ⟨d2, ?_, ?_, by omega, ?_⟩
  · refine ⟨by omega, ?_, ?_, ?_, ?_, ?_, ?_, a2.triMono, a2.total, ?_⟩
    rotate_right
    · intro σ v' hm'
      have hmi : Model σ (insertAnd s.g nx child) (cut (s.g.kind.size + 1) v') := by
        have := model_cut_addStep a2 d2.b hwi hA hkn hm'
        rw [show ({ s with g := insertAnd s.g nx child } : LState).g.kind.size = s.g.kind.size + 1 from hszi]
          at this
        exact this
      have hm0 := model_cut_insertAnd hwf hnx hk hch hmi
      rw [cut_cut (Nat.le_succ _)] at hm0
      refine ⟨hm0, ?_⟩
      -- the new and-node has the value of `child`
      have hkn' : ((sortNat miss).foldl (fun (t : LState) f => t.addTriangle f s.g.kind.size)
          ({ s with g := insertAnd s.g nx child } : LState)).g.kindOf s.g.kind.size = some .and := by
        rw [a2.kinds _ hA]; exact hkn
      have hvn : v' s.g.kind.size = v' child := by
        rw [hm'.and hkn']
        cases hvc : v' child with
        | false =>
          apply all_false_of_mem _ hvc
          apply a2.attachSup
          show child ∈ (insertAnd s.g nx child).outs.getD s.g.kind.size []
          rw [hon]; exact List.mem_cons_self ..
        | true =>
          rw [List.all_eq_true]
          intro c hc
          rcases a2.attachSub c hc with h | ⟨e, he, ex⟩
          · have h' : c ∈ (insertAnd s.g nx child).outs.getD s.g.kind.size [] := h
            rw [hon] at h'
            rcases List.mem_cons.1 h' with e | h'
            · rw [e]; exact hvc
            · cases h'
          · rw [← ex]; exact tri_true hm' (d2.b.tri e he)
      rw [a2.outs nx (by show nx < (insertAnd s.g nx child).kind.size; omega) (by omega)]
      show ((insertAnd s.g nx child).outs.getD nx []).countP v' = _
      rw [honx, List.countP_cons, hvn, (List.perm_cons_erase hch).countP_eq, List.countP_cons]
    · intro x hx
      rw [a2.kinds x (by show x < (insertAnd s.g nx child).kind.size; omega)]; exact hki x hx
    · intro x hx hxn
      rw [a2.outs x (by show x < (insertAnd s.g nx child).kind.size; omega) (by omega)]; exact hoold x hx hxn
    · intro x hx f
      rw [m2 x (by show x < (insertAnd s.g nx child).kind.size; omega) f]
      constructor
      · rintro (h | ⟨e, _⟩)
        · exact (mold x hx f).1 h
        · omega
      · intro h; exact Or.inl ((mold x hx f).2 h)
    · intro x hx hkx
      by_cases hxn : x = s.g.kind.size
      · rw [hxn, a2.kinds _ hA] at hkx
        have : (insertAnd s.g nx child).kindOf s.g.kind.size = some .or := hkx
        rw [hkn] at this; cases this
      · exact a2.newOr x (by show (insertAnd s.g nx child).kind.size ≤ x; omega) hkx
    · intro x hx c hc
      by_cases hxn : x = s.g.kind.size
      · subst hxn
        rcases a2.attachSub c hc with h | hreg
        · have h' : c ∈ (insertAnd s.g nx child).outs.getD s.g.kind.size [] := h
          rw [hon] at h'
          rcases List.mem_cons.1 h' with e | h'
          · right; left; rw [e]; exact hch
          · cases h'
        · exact Or.inr (Or.inr (Or.inr hreg))
      · obtain ⟨l, hl⟩ := a2.newOuts x (by show (insertAnd s.g nx child).kind.size ≤ x; omega) c hc
        exact Or.inr (Or.inr (Or.inl ⟨l, hl⟩))
    · intro c hc
      rw [a2.outs nx (by show nx < (insertAnd s.g nx child).kind.size; omega) (by omega)] at hc
      have hc' : c ∈ (insertAnd s.g nx child).outs.getD nx [] := hc
      rw [honx] at hc'
      rcases List.mem_cons.1 hc' with e | hc'
      · left; omega
      · right; exact List.mem_of_mem_erase hc'
  · rw [a2.outs nx (by show nx < (insertAnd s.g nx child).kind.size; omega) (by omega)]
    exact honx
  · intro f
    rw [m2 _ hA f]
    constructor
    · rintro (h | ⟨_, h⟩)
      · exact Or.inl ((mnew f).1 h)
      · exact Or.inr ((hordm f).1 h)
    · rintro (h | h)
      · exact Or.inl ((mnew f).2 h)
      · exact Or.inr ⟨rfl, (hordm f).2 h⟩

/-- balance steps keep determinism -/
theorem gdet_balStep {s s' : LState} {nx : Nat} (b : BalStep s s' nx) (hb' : BInv s') (hw : WFG s.g)
    (hg : GDet s.g) : GDet s'.g := by
  intro σ v' hm x hk
  obtain ⟨m, c⟩ := b.sem σ v' hm
  by_cases hx : x < s.g.kind.size
  · have hk0 : s.g.kindOf x = some .or := by rw [← b.kinds x hx]; exact hk
    have h1 := hg σ _ m x hk0
    have e : (s.g.outs.getD x []).countP (cut s.g.kind.size v') = (s.g.outs.getD x []).countP v' :=
      List.countP_congr (fun c hc => by rw [cut_lt _ (hw.edges x c hc)])
    by_cases hxn : x = nx
    · subst hxn; rw [c, ← e]; exact h1
    · rw [b.outs x hx hxn, ← e]; exact h1
  · obtain ⟨e, he, ex⟩ := b.newOr x (by omega) hk
    rw [← ex]
    exact tri_det hm (hb'.tri e he)

end Ddnnf.D4
