/-
  C01 (structure of the loaded array): facts about the model of petgraph's `DfsPostOrder` and about
  `flattenGraph`, for every graph.
-/
import DdnnfVerif.Proofs.LoadOrder

namespace Ddnnf.D4

/-! ### one iteration of the DFS loop -/

def dfsStep (outs : Array (List Nat)) (d : Dfs) : Dfs :=
  match d.stack with
  | [] => d
  | nx :: rest =>
      if !d.discovered.getD nx true then
        let disc := d.discovered.setIfInBounds nx true
        let st := (outs.getD nx []).foldl (fun st s => if !disc.getD s true then s :: st else st) d.stack
        { d with discovered := disc, stack := st }
      else if !d.finished.getD nx true then
        { d with stack := rest, finished := d.finished.setIfInBounds nx true, order := d.order.push nx }
      else { d with stack := rest }

theorem dfsLoop_succ (outs : Array (List Nat)) (fuel : Nat) (d : Dfs) :
    dfsLoop outs (fuel + 1) d = if d.stack = [] then d else dfsLoop outs fuel (dfsStep outs d) := by
  rw [dfsLoop]
  unfold dfsStep
  split
  · rename_i h; simp [h]
  · rename_i nx rest h
    simp only [h, reduceCtorEq, if_false]
    split
    · rfl
    · split <;> rfl

theorem foldl_push (p : Nat → Bool) (l st : List Nat) :
    l.foldl (fun st s => if p s then s :: st else st) st = (l.filter p).reverse ++ st := by
  induction l generalizing st with
  | nil => rfl
  | cons a l ih =>
    rw [List.foldl_cons, ih, List.filter_cons]
    split <;> simp

/-- the successors pushed when `nx` is discovered -/
def pushed (outs : Array (List Nat)) (disc : Array Bool) (nx : Nat) : List Nat :=
  ((outs.getD nx []).filter (fun s => !(disc.setIfInBounds nx true).getD s true)).reverse

theorem dfsStep_cases (outs : Array (List Nat)) (d : Dfs) (nx : Nat) (rest : List Nat)
    (hs : d.stack = nx :: rest) :
    (d.discovered.getD nx true = false ∧
      dfsStep outs d = { d with discovered := d.discovered.setIfInBounds nx true,
                                stack := pushed outs d.discovered nx ++ nx :: rest }) ∨
    (d.discovered.getD nx true = true ∧ d.finished.getD nx true = false ∧
      dfsStep outs d = { d with stack := rest, finished := d.finished.setIfInBounds nx true,
                                order := d.order.push nx }) ∨
    (d.discovered.getD nx true = true ∧ d.finished.getD nx true = true ∧
      dfsStep outs d = { d with stack := rest }) := by
  unfold dfsStep
  simp only [hs]
  cases h1 : d.discovered.getD nx true
  · left
    refine ⟨rfl, ?_⟩
    simp only [Bool.not_false, if_true, pushed]
    rw [foldl_push (fun s => !(d.discovered.setIfInBounds nx true).getD s true)]
  · right
    cases h2 : d.finished.getD nx true
    · left; simp
    · right; simp

/-- an invariant of the loop body is an invariant of the loop -/
theorem dfsLoop_inv (outs : Array (List Nat)) (P : Dfs → Prop)
    (hstep : ∀ d nx rest, d.stack = nx :: rest → P d → P (dfsStep outs d)) :
    ∀ fuel d, P d → P (dfsLoop outs fuel d) := by
  intro fuel
  induction fuel with
  | zero => intro d h; exact h
  | succ fuel ih =>
    intro d h
    rw [dfsLoop_succ]
    split
    · exact h
    · rename_i hne
      cases hs : d.stack with
      | nil => exact absurd hs hne
      | cons nx rest => exact ih _ (hstep d nx rest hs h)

/-! ### the basic invariant: `order` lists the finished nodes, once each -/

structure Inv1 (n : Nat) (d : Dfs) : Prop where
  dsz : d.discovered.size = n
  fsz : d.finished.size = n
  nodup : d.order.toList.Nodup
  ord_iff : ∀ x, x ∈ d.order.toList ↔ (x < n ∧ d.finished.getD x true = true)

theorem getD_lt_of_ne {a : Array Bool} {x : Nat} {b : Bool} (h : a.getD x b = !b) : x < a.size := by
  apply Classical.byContradiction
  intro hx
  rw [Array.getD_eq_getD_getElem?, Array.getElem?_eq_none (by omega)] at h
  cases b <;> simp at h

theorem inv1_step (outs : Array (List Nat)) (n : Nat) (d : Dfs) (nx : Nat) (rest : List Nat)
    (hs : d.stack = nx :: rest) (h : Inv1 n d) : Inv1 n (dfsStep outs d) := by
  rcases dfsStep_cases outs d nx rest hs with ⟨_, e⟩ | ⟨_, h2, e⟩ | ⟨_, _, e⟩ <;> rw [e]
  · exact ⟨by simp [h.dsz], h.fsz, h.nodup, h.ord_iff⟩
  · have hnx : nx < n := by have := getD_lt_of_ne (b := true) h2; rw [h.fsz] at this; exact this
    have hnot : nx ∉ d.order.toList := by
      intro hm; have := ((h.ord_iff nx).1 hm).2; rw [h2] at this; cases this
    refine ⟨h.dsz, by simp [h.fsz], ?_, ?_⟩
    · show (d.order.push nx).toList.Nodup
      rw [Array.toList_push]
      exact List.nodup_append.2 ⟨h.nodup, by simp, by
        intro a ha b hb; simp at hb; subst hb; intro e; subst e; exact hnot ha⟩
    · intro x
      show x ∈ (d.order.push nx).toList ↔ (x < n ∧ (d.finished.setIfInBounds nx true).getD x true = true)
      rw [Array.toList_push, List.mem_append, List.mem_singleton, getD_setIfInBounds, h.ord_iff, h.fsz]
      by_cases hx : nx = x
      · subst hx; simp [hnx]
      · have : ¬ x = nx := fun e => hx e.symm
        simp [hx, this]
  · exact ⟨h.dsz, h.fsz, h.nodup, h.ord_iff⟩

theorem inv1_init (n root : Nat) :
    Inv1 n { stack := [root], discovered := Array.replicate n false,
             finished := Array.replicate n false, order := #[] } := by
  refine ⟨by simp, by simp, by simp, ?_⟩
  intro x
  simp only [getD_replicate]
  by_cases hx : x < n <;> simp [hx]

def edgeCount (g : G) : Nat := (g.outs.toList.map List.length).foldl (· + ·) 0

/-- the initial state of `postOrder` -/
def dfsInit (n root : Nat) : Dfs :=
  { stack := [root], discovered := Array.replicate n false, finished := Array.replicate n false, order := #[] }

theorem postOrder_eq (g : G) (root : Nat) :
    postOrder g root =
      (dfsLoop g.outs (2 * (g.kind.size + edgeCount g) + 2) (dfsInit g.kind.size root)).order.toList := rfl

theorem postOrder_inv1 (g : G) (root : Nat) :
    Inv1 g.kind.size (dfsLoop g.outs (2 * (g.kind.size + edgeCount g) + 2) (dfsInit g.kind.size root)) :=
  dfsLoop_inv g.outs (Inv1 g.kind.size) (inv1_step g.outs g.kind.size) _ _ (inv1_init _ _)

/-- every node is emitted at most once -/
theorem postOrder_nodup (g : G) (root : Nat) : (postOrder g root).Nodup :=
  (postOrder_inv1 g root).nodup

/-- only nodes of the graph are emitted -/
theorem postOrder_lt (g : G) (root : Nat) : ∀ x ∈ postOrder g root, x < g.kind.size :=
  fun x hx => (((postOrder_inv1 g root).ord_iff x).1 hx).1

/-! ### children are emitted before their parents (acyclic graphs) -/

/-- discovered and not yet emitted -/
def Gray (d : Dfs) (x : Nat) : Prop := d.discovered.getD x true = true ∧ d.finished.getD x true = false

structure Inv2 (outs : Array (List Nat)) (r : Nat → Nat) (d : Dfs) : Prop where
  child_first : ∀ pre x post, d.order.toList = pre ++ x :: post → ∀ c ∈ outs.getD x [], c ∈ pre
  gray_stack : ∀ x, Gray d x → x ∈ d.stack
  gray_children : ∀ x, Gray d x → ∀ above below, d.stack = above ++ x :: below → x ∉ above →
      ∀ c ∈ outs.getD x [], c ∈ d.order.toList ∨ c ∈ above
  gray_rank : ∀ x, Gray d x → ∀ above below, d.stack = above ++ x :: below → x ∉ above →
      ∀ y ∈ above, r y < r x

theorem split_prefix {x : Nat} {p s above below : List Nat} (hx : x ∉ p)
    (h : p ++ s = above ++ x :: below) : ∃ as, above = p ++ as ∧ s = as ++ x :: below := by
  rw [List.append_eq_append_iff] at h
  rcases h with ⟨as, h1, h2⟩ | ⟨bs, h1, h2⟩
  · exact ⟨as, h1, h2⟩
  · cases bs with
    | nil => exact ⟨[], by simpa using h1.symm, by simpa using h2.symm⟩
    | cons b bs =>
      simp only [List.cons_append, List.cons.injEq] at h2
      exact absurd (by rw [h1, h2.1]; simp) hx

theorem snoc_split {l pre post : List Nat} {x nx : Nat} (h : l ++ [nx] = pre ++ x :: post) :
    (post = [] ∧ x = nx ∧ pre = l) ∨ ∃ post', post = post' ++ [nx] ∧ l = pre ++ x :: post' := by
  rcases List.eq_nil_or_concat post with e | ⟨L, b, e⟩
  · subst e
    have : pre ++ [x] = l ++ [nx] := h.symm
    have := List.append_inj' this rfl
    left; exact ⟨rfl, by simpa using this.2, this.1⟩
  · subst e
    have h' : l ++ [nx] = (pre ++ x :: L) ++ [b] := by simpa using h
    have := List.append_inj' h' rfl
    right; refine ⟨L, ?_, this.1⟩
    have : nx = b := by simpa using this.2
    rw [this]; simp

theorem mem_pushed (outs : Array (List Nat)) (disc : Array Bool) (nx y : Nat) :
    y ∈ pushed outs disc nx ↔ y ∈ outs.getD nx [] ∧ (disc.setIfInBounds nx true).getD y true = false := by
  simp [pushed]

theorem inv2_step (outs : Array (List Nat)) (n : Nat) (r : Nat → Nat)
    (hwf : ∀ x, ∀ c ∈ outs.getD x [], c < n) (hacyc : ∀ x, ∀ c ∈ outs.getD x [], r c < r x)
    (d : Dfs) (nx : Nat) (rest : List Nat) (hs : d.stack = nx :: rest) (h1 : Inv1 n d)
    (h2 : Inv2 outs r d) : Inv2 outs r (dfsStep outs d) := by
  -- a gray node other than the top of the stack lies strictly below it, so it outranks the top
  have htop : ∀ c, Gray d c → c ≠ nx → r nx < r c := by
    intro c hg hne
    obtain ⟨as, bs, e, hna⟩ := List.eq_append_cons_of_mem (h2.gray_stack c hg)
    rw [hs] at e
    cases as with
    | nil => simp at e; exact absurd e.1.symm hne
    | cons a as =>
      have ha : nx = a := by simp at e; exact e.1
      subst ha
      exact h2.gray_rank c hg _ _ (hs.trans e) hna nx (List.mem_cons_self ..)
  -- a split of the old stack at a node other than the top
  have hsplit : ∀ {x as below}, nx :: rest = as ++ x :: below → x ≠ nx →
      ∃ as', as = nx :: as' ∧ rest = as' ++ x :: below := by
    intro x as below e hne
    cases as with
    | nil => simp at e; exact absurd e.1.symm hne
    | cons a as => simp at e; exact ⟨as, by rw [e.1], e.2⟩
  rcases dfsStep_cases outs d nx rest hs with ⟨hw, e⟩ | ⟨hd, hf, e⟩ | ⟨hd, hf, e⟩ <;> rw [e]
  · -- `nx` is discovered
    have hnxlt : nx < d.discovered.size := getD_lt_of_ne (b := true) hw
    have hold : ∀ x, (d.discovered.setIfInBounds nx true).getD x true = true → x ≠ nx →
        d.discovered.getD x true = true := by
      intro x hx hne
      rw [getD_setIfInBounds] at hx
      have : ¬ (nx = x ∧ x < d.discovered.size) := fun h => hne h.1.symm
      simpa [this] using hx
    have hnp : ∀ x, (d.discovered.setIfInBounds nx true).getD x true = true →
        x ∉ pushed outs d.discovered nx := by
      intro x hx hm
      rw [mem_pushed, hx] at hm
      exact absurd hm.2 (by simp)
    have hpr : ∀ y ∈ pushed outs d.discovered nx, r y < r nx :=
      fun y hy => hacyc nx y ((mem_pushed ..).1 hy).1
    refine ⟨h2.child_first, ?_, ?_, ?_⟩
    · intro x hg
      obtain ⟨g1, g2⟩ := hg
      dsimp only at g1 g2 ⊢
      by_cases hx : x = nx
      · subst hx; simp
      · have := h2.gray_stack x ⟨hold x g1 hx, g2⟩
        rw [hs] at this
        exact List.mem_append_right _ this
    · intro x hg above below hst hna c hc
      obtain ⟨g1, g2⟩ := hg
      dsimp only at g1 g2 hst ⊢
      obtain ⟨as, ha, hrest⟩ := split_prefix (hnp x g1) hst
      by_cases hx : x = nx
      · subst hx
        have has : as = [] := by
          cases as with
          | nil => rfl
          | cons a as =>
            simp at hrest
            exact absurd (by rw [ha, ← hrest.1]; simp) hna
        subst has
        by_cases hcw : (d.discovered.setIfInBounds x true).getD c true = false
        · right; rw [ha, List.append_nil]; exact (mem_pushed ..).2 ⟨hc, hcw⟩
        · have hcd : (d.discovered.setIfInBounds x true).getD c true = true := by simpa using hcw
          have hcn : c < n := hwf x c hc
          have hcx : c ≠ x := by
            intro e; subst e; exact absurd (hacyc c c hc) (Nat.lt_irrefl _)
          have hcd' := hold c hcd hcx
          by_cases hcf : d.finished.getD c true = true
          · left; exact (h1.ord_iff c).2 ⟨hcn, hcf⟩
          · have hcf' : d.finished.getD c true = false := by simpa using hcf
            have := htop c ⟨hcd', hcf'⟩ hcx
            have := hacyc x c hc
            omega
      · obtain ⟨as', e1, e2⟩ := hsplit hrest hx
        have hna' : x ∉ as := fun hm => hna (by rw [ha]; exact List.mem_append_right _ hm)
        rcases h2.gray_children x ⟨hold x g1 hx, g2⟩ as below (hs.trans hrest) hna' c hc with h | h
        · exact Or.inl h
        · right; rw [ha]; exact List.mem_append_right _ h
    · intro x hg above below hst hna y hy
      obtain ⟨g1, g2⟩ := hg
      dsimp only at g1 g2 hst
      obtain ⟨as, ha, hrest⟩ := split_prefix (hnp x g1) hst
      rw [ha] at hy
      by_cases hx : x = nx
      · subst hx
        have has : as = [] := by
          cases as with
          | nil => rfl
          | cons a as =>
            simp at hrest
            exact absurd (by rw [ha, ← hrest.1]; simp) hna
        subst has
        exact hpr y (by simpa using hy)
      · obtain ⟨as', e1, e2⟩ := hsplit hrest hx
        have hna' : x ∉ as := fun hm => hna (by rw [ha]; exact List.mem_append_right _ hm)
        have hgx : Gray d x := ⟨hold x g1 hx, g2⟩
        rcases List.mem_append.1 hy with hy | hy
        · have := hpr y hy
          have := htop x hgx hx
          omega
        · exact h2.gray_rank x hgx as below (hs.trans hrest) hna' y hy
  · -- `nx` is emitted
    have hgnx : Gray d nx := ⟨hd, hf⟩
    have hold : ∀ x, (d.finished.setIfInBounds nx true).getD x true = false →
        x ≠ nx ∧ d.finished.getD x true = false := by
      intro x hx
      rw [getD_setIfInBounds] at hx
      by_cases hc : nx = x ∧ x < d.finished.size
      · simp [hc] at hx
      · simp only [hc, if_false] at hx
        refine ⟨?_, hx⟩
        intro e; subst e
        exact hc ⟨rfl, getD_lt_of_ne (b := true) hx⟩
    refine ⟨?_, ?_, ?_, ?_⟩
    · intro pre x post ho c hc
      dsimp only at ho
      rw [Array.toList_push] at ho
      rcases snoc_split ho with ⟨_, e1, e2⟩ | ⟨post', _, e2⟩
      · subst e1 e2
        rcases h2.gray_children x hgnx [] rest (by simpa using hs) (by simp) c hc with h | h
        · exact h
        · simp at h
      · exact h2.child_first pre x post' e2 c hc
    · intro x hg
      obtain ⟨g1, g2⟩ := hg
      dsimp only at g1 g2 ⊢
      obtain ⟨hne, g2'⟩ := hold x g2
      have := h2.gray_stack x ⟨g1, g2'⟩
      rw [hs] at this
      rcases List.mem_cons.1 this with e | h
      · exact absurd e hne
      · exact h
    · intro x hg above below hst hna c hc
      obtain ⟨g1, g2⟩ := hg
      dsimp only at g1 g2 hst ⊢
      obtain ⟨hne, g2'⟩ := hold x g2
      rw [Array.toList_push]
      have hna' : x ∉ nx :: above := by
        intro hm; rcases List.mem_cons.1 hm with e | hm
        · exact hne e
        · exact hna hm
      rcases h2.gray_children x ⟨g1, g2'⟩ (nx :: above) below (by rw [hs, hst]; rfl) hna' c hc with h | h
      · left; exact List.mem_append_left _ h
      · rcases List.mem_cons.1 h with e | h
        · left; rw [e]; simp
        · right; exact h
    · intro x hg above below hst hna y hy
      obtain ⟨g1, g2⟩ := hg
      dsimp only at g1 g2 hst
      obtain ⟨hne, g2'⟩ := hold x g2
      have hna' : x ∉ nx :: above := by
        intro hm; rcases List.mem_cons.1 hm with e | hm
        · exact hne e
        · exact hna hm
      exact h2.gray_rank x ⟨g1, g2'⟩ (nx :: above) below (by rw [hs, hst]; rfl) hna' y
        (List.mem_cons_of_mem _ hy)
  · -- a stale stack entry is dropped
    have hne : ∀ x, Gray d x → x ≠ nx := by
      intro x hg e; subst e; rw [hg.2] at hf; cases hf
    refine ⟨h2.child_first, ?_, ?_, ?_⟩
    · intro x hg
      have hg' : Gray d x := hg
      have := h2.gray_stack x hg'
      rw [hs] at this
      rcases List.mem_cons.1 this with e | h
      · exact absurd e (hne x hg')
      · exact h
    · intro x hg above below hst hna c hc
      have hg' : Gray d x := hg
      dsimp only at hst ⊢
      have hna' : x ∉ nx :: above := by
        intro hm; rcases List.mem_cons.1 hm with e | hm
        · exact hne x hg' e
        · exact hna hm
      rcases h2.gray_children x hg' (nx :: above) below (by rw [hs, hst]; rfl) hna' c hc with h | h
      · exact Or.inl h
      · rcases List.mem_cons.1 h with e | h
        · left; subst e; exact (h1.ord_iff c).2 ⟨hwf x c hc, hf⟩
        · exact Or.inr h
    · intro x hg above below hst hna y hy
      have hg' : Gray d x := hg
      dsimp only at hst
      have hna' : x ∉ nx :: above := by
        intro hm; rcases List.mem_cons.1 hm with e | hm
        · exact hne x hg' e
        · exact hna hm
      exact h2.gray_rank x hg' (nx :: above) below (by rw [hs, hst]; rfl) hna' y
        (List.mem_cons_of_mem _ hy)

theorem inv2_init (outs : Array (List Nat)) (r : Nat → Nat) (n root : Nat) :
    Inv2 outs r (dfsInit n root) := by
  have hng : ∀ x, ¬ Gray (dfsInit n root) x := by
    intro x hg
    obtain ⟨g1, g2⟩ := hg
    simp only [dfsInit, getD_replicate] at g1 g2
    by_cases hx : x < n <;> simp [hx] at g1 g2
  refine ⟨?_, fun x hg => absurd hg (hng x), fun x hg => absurd hg (hng x), fun x hg => absurd hg (hng x)⟩
  intro pre x post ho
  simp [dfsInit] at ho

/-- For an acyclic graph whose edges stay inside the node array: every successor of an emitted
node is emitted strictly earlier.  (No assumption on the fuel: this holds for every prefix of the
run.)  Acyclicity is given by a rank function that decreases along every edge. -/
theorem postOrder_children_before (g : G) (root : Nat) (r : Nat → Nat)
    (hwf : ∀ x, ∀ c ∈ g.outs.getD x [], c < g.kind.size)
    (hacyc : ∀ x, ∀ c ∈ g.outs.getD x [], r c < r x) :
    ∀ pre x post, postOrder g root = pre ++ x :: post → ∀ c ∈ g.outs.getD x [], c ∈ pre := by
  have key : Inv1 g.kind.size (dfsLoop g.outs (2 * (g.kind.size + edgeCount g) + 2) (dfsInit g.kind.size root)) ∧
      Inv2 g.outs r (dfsLoop g.outs (2 * (g.kind.size + edgeCount g) + 2) (dfsInit g.kind.size root)) :=
    dfsLoop_inv g.outs (fun d => Inv1 g.kind.size d ∧ Inv2 g.outs r d)
      (fun d nx rest hs h => ⟨inv1_step g.outs _ d nx rest hs h.1,
        inv2_step g.outs _ r hwf hacyc d nx rest hs h.1 h.2⟩) _ _
      ⟨inv1_init _ _, inv2_init _ _ _ _⟩
  intro pre x post e
  exact key.2.child_first pre x post (by rw [← postOrder_eq]; exact e)

theorem postOrder_children_first (g : G) (root : Nat) (r : Nat → Nat)
    (hwf : ∀ x, ∀ c ∈ g.outs.getD x [], c < g.kind.size)
    (hacyc : ∀ x, ∀ c ∈ g.outs.getD x [], r c < r x) :
    ∀ x ∈ postOrder g root, ∀ c ∈ g.outs.getD x [],
      ∃ pre post, postOrder g root = pre ++ x :: post ∧ c ∈ pre := by
  intro x hx c hc
  obtain ⟨pre, post, e⟩ := List.append_of_mem hx
  exact ⟨pre, post, e, postOrder_children_before g root r hwf hacyc pre x post e c hc⟩

/-- index form: the successors of the node at position `i` sit at positions `< i` -/
theorem postOrder_children_index (g : G) (root : Nat) (r : Nat → Nat)
    (hwf : ∀ x, ∀ c ∈ g.outs.getD x [], c < g.kind.size)
    (hacyc : ∀ x, ∀ c ∈ g.outs.getD x [], r c < r x)
    (i : Nat) (hi : i < (postOrder g root).length) :
    ∀ c ∈ g.outs.getD (postOrder g root)[i] [],
      ∃ j, ∃ hj : j < (postOrder g root).length, j < i ∧ (postOrder g root)[j] = c := by
  intro c hc
  have e : postOrder g root =
      (postOrder g root).take i ++ (postOrder g root)[i] :: (postOrder g root).drop (i + 1) := by
    rw [List.getElem_cons_drop, List.take_append_drop]
  have := postOrder_children_before g root r hwf hacyc _ _ _ e c hc
  obtain ⟨j, hm, ej⟩ := List.mem_take_iff_getElem.1 this
  exact ⟨j, by omega, by omega, ej⟩

/-! ### `flattenGraph` -/

theorem flattenGraph_length (g : G) (root : Nat) :
    (flattenGraph g root).length = (postOrder g root).length := by
  simp [flattenGraph]

theorem foldl_set_size (ps : List (Nat × Nat)) (a : Array Nat) :
    (ps.foldl (fun a p => a.setIfInBounds p.1 p.2) a).size = a.size := by
  induction ps generalizing a with
  | nil => rfl
  | cons p ps ih => rw [List.foldl_cons, ih, Array.size_setIfInBounds]

theorem foldl_set_getD_not_mem (ps : List (Nat × Nat)) (a : Array Nat) (x d : Nat)
    (hx : x ∉ ps.map Prod.fst) :
    (ps.foldl (fun a p => a.setIfInBounds p.1 p.2) a).getD x d = a.getD x d := by
  induction ps generalizing a with
  | nil => rfl
  | cons p ps ih =>
    rw [List.map_cons, List.mem_cons, not_or] at hx
    rw [List.foldl_cons, ih _ hx.2, getD_setIfInBounds]
    have : ¬ (p.1 = x ∧ x < a.size) := fun h => hx.1 h.1.symm
    simp [this]

theorem foldl_set_getD_mem (ps : List (Nat × Nat)) (a : Array Nat)
    (hnd : (ps.map Prod.fst).Nodup) (hlt : ∀ p ∈ ps, p.1 < a.size) :
    ∀ p ∈ ps, (ps.foldl (fun a p => a.setIfInBounds p.1 p.2) a).getD p.1 0 = p.2 := by
  induction ps generalizing a with
  | nil => intro p hp; cases hp
  | cons q ps ih =>
    rw [List.map_cons, List.nodup_cons] at hnd
    intro p hp
    rw [List.foldl_cons]
    rcases List.mem_cons.1 hp with e | hp
    · subst e
      rw [foldl_set_getD_not_mem _ _ _ _ hnd.1, getD_setIfInBounds]
      simp [hlt p (List.mem_cons_self ..)]
    · exact ih _ hnd.2 (fun p' hp' => by
        rw [Array.size_setIfInBounds]; exact hlt p' (List.mem_cons_of_mem _ hp')) p hp

/-- the renumbering table of `flattenGraph` maps every emitted node to its position -/
theorem newIx_spec (order : List Nat) (n : Nat) (hnd : order.Nodup) (hlt : ∀ x ∈ order, x < n)
    (j : Nat) (hj : j < order.length) :
    ((order.zip (List.range order.length)).foldl (fun a (x, i) => a.setIfInBounds x i)
      (Array.replicate n 0)).getD order[j] 0 = j := by
  have hf : (fun (a : Array Nat) (p : Nat × Nat) => match p with | (x, i) => a.setIfInBounds x i) =
      (fun a p => a.setIfInBounds p.1 p.2) := by
    funext a ⟨x, i⟩; rfl
  rw [hf]
  have hmap : (order.zip (List.range order.length)).map Prod.fst = order :=
    List.map_fst_zip (by simp)
  have hmem : (order[j], j) ∈ order.zip (List.range order.length) := by
    rw [List.mem_iff_getElem]
    exact ⟨j, by simpa using hj, by simp [List.getElem_zip]⟩
  exact foldl_set_getD_mem _ _ (by rw [hmap]; exact hnd)
    (fun p hp => by
      have : p.1 ∈ order := by rw [← hmap]; exact List.mem_map_of_mem hp
      simpa using hlt _ this) _ hmem

/-- the renumbering table of `flattenGraph` -/
def newIxOf (g : G) (root : Nat) : Array Nat :=
  ((postOrder g root).zip (List.range (postOrder g root).length)).foldl
    (fun a (x, i) => a.setIfInBounds x i) (Array.replicate g.kind.size 0)

/-- the flattened form of one node -/
def flatNode (g : G) (newIx : Array Nat) (x : Nat) : NType :=
  let cs := (g.outs.getD x []).map fun c => newIx.getD c 0
  match g.kindOf x with
  | some .and => .and cs
  | some .or => .or cs
  | some (.lit l) => .lit l
  | some .tru => .tru
  | some .fls => .fls
  | none => .fls

theorem flattenGraph_eq (g : G) (root : Nat) :
    flattenGraph g root = (postOrder g root).map (flatNode g (newIxOf g root)) := rfl

theorem flattenGraph_getElem (g : G) (root : Nat) (i : Nat) (hi : i < (flattenGraph g root).length) :
    (flattenGraph g root)[i] =
      flatNode g (newIxOf g root) ((postOrder g root)[i]'(by rwa [flattenGraph_length] at hi)) := by
  simp only [flattenGraph_eq, List.getElem_map]

theorem children_flatNode (g : G) (newIx : Array Nat) (x : Nat) :
    ∀ c' ∈ children (flatNode g newIx x), ∃ c ∈ g.outs.getD x [], c' = newIx.getD c 0 := by
  intro c' hc'
  unfold flatNode at hc'
  have hm : c' ∈ (g.outs.getD x []).map fun c => newIx.getD c 0 := by
    split at hc' <;> first | exact hc' | (simp [children] at hc')
  obtain ⟨c, hc, e⟩ := List.mem_map.1 hm
  exact ⟨c, hc, e.symm⟩

/-- C01: for an acyclic graph the flattened array has children before parents -/
theorem flattenGraph_topo (g : G) (root : Nat) (r : Nat → Nat)
    (hwf : ∀ x, ∀ c ∈ g.outs.getD x [], c < g.kind.size)
    (hacyc : ∀ x, ∀ c ∈ g.outs.getD x [], r c < r x) : Topo (flattenGraph g root) := by
  intro i hi c' hc'
  have hi' : i < (postOrder g root).length := by rwa [flattenGraph_length] at hi
  rw [flattenGraph_getElem] at hc'
  obtain ⟨c, hc, rfl⟩ := children_flatNode _ _ _ c' hc'
  obtain ⟨j, hj, hji, rfl⟩ := postOrder_children_index g root r hwf hacyc i hi' c hc
  unfold newIxOf
  rw [newIx_spec _ _ (postOrder_nodup g root) (postOrder_lt g root) j hj]
  exact hji

/-! ### the fuel of `postOrder` suffices -/

/-- every undiscovered node still owes one discovery step and one push per successor -/
def whiteWeight (outs : Array (List Nat)) (n : Nat) (disc : Array Bool) : Nat :=
  ((List.range n).map fun x => if disc.getD x true = false then (outs.getD x []).length + 1 else 0).sum

/-- strictly decreases with every iteration of the loop -/
def potential (outs : Array (List Nat)) (n : Nat) (d : Dfs) : Nat :=
  d.stack.length + whiteWeight outs n d.discovered

theorem sum_range_congr (f f' : Nat → Nat) (n : Nat) (h : ∀ x, x < n → f' x = f x) :
    ((List.range n).map f').sum = ((List.range n).map f).sum := by
  congr 1
  exact List.map_congr_left fun x hx => h x (List.mem_range.1 hx)

theorem sum_range_update (f f' : Nat → Nat) (n nx : Nat) (hnx : nx < n) (h0 : f' nx = 0)
    (hne : ∀ x, x ≠ nx → f' x = f x) :
    ((List.range n).map f').sum + f nx = ((List.range n).map f).sum := by
  induction n with
  | zero => omega
  | succ n ih =>
    simp only [List.range_succ, List.map_append, List.sum_append, List.map_cons, List.map_nil,
      List.sum_cons, List.sum_nil, Nat.add_zero]
    by_cases e : nx = n
    · subst e
      rw [sum_range_congr f f' nx (fun x hx => hne x (by omega)), h0]
      omega
    · have := ih (by omega)
      rw [hne n (fun h => e h.symm)]
      omega

theorem potential_step (outs : Array (List Nat)) (n : Nat) (d : Dfs) (nx : Nat) (rest : List Nat)
    (hs : d.stack = nx :: rest) (hsz : d.discovered.size = n) :
    (dfsStep outs d).discovered.size = n ∧ potential outs n (dfsStep outs d) + 1 ≤ potential outs n d := by
  rcases dfsStep_cases outs d nx rest hs with ⟨hw, e⟩ | ⟨_, _, e⟩ | ⟨_, _, e⟩ <;> rw [e]
  · refine ⟨by simp [hsz], ?_⟩
    have hnx : nx < n := by have := getD_lt_of_ne (b := true) hw; omega
    have hlen : (pushed outs d.discovered nx).length ≤ (outs.getD nx []).length := by
      unfold pushed; rw [List.length_reverse]; exact List.length_filter_le _ _
    have hsum := sum_range_update
      (fun x => if d.discovered.getD x true = false then (outs.getD x []).length + 1 else 0)
      (fun x => if (d.discovered.setIfInBounds nx true).getD x true = false then
        (outs.getD x []).length + 1 else 0) n nx hnx
      (by
        have hd : (d.discovered.setIfInBounds nx true).getD nx true = true := by
          rw [getD_setIfInBounds]; simp [hsz, hnx]
        rw [hd]; simp)
      (by
        intro x hx
        have : ¬ (nx = x ∧ x < d.discovered.size) := fun h => hx h.1.symm
        have hd : (d.discovered.setIfInBounds nx true).getD x true = d.discovered.getD x true := by
          rw [getD_setIfInBounds, if_neg this]
        rw [hd])
    simp only [hw, if_true] at hsum
    simp only [potential, whiteWeight, hs, List.length_append, List.length_cons]
    omega
  · exact ⟨hsz, by simp only [potential, hs, List.length_cons]; omega⟩
  · exact ⟨hsz, by simp only [potential, hs, List.length_cons]; omega⟩

/-- with at least `potential` units of fuel the loop runs until the stack is empty -/
theorem dfsLoop_stack_empty (outs : Array (List Nat)) (n : Nat) :
    ∀ fuel d, d.discovered.size = n → potential outs n d ≤ fuel → (dfsLoop outs fuel d).stack = [] := by
  intro fuel
  induction fuel with
  | zero =>
    intro d _ hp
    have : d.stack.length = 0 := by unfold potential at hp; omega
    simpa [dfsLoop] using this
  | succ fuel ih =>
    intro d hsz hp
    rw [dfsLoop_succ]
    split
    · assumption
    · rename_i hne
      cases hs : d.stack with
      | nil => exact absurd hs hne
      | cons nx rest =>
        have := potential_step outs n d nx rest hs hsz
        exact ih _ this.1 (by omega)

theorem foldl_add_eq_sum (l : List Nat) (a : Nat) : l.foldl (· + ·) a = a + l.sum := by
  induction l generalizing a with
  | nil => simp
  | cons x l ih => rw [List.foldl_cons, ih, List.sum_cons]; omega

theorem sum_getD_le (L : List (List Nat)) (n : Nat) :
    ((List.range n).map fun x => (L.getD x []).length).sum ≤ (L.map List.length).sum := by
  induction L generalizing n with
  | nil =>
    have : ((List.range n).map fun x => (([] : List (List Nat)).getD x []).length).sum
        = ((List.range n).map fun _ => 0).sum := sum_range_congr _ _ n (fun x _ => by simp)
    rw [this]
    clear this
    induction n with
    | zero => simp
    | succ n ih => simp [List.range_succ] at ih ⊢; exact ih
  | cons l L ih =>
    cases n with
    | zero => simp
    | succ n =>
      rw [List.range_succ_eq_map]
      simp only [List.map_cons, List.map_map, List.sum_cons]
      have := ih n
      have e : ((List.range n).map ((fun x => ((l :: L).getD x []).length) ∘ Nat.succ)).sum
          = ((List.range n).map fun x => (L.getD x []).length).sum :=
        sum_range_congr _ _ n (fun x _ => by simp)
      rw [e]
      simp
      exact this

theorem potential_init (g : G) (root : Nat) :
    potential g.outs g.kind.size (dfsInit g.kind.size root) ≤ 2 * (g.kind.size + edgeCount g) + 2 := by
  have h1 : whiteWeight g.outs g.kind.size (Array.replicate g.kind.size false)
      = ((List.range g.kind.size).map fun x => (g.outs.toList.getD x []).length + 1).sum := by
    unfold whiteWeight
    refine sum_range_congr _ _ _ (fun x hx => ?_)
    have hd : (Array.replicate g.kind.size false).getD x true = false := by
      rw [getD_replicate, if_pos hx]
    rw [hd]
    simp
  have h2 : ∀ n, ((List.range n).map fun x => (g.outs.toList.getD x []).length + 1).sum
      = ((List.range n).map fun x => (g.outs.toList.getD x []).length).sum + n := by
    intro n
    induction n with
    | zero => simp
    | succ n ih =>
      simp only [List.range_succ, List.map_append, List.sum_append, List.map_cons, List.map_nil,
        List.sum_cons, List.sum_nil] at ih ⊢
      omega
  have h3 := sum_getD_le g.outs.toList g.kind.size
  have h4 : edgeCount g = (g.outs.toList.map List.length).sum := by
    unfold edgeCount; rw [foldl_add_eq_sum]; omega
  show [root].length + whiteWeight g.outs g.kind.size (Array.replicate g.kind.size false) ≤ _
  rw [h1, h2, h4]
  simp only [List.length_singleton]
  omega

/-- the fuel of `postOrder` is never exhausted: the run ends with an empty stack -/
theorem postOrder_stack_empty (g : G) (root : Nat) :
    (dfsLoop g.outs (2 * (g.kind.size + edgeCount g) + 2) (dfsInit g.kind.size root)).stack = [] :=
  dfsLoop_stack_empty g.outs g.kind.size _ _ (by simp [dfsInit]) (potential_init g root)

/-- the root is emitted (so the array is not empty and `rootIx` points at the image of the root) -/
theorem postOrder_root (g : G) (root : Nat) (hroot : root < g.kind.size) : root ∈ postOrder g root := by
  have key := dfsLoop_inv g.outs
    (fun d => Inv1 g.kind.size d ∧ (root ∈ d.stack ∨ root ∈ d.order.toList))
    (fun d nx rest hs h => ⟨inv1_step g.outs _ d nx rest hs h.1, by
      have h1 := h.1
      have h3 := h.2
      rw [hs] at h3
      rcases dfsStep_cases g.outs d nx rest hs with ⟨_, e⟩ | ⟨_, _, e⟩ | ⟨_, hf, e⟩ <;> rw [e] <;>
        dsimp only
      · rcases h3 with h3 | h3
        · left; exact List.mem_append_right _ h3
        · exact Or.inr h3
      · rw [Array.toList_push]
        rcases h3 with h3 | h3
        · rcases List.mem_cons.1 h3 with e | h3
          · right; rw [e]; simp
          · exact Or.inl h3
        · right; exact List.mem_append_left _ h3
      · rcases h3 with h3 | h3
        · rcases List.mem_cons.1 h3 with e | h3
          · right; subst e; exact (h1.ord_iff root).2 ⟨hroot, hf⟩
          · exact Or.inl h3
        · exact Or.inr h3⟩)
    (2 * (g.kind.size + edgeCount g) + 2) (dfsInit g.kind.size root)
    ⟨inv1_init _ _, Or.inl (by simp [dfsInit])⟩
  rcases key.2 with h | h
  · rw [postOrder_stack_empty] at h; cases h
  · exact h

theorem flattenGraph_ne_nil (g : G) (root : Nat) (hroot : root < g.kind.size) :
    flattenGraph g root ≠ [] := by
  intro h
  have := flattenGraph_length g root
  rw [h] at this
  have hm := postOrder_root g root hroot
  cases hp : postOrder g root with
  | nil => rw [hp] at hm; cases hm
  | cons a l => rw [hp] at this; simp at this

end Ddnnf.D4
