/-
  Denotation of the graphs of the d4 loader (part 3): the phases that only add nodes and edges.

  The state invariant `CInv σ s v`: `v` is a model of the graph of `s`, the literal table points at
  literal leaves, no literal is 0; `TriT s v`: every registered triangle `or(f, -f)` is true.
  `CExt`: what an operation keeps (values and kinds of the old nodes, error flag).

  * `getLit_sem`, `addTriangle_sem` (a triangle for `f ≥ 1` is true; hanging it under a node that is
    not an `or` keeps all values), `wrapTri_sem` (a fresh `and` root over node 0 has the value of node 0),
    `addFree_sem`, `addVanished_sem` (phases 2, 3b);
  * `balanceStep_sem`, `balance_sem`, `smooth_sem` (phase 4).
-/
import DdnnfVerif.Proofs.LoadSem1

namespace Ddnnf.D4

/-! ### lists -/

theorem all_erase_mem {l : List Nat} {v : Nat → Bool} {c : Nat} (h : c ∈ l) :
    l.all v = (v c && (l.erase c).all v) := by
  induction l with
  | nil => cases h
  | cons a l ih =>
    by_cases e : a = c
    · subst e; simp
    · have hm : c ∈ l := by
        rcases List.mem_cons.1 h with h | h
        · exact absurd h.symm e
        · exact h
      have hb : (a == c) = false := by simpa using e
      rw [List.erase_cons, hb]
      simp only [Bool.false_eq_true, if_false, List.all_cons, ih hm]
      cases v a <;> cases v c <;> simp

theorem any_erase_mem {l : List Nat} {v : Nat → Bool} {c : Nat} (h : c ∈ l) :
    l.any v = (v c || (l.erase c).any v) := by
  induction l with
  | nil => cases h
  | cons a l ih =>
    by_cases e : a = c
    · subst e; simp
    · have hm : c ∈ l := by
        rcases List.mem_cons.1 h with h | h
        · exact absurd h.symm e
        · exact h
      have hb : (a == c) = false := by simpa using e
      rw [List.erase_cons, hb]
      simp only [Bool.false_eq_true, if_false, List.any_cons, ih hm]
      cases v a <;> cases v c <;> simp

/-- dropping a true element from a conjunction -/
theorem all_erase_true {l : List Nat} {v : Nat → Bool} {c : Nat} (h : v c = true) :
    (l.erase c).all v = l.all v := by
  by_cases hm : c ∈ l
  · rw [all_erase_mem hm, h, Bool.true_and]
  · rw [List.erase_of_not_mem hm]

/-- dropping a false element from a disjunction -/
theorem any_erase_false {l : List Nat} {v : Nat → Bool} {c : Nat} (h : v c = false) :
    (l.erase c).any v = l.any v := by
  by_cases hm : c ∈ l
  · rw [any_erase_mem hm, h, Bool.false_or]
  · rw [List.erase_of_not_mem hm]

/-- the triangle `or(f, -f)` of a feature `f ≥ 1` is true under every assignment -/
theorem litTrue_tri (σ : Assignment) (f : Nat) (hf : 1 ≤ f) :
    (litTrue σ (f : Int) || litTrue σ (-(f : Int))) = true := by
  unfold litTrue
  have h1 : (f : Int) > 0 := by omega
  have h2 : ¬ (-(f : Int) > 0) := by omega
  have h3 : -(f : Int) < 0 := by omega
  simp only [h1, h2, h3, if_true, if_false, Int.natAbs_neg]
  cases σ (f : Int).natAbs <;> rfl

/-! ### graph level -/

theorem outsSize_addNode (g : G) (k : GK) : (g.addNode k).1.outs.size = g.outs.size + 1 := by
  simp [G.addNode]

theorem outsSize_addEdge (g : G) (a b : Nat) : (g.addEdge a b).outs.size = g.outs.size := by
  simp [G.addEdge]

theorem outsSize_removeEdge (g : G) (a b : Nat) : (g.removeEdge a b).outs.size = g.outs.size := by
  simp [G.removeEdge]

/-- the value of a fresh node without successors -/
def leafVal (σ : Assignment) : GK → Bool
  | .and => true
  | .or => false
  | .lit l => litTrue σ l
  | .tru => true
  | .fls => false

/-- a general frame rule: outside of `S` nothing relevant changes, inside `S` the equation is checked -/
theorem model_frame {σ : Assignment} {g g' : G} {v v' : Nat → Bool} (hm : Model σ g v) (S : Nat → Prop)
    (hold : ∀ x, ¬ S x → v' x = v x ∧ g'.kindOf x = g.kindOf x ∧ g'.outs.getD x [] = g.outs.getD x [] ∧
      ∀ c ∈ g.outs.getD x [], v' c = v c)
    (hnew : ∀ x, S x → v' x = stepV σ g' v' x) : Model σ g' v' := by
  intro x
  by_cases hx : S x
  · exact hnew x hx
  · obtain ⟨h1, h2, h3, h4⟩ := hold x hx
    rw [h1, hm x]
    exact (stepV_congr_g σ g g' v v' x h2 h3 h4).symm

theorem model_addNode {σ : Assignment} {g : G} {v : Nat → Bool} (hm : Model σ g v) (hw : WFG g) (k : GK) :
    Model σ (g.addNode k).1 (upd v g.kind.size (leafVal σ k)) := by
  refine model_frame hm (fun x => x = g.kind.size) ?_ ?_
  · intro x hx
    refine ⟨upd_ne _ _ _ _ hx, by rw [kindOf_addNode, if_neg hx], outs_addNode g k x, ?_⟩
    intro c hc
    exact upd_ne _ _ _ _ (Nat.ne_of_lt (hw.edges x c hc))
  · intro x hx
    subst hx
    rw [upd_self]
    unfold stepV
    rw [kindOf_addNode, if_pos rfl, outs_addNode, outs_of_ge g _ (by rw [hw.osz]; exact Nat.le_refl _)]
    cases k <;> rfl

/-- adding an edge `a → b` keeps a model if `b` is neutral for `a` (or `a` is already decided) -/
theorem model_addEdge {σ : Assignment} {g : G} {v : Nat → Bool} (hm : Model σ g v) (a b : Nat)
    (hand : g.kindOf a = some .and → v b = true ∨ v a = false)
    (hor : g.kindOf a = some .or → v b = false ∨ v a = true) : Model σ (g.addEdge a b) v := by
  refine model_frame hm (fun x => x = a) ?_ ?_
  · intro x hx
    refine ⟨rfl, rfl, ?_, fun _ _ => rfl⟩
    rw [outs_addEdge, if_neg (fun h => hx h.1.symm)]
  · intro x hx
    subst hx
    have hmx := hm x
    by_cases hlt : x < g.outs.size
    · have ho : (g.addEdge x b).outs.getD x [] = b :: g.outs.getD x [] := by
        rw [outs_addEdge, if_pos ⟨rfl, hlt⟩]
      cases hk : g.kindOf x with
      | none => simp only [stepV, kindOf_addEdge, hk] at hmx ⊢; exact hmx
      | some k =>
        cases k with
        | and =>
          simp only [stepV, kindOf_addEdge, hk, ho, List.all_cons] at hmx ⊢
          rcases hand hk with h | h
          · rw [h, Bool.true_and]; exact hmx
          · rw [← hmx, h, Bool.and_false]
        | or =>
          simp only [stepV, kindOf_addEdge, hk, ho, List.any_cons] at hmx ⊢
          rcases hor hk with h | h
          · rw [h, Bool.false_or]; exact hmx
          · rw [← hmx, h, Bool.or_true]
        | tru => simp only [stepV, kindOf_addEdge, hk] at hmx ⊢; exact hmx
        | fls => simp only [stepV, kindOf_addEdge, hk] at hmx ⊢; exact hmx
        | lit l => simp only [stepV, kindOf_addEdge, hk] at hmx ⊢; exact hmx
    · have ho : (g.addEdge x b).outs.getD x [] = g.outs.getD x [] := by
        rw [outs_addEdge, if_neg (fun h => hlt h.2)]
      rw [hmx]
      exact (stepV_congr_g σ g (g.addEdge x b) v v x rfl ho (fun _ _ => rfl)).symm

/-- removing an edge `a → b` keeps a model if `b` is neutral for `a` -/
theorem model_removeEdge {σ : Assignment} {g : G} {v : Nat → Bool} (hm : Model σ g v) (a b : Nat)
    (hand : g.kindOf a = some .and → v b = true) (hor : g.kindOf a = some .or → v b = false) :
    Model σ (g.removeEdge a b) v := by
  refine model_frame hm (fun x => x = a) ?_ ?_
  · intro x hx
    refine ⟨rfl, rfl, ?_, fun _ _ => rfl⟩
    rw [outs_removeEdge, if_neg (fun h => hx h.1.symm)]
  · intro x hx
    subst hx
    have hmx := hm x
    by_cases hlt : x < g.outs.size
    · have ho : (g.removeEdge x b).outs.getD x [] = (g.outs.getD x []).erase b := by
        rw [outs_removeEdge, if_pos ⟨rfl, hlt⟩]
      cases hk : g.kindOf x with
      | none => simp only [stepV, kindOf_removeEdge, hk] at hmx ⊢; exact hmx
      | some k =>
        cases k with
        | and =>
          simp only [stepV, kindOf_removeEdge, hk, ho] at hmx ⊢
          rw [all_erase_true (hand hk)]; exact hmx
        | or =>
          simp only [stepV, kindOf_removeEdge, hk, ho] at hmx ⊢
          rw [any_erase_false (hor hk)]; exact hmx
        | tru => simp only [stepV, kindOf_removeEdge, hk] at hmx ⊢; exact hmx
        | fls => simp only [stepV, kindOf_removeEdge, hk] at hmx ⊢; exact hmx
        | lit l => simp only [stepV, kindOf_removeEdge, hk] at hmx ⊢; exact hmx
    · have ho : (g.removeEdge x b).outs.getD x [] = g.outs.getD x [] := by
        rw [outs_removeEdge, if_neg (fun h => hlt h.2)]
      rw [hmx]
      exact (stepV_congr_g σ g (g.removeEdge x b) v v x rfl ho (fun _ _ => rfl)).symm

/-! ### the loader state -/

structure CInv (σ : Assignment) (s : LState) (v : Nat → Bool) : Prop where
  linv : LInv s
  model : Model σ s.g v
  litK : ∀ e ∈ s.litNx, s.g.kindOf e.2 = some (.lit e.1)
  litnz : ∀ x l, s.g.kindOf x = some (.lit l) → l ≠ 0

/-- every registered triangle is true -/
def TriT (s : LState) (v : Nat → Bool) : Prop := ∀ e ∈ s.tri, v e.2 = true

/-- what the adding operations keep -/
structure CExt (s : LState) (v : Nat → Bool) (s' : LState) (v' : Nat → Bool) : Prop where
  agree : ∀ x, x < s.g.kind.size → v' x = v x
  kinds : ∀ x, x < s.g.kind.size → s'.g.kindOf x = s.g.kindOf x
  size : s.g.kind.size ≤ s'.g.kind.size
  err : s'.g.err = s.g.err

theorem CExt.refl (s : LState) (v : Nat → Bool) : CExt s v s v :=
  ⟨fun _ _ => rfl, fun _ _ => rfl, Nat.le_refl _, rfl⟩

theorem CExt.trans {s s' s'' : LState} {v v' v'' : Nat → Bool} (h1 : CExt s v s' v') (h2 : CExt s' v' s'' v'') :
    CExt s v s'' v'' :=
  ⟨fun x hx => (h2.agree x (Nat.lt_of_lt_of_le hx h1.size)).trans (h1.agree x hx),
   fun x hx => (h2.kinds x (Nat.lt_of_lt_of_le hx h1.size)).trans (h1.kinds x hx),
   Nat.le_trans h1.size h2.size, h2.err.trans h1.err⟩

theorem TriT.ext {s s' : LState} {v v' : Nat → Bool} (ht : TriT s v) (hl : LInv s) (he : CExt s v s' v')
    (htri : s'.tri = s.tri) : TriT s' v' := by
  intro e hm
  rw [htri] at hm
  rw [he.agree _ (hl.tri e hm)]
  exact ht e hm

theorem getLit_found (s : LState) (l : Int) (e : Int × Nat) (h : s.litNx.find? (·.1 == l) = some e) :
    s.getLit l = (s, e.2) := by
  unfold LState.getLit; rw [h]

theorem getLit_new (s : LState) (l : Int) (h : s.litNx.find? (·.1 == l) = none) :
    s.getLit l = ({ s with g := (s.g.addNode (.lit l)).1, litNx := (l, s.g.kind.size) :: s.litNx },
      s.g.kind.size) := by
  unfold LState.getLit; rw [h]; rfl

theorem getLit_sem {σ : Assignment} {s : LState} {v : Nat → Bool} (l : Int) (hl : l ≠ 0) (hs : CInv σ s v) :
    ∃ v', CInv σ (s.getLit l).1 v' ∧ CExt s v (s.getLit l).1 v' ∧
      (s.getLit l).1.g.kindOf (s.getLit l).2 = some (.lit l) ∧
      (s.getLit l).2 < (s.getLit l).1.g.kind.size ∧
      (s.getLit l).1.tri = s.tri ∧ (∀ x, (s.getLit l).1.g.outs.getD x [] = s.g.outs.getD x []) := by
  have hsp := getLit_spec s l hs.linv
  cases hf : s.litNx.find? (·.1 == l) with
  | some e =>
    rw [getLit_found s l e hf] at hsp ⊢
    have he : e.1 = l := by simpa using List.find?_some hf
    refine ⟨v, hs, CExt.refl s v, ?_, hsp.2.2, rfl, fun _ => rfl⟩
    rw [← he]; exact hs.litK e (List.mem_of_find?_eq_some hf)
  | none =>
    rw [getLit_new s l hf] at hsp ⊢
    have hsz := addNode_size s.g (.lit l)
    refine ⟨upd v s.g.kind.size (litTrue σ l), ⟨hsp.1, model_addNode hs.model hs.linv.wf (.lit l), ?_, ?_⟩,
      ⟨?_, ?_, hsp.2.1, rfl⟩, ?_, hsp.2.2, rfl, fun x => outs_addNode s.g (.lit l) x⟩
    · intro e he
      show (s.g.addNode (.lit l)).1.kindOf e.2 = some (.lit e.1)
      rw [kindOf_addNode]
      rcases List.mem_cons.1 he with e' | he
      · rw [e']; simp
      · rw [if_neg (Nat.ne_of_lt (hs.linv.lit e he))]; exact hs.litK e he
    · intro x l' hk
      have hk' : (s.g.addNode (.lit l)).1.kindOf x = some (.lit l') := hk
      rw [kindOf_addNode] at hk'
      split at hk'
      · cases hk'; exact hl
      · exact hs.litnz x l' hk'
    · intro x hx; exact upd_ne _ _ _ _ (Nat.ne_of_lt hx)
    · intro x hx
      show (s.g.addNode (.lit l)).1.kindOf x = _
      rw [kindOf_addNode, if_neg (Nat.ne_of_lt hx)]
    · show (s.g.addNode (.lit l)).1.kindOf s.g.kind.size = _
      rw [kindOf_addNode, if_pos rfl]

/-! ### triangles -/

/-- a new first successor that is true does not change the value of a node that is not an `or` -/
theorem stepV_addChild (σ : Assignment) (g g' : G) (v v' : Nat → Bool) (x b : Nat)
    (hk : g'.kindOf x = g.kindOf x) (ho : g'.outs.getD x [] = b :: g.outs.getD x [])
    (hag : ∀ c ∈ g.outs.getD x [], v' c = v c) (hb : v' b = true) (hnor : g.kindOf x ≠ some .or) :
    stepV σ g' v' x = stepV σ g v x := by
  unfold stepV
  rw [hk, ho]
  cases hkx : g.kindOf x with
  | none => rfl
  | some k =>
    cases k with
    | and => simp only [List.all_cons, hb, Bool.true_and]; exact all_congr_mem hag
    | or => exact absurd hkx hnor
    | tru => rfl
    | fls => rfl
    | lit l => rfl

theorem addTriangle_found (s : LState) (f attach : Nat) (e : Nat × Nat)
    (h : s.tri.find? (·.1 == f) = some e) :
    s.addTriangle f attach = { s with g := s.g.addEdge attach e.2 } := by
  unfold LState.addTriangle; rw [h]

theorem addTriangle_new (s : LState) (f attach : Nat) (h : s.tri.find? (·.1 == f) = none) :
    s.addTriangle f attach = triNew s f attach := by
  unfold LState.addTriangle; rw [h]; rfl

theorem triNew_sem {σ : Assignment} {s : LState} {v : Nat → Bool} (f attach : Nat) (hf : 1 ≤ f)
    (ha : attach < s.g.kind.size) (hk : s.g.kindOf attach ≠ some .or) (hs : CInv σ s v) (ht : TriT s v) :
    ∃ v', CInv σ (triNew s f attach) v' ∧ TriT (triNew s f attach) v' ∧ CExt s v (triNew s f attach) v' ∧
      (∀ x, x < s.g.kind.size → x ≠ attach → (triNew s f attach).g.outs.getD x [] = s.g.outs.getD x []) := by
  have hlinv := (triNew_spec s f attach hs.linv ha).1
  have hsz := addNode_size s.g .or
  -- the state after the `or` node was added
  have h1 : LInv { s with g := (s.g.addNode .or).1, tri := (f, (s.g.addNode .or).2) :: s.tri } := by
    refine ⟨addNode_wf _ _ hs.linv.wf, ?_, ?_, ?_⟩
    · intro i hi; show i < (s.g.addNode .or).1.kind.size; rw [hsz]; exact Nat.lt_succ_of_lt (hs.linv.idx i hi)
    · intro e he; show e.2 < (s.g.addNode .or).1.kind.size; rw [hsz]; exact Nat.lt_succ_of_lt (hs.linv.lit e he)
    · intro e he
      show e.2 < (s.g.addNode .or).1.kind.size
      rw [hsz]
      rcases List.mem_cons.1 he with e' | he
      · rw [e']; exact Nat.lt_succ_self _
      · exact Nat.lt_succ_of_lt (hs.linv.tri e he)
  have c1 : CInv σ { s with g := (s.g.addNode .or).1, tri := (f, (s.g.addNode .or).2) :: s.tri }
      (upd v s.g.kind.size false) := by
    refine ⟨h1, model_addNode hs.model hs.linv.wf .or, ?_, ?_⟩
    · intro e he
      show (s.g.addNode .or).1.kindOf e.2 = _
      rw [kindOf_addNode, if_neg (Nat.ne_of_lt (hs.linv.lit e he))]; exact hs.litK e he
    · intro x l hkx
      have hk' : (s.g.addNode .or).1.kindOf x = some (.lit l) := hkx
      rw [kindOf_addNode] at hk'
      split at hk'
      · cases hk'
      · exact hs.litnz x l hk'
  unfold triNew at hlinv ⊢
  dsimp only at hlinv ⊢
  generalize hs1 : ({ s with g := (s.g.addNode .or).1, tri := (f, (s.g.addNode .or).2) :: s.tri } : LState)
    = s1 at c1 hlinv ⊢
  have s1sz : s1.g.kind.size = s.g.kind.size + 1 := by rw [← hs1]; exact hsz
  have s1k : ∀ x, s1.g.kindOf x = if x = s.g.kind.size then some .or else s.g.kindOf x := by
    intro x; rw [← hs1]; exact kindOf_addNode s.g .or x
  have s1o : ∀ x, s1.g.outs.getD x [] = s.g.outs.getD x [] := by
    intro x; rw [← hs1]; exact outs_addNode s.g .or x
  have s1tri : s1.tri = (f, s.g.kind.size) :: s.tri := by rw [← hs1]; rfl
  have s1err : s1.g.err = s.g.err := by rw [← hs1]; rfl
  obtain ⟨v2, c2, e2, k2, lt2, tri2, o2⟩ := getLit_sem (f : Int) (by omega) c1
  obtain ⟨v3, c3, e3, k3, lt3, tri3, o3⟩ := getLit_sem (-(f : Int)) (by omega) c2
  generalize s1.getLit (f : Int) = p2 at c2 e2 k2 lt2 tri2 o2 c3 e3 k3 lt3 tri3 o3 hlinv ⊢
  obtain ⟨s2, pos⟩ := p2
  dsimp only at c2 e2 k2 lt2 tri2 o2 c3 e3 k3 lt3 tri3 o3 hlinv ⊢
  generalize s2.getLit (-(f : Int)) = p3 at c3 e3 k3 lt3 tri3 o3 hlinv ⊢
  obtain ⟨s3, neg⟩ := p3
  dsimp only at c3 e3 k3 lt3 tri3 o3 hlinv ⊢
  rw [addNode_snd] at hlinv ⊢
  -- facts about the three states
  have hn2 : s.g.kind.size < s2.g.kind.size := by have := e2.size; omega
  have hn3 : s.g.kind.size < s3.g.kind.size := by have := e3.size; omega
  have ko : s3.g.kindOf s.g.kind.size = some .or := by
    rw [e3.kinds _ hn2, e2.kinds _ (by omega), s1k, if_pos rfl]
  have kpos : s3.g.kindOf pos = some (.lit (f : Int)) := by rw [e3.kinds _ lt2]; exact k2
  have kold : ∀ x, x < s.g.kind.size → s3.g.kindOf x = s.g.kindOf x := by
    intro x hx
    rw [e3.kinds _ (by omega), e2.kinds _ (by omega), s1k, if_neg (Nat.ne_of_lt hx)]
  have o3' : ∀ x, s3.g.outs.getD x [] = s.g.outs.getD x [] := by
    intro x; rw [o3, o2, s1o]
  have hpn : pos ≠ s.g.kind.size := by
    intro e; rw [e, ko] at kpos; cases kpos
  have hnn : neg ≠ s.g.kind.size := by
    intro e; rw [e, ko] at k3; cases k3
  have hosz : s3.g.outs.size = s3.g.kind.size := c3.linv.wf.osz
  have hoo : s.g.outs.getD s.g.kind.size [] = [] :=
    outs_of_ge s.g _ (by rw [hs.linv.wf.osz]; exact Nat.le_refl _)
  have v3old : ∀ x, x < s.g.kind.size → v3 x = v x := by
    intro x hx
    rw [e3.agree _ (by omega), e2.agree _ (by omega)]
    exact upd_ne _ _ _ _ (Nat.ne_of_lt hx)
  have han : attach ≠ s.g.kind.size := Nat.ne_of_lt ha
  -- the model
  have hmodel : Model σ (((s3.g.addEdge attach s.g.kind.size).addEdge s.g.kind.size pos).addEdge s.g.kind.size neg)
      (upd v3 s.g.kind.size true) := by
    refine model_frame c3.model (fun x => x = s.g.kind.size ∨ x = attach) ?_ ?_
    · intro x hx
      have hx1 : x ≠ s.g.kind.size := fun e => hx (Or.inl e)
      have hx2 : x ≠ attach := fun e => hx (Or.inr e)
      refine ⟨upd_ne _ _ _ _ hx1, rfl, ?_, ?_⟩
      · rw [outs_addEdge, if_neg (fun h => hx1 h.1.symm), outs_addEdge, if_neg (fun h => hx1 h.1.symm),
          outs_addEdge, if_neg (fun h => hx2 h.1.symm)]
      · intro c hc
        rw [o3'] at hc
        exact upd_ne _ _ _ _ (Nat.ne_of_lt (hs.linv.wf.edges x c hc))
    · intro x hx
      rcases hx with hx | hx
      · subst hx
        rw [upd_self]
        have hout : (((s3.g.addEdge attach s.g.kind.size).addEdge s.g.kind.size pos).addEdge s.g.kind.size
            neg).outs.getD s.g.kind.size [] = [neg, pos] := by
          rw [outs_addEdge, if_pos ⟨rfl, by rw [outsSize_addEdge, outsSize_addEdge, hosz]; exact hn3⟩,
            outs_addEdge, if_pos ⟨rfl, by rw [outsSize_addEdge, hosz]; exact hn3⟩,
            outs_addEdge, if_neg (fun h => han h.1), o3', hoo]
        have hkind : (((s3.g.addEdge attach s.g.kind.size).addEdge s.g.kind.size pos).addEdge s.g.kind.size
            neg).kindOf s.g.kind.size = some .or := ko
        simp only [stepV, hkind, hout, List.any_cons, List.any_nil, Bool.or_false]
        rw [upd_ne _ _ _ _ hpn, upd_ne _ _ _ _ hnn, c3.model.lit kpos, c3.model.lit k3, Bool.or_comm]
        exact (litTrue_tri σ f hf).symm
      · subst hx
        rw [upd_ne _ _ _ _ han, c3.model x]
        symm
        refine stepV_addChild σ s3.g _ v3 _ x s.g.kind.size rfl ?_ ?_ (upd_self _ _ _) ?_
        · rw [outs_addEdge, if_neg (fun h => han h.1.symm), outs_addEdge, if_neg (fun h => han h.1.symm),
            outs_addEdge, if_pos ⟨rfl, by rw [hosz]; omega⟩]
        · intro c hc
          rw [o3'] at hc
          exact upd_ne _ _ _ _ (Nat.ne_of_lt (hs.linv.wf.edges x c hc))
        · rw [kold x ha]; exact hk
  refine ⟨upd v3 s.g.kind.size true, ⟨hlinv, hmodel, ?_, ?_⟩, ?_, ⟨?_, ?_, ?_, ?_⟩, ?_⟩
  · intro e he; exact c3.litK e he
  · intro x l hkx; exact c3.litnz x l hkx
  · intro e he
    have he' : e ∈ s3.tri := he
    rw [tri3, tri2, s1tri] at he'
    rcases List.mem_cons.1 he' with e' | he'
    · rw [e']; exact upd_self _ _ _
    · rw [upd_ne _ _ _ _ (Nat.ne_of_lt (hs.linv.tri e he')), v3old _ (hs.linv.tri e he')]
      exact ht e he'
  · intro x hx
    rw [upd_ne _ _ _ _ (Nat.ne_of_lt hx)]; exact v3old x hx
  · intro x hx; exact kold x hx
  · show s.g.kind.size ≤ s3.g.kind.size
    omega
  · show s3.g.err = s.g.err
    rw [e3.err, e2.err, s1err]
  · intro x hx hxa
    show (((s3.g.addEdge attach s.g.kind.size).addEdge s.g.kind.size pos).addEdge s.g.kind.size
      neg).outs.getD x [] = _
    rw [outs_addEdge, if_neg (fun h => Nat.ne_of_lt hx h.1.symm), outs_addEdge,
      if_neg (fun h => Nat.ne_of_lt hx h.1.symm), outs_addEdge, if_neg (fun h => hxa h.1.symm), o3']

/-- hanging the triangle of a feature `f ≥ 1` under a node that is not an `or` keeps all values;
the triangle itself is true -/
theorem addTriangle_sem {σ : Assignment} {s : LState} {v : Nat → Bool} (f attach : Nat) (hf : 1 ≤ f)
    (ha : attach < s.g.kind.size) (hk : s.g.kindOf attach ≠ some .or) (hs : CInv σ s v) (ht : TriT s v) :
    ∃ v', CInv σ (s.addTriangle f attach) v' ∧ TriT (s.addTriangle f attach) v' ∧
      CExt s v (s.addTriangle f attach) v' ∧
      (∀ x, x < s.g.kind.size → x ≠ attach →
        (s.addTriangle f attach).g.outs.getD x [] = s.g.outs.getD x []) := by
  cases hfind : s.tri.find? (·.1 == f) with
  | none => rw [addTriangle_new s f attach hfind]; exact triNew_sem f attach hf ha hk hs ht
  | some e =>
    have hlinv := (addTriangle_spec s f attach hs.linv ha).1
    rw [addTriangle_found s f attach e hfind] at hlinv ⊢
    have hem : e ∈ s.tri := List.mem_of_find?_eq_some hfind
    refine ⟨v, ⟨hlinv, ?_, hs.litK, hs.litnz⟩, ht, ⟨fun _ _ => rfl, fun _ _ => rfl, Nat.le_refl _, rfl⟩, ?_⟩
    · exact model_addEdge hs.model attach e.2 (fun _ => Or.inl (ht e hem)) (fun h => absurd h hk)
    · intro x _ hxa
      show (s.g.addEdge attach e.2).outs.getD x [] = _
      rw [outs_addEdge, if_neg (fun h => hxa h.1.symm)]

/-! ### a new root (phases 2 and 3b) -/

theorem wrapTri_zero (s : LState) (f : Nat) :
    wrapTri s 0 f = (({ s with g := (s.g.addNode .and).1.addEdge s.g.kind.size 0 } : LState).addTriangle f
      s.g.kind.size, s.g.kind.size) := rfl

theorem wrapTri_ne (s : LState) (root f : Nat) (h : root ≠ 0) :
    wrapTri s root f = (s.addTriangle f root, root) := by
  unfold wrapTri
  have : (root == 0) = false := by simpa using h
  simp [this]

/-- wrapping node 0 in a fresh `and`: the new node has the value of node 0 -/
theorem wrap_sem {σ : Assignment} {s : LState} {v : Nat → Bool} (hpos : 0 < s.g.kind.size) (hs : CInv σ s v) :
    CInv σ { s with g := (s.g.addNode .and).1.addEdge s.g.kind.size 0 } (upd v s.g.kind.size (v 0)) ∧
      CExt s v { s with g := (s.g.addNode .and).1.addEdge s.g.kind.size 0 } (upd v s.g.kind.size (v 0)) := by
  have hsz := addNode_size s.g .and
  have hw : WFn (s.g.kind.size + 1) ((s.g.addNode .and).1.addEdge s.g.kind.size 0) :=
    addEdge_wfn _ _ _ _ ⟨addNode_wf _ _ hs.linv.wf, hsz⟩ (Nat.succ_pos _)
  have h1 : LInv { s with g := (s.g.addNode .and).1.addEdge s.g.kind.size 0 } :=
    hs.linv.setG _ hw.1 (by rw [hw.2]; exact Nat.le_succ _)
  have hkind : ∀ x, ((s.g.addNode .and).1.addEdge s.g.kind.size 0).kindOf x =
      if x = s.g.kind.size then some .and else s.g.kindOf x := fun x => kindOf_addNode s.g .and x
  refine ⟨⟨h1, ?_, ?_, ?_⟩, ⟨?_, ?_, ?_, rfl⟩⟩
  · refine model_frame hs.model (fun x => x = s.g.kind.size) ?_ ?_
    · intro x hx
      refine ⟨upd_ne _ _ _ _ hx, by rw [hkind, if_neg hx], ?_, ?_⟩
      · rw [outs_addEdge, if_neg (fun h => hx h.1.symm), outs_addNode]
      · intro c hc; exact upd_ne _ _ _ _ (Nat.ne_of_lt (hs.linv.wf.edges x c hc))
    · intro x hx
      subst hx
      have hout : ((s.g.addNode .and).1.addEdge s.g.kind.size 0).outs.getD s.g.kind.size [] = [0] := by
        rw [outs_addEdge, if_pos ⟨rfl, by rw [outsSize_addNode, hs.linv.wf.osz]; exact Nat.lt_succ_self _⟩,
          outs_addNode, outs_of_ge s.g _ (by rw [hs.linv.wf.osz]; exact Nat.le_refl _)]
      simp only [stepV, hkind, if_true, hout, List.all_cons, List.all_nil, Bool.and_true]
      rw [upd_self, upd_ne _ _ _ _ (by omega)]
  · intro e he
    show ((s.g.addNode .and).1.addEdge s.g.kind.size 0).kindOf e.2 = _
    rw [hkind, if_neg (Nat.ne_of_lt (hs.linv.lit e he))]; exact hs.litK e he
  · intro x l hkx
    have hk' : ((s.g.addNode .and).1.addEdge s.g.kind.size 0).kindOf x = some (.lit l) := hkx
    rw [hkind] at hk'
    split at hk'
    · cases hk'
    · exact hs.litnz x l hk'
  · intro x hx; exact upd_ne _ _ _ _ (Nat.ne_of_lt hx)
  · intro x hx
    show ((s.g.addNode .and).1.addEdge s.g.kind.size 0).kindOf x = _
    rw [hkind, if_neg (Nat.ne_of_lt hx)]
  · show s.g.kind.size ≤ ((s.g.addNode .and).1.addEdge s.g.kind.size 0).kind.size
    rw [hw.2]; exact Nat.le_succ _

/-- the root a fold of `wrapTri` carries: 0 (no root yet) or a node that is not an `or` -/
def RootOK (s : LState) (root : Nat) : Prop :=
  root = 0 ∨ (root < s.g.kind.size ∧ s.g.kindOf root ≠ some .or)

/-- one step of `addFree` / `addVanished`: all old values are kept and the (possibly new) root has the
value of the old root -/
theorem wrapTri_sem {σ : Assignment} {s : LState} {v : Nat → Bool} (root f : Nat) (hf : 1 ≤ f)
    (hpos : 0 < s.g.kind.size) (hr : RootOK s root) (hs : CInv σ s v) (ht : TriT s v) :
    ∃ v', CInv σ (wrapTri s root f).1 v' ∧ TriT (wrapTri s root f).1 v' ∧
      CExt s v (wrapTri s root f).1 v' ∧ RootOK (wrapTri s root f).1 (wrapTri s root f).2 ∧
      v' (wrapTri s root f).2 = v root := by
  by_cases h0 : root = 0
  · subst h0
    rw [wrapTri_zero]
    obtain ⟨cw, ew⟩ := wrap_sem hpos hs
    have hsz : ({ s with g := (s.g.addNode .and).1.addEdge s.g.kind.size 0 } : LState).g.kind.size
        = s.g.kind.size + 1 := addNode_size s.g .and
    have hkr : ({ s with g := (s.g.addNode .and).1.addEdge s.g.kind.size 0 } : LState).g.kindOf s.g.kind.size
        = some .and := by
      show (s.g.addNode .and).1.kindOf s.g.kind.size = _
      rw [kindOf_addNode, if_pos rfl]
    have htw : TriT { s with g := (s.g.addNode .and).1.addEdge s.g.kind.size 0 } (upd v s.g.kind.size (v 0)) :=
      ht.ext hs.linv ew rfl
    obtain ⟨v', c', t', e', _⟩ := addTriangle_sem f s.g.kind.size hf (by rw [hsz]; exact Nat.lt_succ_self _)
      (by rw [hkr]; simp) cw htw
    refine ⟨v', c', t', ew.trans e', Or.inr ⟨?_, ?_⟩, ?_⟩
    · exact Nat.lt_of_lt_of_le (by rw [hsz]; exact Nat.lt_succ_self _) e'.size
    · rw [e'.kinds _ (by rw [hsz]; exact Nat.lt_succ_self _), hkr]; simp
    · rw [e'.agree _ (by rw [hsz]; exact Nat.lt_succ_self _), upd_self]
  · rw [wrapTri_ne s root f h0]
    rcases hr with hr | ⟨hlt, hk⟩
    · exact absurd hr h0
    · obtain ⟨v', c', t', e', _⟩ := addTriangle_sem f root hf hlt hk hs ht
      refine ⟨v', c', t', e', Or.inr ⟨Nat.lt_of_lt_of_le hlt e'.size, ?_⟩, e'.agree _ hlt⟩
      rw [e'.kinds _ hlt]; exact hk

/-- the invariant of the folds of `addFree` and `addVanished` -/
def FoldInv (σ : Assignment) (s : LState) (v : Nat → Bool) (root : Nat) (acc : LState × Nat) : Prop :=
  ∃ v', CInv σ acc.1 v' ∧ TriT acc.1 v' ∧ CExt s v acc.1 v' ∧ RootOK acc.1 acc.2 ∧ v' acc.2 = v root

theorem FoldInv.step {σ : Assignment} {s : LState} {v : Nat → Bool} {root : Nat} (hpos : 0 < s.g.kind.size)
    (s' : LState) (root' k : Nat) (h : FoldInv σ s v root (s', root')) :
    FoldInv σ s v root (wrapTri s' root' (k + 1)) := by
  obtain ⟨v', c', t', e', r', hv⟩ := h
  obtain ⟨v'', c'', t'', e'', r'', hv'⟩ := wrapTri_sem root' (k + 1) (Nat.succ_pos _)
    (Nat.lt_of_lt_of_le hpos e'.size) r' c' t'
  exact ⟨v'', c'', t'', e'.trans e'', r'', hv'.trans hv⟩

/-- phase 2: all values are kept, the new root has the value of node 0 -/
theorem addFree_sem {σ : Assignment} {s : LState} {v : Nat → Bool} (hpos : 0 < s.g.kind.size)
    (hs : CInv σ s v) (ht : TriT s v) :
    ∃ v', CInv σ (addFree s).1 v' ∧ TriT (addFree s).1 v' ∧ CExt s v (addFree s).1 v' ∧
      RootOK (addFree s).1 (addFree s).2 ∧ v' (addFree s).2 = v 0 := by
  unfold addFree
  refine foldl_inv (FoldInv σ s v 0) _ _ ?_ (s, 0) ⟨v, hs, ht, CExt.refl s v, Or.inl rfl, rfl⟩
  intro acc k _ hacc
  obtain ⟨s', root'⟩ := acc
  dsimp only
  split
  · exact hacc
  · exact FoldInv.step hpos s' root' k hacc

/-- phase 3b: all values are kept, the new root has the value of the old root -/
theorem addVanished_sem {σ : Assignment} {s : LState} {v : Nat → Bool} (root : Nat) (hpos : 0 < s.g.kind.size)
    (hr : RootOK s root) (hs : CInv σ s v) (ht : TriT s v) :
    ∃ v', CInv σ (addVanished s root).1 v' ∧ TriT (addVanished s root).1 v' ∧
      CExt s v (addVanished s root).1 v' ∧ RootOK (addVanished s root).1 (addVanished s root).2 ∧
      v' (addVanished s root).2 = v root := by
  unfold addVanished
  dsimp only
  refine foldl_inv (FoldInv σ s v root) _ _ ?_ (s, root) ⟨v, hs, ht, CExt.refl s v, hr, rfl⟩
  intro acc k _ hacc
  obtain ⟨s', root'⟩ := acc
  dsimp only
  split
  · exact hacc
  · exact FoldInv.step hpos s' root' k hacc

end Ddnnf.D4
