/-
  Correctness of `flatten` (`IntermediateGraph::rebuild`, the DFS post-order flattening the c2d
  loader applies) for files whose children precede their parents:

  * `flatten_spec`: the structural description of the result (`FlatSpec`): a renaming `φ` of the
    nodes reachable from the root such that `out[φ i]` is the file node `i` with its child list
    reversed and renamed by `φ`, children get smaller new indices, every output node is the image
    of a reachable node, the root is pushed last, every other reachable node has a reachable parent;
  * consequences: `flatten_topo`, `flatten_root`, `flatten_val` (every bottom-up pass that is
    invariant under reversing / renaming the child list), `flatten_eval`, `flatten_count`,
    `flatten_vars_perm`, `flatten_WF`, `flatten_live`;
  * `saveReload_sound`: saving a well-formed array and loading the file again gives a well-formed
    array that denotes the same function and has the same count.
-/
import DdnnfVerif.Proofs.Persist
import DdnnfVerif.Proofs.Core
import DdnnfVerif.Proofs.SameFunction

namespace Ddnnf

/-! ### vocabulary -/

/-- a file node with the child list renamed by `φ` and reversed -/
def mapNode (φ : Nat → Nat) : NType → NType
  | .and cs => .and (cs.map φ).reverse
  | .or cs => .or (cs.map φ).reverse
  | nd => nd

/-- new index of file node `c` in the state (0 when it has not been visited) -/
def phi (st : FlatSt) (c : Nat) : Nat := (st.newIx.getD c none).getD 0

/-- file node `i` has been visited (has been given a new index) -/
def Vis (st : FlatSt) (i : Nat) : Prop := (st.newIx.getD i none).isSome = true

/-- `j` is reachable from `r` along child edges of the file -/
inductive Reach (file : List NType) (r : Nat) : Nat → Prop
  | refl : Reach file r r
  | step {p j : Nat} : Reach file r p → j ∈ children (file.getD p .fls) → Reach file r j

theorem mapNode_congr (φ ψ : Nat → Nat) (nd : NType) (h : ∀ c ∈ children nd, φ c = ψ c) :
    mapNode φ nd = mapNode ψ nd := by
  cases nd with
  | and cs =>
    have h' : cs.map φ = cs.map ψ := List.map_congr_left h
    simp only [mapNode, h']
  | or cs =>
    have h' : cs.map φ = cs.map ψ := List.map_congr_left h
    simp only [mapNode, h']
  | lit l => rfl
  | tru => rfl
  | fls => rfl

theorem children_mapNode (φ : Nat → Nat) (nd : NType) :
    children (mapNode φ nd) = ((children nd).map φ).reverse := by
  cases nd <;> rfl

theorem Reach.head {file : List NType} {i c j : Nat} (hc : c ∈ children (file.getD i .fls))
    (h : Reach file c j) : Reach file i j := by
  induction h with
  | refl => exact .step .refl hc
  | step _ hj ih => exact .step ih hj

theorem getD_eq_getElem' (file : List NType) (i : Nat) (h : i < file.length) :
    file.getD i .fls = file[i] := by
  simp [List.getD_eq_getElem?_getD, h]

theorem children_getD_lt (file : List NType) (htopo : Topo file) (p j : Nat)
    (hj : j ∈ children (file.getD p .fls)) : j < p ∧ p < file.length := by
  by_cases hp : p < file.length
  · rw [getD_eq_getElem' file p hp] at hj
    exact ⟨htopo p hp j hj, hp⟩
  · have : file.getD p .fls = .fls := by
      simp [List.getD_eq_getElem?_getD, List.getElem?_eq_none (Nat.le_of_not_lt hp)]
    rw [this] at hj
    cases hj

theorem Reach.le {file : List NType} (htopo : Topo file) {r j : Nat} (h : Reach file r j) :
    j ≤ r := by
  induction h with
  | refl => exact Nat.le_refl _
  | step _ hj ih => have := (children_getD_lt file htopo _ _ hj).1; omega

/-! ### `Array` helpers -/

theorem getD_setIfInBounds {α} (a : Array α) (i j : Nat) (v d : α) (hi : i < a.size) :
    (a.setIfInBounds i v).getD j d = if j = i then v else a.getD j d := by
  simp only [Array.getD_eq_getD_getElem?, Array.getElem?_setIfInBounds]
  by_cases h : j = i
  · subst h; simp [hi]
  · have : ¬ i = j := fun e => h e.symm
    simp [h, this]

/-- mark `i` with the next free index and push its node -/
def pushSt (st : FlatSt) (i : Nat) (nd : NType) : FlatSt :=
  { newIx := st.newIx.setIfInBounds i (some st.out.size), out := st.out.push nd }

theorem flatVisit_succ (file : List NType) (fuel i : Nat) (st : FlatSt) :
    flatVisit file (fuel + 1) i st =
      if (st.newIx.getD i none).isSome then st
      else
        pushSt ((children (file.getD i .fls)).foldl (fun s c => flatVisit file fuel c s) st) i
          (mapNode (phi ((children (file.getD i .fls)).foldl
            (fun s c => flatVisit file fuel c s) st)) (file.getD i .fls)) := by
  rw [flatVisit]
  split
  · rfl
  · cases file.getD i .fls <;> rfl

/-! ### the invariant of the traversal -/

/-- every visited file node `i` has a new index `φ i` inside `out`, `out[φ i]` is the file node with
its children reversed and renamed by `φ`, all children of a visited node are visited and have smaller
new indices, and every output node is the image of a visited node -/
structure FlatInv (file : List NType) (st : FlatSt) : Prop where
  size : st.newIx.size = file.length
  node : ∀ i, Vis st i →
    st.out[phi st i]? = some (mapNode (phi st) (file.getD i .fls)) ∧
      ∀ c ∈ children (file.getD i .fls), Vis st c ∧ phi st c < phi st i
  surj : ∀ k, k < st.out.size → ∃ i, Vis st i ∧ phi st i = k

/-- `st'` extends `st`: visited nodes keep their new index, `out` only grows at the end -/
structure FlatExt (st st' : FlatSt) : Prop where
  vis : ∀ i, Vis st i → Vis st' i ∧ phi st' i = phi st i
  out : ∀ k, k < st.out.size → st'.out[k]? = st.out[k]?

theorem FlatExt.refl (st : FlatSt) : FlatExt st st := ⟨fun _ h => ⟨h, rfl⟩, fun _ _ => rfl⟩

theorem FlatExt.size_le {st st' : FlatSt} (h : FlatExt st st') : st.out.size ≤ st'.out.size := by
  by_cases h0 : st.out.size = 0
  · omega
  · have := h.out (st.out.size - 1) (by omega)
    rw [Array.getElem?_eq_getElem (by omega : st.out.size - 1 < st.out.size)] at this
    have hlt : st.out.size - 1 < st'.out.size := by
      apply Classical.byContradiction
      intro hn
      rw [Array.getElem?_eq_none (by omega)] at this
      cases this
    omega

theorem FlatExt.trans {a b c : FlatSt} (h1 : FlatExt a b) (h2 : FlatExt b c) : FlatExt a c := by
  refine ⟨?_, ?_⟩
  · intro i hi
    obtain ⟨hb, eb⟩ := h1.vis i hi
    obtain ⟨hc, ec⟩ := h2.vis i hb
    exact ⟨hc, ec.trans eb⟩
  · intro k hk
    rw [h2.out k (by have := h1.size_le; omega), h1.out k hk]

theorem FlatInv.vis_lt {file : List NType} {st : FlatSt} (h : FlatInv file st) {i : Nat}
    (hv : Vis st i) : i < file.length := by
  apply Classical.byContradiction
  intro hn
  unfold Vis at hv
  rw [getD_of_ge _ _ _ (by rw [h.size]; omega)] at hv
  cases hv

theorem FlatInv.phi_lt {file : List NType} {st : FlatSt} (h : FlatInv file st) {i : Nat}
    (hv : Vis st i) : phi st i < st.out.size := by
  have := (h.node i hv).1
  apply Classical.byContradiction
  intro hn
  rw [Array.getElem?_eq_none (by omega)] at this
  cases this

/-- what one call `flatVisit file fuel i st = st'` achieves -/
structure VisitSpec (file : List NType) (i : Nat) (st st' : FlatSt) : Prop where
  inv : FlatInv file st'
  ext : FlatExt st st'
  vis : Vis st' i
  new : ∀ j, Vis st' j → Vis st j ∨ Reach file i j
  last : ¬ Vis st i → phi st' i + 1 = st'.out.size

theorem fold_spec (file : List NType) (fuel : Nat)
    (ih : ∀ i st, FlatInv file st → i < file.length → i < fuel →
      VisitSpec file i st (flatVisit file fuel i st))
    (cs : List Nat) (hcs : ∀ c ∈ cs, c < file.length ∧ c < fuel) (st : FlatSt)
    (hinv : FlatInv file st) :
    FlatInv file (cs.foldl (fun s c => flatVisit file fuel c s) st) ∧
    FlatExt st (cs.foldl (fun s c => flatVisit file fuel c s) st) ∧
    (∀ c ∈ cs, Vis (cs.foldl (fun s c => flatVisit file fuel c s) st) c) ∧
    ∀ j, Vis (cs.foldl (fun s c => flatVisit file fuel c s) st) j →
      Vis st j ∨ ∃ c ∈ cs, Reach file c j := by
  induction cs generalizing st with
  | nil =>
    exact ⟨hinv, FlatExt.refl st, fun c hc => (by cases hc), fun j hj => Or.inl hj⟩
  | cons c cs ihcs =>
    rw [List.foldl_cons]
    have hc := hcs c (List.mem_cons_self ..)
    have s1 := ih c st hinv hc.1 hc.2
    obtain ⟨i2, e2, v2, n2⟩ := ihcs (fun x hx => hcs x (List.mem_cons_of_mem _ hx))
      (flatVisit file fuel c st) s1.inv
    refine ⟨i2, s1.ext.trans e2, ?_, ?_⟩
    · intro x hx
      rcases List.mem_cons.mp hx with rfl | hx
      · exact (e2.vis _ s1.vis).1
      · exact v2 x hx
    · intro j hj
      rcases n2 j hj with h | ⟨x, hx, hr⟩
      · rcases s1.new j h with h | h
        · exact Or.inl h
        · exact Or.inr ⟨c, List.mem_cons_self .., h⟩
      · exact Or.inr ⟨x, List.mem_cons_of_mem _ hx, hr⟩

/-- marking `i` and pushing its node after all its children have been visited -/
theorem push_spec (file : List NType) (i : Nat) (st : FlatSt) (hinv : FlatInv file st)
    (hi : i < file.length) (hnv : ¬ Vis st i)
    (hch : ∀ c ∈ children (file.getD i .fls), Vis st c) :
    VisitSpec file i st (pushSt st i (mapNode (phi st) (file.getD i .fls))) := by
  have hisz : i < st.newIx.size := by rw [hinv.size]; exact hi
  have hphi : ∀ j, phi (pushSt st i (mapNode (phi st) (file.getD i .fls))) j
      = if j = i then st.out.size else phi st j := by
    intro j
    unfold phi pushSt
    simp only [getD_setIfInBounds _ _ _ _ _ hisz]
    by_cases h : j = i <;> simp [h]
  have hvis : ∀ j, Vis (pushSt st i (mapNode (phi st) (file.getD i .fls))) j ↔ (j = i ∨ Vis st j) := by
    intro j
    unfold Vis pushSt
    simp only [getD_setIfInBounds _ _ _ _ _ hisz]
    by_cases h : j = i <;> simp [h]
  have hne : ∀ j, Vis st j → j ≠ i := fun j hj e => hnv (e ▸ hj)
  have hphi' : ∀ j, Vis st j → phi (pushSt st i (mapNode (phi st) (file.getD i .fls))) j = phi st j := by
    intro j hj
    rw [hphi, if_neg (hne j hj)]
  refine ⟨⟨?_, ?_, ?_⟩, ⟨?_, ?_⟩, ?_, ?_, ?_⟩
  · show (st.newIx.setIfInBounds i (some st.out.size)).size = file.length
    rw [Array.size_setIfInBounds]; exact hinv.size
  · intro j hj
    show (st.out.push _)[_]? = _ ∧ _
    rcases (hvis j).mp hj with rfl | hj'
    · refine ⟨?_, ?_⟩
      · rw [hphi, if_pos rfl, Array.getElem?_push, if_pos rfl]
        congr 1
        apply mapNode_congr
        intro c hc
        exact (hphi' c (hch c hc)).symm
      · intro c hc
        refine ⟨(hvis c).mpr (Or.inr (hch c hc)), ?_⟩
        rw [hphi' c (hch c hc), hphi, if_pos rfl]
        exact hinv.phi_lt (hch c hc)
    · obtain ⟨h1, h2⟩ := hinv.node j hj'
      refine ⟨?_, ?_⟩
      · rw [hphi' j hj', Array.getElem?_push, if_neg (by have := hinv.phi_lt hj'; omega), h1]
        congr 1
        apply mapNode_congr
        intro c hc
        exact (hphi' c (h2 c hc).1).symm
      · intro c hc
        refine ⟨(hvis c).mpr (Or.inr (h2 c hc).1), ?_⟩
        rw [hphi' c (h2 c hc).1, hphi' j hj']
        exact (h2 c hc).2
  · intro k hk
    have hk' : k < st.out.size + 1 := by
      have e : (pushSt st i (mapNode (phi st) (file.getD i .fls))).out.size = st.out.size + 1 :=
        Array.size_push ..
      omega
    by_cases hks : k = st.out.size
    · exact ⟨i, (hvis i).mpr (Or.inl rfl), by rw [hphi, if_pos rfl, hks]⟩
    · obtain ⟨j, hj, hjk⟩ := hinv.surj k (by omega)
      exact ⟨j, (hvis j).mpr (Or.inr hj), by rw [hphi' j hj, hjk]⟩
  · intro j hj
    exact ⟨(hvis j).mpr (Or.inr hj), hphi' j hj⟩
  · intro k hk
    show (st.out.push _)[k]? = _
    rw [Array.getElem?_push, if_neg (by omega)]
  · exact (hvis i).mpr (Or.inl rfl)
  · intro j hj
    rcases (hvis j).mp hj with rfl | h
    · exact Or.inr .refl
    · exact Or.inl h
  · intro _
    rw [hphi, if_pos rfl]
    show st.out.size + 1 = (st.out.push _).size
    rw [Array.size_push]

theorem flatVisit_spec (file : List NType) (htopo : Topo file) :
    ∀ fuel i st, FlatInv file st → i < file.length → i < fuel →
      VisitSpec file i st (flatVisit file fuel i st) := by
  intro fuel
  induction fuel with
  | zero => intro i st _ _ h; omega
  | succ fuel ih =>
    intro i st hinv hi hfuel
    rw [flatVisit_succ]
    by_cases hv : (st.newIx.getD i none).isSome = true
    · rw [if_pos hv]
      exact ⟨hinv, FlatExt.refl st, hv, fun j hj => Or.inl hj, fun h => absurd hv h⟩
    · rw [if_neg hv]
      have hlt : ∀ c ∈ children (file.getD i .fls), c < i := fun c hc =>
        (children_getD_lt file htopo i c hc).1
      obtain ⟨finv, fext, fvis, fnew⟩ := fold_spec file fuel ih (children (file.getD i .fls))
        (fun c hc => ⟨by have := hlt c hc; omega, by have := hlt c hc; omega⟩) st hinv
      have hnv : ¬ Vis ((children (file.getD i .fls)).foldl
          (fun s c => flatVisit file fuel c s) st) i := by
        intro h
        rcases fnew i h with h | ⟨c, hc, hr⟩
        · exact hv h
        · have := hr.le htopo
          have := hlt c hc
          omega
      have sp := push_spec file i _ finv hi hnv fvis
      refine ⟨sp.inv, fext.trans sp.ext, sp.vis, ?_, fun _ => sp.last hnv⟩
      intro j hj
      rcases sp.new j hj with h | h
      · rcases fnew j h with h | ⟨c, hc, hr⟩
        · exact Or.inl h
        · exact Or.inr (hr.head hc)
      · exact Or.inr h

/-! ### the structural description of the result -/

/-- the state after the whole traversal -/
def flatSt (file : List NType) : FlatSt :=
  flatVisit file (file.length + 1) (file.length - 1)
    { newIx := Array.replicate file.length none, out := #[] }

theorem flatten_eq (file : List NType) : flatten file = (flatSt file).out.toList := rfl

/-- `out` is the flattening of `file`: `V` = reachable from the root, `φ` = new index -/
structure FlatSpec (file out : List NType) (V : Nat → Prop) (φ : Nat → Nat) : Prop where
  /-- the root of the file is visited … -/
  root_vis : V (rootIx file)
  /-- … and pushed last -/
  root_phi : φ (rootIx file) + 1 = out.length
  /-- the image of a visited node is the node with its children reversed and renamed; children of
  visited nodes are visited and get smaller new indices -/
  node : ∀ i, V i → ∃ (h : i < file.length) (hk : φ i < out.length),
    out[φ i] = mapNode φ file[i] ∧ ∀ c ∈ children file[i], V c ∧ φ c < φ i
  /-- every output node is the image of a visited node -/
  surj : ∀ k, k < out.length → ∃ i, V i ∧ φ i = k
  /-- every visited node except the root is a child of a visited node -/
  parent : ∀ j, V j → j ≠ rootIx file →
    ∃ p, V p ∧ ∃ h : p < file.length, j ∈ children file[p]

theorem FlatInv.reach_vis {file : List NType} {st : FlatSt} (h : FlatInv file st) {r j : Nat}
    (hr : Vis st r) (hj : Reach file r j) : Vis st j := by
  induction hj with
  | refl => exact hr
  | step _ hc ih => exact ((h.node _ ih).2 _ hc).1

theorem flatten_spec (file : List NType) (hne : file ≠ []) (htopo : Topo file) :
    FlatSpec file (flatten file) (Vis (flatSt file)) (phi (flatSt file)) := by
  have hpos : 0 < file.length := List.length_pos_iff.mpr hne
  have hnv0 : ∀ j, ¬ Vis { newIx := Array.replicate file.length none, out := #[] } j := by
    intro j hj
    unfold Vis at hj
    simp only [Array.getD_eq_getD_getElem?, Array.getElem?_replicate] at hj
    by_cases h : j < file.length <;> simp [h] at hj
  have hinv0 : FlatInv file { newIx := Array.replicate file.length none, out := #[] } := by
    refine ⟨Array.size_replicate .., fun i hi => absurd hi (hnv0 i), ?_⟩
    intro k hk
    simp at hk
  have sp := flatVisit_spec file htopo (file.length + 1) (file.length - 1) _ hinv0
    (by omega) (by omega)
  have hlen : (flatten file).length = (flatSt file).out.size := by
    rw [flatten_eq, Array.length_toList]
  refine ⟨sp.vis, ?_, ?_, ?_, ?_⟩
  · rw [hlen]
    exact sp.last (hnv0 _)
  · intro i hv
    have hi : i < file.length := sp.inv.vis_lt hv
    obtain ⟨h1, h2⟩ := sp.inv.node i hv
    rw [getD_eq_getElem' file i hi] at h1 h2
    have h1' : (flatten file)[phi (flatSt file) i]? = some (mapNode (phi (flatSt file)) file[i]) := by
      rw [flatten_eq, Array.getElem?_toList]
      exact h1
    obtain ⟨hk, he⟩ := List.getElem?_eq_some_iff.mp h1'
    exact ⟨hi, hk, he, h2⟩
  · intro k hk
    exact sp.inv.surj k (hlen ▸ hk)
  · intro j hv hjr
    rcases sp.new j hv with h | h
    · exact absurd h (hnv0 j)
    · cases h with
      | refl => exact absurd rfl hjr
      | step hp hc =>
        have hpl := (children_getD_lt file htopo _ _ hc).2
        rw [getD_eq_getElem' file _ hpl] at hc
        exact ⟨_, sp.inv.reach_vis sp.vis hp, hpl, hc⟩

/-! ### consequences of the structural description -/

section Consequences

variable {file out : List NType} {V : Nat → Prop} {φ : Nat → Nat}

theorem FlatSpec.nonempty (hs : FlatSpec file out V φ) : out ≠ [] := by
  intro h
  have := hs.root_phi
  rw [h] at this
  simp at this

theorem FlatSpec.rootIx_eq (hs : FlatSpec file out V φ) : rootIx out = φ (rootIx file) := by
  have := hs.root_phi
  unfold rootIx at *
  omega

/-- children of an output node: the images of the children of the file node -/
theorem FlatSpec.mem_children (hs : FlatSpec file out V φ) {i : Nat} (hv : V i)
    (h : i < file.length) (hk : φ i < out.length) (c' : Nat) :
    c' ∈ children out[φ i] ↔ ∃ c ∈ children file[i], φ c = c' := by
  obtain ⟨_, _, he, _⟩ := hs.node i hv
  rw [he, children_mapNode, List.mem_reverse, List.mem_map]

theorem FlatSpec.topo (hs : FlatSpec file out V φ) : Topo out := by
  intro k hk c' hc'
  obtain ⟨i, hv, rfl⟩ := hs.surj k hk
  obtain ⟨h, hk', _, hch⟩ := hs.node i hv
  obtain ⟨c, hc, rfl⟩ := (hs.mem_children hv h hk' c').mp hc'
  exact (hch c hc).2

/-- second component of `Live`: every non-root output node has a parent -/
theorem FlatSpec.live (hs : FlatSpec file out V φ) :
    ∀ j, j + 1 < out.length → ∃ i, ∃ h : i < out.length, j < i ∧ j ∈ children out[i] := by
  intro k hk
  obtain ⟨j, hv, rfl⟩ := hs.surj k (by omega)
  have hjr : j ≠ rootIx file := by
    intro e
    have := hs.root_phi
    rw [← e] at this
    omega
  obtain ⟨p, hvp, hp, hc⟩ := hs.parent j hv hjr
  obtain ⟨_, hk', _, hch⟩ := hs.node p hvp
  exact ⟨φ p, hk', (hch j hc).2, (hs.mem_children hvp hp hk' _).mpr ⟨j, hc, rfl⟩⟩

/-- how a pass whose node function commutes with renaming and reversing the child list sees a
renamed node -/
theorem f_mapNode {α} (f : NType → (Nat → α) → α)
    (hcongr : ∀ nd g g', (∀ c ∈ children nd, g c = g' c) → f nd g = f nd g')
    (hmap : ∀ (ψ : Nat → Nat) cs g,
      f (.and (cs.map ψ)) g = f (.and cs) (fun c => g (ψ c)) ∧
      f (.or (cs.map ψ)) g = f (.or cs) (fun c => g (ψ c)))
    (hrev : ∀ cs g, f (.and cs.reverse) g = f (.and cs) g ∧ f (.or cs.reverse) g = f (.or cs) g)
    (ψ : Nat → Nat) (nd : NType) (g : Nat → α) :
    f (mapNode ψ nd) g = f nd (fun c => g (ψ c)) := by
  cases nd with
  | and cs => simp only [mapNode]; rw [(hrev _ g).1, (hmap ψ cs g).1]
  | or cs => simp only [mapNode]; rw [(hrev _ g).2, (hmap ψ cs g).2]
  | lit l => exact hcongr _ _ _ (fun c hc => by cases hc)
  | tru => exact hcongr _ _ _ (fun c hc => by cases hc)
  | fls => exact hcongr _ _ _ (fun c hc => by cases hc)

/-- every bottom-up pass whose node function only reads the values of the children, commutes with
renaming the children and is invariant under reversing the child list gives the same value on the
flattened array at `φ i` as on the file at `i` -/
theorem FlatSpec.val (hs : FlatSpec file out V φ) (htopo : Topo file) {α} (d : α)
    (f : NType → (Nat → α) → α)
    (hcongr : ∀ nd g g', (∀ c ∈ children nd, g c = g' c) → f nd g = f nd g')
    (hmap : ∀ (ψ : Nat → Nat) cs g,
      f (.and (cs.map ψ)) g = f (.and cs) (fun c => g (ψ c)) ∧
      f (.or (cs.map ψ)) g = f (.or cs) (fun c => g (ψ c)))
    (hrev : ∀ cs g, f (.and cs.reverse) g = f (.and cs) g ∧ f (.or cs.reverse) g = f (.or cs) g) :
    ∀ i, V i → Ddnnf.val d f out (φ i) = Ddnnf.val d f file i := by
  intro i
  induction i using Nat.strongRecOn with
  | _ i ih =>
    intro hv
    obtain ⟨h, hk, he, hch⟩ := hs.node i hv
    rw [val_eq d f out (φ i) hk, val_eq d f file i h, he, f_mapNode f hcongr hmap hrev]
    apply hcongr
    intro c hc
    have hci : c < i := htopo i h c hc
    rw [if_pos (hch c hc).2, if_pos hci]
    exact ih c hci (hch c hc).1

/-! #### the passes `eval` and `count` -/

theorem flat_all_congr {α} (cs : List α) (g g' : α → Bool) (h : ∀ c ∈ cs, g c = g' c) :
    cs.all g = cs.all g' := by
  induction cs with
  | nil => rfl
  | cons c cs ih =>
    rw [List.all_cons, List.all_cons, h c (List.mem_cons_self ..),
      ih (fun x hx => h x (List.mem_cons_of_mem _ hx))]

theorem flat_any_congr {α} (cs : List α) (g g' : α → Bool) (h : ∀ c ∈ cs, g c = g' c) :
    cs.any g = cs.any g' := by
  induction cs with
  | nil => rfl
  | cons c cs ih =>
    rw [List.any_cons, List.any_cons, h c (List.mem_cons_self ..),
      ih (fun x hx => h x (List.mem_cons_of_mem _ hx))]

theorem prodNat_append (xs ys : List Nat) : prodNat (xs ++ ys) = prodNat xs * prodNat ys := by
  induction xs with
  | nil => simp [prodNat]
  | cons x xs ih => rw [List.cons_append, prodNat_cons, prodNat_cons, ih, Nat.mul_assoc]

theorem sumNat_append (xs ys : List Nat) : sumNat (xs ++ ys) = sumNat xs + sumNat ys := by
  induction xs with
  | nil => simp [sumNat]
  | cons x xs ih => rw [List.cons_append, sumNat_cons, sumNat_cons, ih, Nat.add_assoc]

theorem prodNat_reverse (xs : List Nat) : prodNat xs.reverse = prodNat xs := by
  induction xs with
  | nil => rfl
  | cons x xs ih =>
    rw [List.reverse_cons, prodNat_append, ih, prodNat_cons, prodNat_cons]
    simp [prodNat, Nat.mul_comm]

theorem sumNat_reverse (xs : List Nat) : sumNat xs.reverse = sumNat xs := by
  induction xs with
  | nil => rfl
  | cons x xs ih =>
    rw [List.reverse_cons, sumNat_append, ih, sumNat_cons, sumNat_cons]
    simp [sumNat, Nat.add_comm]

theorem fEval_congr (σ : Assignment) (nd : NType) (g g' : Nat → Bool)
    (h : ∀ c ∈ children nd, g c = g' c) : fEval σ nd g = fEval σ nd g' := by
  cases nd with
  | and cs => exact flat_all_congr cs g g' h
  | or cs => exact flat_any_congr cs g g' h
  | lit l => rfl
  | tru => rfl
  | fls => rfl

theorem fEval_map (σ : Assignment) (ψ : Nat → Nat) (cs : List Nat) (g : Nat → Bool) :
    fEval σ (.and (cs.map ψ)) g = fEval σ (.and cs) (fun c => g (ψ c)) ∧
    fEval σ (.or (cs.map ψ)) g = fEval σ (.or cs) (fun c => g (ψ c)) :=
  ⟨List.all_map, List.any_map⟩

theorem fEval_reverse (σ : Assignment) (cs : List Nat) (g : Nat → Bool) :
    fEval σ (.and cs.reverse) g = fEval σ (.and cs) g ∧
    fEval σ (.or cs.reverse) g = fEval σ (.or cs) g :=
  ⟨List.all_reverse, List.any_reverse⟩

theorem fCount_congr (nd : NType) (g g' : Nat → Nat)
    (h : ∀ c ∈ children nd, g c = g' c) : fCount nd g = fCount nd g' := by
  cases nd with
  | and cs =>
    have h' : cs.map g = cs.map g' := List.map_congr_left h
    show prodNat (cs.map g) = prodNat (cs.map g'); rw [h']
  | or cs =>
    have h' : cs.map g = cs.map g' := List.map_congr_left h
    show sumNat (cs.map g) = sumNat (cs.map g'); rw [h']
  | lit l => rfl
  | tru => rfl
  | fls => rfl

theorem fCount_map (ψ : Nat → Nat) (cs : List Nat) (g : Nat → Nat) :
    fCount (.and (cs.map ψ)) g = fCount (.and cs) (fun c => g (ψ c)) ∧
    fCount (.or (cs.map ψ)) g = fCount (.or cs) (fun c => g (ψ c)) := by
  constructor
  · show prodNat ((cs.map ψ).map g) = prodNat (cs.map fun c => g (ψ c))
    rw [List.map_map]; rfl
  · show sumNat ((cs.map ψ).map g) = sumNat (cs.map fun c => g (ψ c))
    rw [List.map_map]; rfl

theorem fCount_reverse (cs : List Nat) (g : Nat → Nat) :
    fCount (.and cs.reverse) g = fCount (.and cs) g ∧
    fCount (.or cs.reverse) g = fCount (.or cs) g := by
  constructor
  · show prodNat (cs.reverse.map g) = prodNat (cs.map g)
    rw [List.map_reverse, prodNat_reverse]
  · show sumNat (cs.reverse.map g) = sumNat (cs.map g)
    rw [List.map_reverse, sumNat_reverse]

theorem FlatSpec.eval (hs : FlatSpec file out V φ) (htopo : Topo file) (σ : Assignment) :
    ∀ i, V i → Ddnnf.eval σ out (φ i) = Ddnnf.eval σ file i :=
  hs.val htopo false (fEval σ) (fEval_congr σ) (fEval_map σ) (fEval_reverse σ)

theorem FlatSpec.count (hs : FlatSpec file out V φ) (htopo : Topo file) :
    ∀ i, V i → Ddnnf.count out (φ i) = Ddnnf.count file i :=
  hs.val htopo 0 fCount fCount_congr fCount_map fCount_reverse

/-! #### variables (up to the order) -/

theorem flatten_map_perm {α β} (cs : List α) (a b : α → List β)
    (h : ∀ c ∈ cs, (a c).Perm (b c)) : (cs.map a).flatten.Perm (cs.map b).flatten := by
  induction cs with
  | nil => exact List.Perm.refl _
  | cons c cs ih =>
    simp only [List.map_cons, List.flatten_cons]
    exact (h c (List.mem_cons_self ..)).append (ih (fun x hx => h x (List.mem_cons_of_mem _ hx)))

/-- the flattened variable lists of the renamed and reversed child list -/
theorem flatten_vars_children (cs : List Nat) (ψ : Nat → Nat) (a b : Nat → List Nat)
    (h : ∀ c ∈ cs, (a (ψ c)).Perm (b c)) :
    (((cs.map ψ).reverse.map a).flatten).Perm ((cs.map b).flatten) := by
  rw [List.map_reverse, List.map_map]
  exact (List.reverse_perm _).flatten.trans (flatten_map_perm cs _ _ h)

theorem FlatSpec.vars_perm (hs : FlatSpec file out V φ) (htopo : Topo file) (hsm : Smooth file) :
    ∀ i, V i → (vars out (φ i)).Perm (vars file i) := by
  intro i
  induction i using Nat.strongRecOn with
  | _ i ih =>
    intro hv
    obtain ⟨h, hk, he, hch⟩ := hs.node i hv
    have hout : vars out (φ i)
        = fVars (Ddnnf.count out) out[φ i] (fun j => if j < φ i then vars out j else []) :=
      val_eq [] (fVars (Ddnnf.count out)) out (φ i) hk
    have hfile : vars file i
        = fVars (Ddnnf.count file) file[i] (fun j => if j < i then vars file j else []) :=
      val_eq [] (fVars (Ddnnf.count file)) file i h
    have hlt : ∀ c ∈ children file[i], c < i := htopo i h
    cases hnd : file[i] with
    | and cs =>
      rw [hnd] at hch hlt
      rw [hout, hfile, he, hnd]
      show (((cs.map φ).reverse.map _).flatten).Perm ((cs.map _).flatten)
      apply flatten_vars_children
      intro c hc
      rw [if_pos (hch c hc).2, if_pos (hlt c hc)]
      exact ih c (hlt c hc) (hch c hc).1
    | or cs =>
      rw [hnd] at hch hlt
      have hfl : ((cs.map φ).reverse.filter (fun c => Ddnnf.count out c != 0))
          = ((cs.filter (fun c => Ddnnf.count file c != 0)).reverse).map φ := by
        rw [List.filter_reverse, List.filter_map, List.map_reverse]
        congr 2
        apply List.filter_congr
        intro c hc
        show (Ddnnf.count out (φ c) != 0) = _
        rw [hs.count htopo c (hch c hc).1]
      rw [hout, he, hnd]
      show (match (cs.map φ).reverse.filter (fun c => Ddnnf.count out c != 0) with
        | [] => []
        | c :: _ => (fun j => if j < φ i then vars out j else []) c).Perm _
      rw [hfl]
      cases hL : (cs.filter (fun c => Ddnnf.count file c != 0)).reverse with
      | nil =>
        rw [hfile, hnd]
        show List.Perm _ (match cs.filter (fun c => Ddnnf.count file c != 0) with
          | [] => []
          | c :: _ => (fun j => if j < i then vars file j else []) c)
        rw [List.reverse_eq_nil_iff] at hL
        rw [hL]
        exact List.Perm.refl _
      | cons c1 t =>
        have hc1 : c1 ∈ cs.filter (fun c => Ddnnf.count file c != 0) := by
          rw [← List.mem_reverse, hL]; exact List.mem_cons_self ..
        rw [List.mem_filter] at hc1
        obtain ⟨hc1m, hc1n⟩ := hc1
        show (if φ c1 < φ i then vars out (φ c1) else []).Perm _
        rw [if_pos (hch c1 hc1m).2]
        exact (ih c1 (hlt c1 hc1m) (hch c1 hc1m).1).trans
          (hsm i h cs hnd c1 hc1m (by simpa using hc1n))
    | lit l => rw [hout, hfile, he, hnd]; exact List.Perm.refl _
    | tru => rw [hout, hfile, he, hnd]; exact List.Perm.refl _
    | fls => rw [hout, hfile, he, hnd]; exact List.Perm.refl _

/-! #### well-formedness -/

theorem mapNode_eq_lit (ψ : Nat → Nat) (nd : NType) (l : Int) (h : mapNode ψ nd = .lit l) :
    nd = .lit l := by
  cases nd <;> first | exact h | cases h

theorem mapNode_eq_and (ψ : Nat → Nat) (nd : NType) (cs' : List Nat)
    (h : mapNode ψ nd = .and cs') : ∃ cs, nd = .and cs ∧ cs' = (cs.map ψ).reverse := by
  cases nd with
  | and cs => exact ⟨cs, rfl, by injection h with h; exact h.symm⟩
  | or cs => cases h
  | lit l => cases h
  | tru => cases h
  | fls => cases h

theorem mapNode_eq_or (ψ : Nat → Nat) (nd : NType) (cs' : List Nat)
    (h : mapNode ψ nd = .or cs') : ∃ cs, nd = .or cs ∧ cs' = (cs.map ψ).reverse := by
  cases nd with
  | and cs => cases h
  | or cs => exact ⟨cs, rfl, by injection h with h; exact h.symm⟩
  | lit l => cases h
  | tru => cases h
  | fls => cases h

theorem FlatSpec.WF (hs : FlatSpec file out V φ) (n : Nat) (h : Ddnnf.WF file n) :
    Ddnnf.WF out n := by
  have htopo := h.topo
  refine ⟨hs.nonempty, hs.topo, ?_, ?_, ?_, ?_, ?_⟩
  · intro k hk l hl
    obtain ⟨i, hv, rfl⟩ := hs.surj k hk
    obtain ⟨hi, _, he, _⟩ := hs.node i hv
    rw [he] at hl
    exact h.litnz i hi l (mapNode_eq_lit _ _ _ hl)
  · intro k hk cs' hcs'
    obtain ⟨i, hv, rfl⟩ := hs.surj k hk
    obtain ⟨hi, _, he, hch⟩ := hs.node i hv
    rw [he] at hcs'
    obtain ⟨cs, hnd, rfl⟩ := mapNode_eq_and _ _ _ hcs'
    rw [hnd] at hch
    have hp : (((cs.map φ).reverse.map (vars out)).flatten).Perm ((cs.map (vars file)).flatten) :=
      flatten_vars_children cs φ (vars out) (vars file)
        (fun c hc => hs.vars_perm htopo h.smooth c (hch c hc).1)
    exact hp.nodup_iff.mpr (h.decomposable i hi cs hnd)
  · intro k hk cs' hcs' c' hc' hcnt
    obtain ⟨i, hv, rfl⟩ := hs.surj k hk
    obtain ⟨hi, _, he, hch⟩ := hs.node i hv
    rw [he] at hcs'
    obtain ⟨cs, hnd, rfl⟩ := mapNode_eq_or _ _ _ hcs'
    rw [hnd] at hch
    rw [List.mem_reverse, List.mem_map] at hc'
    obtain ⟨c, hc, rfl⟩ := hc'
    rw [hs.count htopo c (hch c hc).1] at hcnt
    exact ((hs.vars_perm htopo h.smooth c (hch c hc).1).trans
      (h.smooth i hi cs hnd c hc hcnt)).trans (hs.vars_perm htopo h.smooth i hv).symm
  · intro k hk cs' hcs' σ
    obtain ⟨i, hv, rfl⟩ := hs.surj k hk
    obtain ⟨hi, _, he, hch⟩ := hs.node i hv
    rw [he] at hcs'
    obtain ⟨cs, hnd, rfl⟩ := mapNode_eq_or _ _ _ hcs'
    rw [hnd] at hch
    rw [List.countP_reverse, List.countP_map]
    have : cs.countP ((fun c => Ddnnf.eval σ out c) ∘ φ) = cs.countP (fun c => Ddnnf.eval σ file c) := by
      apply List.countP_congr
      intro c hc
      show Ddnnf.eval σ out (φ c) = true ↔ _
      rw [hs.eval htopo σ c (hch c hc).1]
    rw [this]
    exact h.deterministic i hi cs hnd σ
  · unfold RootComplete
    rw [hs.rootIx_eq]
    exact (hs.vars_perm htopo h.smooth _ hs.root_vis).trans h.rootComplete

/-- literal leaves stay unique (two output leaves with the same literal are images of the same file
leaf) -/
theorem FlatSpec.litUnique (hs : FlatSpec file out V φ) (hu : LitUnique file) : LitUnique out := by
  intro k k' hk hk' l hl hl'
  obtain ⟨i, hv, rfl⟩ := hs.surj k hk
  obtain ⟨i', hv', rfl⟩ := hs.surj k' hk'
  obtain ⟨hi, _, he, _⟩ := hs.node i hv
  obtain ⟨hi', _, he', _⟩ := hs.node i' hv'
  rw [he] at hl
  rw [he'] at hl'
  rw [hu i i' hi hi' l (mapNode_eq_lit _ _ _ hl) (mapNode_eq_lit _ _ _ hl')]

end Consequences

/-! ### the statements for `flatten` -/

theorem flatten_nil : flatten [] = [.fls] := by rfl

theorem flatten_topo (file : List NType) (htopo : Topo file) : Topo (flatten file) := by
  by_cases hne : file = []
  · subst hne
    rw [flatten_nil]
    intro i hi c hc
    have : i = 0 := by simpa using hi
    subst this
    cases hc
  · exact (flatten_spec file hne htopo).topo

/-- the root of the file is reachable, its image is the last node of `flatten file` (the root of
the flattened array) and it is the file's root with the children reversed and renamed -/
theorem flatten_root (file : List NType) (hne : file ≠ []) (htopo : Topo file) :
    Vis (flatSt file) (rootIx file) ∧
    phi (flatSt file) (rootIx file) = rootIx (flatten file) ∧
    ∃ (h : rootIx file < file.length) (hk : rootIx (flatten file) < (flatten file).length),
      (flatten file)[rootIx (flatten file)] = mapNode (phi (flatSt file)) file[rootIx file] := by
  have hs := flatten_spec file hne htopo
  obtain ⟨h, hk, he, _⟩ := hs.node _ hs.root_vis
  refine ⟨hs.root_vis, hs.rootIx_eq.symm, h, by rw [hs.rootIx_eq]; exact hk, ?_⟩
  simp only [hs.rootIx_eq]
  exact he

/-- every bottom-up pass whose node function only reads the values of the children
(`hcongr`), commutes with renaming the children (`hmap`) and is invariant under reversing the child
list (`hrev`) gives the same value on the flattened array at the new index of `i` as on the file at
`i`, for every node `i` reachable from the root -/
theorem flatten_val {α} (d : α) (f : NType → (Nat → α) → α)
    (hcongr : ∀ nd g g', (∀ c ∈ children nd, g c = g' c) → f nd g = f nd g')
    (hmap : ∀ (ψ : Nat → Nat) cs g,
      f (.and (cs.map ψ)) g = f (.and cs) (fun c => g (ψ c)) ∧
      f (.or (cs.map ψ)) g = f (.or cs) (fun c => g (ψ c)))
    (hrev : ∀ cs g, f (.and cs.reverse) g = f (.and cs) g ∧ f (.or cs.reverse) g = f (.or cs) g)
    (file : List NType) (hne : file ≠ []) (htopo : Topo file) (i : Nat)
    (hv : Vis (flatSt file) i) :
    val d f (flatten file) (phi (flatSt file) i) = val d f file i :=
  (flatten_spec file hne htopo).val htopo d f hcongr hmap hrev i hv

theorem flatten_eval (file : List NType) (htopo : Topo file) (hne : file ≠ []) (σ : Assignment) :
    eval σ (flatten file) (rootIx (flatten file)) = eval σ file (rootIx file) := by
  have hs := flatten_spec file hne htopo
  rw [hs.rootIx_eq]
  exact hs.eval htopo σ _ hs.root_vis

theorem flatten_count (file : List NType) (htopo : Topo file) (hne : file ≠ []) :
    count (flatten file) (rootIx (flatten file)) = count file (rootIx file) := by
  have hs := flatten_spec file hne htopo
  rw [hs.rootIx_eq]
  exact hs.count htopo _ hs.root_vis

/-- the variables of a reachable node are the same up to the order (needs smoothness: the
or-node reads the variables of its first child with a model, which is the last one after the
reversal) -/
theorem flatten_vars_perm (file : List NType) (htopo : Topo file) (hne : file ≠ [])
    (hsm : Smooth file) (i : Nat) (hv : Vis (flatSt file) i) :
    (vars (flatten file) (phi (flatSt file) i)).Perm (vars file i) :=
  (flatten_spec file hne htopo).vars_perm htopo hsm i hv

theorem flatten_WF (file : List NType) (n : Nat) (h : WF file n) : WF (flatten file) n :=
  (flatten_spec file h.nonempty h.topo).WF n h

/-- every non-root node of `flatten file` has a parent (second component of `Live`) -/
theorem flatten_live (file : List NType) (htopo : Topo file) (hne : file ≠ []) :
    ∀ j, j + 1 < (flatten file).length →
      ∃ i, ∃ h : i < (flatten file).length, j < i ∧ j ∈ children (flatten file)[i] :=
  (flatten_spec file hne htopo).live

/-- with a model count > 0 at every reachable node the flattened array is `Live` -/
theorem flatten_Live (file : List NType) (htopo : Topo file) (hne : file ≠ [])
    (hcnt : ∀ i, Vis (flatSt file) i → count file i ≠ 0) : Live (flatten file) := by
  have hs := flatten_spec file hne htopo
  refine ⟨?_, hs.live⟩
  intro k hk
  obtain ⟨i, hv, rfl⟩ := hs.surj k hk
  rw [hs.count htopo i hv]
  exact hcnt i hv

theorem flatten_litUnique (file : List NType) (htopo : Topo file) (hne : file ≠ [])
    (hu : LitUnique file) : LitUnique (flatten file) :=
  (flatten_spec file hne htopo).litUnique hu

theorem litUnique_normalize (nodes : List NType) (hu : LitUnique nodes) :
    LitUnique (nodes.map normalizeNode) := by
  intro i j hi hj l hl hl'
  have hlen : (nodes.map normalizeNode).length = nodes.length := List.length_map _
  rw [List.getElem_map] at hl hl'
  exact hu i j (hlen ▸ hi) (hlen ▸ hj) l (normalize_eq_lit _ _ hl) (normalize_eq_lit _ _ hl')

/-! ### save and reload (C10) -/

theorem saveReload_eq (nodes : List NType) (n : Nat) :
    saveReload nodes n = some (n, flatten (nodes.map normalizeNode)) := by
  unfold saveReload
  rw [parse_write]
  rfl

/-- saving a well-formed node array in c2d format and loading the file again yields a well-formed
array over the same features that denotes the same Boolean function and has the same count -/
theorem saveReload_sound (nodes : List NType) (n : Nat) (h : WF nodes n) :
    ∃ out, saveReload nodes n = some (n, out) ∧ WF out n ∧
      (∀ σ, eval σ out (rootIx out) = eval σ nodes (rootIx nodes)) ∧
      count out (rootIx out) = count nodes (rootIx nodes) := by
  have hn := WF_normalize nodes n h
  refine ⟨flatten (nodes.map normalizeNode), saveReload_eq nodes n, flatten_WF _ n hn, ?_, ?_⟩
  · intro σ
    rw [flatten_eval _ hn.topo hn.nonempty σ, rootIx_map_normalize, eval_normalize]
  · rw [flatten_count _ hn.topo hn.nonempty, rootIx_map_normalize, count_normalize]

/-- … and, with unique literal leaves, the reloaded array again has unique literal leaves, so all
`same_function_*` theorems of `Proofs/SameFunction.lean` apply to the pair -/
theorem saveReload_sameFunction (nodes : List NType) (n : Nat) (h : WF nodes n)
    (hu : LitUnique nodes) :
    ∃ out, saveReload nodes n = some (n, out) ∧ WF out n ∧ LitUnique out ∧
      SameFunction out nodes := by
  have hn := WF_normalize nodes n h
  refine ⟨flatten (nodes.map normalizeNode), saveReload_eq nodes n, flatten_WF _ n hn,
    flatten_litUnique _ hn.topo hn.nonempty (litUnique_normalize nodes hu), ?_⟩
  intro σ
  rw [flatten_eval _ hn.topo hn.nonempty σ, rootIx_map_normalize, eval_normalize]

/-- counting under assumptions and the per-feature cardinalities are unchanged by save / reload -/
theorem saveReload_answers (nodes : List NType) (n : Nat) (h : WF nodes n) (hu : LitUnique nodes) :
    ∃ out, saveReload nodes n = some (n, out) ∧
      (∀ A, InRange A n → execQuery out n A = execQuery nodes n A) ∧
      cardPD out n = cardPD nodes n ∧
      (∀ c, Complete n c →
        ((∃ m ∈ models out (rootIx out), m.Perm c) ↔ (∃ m ∈ models nodes (rootIx nodes), m.Perm c))) := by
  obtain ⟨out, he, hw, huo, hsf⟩ := saveReload_sameFunction nodes n h hu
  exact ⟨out, he, fun A hA => same_function_execQuery out nodes n hw h huo hu hsf A hA,
    same_function_cardPD out nodes n hw h huo hu hsf,
    fun c hc => same_function_model_set out nodes n hw h hsf c hc⟩

end Ddnnf
