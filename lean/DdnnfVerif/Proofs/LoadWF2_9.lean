/-
  Well-formedness of the array the d4 loader produces (part 9): `balance` makes an or-node smooth.

  `balance_dinv`: `nx` is an or-node of a state with `DInv`, and `VS c` lists exactly the variables that the
  successor `c` of `nx` mentions.  After `balance true id s nx (missing …)`: `DInv` holds, the frame `BalStep`
  (old nodes keep their kinds and their variables, only the successor list of `nx` changes), and `nx` is
  smooth: every successor mentions every variable that `nx` mentions (`SmoothAt`).

  The successor list may contain a node several times: `missing` lists a child once per occurrence and
  every step replaces one occurrence (`miss_count`).
-/
import DdnnfVerif.Proofs.LoadWF2_8

namespace Ddnnf.D4

/-- every successor mentions every variable of the node (the converse holds for and/or nodes anyway) -/
def SmoothAt (g : G) (x : Nat) : Prop := ∀ c ∈ g.outs.getD x [], ∀ f, Mentions g x f → Mentions g c f

/-- a child that misses a variable of some sibling is listed by `missing` once per occurrence -/
theorem miss_count (L : List Nat) (VS : Nat → List Nat) (d : Nat)
    (hd : ∃ f, f ∉ VS d ∧ ∃ c ∈ L, c ≠ d ∧ f ∈ VS c) :
    L.count d ≤ ((missing (L.map fun c => (c, VS c))).map Prod.fst).count d := by
  obtain ⟨f, hf1, c0, hc0, hne, hf2⟩ := hd
  have hlen : (L.map fun c => (c, VS c)).length = L.length := List.length_map _
  have e1 : L = (List.range L.length).map (fun i => ((L.map fun c => (c, VS c)).getD i (0, [])).1) := by
    apply List.ext_getElem
    · simp
    · intro i h1 h2
      rw [List.getElem_map, List.getElem_range, getD_map_pair L VS i h1]
  have e2 : (missing (L.map fun c => (c, VS c))).map Prod.fst =
      (List.range L.length).filterMap (fun i =>
        if (missOf (L.map fun c => (c, VS c)) i).isEmpty then none
        else some ((L.map fun c => (c, VS c)).getD i (0, [])).1) := by
    rw [missing_eq, List.map_filterMap, hlen]
    congr 1
    funext i
    split <;> rfl
  rw [e2, List.count_filterMap]
  conv => lhs; rw [e1]
  rw [List.count_eq_countP, List.countP_map]
  apply List.countP_mono_left
  intro i hi hp
  have hi' : i < L.length := List.mem_range.1 hi
  have hp' : ((L.map fun c => (c, VS c)).getD i (0, [])).1 = d := by simpa using hp
  rw [getD_map_pair L VS i hi'] at hp'
  have hp'' : L[i] = d := hp'
  have hmiss : f ∈ missOf (L.map fun c => (c, VS c)) i := by
    rw [mem_missOf, getD_map_pair L VS i hi']
    refine ⟨by show f ∉ VS L[i]; rw [hp'']; exact hf1, ?_⟩
    obtain ⟨j, hj, ej⟩ := List.mem_iff_getElem.1 hc0
    refine ⟨j, by rw [hlen]; exact hj, ?_, ?_⟩
    · intro e; subst e; rw [hp''] at ej; exact hne ej.symm
    · rw [getD_map_pair L VS j hj]; show f ∈ VS L[j]; rw [ej]; exact hf2
  have hne' : (missOf (L.map fun c => (c, VS c)) i).isEmpty = false := by
    cases hm : missOf (L.map fun c => (c, VS c)) i with
    | nil => rw [hm] at hmiss; cases hmiss
    | cons a l => rfl
  simp only [hne', Bool.false_eq_true, if_false, getD_map_pair L VS i hi', hp'']
  simp

/-- the fold of `balance`, with the work still to be done -/
theorem balance_fold (s0 : LState) (nx : Nat) (hw0 : WFG s0.g) (hnx : nx < s0.g.kind.size)
    (hk : s0.g.kindOf nx = some .or) :
    ∀ (W : List (Nat × List Nat)) (s : LState), DInv s → BalStep s0 s nx →
    (∀ w ∈ W, w.1 ∈ s0.g.outs.getD nx [] ∧ w.2 ≠ [] ∧
      ∀ f, f ∈ w.2 ↔ (Mentions s0.g nx f ∧ ¬ Mentions s0.g w.1 f)) →
    (∀ d ∈ s.g.outs.getD nx [],
      (s0.g.kind.size ≤ d ∧ ∀ f, Mentions s.g d f ↔ Mentions s0.g nx f) ∨
      (d < s0.g.kind.size ∧ ((∀ f, Mentions s0.g nx f → Mentions s0.g d f) ∨
        (s.g.outs.getD nx []).count d ≤ (W.map Prod.fst).count d))) →
    (∀ d, (W.map Prod.fst).count d ≤ (s.g.outs.getD nx []).count d) →
    DInv (W.foldl (balanceStep true id nx) s) ∧ BalStep s0 (W.foldl (balanceStep true id nx) s) nx ∧
    (∀ d ∈ (W.foldl (balanceStep true id nx) s).g.outs.getD nx [],
      (s0.g.kind.size ≤ d ∧ ∀ f, Mentions (W.foldl (balanceStep true id nx) s).g d f ↔ Mentions s0.g nx f) ∨
      (d < s0.g.kind.size ∧ ∀ f, Mentions s0.g nx f → Mentions s0.g d f)) := by
  intro W
  induction W with
  | nil =>
    intro s hd hb _ ha _
    simp only [List.foldl_nil]
    refine ⟨hd, hb, ?_⟩
    intro d hdm
    rcases ha d hdm with h | ⟨h1, h2 | h2⟩
    · exact Or.inl h
    · exact Or.inr ⟨h1, h2⟩
    · have := List.count_pos_iff.2 hdm
      simp only [List.map_nil, List.count_nil] at h2
      omega
  | cons w W ih =>
    intro s hd hb hW ha hcnt
    obtain ⟨child, miss⟩ := w
    rw [List.foldl_cons]
    obtain ⟨hw1, hw2, hw3⟩ := hW (child, miss) (List.mem_cons_self ..)
    have hwf := hd.b.p.linv.wf
    have hnx' : nx < s.g.kind.size := Nat.lt_of_lt_of_le hnx hb.size
    have hk' : s.g.kindOf nx = some .or := by rw [hb.kinds nx hnx]; exact hk
    have hchild0 : child < s0.g.kind.size := hw0.edges nx child hw1
    have hch : child ∈ s.g.outs.getD nx [] := by
      apply List.count_pos_iff.1
      have := hcnt child
      rw [List.map_cons, List.count_cons_self] at this
      omega
    obtain ⟨d1, b1, o1, z1, m1⟩ := balanceStep_dinv s nx child miss hd hnx' hk' hch hw2
      (fun f hf => ⟨(hb.ment nx hnx f).2 ((hw3 f).1 hf).1,
        fun h => ((hw3 f).1 hf).2 ((hb.ment child hchild0 f).1 h)⟩)
    have hb1 : BalStep s0 (balanceStep true id nx s (child, miss)) nx := hb.trans hw0 hwf hnx b1
    refine ih _ d1 hb1 (fun w hw => hW w (List.mem_cons_of_mem _ hw)) ?_ ?_
    · intro d hdm
      rw [o1] at hdm ⊢
      rcases List.mem_cons.1 hdm with e | hdm
      · left
        rw [e]
        refine ⟨hb.size, fun f => ?_⟩
        rw [m1 f, hw3 f, hb.ment child hchild0 f]
        constructor
        · rintro (h | h)
          · exact .inner (Or.inr hk) hw1 h
          · exact h.1
        · intro h
          by_cases hc : Mentions s0.g child f
          · exact Or.inl hc
          · exact Or.inr ⟨h, hc⟩
      · have hdm' := List.mem_of_mem_erase hdm
        have hds : d < s.g.kind.size := hwf.edges nx d hdm'
        rcases ha d hdm' with ⟨h1, h2⟩ | ⟨h1, h2⟩
        · left
          exact ⟨h1, fun f => by rw [b1.ment d hds f]; exact h2 f⟩
        · right
          refine ⟨h1, ?_⟩
          rcases h2 with h2 | h2
          · exact Or.inl h2
          · right
            have hne : s.g.kind.size ≠ d := by omega
            rw [List.count_cons_of_ne hne, List.count_erase]
            rw [List.map_cons, List.count_cons] at h2
            show _ ≤ (W.map Prod.fst).count d
            have e : ((child, miss).1 == d) = (child == d) := rfl
            rw [e] at h2
            split <;> rename_i hcd <;> simp only [hcd, if_true, if_false, Bool.false_eq_true] at h2 <;> omega
    · intro d
      rw [o1]
      have h0 := hcnt d
      rw [List.map_cons, List.count_cons] at h0
      have e : ((child, miss).1 == d) = (child == d) := rfl
      rw [e] at h0
      rw [List.count_cons, List.count_erase]
      split <;> rename_i hcd <;> simp only [hcd, if_true, if_false, Bool.false_eq_true] at h0 <;>
        (split <;> omega)

/-- **`balance` makes the or-node smooth** and keeps `DInv` -/
theorem balance_dinv (s : LState) (nx : Nat) (VS : Nat → List Nat) (hd : DInv s) (hnx : nx < s.g.kind.size)
    (hk : s.g.kindOf nx = some .or)
    (hvs : ∀ c ∈ s.g.outs.getD nx [], ∀ f, f ∈ VS c ↔ Mentions s.g c f) :
    DInv (balance true id s nx (missing ((s.g.outs.getD nx []).map fun c => (c, VS c)))) ∧
    BalStep s (balance true id s nx (missing ((s.g.outs.getD nx []).map fun c => (c, VS c)))) nx ∧
    SmoothAt (balance true id s nx (missing ((s.g.outs.getD nx []).map fun c => (c, VS c)))).g nx := by
  have hwf := hd.b.p.linv.wf
  rw [balance_eq]
  have hlen : ((s.g.outs.getD nx []).map fun c => (c, VS c)).length = (s.g.outs.getD nx []).length :=
    List.length_map _
  have hW : ∀ w ∈ missing ((s.g.outs.getD nx []).map fun c => (c, VS c)),
      w.1 ∈ s.g.outs.getD nx [] ∧ w.2 ≠ [] ∧ ∀ f, f ∈ w.2 ↔ (Mentions s.g nx f ∧ ¬ Mentions s.g w.1 f) := by
    -- the work list
    intro w hw
    rw [mem_missing] at hw
    obtain ⟨i, hi, hne, rfl⟩ := hw
    rw [hlen] at hi
    rw [getD_map_pair _ VS i hi]
    refine ⟨List.getElem_mem hi, hne, fun f => ?_⟩
    rw [mem_missOf, getD_map_pair _ VS i hi]
    show (f ∉ VS (s.g.outs.getD nx [])[i] ∧ _) ↔ (_ ∧ ¬ Mentions s.g (s.g.outs.getD nx [])[i] f)
    rw [hvs _ (List.getElem_mem hi) f]
    constructor
    · rintro ⟨h1, j, hj, _, h2⟩
      rw [hlen] at hj
      rw [getD_map_pair _ VS j hj] at h2
      have h2' : f ∈ VS (s.g.outs.getD nx [])[j] := h2
      rw [hvs _ (List.getElem_mem hj) f] at h2'
      exact ⟨.inner (Or.inr hk) (List.getElem_mem hj) h2', h1⟩
    · rintro ⟨h1, h2⟩
      refine ⟨h2, ?_⟩
      obtain ⟨c, hc, hmc⟩ := (mentions_inner_iff (Or.inr hk) f).1 h1
      obtain ⟨j, hj, ej⟩ := List.mem_iff_getElem.1 hc
      refine ⟨j, by rw [hlen]; exact hj, ?_, ?_⟩
      · intro e; subst e; rw [ej] at h2; exact h2 hmc
      · rw [getD_map_pair _ VS j hj]
        show f ∈ VS (s.g.outs.getD nx [])[j]
        rw [hvs _ (List.getElem_mem hj) f, ej]; exact hmc
  have ha : ∀ d ∈ s.g.outs.getD nx [],
      (s.g.kind.size ≤ d ∧ ∀ f, Mentions s.g d f ↔ Mentions s.g nx f) ∨
      (d < s.g.kind.size ∧ ((∀ f, Mentions s.g nx f → Mentions s.g d f) ∨
        (s.g.outs.getD nx []).count d ≤
          ((missing ((s.g.outs.getD nx []).map fun c => (c, VS c))).map Prod.fst).count d)) := by
    -- every successor is complete or listed once per occurrence
    intro d hdm
    right
    refine ⟨hwf.edges nx d hdm, ?_⟩
    by_cases hcomp : ∀ f, Mentions s.g nx f → Mentions s.g d f
    · exact Or.inl hcomp
    · right
      apply miss_count
      apply Classical.byContradiction
      intro hno
      apply hcomp
      intro f hf
      apply Classical.byContradiction
      intro hnd
      apply hno
      obtain ⟨c, hc, hmc⟩ := (mentions_inner_iff (Or.inr hk) f).1 hf
      refine ⟨f, fun h => hnd ((hvs d hdm f).1 h), c, hc, ?_, (hvs c hc f).2 hmc⟩
      intro e; subst e; exact hnd hmc
  have hcnt : ∀ d, ((missing ((s.g.outs.getD nx []).map fun c => (c, VS c))).map Prod.fst).count d ≤
      (s.g.outs.getD nx []).count d := by
    intro d
    have := (missing_fst_sublist ((s.g.outs.getD nx []).map fun c => (c, VS c))).count_le d
    rw [List.map_map] at this
    have e : (Prod.fst ∘ fun c => (c, VS c)) = (id : Nat → Nat) := rfl
    rw [e, List.map_id] at this
    exact this
  obtain ⟨d', b', sm⟩ := balance_fold s nx hwf hnx hk
    (missing ((s.g.outs.getD nx []).map fun c => (c, VS c))) s hd (BalStep.refl s nx hwf) hW ha hcnt
  refine ⟨d', b', ?_⟩
  intro d hdm f hf
  have hf0 : Mentions s.g nx f := (b'.ment nx hnx f).1 hf
  rcases sm d hdm with ⟨_, h2⟩ | ⟨h1, h2⟩
  · exact (h2 f).2 hf0
  · exact (b'.ment d h1 f).2 (h2 f hf0)

end Ddnnf.D4
