/-
  Proofs about the clause bookkeeping / strategy machine of an incremental edit (Model/EditCnf.lean).
-/
import DdnnfVerif.Model.EditCnf
namespace Ddnnf.EC

/-- a clause list is satisfiable -/
def Sat (cs : List Clause) : Prop := ∃ σ : Assignment, satCnf σ cs = true

/-- stored clause list and graph denote the same function -/
def Agree (p : Snap) : Prop := ∀ σ : Assignment, satCnf σ p.clauses = satCnf σ p.den

/-- the invariant of the machine: live state and every cached snapshot are consistent, no splice ran -/
structure Good (s : State) : Prop where
  untainted : s.tainted = false
  cur : Agree s.cur
  cached : ∀ p ∈ s.cache, Agree p.2

/-! ### literals and clauses as sets -/

theorem litTrue_zero (σ : Assignment) : litTrue σ 0 = false := by simp [litTrue]

theorem litTrue_of_neg_true (σ : Assignment) (l : Int) (h : litTrue σ (-l) = true) :
    litTrue σ l = false := by
  rcases Int.lt_trichotomy l 0 with h1 | h1 | h1
  · have h2 : ¬ 0 < l := by omega
    simp [litTrue, h1, h2] at h ⊢; exact h
  · subst h1; simp [litTrue]
  · have h2 : ¬ l < 0 := by omega
    simp [litTrue, h1, h2] at h ⊢; exact h

theorem litTrue_or_neg (σ : Assignment) (l : Int) (h : l ≠ 0) :
    litTrue σ l = true ∨ litTrue σ (-l) = true := by
  rcases Int.lt_trichotomy l 0 with h1 | h1 | h1
  · have h2 : ¬ 0 < l := by omega
    simp [litTrue, h1, h2]
  · exact absurd h1 h
  · have h2 : ¬ l < 0 := by omega
    simp [litTrue, h1, h2]

theorem satClause_iff (σ : Assignment) (c : Clause) :
    satClause σ c = true ↔ ∃ l ∈ c, litTrue σ l = true := by
  simp [satClause]

theorem satCnf_iff (σ : Assignment) (cs : List Clause) :
    satCnf σ cs = true ↔ ∀ c ∈ cs, satClause σ c = true := by
  simp [satCnf]

theorem subset_iff (a b : Clause) : subset a b = true ↔ ∀ x ∈ a, x ∈ b := by
  simp [subset]

theorem sameSet_iff (a b : Clause) : sameSet a b = true ↔ ∀ x, x ∈ a ↔ x ∈ b := by
  simp only [sameSet, Bool.and_eq_true, subset_iff]
  constructor
  · intro h x; exact ⟨h.1 x, h.2 x⟩
  · intro h; exact ⟨fun x => (h x).1, fun x => (h x).2⟩

theorem taut_iff (c : Clause) : taut c = true ↔ ∃ l ∈ c, -l ∈ c := by
  simp [taut]

theorem satClause_congr (σ : Assignment) (a b : Clause) (h : ∀ x, x ∈ a ↔ x ∈ b) :
    satClause σ a = satClause σ b := by
  rw [Bool.eq_iff_iff, satClause_iff, satClause_iff]
  constructor
  · rintro ⟨l, hl, ht⟩; exact ⟨l, (h l).1 hl, ht⟩
  · rintro ⟨l, hl, ht⟩; exact ⟨l, (h l).2 hl, ht⟩

theorem satClause_eraseDups (σ : Assignment) (c : Clause) : satClause σ c.eraseDups = satClause σ c :=
  satClause_congr σ _ _ fun _ => List.mem_eraseDups

theorem satClause_of_taut (σ : Assignment) (c : Clause) (h : taut c = true) (hnz : ∀ l ∈ c, l ≠ 0) :
    satClause σ c = true := by
  obtain ⟨l, hl, hl'⟩ := (taut_iff c).1 h
  rw [satClause_iff]
  rcases litTrue_or_neg σ l (hnz l hl) with h1 | h1
  · exact ⟨l, hl, h1⟩
  · exact ⟨-l, hl', h1⟩

theorem satClause_sameSet (σ : Assignment) (a b : Clause) (h : sameSet a b = true) :
    satClause σ a = satClause σ b :=
  satClause_congr σ a b ((sameSet_iff a b).1 h)

theorem taut_eraseDups (c : Clause) : taut c.eraseDups = taut c := by
  rw [Bool.eq_iff_iff, taut_iff, taut_iff]
  simp [List.mem_eraseDups]

theorem sameSet_eraseDups_left (c r : Clause) : sameSet c.eraseDups r = sameSet c r := by
  rw [Bool.eq_iff_iff, sameSet_iff, sameSet_iff]
  simp [List.mem_eraseDups]

theorem sameSet_refl (a : Clause) : sameSet a a = true := (sameSet_iff a a).2 fun _ => Iff.rfl

theorem satCnf_append (σ : Assignment) (a b : List Clause) :
    satCnf σ (a ++ b) = (satCnf σ a && satCnf σ b) := by simp [satCnf]

theorem satCnf_cons (σ : Assignment) (c : Clause) (cs : List Clause) :
    satCnf σ (c :: cs) = (satClause σ c && satCnf σ cs) := by simp [satCnf]

theorem satCnf_units (σ : Assignment) (ds : List Int) :
    satCnf σ (ds.map fun d => [d]) = ds.all (litTrue σ) := by
  induction ds with
  | nil => rfl
  | cons d ds ih => simp [satCnf, satClause] at ih ⊢; rw [ih]

theorem normalize_cons (c : Clause) (cs : List Clause) :
    normalize (c :: cs) = if taut c.eraseDups then normalize cs else c.eraseDups :: normalize cs := by
  simp only [normalize, List.map_cons, List.filter_cons]
  cases taut c.eraseDups <;> simp

theorem normalize_append (a b : List Clause) : normalize (a ++ b) = normalize a ++ normalize b := by
  simp [normalize]

theorem mem_normalize (x : Clause) (cs : List Clause) :
    x ∈ normalize cs ↔ ∃ c ∈ cs, x = c.eraseDups ∧ taut c = false := by
  simp only [normalize, List.mem_filter, List.mem_map]
  constructor
  · rintro ⟨⟨c, hc, rfl⟩, ht⟩
    refine ⟨c, hc, rfl, ?_⟩
    rw [taut_eraseDups] at ht; simpa using ht
  · rintro ⟨c, hc, rfl, ht⟩
    exact ⟨⟨c, hc, rfl⟩, by rw [taut_eraseDups, ht]; rfl⟩

theorem satCnf_normalize (σ : Assignment) (cs : List Clause) (hnz : ∀ c ∈ cs, ∀ l ∈ c, l ≠ 0) :
    satCnf σ (normalize cs) = satCnf σ cs := by
  induction cs with
  | nil => rfl
  | cons c cs ih =>
    have ih' := ih fun c' hc' => hnz c' (List.mem_cons_of_mem _ hc')
    rw [normalize_cons, satCnf_cons, ← ih', taut_eraseDups]
    by_cases ht : taut c = true
    · rw [if_pos ht, satClause_of_taut σ c ht (hnz c List.mem_cons_self)]; simp
    · rw [if_neg ht, satCnf_cons, satClause_eraseDups]

theorem normalize_nz (cs : List Clause) (hnz : ∀ c ∈ cs, ∀ l ∈ c, l ≠ 0) :
    ∀ c ∈ normalize cs, ∀ l ∈ c, l ≠ 0 := by
  intro x hx l hl
  obtain ⟨c, hc, rfl, _⟩ := (mem_normalize x cs).1 hx
  exact hnz c hc l (List.mem_eraseDups.1 hl)

/-! ### unit propagation -/

/-- the clause list of one round before the emptied clauses are dropped -/
def reduced (cs : List Clause) (dec : List Int) : List Clause :=
  (cs.filter fun c => !c.any dec.contains).map fun c => c.filter fun l => !dec.contains (-l)

theorem round_fst (cs : List Clause) (dec : List Int) :
    (round cs dec).1 = (reduced cs dec).filter fun c => !c.isEmpty := rfl

theorem round_snd (cs : List Clause) (dec : List Int) :
    (round cs dec).2 = (((round cs dec).1.filter fun c => c.length == 1).flatten).eraseDups := rfl

theorem satClause_strip (σ : Assignment) (dec : List Int) (c : Clause)
    (hd : dec.all (litTrue σ) = true) :
    satClause σ (c.filter fun l => !dec.contains (-l)) = satClause σ c := by
  rw [Bool.eq_iff_iff, satClause_iff, satClause_iff]
  constructor
  · rintro ⟨l, hl, ht⟩; exact ⟨l, (List.mem_filter.1 hl).1, ht⟩
  · rintro ⟨l, hl, ht⟩
    refine ⟨l, List.mem_filter.2 ⟨hl, ?_⟩, ht⟩
    cases hc : dec.contains (-l) with
    | false => rfl
    | true =>
      have hm : -l ∈ dec := by simpa using hc
      have := litTrue_of_neg_true σ l (List.all_eq_true.1 hd _ hm)
      rw [this] at ht; cases ht

theorem satClause_hit (σ : Assignment) (dec : List Int) (c : Clause)
    (hd : dec.all (litTrue σ) = true) (hc : c.any dec.contains = true) : satClause σ c = true := by
  obtain ⟨l, hl, hm⟩ := List.any_eq_true.1 hc
  exact (satClause_iff σ c).2 ⟨l, hl, List.all_eq_true.1 hd l (by simpa using hm)⟩

theorem reduced_cons (c : Clause) (cs : List Clause) (dec : List Int) :
    reduced (c :: cs) dec =
      if c.any dec.contains then reduced cs dec
      else (c.filter fun l => !dec.contains (-l)) :: reduced cs dec := by
  simp only [reduced, List.filter_cons]
  cases c.any dec.contains <;> simp

theorem satCnf_reduced (σ : Assignment) (dec : List Int) (cs : List Clause)
    (hd : dec.all (litTrue σ) = true) : satCnf σ (reduced cs dec) = satCnf σ cs := by
  induction cs with
  | nil => rfl
  | cons c cs ih =>
    rw [reduced_cons, satCnf_cons]
    by_cases hc : c.any dec.contains = true
    · rw [if_pos hc, satClause_hit σ dec c hd hc, ih]; rfl
    · rw [if_neg hc, satCnf_cons, satClause_strip σ dec c hd, ih]

theorem satCnf_filter_of (σ : Assignment) (p : Clause → Bool) (cs : List Clause)
    (h : satCnf σ cs = true) : satCnf σ (cs.filter p) = true := by
  rw [satCnf_iff] at *
  intro c hc; exact h c (List.mem_filter.1 hc).1

theorem round_fst_eq (σ : Assignment) (cs : List Clause) (dec : List Int)
    (h : satCnf σ (reduced cs dec) = true) : (round cs dec).1 = reduced cs dec := by
  rw [round_fst, List.filter_eq_self]
  intro c hc
  have := (satCnf_iff _ _).1 h c hc
  cases c with
  | nil => simp [satClause] at this
  | cons => rfl

theorem units_mem (L : List Clause) (d : Int)
    (h : d ∈ ((L.filter fun c => c.length == 1).flatten).eraseDups) : [d] ∈ L := by
  rw [List.mem_eraseDups, List.mem_flatten] at h
  obtain ⟨c, hc, hd⟩ := h
  rw [List.mem_filter] at hc
  obtain ⟨hc, hlen⟩ := hc
  match c, hlen, hd with
  | [x], _, hd =>
    have : d = x := by simpa using hd
    subst this; exact hc

theorem all_units_of_sat (σ : Assignment) (cs : List Clause) (dec : List Int)
    (hu : ∀ d ∈ dec, [d] ∈ cs) (h : satCnf σ cs = true) : dec.all (litTrue σ) = true := by
  rw [List.all_eq_true]
  intro d hd
  have := (satCnf_iff _ _).1 h _ (hu d hd)
  simpa [satClause] using this

theorem all_acc_step (σ : Assignment) (acc dec : List Int) :
    (acc ++ dec.filter fun d => !acc.contains d).all (litTrue σ) =
      (acc.all (litTrue σ) && dec.all (litTrue σ)) := by
  rw [Bool.eq_iff_iff]
  simp only [List.all_append, Bool.and_eq_true, List.all_eq_true, List.mem_filter]
  constructor
  · rintro ⟨ha, hf⟩
    refine ⟨ha, fun d hd => ?_⟩
    by_cases hm : d ∈ acc
    · exact ha d hm
    · exact hf d ⟨hd, by simpa using hm⟩
  · rintro ⟨ha, hd⟩
    exact ⟨ha, fun d h => hd d h.1⟩

/-- one round keeps the invariant of the propagation loop, given that the input is satisfiable -/
theorem round_inv (Φ cs : List Clause) (dec acc : List Int) (hsat : ∃ σ : Assignment, satCnf σ Φ = true)
    (hI : ∀ σ : Assignment, satCnf σ Φ = (satCnf σ cs && acc.all (litTrue σ)))
    (hu : ∀ d ∈ dec, [d] ∈ cs) :
    (∀ σ : Assignment, satCnf σ Φ =
      (satCnf σ (round cs dec).1 && (acc ++ dec.filter fun d => !acc.contains d).all (litTrue σ))) ∧
    (∀ d ∈ (round cs dec).2, [d] ∈ (round cs dec).1) := by
  obtain ⟨σ0, h0⟩ := hsat
  have h0' : satCnf σ0 cs = true := by
    have := hI σ0; rw [h0] at this
    cases hh : satCnf σ0 cs with
    | true => rfl
    | false => rw [hh] at this; cases this
  have hd0 := all_units_of_sat σ0 cs dec hu h0'
  have heq : (round cs dec).1 = reduced cs dec :=
    round_fst_eq σ0 cs dec (by rw [satCnf_reduced σ0 dec cs hd0]; exact h0')
  refine ⟨fun σ => ?_, fun d hd => ?_⟩
  · rw [hI σ, all_acc_step, heq]
    cases hd : dec.all (litTrue σ) with
    | true => rw [satCnf_reduced σ dec cs hd]; simp
    | false =>
      cases hc : satCnf σ cs with
      | true => rw [all_units_of_sat σ cs dec hu hc] at hd; cases hd
      | false => simp
  · rw [round_snd] at hd; exact units_mem _ d hd

theorem applyDecisions_zero (cs : List Clause) (dec acc : List Int) :
    applyDecisions 0 cs dec acc = (cs, acc) := rfl

theorem applyDecisions_succ (fuel : Nat) (cs : List Clause) (dec acc : List Int) :
    applyDecisions (fuel + 1) cs dec acc =
      if dec.isEmpty then (cs, acc)
      else applyDecisions fuel (round cs dec).1 (round cs dec).2
        (acc ++ dec.filter fun d => !acc.contains d) := rfl

theorem applyDecisions_inv (Φ : List Clause) (hsat : ∃ σ : Assignment, satCnf σ Φ = true) :
    ∀ (fuel : Nat) (cs : List Clause) (dec acc : List Int),
      (∀ σ : Assignment, satCnf σ Φ = (satCnf σ cs && acc.all (litTrue σ))) →
      (∀ d ∈ dec, [d] ∈ cs) →
      ∀ σ : Assignment, satCnf σ Φ =
        (satCnf σ (applyDecisions fuel cs dec acc).1 &&
          (applyDecisions fuel cs dec acc).2.all (litTrue σ)) := by
  intro fuel
  induction fuel with
  | zero => intro cs dec acc hI _ σ; exact hI σ
  | succ fuel ih =>
    intro cs dec acc hI hu σ
    rw [applyDecisions_succ]
    by_cases he : dec.isEmpty = true
    · rw [if_pos he]; exact hI σ
    · rw [if_neg he]
      obtain ⟨h1, h2⟩ := round_inv Φ cs dec acc hsat hI hu
      exact ih _ _ _ h1 h2 σ

theorem simplify_eq (cs : List Clause) :
    simplify cs =
      (applyDecisions ((normalize cs).length + 2) (normalize cs)
        ((((normalize cs).filter fun c => c.length == 1).flatten).eraseDups) []).1 ++
      (applyDecisions ((normalize cs).length + 2) (normalize cs)
        ((((normalize cs).filter fun c => c.length == 1).flatten).eraseDups) []).2.map fun d => [d] := rfl

/-- … and for a satisfiable clause list `simplify_clauses` (unit propagation to a fixpoint, decisions
re-attached as unit clauses) keeps exactly the models -/
theorem satCnf_simplify (cs : List Clause) (hnz : ∀ c ∈ cs, ∀ l ∈ c, l ≠ 0) (hsat : Sat cs)
    (σ : Assignment) : satCnf σ (simplify cs) = satCnf σ cs := by
  have hsat' : ∃ σ : Assignment, satCnf σ (normalize cs) = true := by
    obtain ⟨τ, hτ⟩ := hsat
    exact ⟨τ, by rw [satCnf_normalize τ cs hnz]; exact hτ⟩
  have := applyDecisions_inv (normalize cs) hsat' ((normalize cs).length + 2) (normalize cs)
    ((((normalize cs).filter fun c => c.length == 1).flatten).eraseDups) []
    (fun τ => by simp) (fun d hd => units_mem _ d hd) σ
  rw [simplify_eq, satCnf_append, satCnf_units, ← this, satCnf_normalize σ cs hnz]

/-- every model of a clause list is a model of its simplification … -/
theorem satCnf_simplify_of_sat (σ : Assignment) (cs : List Clause) (hnz : ∀ c ∈ cs, ∀ l ∈ c, l ≠ 0)
    (h : satCnf σ cs = true) : satCnf σ (simplify cs) = true := by
  rw [satCnf_simplify cs hnz ⟨σ, h⟩ σ]; exact h

/-! ### no literal 0 after simplification -/

theorem round_nz (cs : List Clause) (dec : List Int) (hnz : ∀ c ∈ cs, ∀ l ∈ c, l ≠ 0) :
    ∀ c ∈ (round cs dec).1, ∀ l ∈ c, l ≠ 0 := by
  intro c hc l hl
  rw [round_fst, List.mem_filter] at hc
  simp only [reduced, List.mem_map, List.mem_filter] at hc
  obtain ⟨⟨c0, ⟨hc0, _⟩, rfl⟩, _⟩ := hc
  exact hnz c0 hc0 l (List.mem_filter.1 hl).1

theorem applyDecisions_nz :
    ∀ (fuel : Nat) (cs : List Clause) (dec acc : List Int),
      (∀ c ∈ cs, ∀ l ∈ c, l ≠ 0) → (∀ d ∈ acc, d ≠ 0) → (∀ d ∈ dec, [d] ∈ cs) →
      (∀ c ∈ (applyDecisions fuel cs dec acc).1, ∀ l ∈ c, l ≠ 0) ∧
      (∀ d ∈ (applyDecisions fuel cs dec acc).2, d ≠ 0) := by
  intro fuel
  induction fuel with
  | zero => intro cs dec acc h1 h2 _; exact ⟨h1, h2⟩
  | succ fuel ih =>
    intro cs dec acc h1 h2 h3
    rw [applyDecisions_succ]
    by_cases he : dec.isEmpty = true
    · rw [if_pos he]; exact ⟨h1, h2⟩
    · rw [if_neg he]
      refine ih _ _ _ (round_nz cs dec h1) ?_ ?_
      · intro d hd
        rcases List.mem_append.1 hd with hd | hd
        · exact h2 d hd
        · exact h1 [d] (h3 d (List.mem_filter.1 hd).1) d (List.mem_singleton.2 rfl)
      · intro d hd; rw [round_snd] at hd; exact units_mem _ d hd

theorem simplify_nz (cs : List Clause) (hnz : ∀ c ∈ cs, ∀ l ∈ c, l ≠ 0) :
    ∀ c ∈ simplify cs, ∀ l ∈ c, l ≠ 0 := by
  have := applyDecisions_nz ((normalize cs).length + 2) (normalize cs)
    ((((normalize cs).filter fun c => c.length == 1).flatten).eraseDups) []
    (normalize_nz cs hnz) (fun d hd => by cases hd) (fun d hd => units_mem _ d hd)
  intro c hc l hl
  rw [simplify_eq] at hc
  rcases List.mem_append.1 hc with hc | hc
  · exact this.1 c hc l hl
  · obtain ⟨d, hd, rfl⟩ := List.mem_map.1 hc
    have : l = d := by simpa using hl
    subst this; exact this.2 l hd

/-! ### adjust -/

theorem adjust_fst (cs : List Clause) (n : Nat) (adds rmvs : List Clause) :
    (adjust cs n adds rmvs).1 =
      normalize ((cs.filter fun c => rmvs.all fun r => !sameSet c r) ++ adds) := rfl

/-- `adjust_intern_cnf` computes the abstract edit -/
theorem satCnf_adjust (σ : Assignment) (cs : List Clause) (n : Nat) (e : Edit)
    (hnz : ∀ c ∈ cs ++ e.adds, ∀ l ∈ c, l ≠ 0) :
    satCnf σ (adjust cs n e.adds e.rmvs).1 = satCnf σ (specEdit cs e) := by
  rw [adjust_fst, specEdit]
  apply satCnf_normalize
  intro c hc
  apply hnz c
  rcases List.mem_append.1 hc with hc | hc
  · exact List.mem_append_left _ (List.mem_filter.1 hc).1
  · exact List.mem_append_right _ hc

theorem adjust_nz (cs : List Clause) (n : Nat) (adds rmvs : List Clause)
    (hnz : ∀ c ∈ cs ++ adds, ∀ l ∈ c, l ≠ 0) :
    ∀ c ∈ (adjust cs n adds rmvs).1, ∀ l ∈ c, l ≠ 0 := by
  rw [adjust_fst]
  apply normalize_nz
  intro c hc
  apply hnz c
  rcases List.mem_append.1 hc with hc | hc
  · exact List.mem_append_left _ (List.mem_filter.1 hc).1
  · exact List.mem_append_right _ hc

theorem filter_normalize_kept (cs rmvs : List Clause) :
    (normalize (cs.filter fun c => rmvs.all fun r => !sameSet c r)).filter
        (fun c => rmvs.all fun r => !sameSet c r) =
      normalize (cs.filter fun c => rmvs.all fun r => !sameSet c r) := by
  rw [List.filter_eq_self]
  intro x hx
  obtain ⟨c, hc, rfl, _⟩ := (mem_normalize x _).1 hx
  have := (List.mem_filter.1 hc).2
  simp only [sameSet_eraseDups_left]
  exact this

/-- adjusting twice (as `transform_to_cnf_from_starting_cnf` followed by `recompile_everything` does)
is still the abstract edit -/
theorem satCnf_adjust_twice (σ : Assignment) (cs : List Clause) (n : Nat) (e : Edit)
    (hnz : ∀ c ∈ cs ++ e.adds, ∀ l ∈ c, l ≠ 0) :
    satCnf σ (adjust (adjust cs n e.adds e.rmvs).1 (adjust cs n e.adds e.rmvs).2 e.adds e.rmvs).1 =
      satCnf σ (specEdit cs e) := by
  have hnz1 := adjust_nz cs n e.adds e.rmvs hnz
  have hnzA : ∀ c ∈ e.adds, ∀ l ∈ c, l ≠ 0 := fun c hc => hnz c (List.mem_append_right _ hc)
  have hnz2 : ∀ c ∈ (adjust cs n e.adds e.rmvs).1 ++ e.adds, ∀ l ∈ c, l ≠ 0 := by
    intro c hc
    rcases List.mem_append.1 hc with hc | hc
    · exact hnz1 c hc
    · exact hnzA c hc
  rw [satCnf_adjust σ _ _ e hnz2, ← satCnf_adjust σ cs n e hnz]
  rw [specEdit, adjust_fst, normalize_append, List.filter_append, filter_normalize_kept]
  simp only [satCnf_append]
  cases hA : satCnf σ e.adds with
  | false =>
    have h1 : satCnf σ (normalize e.adds) = false := by rw [satCnf_normalize σ _ hnzA]; exact hA
    rw [h1]; simp
  | true =>
    have h1 : satCnf σ (normalize e.adds) = true := by rw [satCnf_normalize σ _ hnzA]; exact hA
    rw [h1, satCnf_filter_of σ _ _ h1]; simp

/-! ### prepare -/

theorem reduce_some (c r : Clause) (h : reduce c = some r) :
    r = c.eraseDups ∧ c ≠ [] ∧ taut c = false := by
  unfold reduce at h
  split at h
  · cases h
  · rename_i hc
    simp only [Bool.or_eq_true, not_or] at hc
    refine ⟨(Option.some.inj h).symm, ?_, by simpa using hc.2⟩
    intro h0; subst h0; simp at hc

theorem eraseDups_ne_nil (c : Clause) (h : c ≠ []) : c.eraseDups ≠ [] := by
  cases c with
  | nil => exact absurd rfl h
  | cons a l => rw [List.eraseDups_cons]; exact List.cons_ne_nil _ _

/-- the edit built by `prepare_and_apply_incremental_edit` mentions no literal 0 if the request does not,
and none of its clauses is a tautology or empty -/
theorem prepare_nz (ops : List (Clause × App)) (hnz : ∀ p ∈ ops, ∀ l ∈ p.1, l ≠ 0) :
    (∀ c ∈ (prepare ops).adds ++ (prepare ops).rmvs, ∀ l ∈ c, l ≠ 0) ∧
    (∀ c ∈ (prepare ops).adds ++ (prepare ops).rmvs, c ≠ [] ∧ taut c = false) := by
  induction ops with
  | nil => simp [prepare]
  | cons p rest ih =>
    obtain ⟨c, app⟩ := p
    have ih' := ih fun p hp => hnz p (List.mem_cons_of_mem _ hp)
    have hc0 : ∀ l ∈ c, l ≠ 0 := hnz (c, app) List.mem_cons_self
    simp only [prepare]
    split
    · exact ih'
    · rename_i r hr
      obtain ⟨rfl, hne, ht⟩ := reduce_some c r hr
      have hr1 : ∀ l ∈ c.eraseDups, l ≠ 0 := fun l hl => hc0 l (List.mem_eraseDups.1 hl)
      have hr2 : c.eraseDups ≠ [] ∧ taut c.eraseDups = false :=
        ⟨eraseDups_ne_nil c hne, by rw [taut_eraseDups]; exact ht⟩
      have key : ∀ P : Clause → Prop, P c.eraseDups →
          (∀ x ∈ (prepare rest).adds ++ (prepare rest).rmvs, P x) →
          (∀ x ∈ (c.eraseDups :: (prepare rest).adds) ++ (prepare rest).rmvs, P x) ∧
          (∀ x ∈ (prepare rest).adds ++ (c.eraseDups :: (prepare rest).rmvs), P x) := by
        intro P h1 h2
        constructor
        · intro x hx
          rcases List.mem_cons.1 hx with rfl | hx
          · exact h1
          · exact h2 x hx
        · intro x hx
          rcases List.mem_append.1 hx with hx | hx
          · exact h2 x (List.mem_append_left _ hx)
          · rcases List.mem_cons.1 hx with rfl | hx
            · exact h1
            · exact h2 x (List.mem_append_right _ hx)
      cases app with
      | add => exact ⟨(key _ hr1 ih'.1).1, (key _ hr2 ih'.2).1⟩
      | rmv => exact ⟨(key _ hr1 ih'.1).2, (key _ hr2 ih'.2).2⟩

end Ddnnf.EC
