/-
  The union-find structure of `Model/UnionFind.lean`, part 3: the abstraction to the list of classes
  of `Model/Atomic.lean`.  `Abs s cl` relates a state of the structure to a list of classes;
  `equiv` answers `equivC` and keeps the abstraction, `union` changes it to that of `unionC`, and
  the pair loop `subsetCheckUF` refines `subsetCheck`.
-/
import DdnnfVerif.Proofs.UnionFind2
import DdnnfVerif.Proofs.AtomicPartition

namespace Ddnnf.UF

/-- the class invariant of `Proofs/AtomicPartition.lean` without a reference relation: the classes
are pairwise disjoint, duplicate free and have at least two members -/
abbrev GoodC (cl : Classes) : Prop := Good (fun _ _ => True) (fun _ => True) cl

theorem true_equivalence : Equivalence (fun (_ _ : Int) => True) :=
  ⟨fun _ => trivial, fun _ => trivial, fun _ _ => trivial⟩

theorem goodC_unionC {cl : Classes} (hg : GoodC cl) (x y : Int) : GoodC (unionC cl x y) :=
  (unionC_good true_equivalence hg (x := x) (y := y) trivial trivial trivial).1

theorem rel_trans {cl : Classes} (hd : cl.Pairwise (fun a b => ∀ x ∈ a, x ∉ b)) {a b c : Int}
    (h1 : Rel cl a b) (h2 : Rel cl b c) : Rel cl a c := by
  rcases h1 with rfl | ⟨c1, hc1, ha, hb⟩
  · exact h2
  · rcases h2 with rfl | ⟨c2, hc2, hb', hc⟩
    · exact Or.inr ⟨c1, hc1, ha, hb⟩
    · have := disj_uniq hd hc1 hc2 hb hb'
      subst this
      exact Or.inr ⟨c1, hc1, ha, hc⟩

/-- the partition of `unionC cl x y`: the classes of `x` and `y` are merged, nothing else -/
theorem rel_unionC_iff {cl : Classes} (hg : GoodC cl) (x y a b : Int) :
    Rel (unionC cl x y) a b ↔
      (Rel cl a b ∨ (Rel cl a x ∧ Rel cl y b) ∨ (Rel cl a y ∧ Rel cl x b)) := by
  obtain ⟨hg', hmono, hxy⟩ := unionC_good true_equivalence hg (x := x) (y := y) trivial trivial trivial
  constructor
  · intro h
    unfold unionC at h
    by_cases he : equivC cl x y = true
    · rw [if_pos he] at h
      exact Or.inl h
    · rw [if_neg he] at h
      rcases h with rfl | ⟨c, hc, ha, hb⟩
      · exact Or.inl (Or.inl rfl)
      · rcases List.mem_cons.mp hc with rfl | hc
        · have hx : ∀ z, z ∈ classOf cl x → Rel cl x z := fun z hz =>
            rel_of_equivC ((equivC_iff_mem cl x z).mpr hz)
          have hy : ∀ z, z ∈ classOf cl y → Rel cl y z := fun z hz =>
            rel_of_equivC ((equivC_iff_mem cl y z).mpr hz)
          rcases List.mem_append.mp ha with ha | ha <;> rcases List.mem_append.mp hb with hb | hb
          · exact Or.inl (rel_trans hg.disj (hx a ha).symm (hx b hb))
          · exact Or.inr (Or.inl ⟨(hx a ha).symm, hy b hb⟩)
          · exact Or.inr (Or.inr ⟨(hy a ha).symm, hx b hb⟩)
          · exact Or.inl (rel_trans hg.disj (hy a ha).symm (hy b hb))
        · exact Or.inl (Or.inr ⟨c, (List.mem_filter.mp hc).1, ha, hb⟩)
  · rintro (h | ⟨h1, h2⟩ | ⟨h1, h2⟩)
    · exact hmono a b h
    · exact rel_trans hg'.disj (rel_trans hg'.disj (hmono _ _ h1) hxy) (hmono _ _ h2)
    · exact rel_trans hg'.disj (rel_trans hg'.disj (hmono _ _ h1) hxy.symm) (hmono _ _ h2)

theorem equivC_unionC_iff {cl : Classes} (hg : GoodC cl) (x y a b : Int) :
    equivC (unionC cl x y) a b = true ↔
      (equivC cl a b = true ∨ (equivC cl a x = true ∧ equivC cl y b = true) ∨
        (equivC cl a y = true ∧ equivC cl x b = true)) := by
  simp only [equivC_iff_rel (goodC_unionC hg x y), equivC_iff_rel hg]
  exact rel_unionC_iff hg x y a b

/-- the members of the classes of `unionC cl x y` -/
theorem mem_unionC_iff {cl : Classes} (hg : GoodC cl) (x y k : Int)
    (he : ¬ equivC cl x y = true) :
    (∃ c ∈ unionC cl x y, k ∈ c) ↔ (k ∈ classOf cl x ∨ k ∈ classOf cl y ∨ ∃ c ∈ cl, k ∈ c) := by
  unfold unionC
  rw [if_neg he]
  constructor
  · rintro ⟨c, hc, hk⟩
    rcases List.mem_cons.mp hc with rfl | hc
    · rcases List.mem_append.mp hk with h | h
      · exact Or.inl h
      · exact Or.inr (Or.inl h)
    · exact Or.inr (Or.inr ⟨c, (List.mem_filter.mp hc).1, hk⟩)
  · rintro (h | h | ⟨c, hc, hk⟩)
    · exact ⟨_, List.mem_cons_self .., List.mem_append_left _ h⟩
    · exact ⟨_, List.mem_cons_self .., List.mem_append_right _ h⟩
    · by_cases hx : x ∈ c
      · have := classOf_absorb hg.disj x hc hx (mem_classOf_self cl x)
        subst this
        exact ⟨_, List.mem_cons_self .., List.mem_append_left _ hk⟩
      · by_cases hy : y ∈ c
        · have := classOf_absorb hg.disj y hc hy (mem_classOf_self cl y)
          subst this
          exact ⟨_, List.mem_cons_self .., List.mem_append_right _ hk⟩
        · refine ⟨c, List.mem_cons_of_mem _ (List.mem_filter.mpr ⟨hc, ?_⟩), hk⟩
          simp [hx, hy]

/-! ### the abstraction relation -/

/-- **`cl` abstracts the state `s`**: the structure is a forest, `cl` is a list of disjoint classes
with at least two members, two nodes have the same root iff `equivC cl` relates them, and the keys
of `rank` are (without repetition) the members of the classes -/
structure Abs (s : State) (cl : Classes) : Prop where
  wf : WF s
  good : GoodC cl
  same : ∀ a b, SameRoot (parent s) a b ↔ equivC cl a b = true
  nodup : (s.rank.map (·.1)).Nodup
  keys : ∀ k, k ∈ s.rank.map (·.1) ↔ ∃ c ∈ cl, k ∈ c

theorem abs_empty : Abs empty [] := by
  refine ⟨wf_empty, good_nil _ _, ?_, List.nodup_nil, ?_⟩
  · intro a b
    constructor
    · rintro ⟨r, h1, h2⟩
      rw [root_empty] at h1 h2
      subst h1
      subst h2
      exact equivC_self [] _
    · intro h
      have : b = a := by simpa [equivC, classOf] using h
      subst this
      exact SameRoot.refl wf_empty _
  · intro k
    simp [empty]

/-- **`equiv` refines `equivC`**: it answers `equivC` of the abstraction, and the state after it
(path compression, fresh nodes in `parents`) has the same abstraction -/
theorem equiv_abs {s : State} {cl : Classes} (h : Abs s cl) (x y : Int) :
    (equiv s x y).2 = equivC cl x y ∧ Abs (equiv s x y).1 cl := by
  obtain ⟨h1, h2, h3, h4⟩ := equiv_spec s h.wf x y
  constructor
  · rw [Bool.eq_iff_iff, h4, h.same]
  · refine ⟨h1, h.good, ?_, ?_, ?_⟩
    · intro a b
      rw [← h.same]
      unfold SameRoot
      simp only [h2]
    · rw [h3]; exact h.nodup
    · rw [h3]; exact h.keys

/-- **`union` refines `unionC`** (for two nodes that are not yet equivalent — the only way
`incremental_subset_check` calls it) -/
theorem union_abs {s : State} {cl : Classes} (h : Abs s cl) (x y : Int)
    (he : ¬ equivC cl x y = true) : Abs (union s x y) (unionC cl x y) := by
  obtain ⟨h1, h2, h3, h4⟩ := union_spec s h.wf x y
  refine ⟨h1, goodC_unionC h.good x y, ?_, h4 h.nodup, ?_⟩
  · intro a b
    rw [h2, equivC_unionC_iff h.good]
    simp only [h.same]
  · intro k
    rw [h3, mem_unionC_iff h.good x y k he, h.keys]
    -- a root of `x` is a member of the class of `x`, and if that class is the implicit singleton
    -- `[x]`, then `x` is its own root
    have key : ∀ z, (Root (parent s) z k → k ∈ classOf cl z) ∧
        (k ∈ classOf cl z → Root (parent s) z k ∨ ∃ c ∈ cl, k ∈ c) := by
      intro z
      constructor
      · intro hr
        rw [← equivC_iff_mem, ← h.same]
        exact sameRoot_root hr
      · intro hk
        rcases classOf_cases cl z with hc | hc
        · exact Or.inr ⟨_, hc.1, hk⟩
        · left
          rw [hc.1, List.mem_singleton] at hk
          subst hk
          obtain ⟨r, hr⟩ := h.wf k
          have : r ∈ classOf cl k := by
            rw [← equivC_iff_mem, ← h.same]
            exact sameRoot_root hr
          rw [hc.1, List.mem_singleton] at this
          subst this
          exact hr
    constructor
    · rintro (hk | hk | hk)
      · exact Or.inr (Or.inr hk)
      · exact Or.inl ((key x).1 hk)
      · exact Or.inr (Or.inl ((key y).1 hk))
    · rintro (hk | hk | hk)
      · rcases (key x).2 hk with h' | h'
        · exact Or.inr (Or.inl h')
        · exact Or.inl h'
      · rcases (key y).2 hk with h' | h'
        · exact Or.inr (Or.inr h')
        · exact Or.inl h'
      · exact Or.inl hk

/-- as partitions: after `union x y` two nodes are in the same tree iff `equivC (unionC cl x y)`
relates them, where `cl` abstracts the state before (no side condition) -/
theorem union_refines_unionC {s : State} {cl : Classes} (h : Abs s cl) (x y a b : Int) :
    SameRoot (parent (union s x y)) a b ↔ equivC (unionC cl x y) a b = true := by
  rw [(union_spec s h.wf x y).2.1, equivC_unionC_iff h.good]
  simp only [h.same]

/-! ### the pair loop -/

/-- **`incremental_subset_check` with the union-find structure refines the one with classes** -/
theorem subsetCheckUF_abs (nodes : List NType) (n : Nat) (A : List Int) (samples : List Config)
    (control : Nat) (group : List Int) {s : State} {cl : Classes} (h : Abs s cl) :
    Abs (subsetCheckUF nodes n A samples control group s)
      (subsetCheck nodes n A samples control group cl) := by
  unfold subsetCheckUF subsetCheck
  generalize pairs group = ps
  induction ps generalizing s cl with
  | nil => exact h
  | cons p ps ih =>
    rw [List.foldl_cons, List.foldl_cons]
    apply ih
    obtain ⟨x, y⟩ := p
    obtain ⟨e1, e2⟩ := equiv_abs h x y
    simp only
    rw [e1]
    by_cases he : equivC cl x y = true
    · rw [if_pos he, if_pos he]; exact e2
    · rw [if_neg he, if_neg he]
      split
      · exact e2
      · split
        · exact union_abs e2 x y he
        · exact e2

end Ddnnf.UF
